# C17 - Command line contract: exit status, independent inputs, jq-compatible modes
import os, json, copy, collections, time
import vlib
from vlib import Inconclusive

LEVEL = 'model_checking'
META = dict(
    text=('CLI.tla has three parts. (a) ArgsParse, a recursive transcription of _args_parse (args.jq) over symbol sequences, next to the '
          'documented grammar Intent over tagged tokens and seven metamorphic laws; TLC checks the laws and "transcription implements the '
          'grammar" on every token vector inside the constants. (b) OptEval, the option evaluation of options.jq. (c) the input loop of '
          'init.jq as a 16-action state machine (CLIMC) checked against a declarative requirement Req (exit-class precedence, mode semantics) '
          'and the independence property for every list of <= 4 inputs x 5 programs x 8 modes. TLC then emits tagged command lines with '
          'predicted parsed options, exit code and stdout; harness/c17 replays each through the real in-process interp.Main with a virtual '
          'OS/FS (plus one solo run per input) and the real _args_parse; TraceCLI.tla judges every recorded run - TLC-emitted and seeded random '
          'longer ones - for exit class, mode output and "stdout = concatenation of the REAL solo outputs of the good inputs".'),
    note=('Exhaustive only inside the TLC constants recorded in tlc_runs; random beyond (<= 8 inputs, ~20 tokens). Error message texts, stderr and '
          'the help/version/repl paths are outside the requirement. `-d FORMAT` on an undecodable file yields a partial tree with exit 0 '
          '(documented fq behaviour) so "undecodable" means: probe finds nothing. The jq spelling --rawfile is rejected by fq '
          '(sig args.jq_rawfile_spelling_rejected); repo_patches/C17-fix-rawfile-alias.diff repairs it.'),
    technique='TLA+ spec (CLI.tla) + TLC exhaustive MC of laws/refinement/loop + spec-emitted command lines replayed on real interp.Main and _args_parse + TLC trace validation of real runs',
)

ERRTXT = {'nosuch': 'no such argument', 'needsarg': 'needs an argument', 'takesnoarg': 'takes no argument',
          'needstwo': 'needs two argument', 'keyvalue': 'should be key=value'}
HEAP = '3g'
KINDS5 = '{"A", "B", "U", "M", "D"}'
PROGS5 = '{"id", "failB", "nocompile", "collect", "haltB"}'
MODES4 = '{"each", "slurp", "raw", "rawslurp"}'


def mc_cfg(spec, n, neach=None, kinds=KINDS5, progs=PROGS5, modes=MODES4, invs=(), props=(), post=None):
    t = ('SPECIFICATION %s\nCONSTANTS MaxInputs = %d\n MaxInputsEach = %d\n Kinds = %s\n ProgSet = %s\n Modes = %s\n'
         % (spec, n, neach or n, kinds, progs, modes))
    t += ''.join('INVARIANT %s\n' % i for i in invs) + ''.join('PROPERTY %s\n' % p for p in props)
    if post:
        t += 'POSTCONDITION %s\n' % post
    return t


def laws_cfg(nred, nfull, alphabet, invs):
    return ('SPECIFICATION Spec\nCONSTANTS MaxLen = %d\n MaxLenFull = %d\n Alphabet = "%s"\n' % (nred, nfull, alphabet)
            + ''.join('INVARIANT %s\n' % i for i in invs) + 'CHECK_DEADLOCK FALSE\n')


def gen_cfg(what, nred, nfull, maxinputs):
    return ('SPECIFICATION GSpec\nCONSTANTS MaxLen = %d\n MaxLenFull = %d\n Alphabet = "raw"\n What = "%s"\n MaxInputs = %d\n'
            'CONSTRAINT Emit\nCHECK_DEADLOCK FALSE\n' % (nred, nfull, what, maxinputs))


def model_arm(ctx):
    thorough = ctx.tier == 'thorough'
    # (c) the input loop: machine refines the requirement, independence, determinism, monotone error memory
    invs = ['ExitOK', 'OutOK', 'Independence', 'Deterministic', 'SameAsFunction']
    if thorough:
        r = ctx.tlc('CLIMC', heap=HEAP, cfg='mc_loop.cfg', cfg_text=mc_cfg('Spec', 4, invs=invs, props=['MemoryMonotone']), timeout=1500)
        ctx.tlc_expect_ok(r, 'input loop <= 4 inputs, all modes')
        ctx.cov['loop_mc'] = 'all lists of <= 4 inputs over {A,B,U,M,D} x 5 programs x {each,slurp,raw,rawslurp} x {-n, no -n}'
    else:
        r = ctx.tlc('CLIMC', heap=HEAP, cfg='mc_loop.cfg', cfg_text=mc_cfg('Spec', 3, 4, invs=invs, props=['MemoryMonotone']), timeout=600)
        ctx.tlc_expect_ok(r, 'input loop <= 3 inputs all modes, <= 4 inputs per-input mode')
        ctx.cov['loop_mc'] = ('all lists of <= 3 inputs over {A,B,U,M,D} x 5 programs x 4 stream modes x {-n, no -n}; '
                              'all lists of <= 4 inputs x 5 programs x {-n, no -n} in the per-input mode')
    # vacuity: every action fires (TLC -coverage hangs on this module, so TLC registers are used; single worker)
    r = ctx.tlc('CLIMC', heap=HEAP, cfg='mc_vac.cfg', cfg_text=mc_cfg('SpecVac', 1, invs=['ExitOK'], post='AllFired'), workers=1, count=False, timeout=300)
    if not r.ok():
        unf = [l for l in r.raw_printed if 'UNFIRED' in l]
        raise Inconclusive('vacuous loop model: %s' % (unf or r.stdout[-400:]))
    ctx.cov['loop_actions_all_fired'] = True
    if thorough:
        r = ctx.tlc('CLIMC', heap=HEAP, cfg='mc_probe.cfg', cfg_text=mc_cfg('Spec', 4, progs='{"failB"}', modes='{"each"}', invs=['NeverExit2With4And5']),
                    count=False, timeout=300)
        if r.violated != 'NeverExit2With4And5':
            raise Inconclusive('loop model never reaches exit 2 with decode and runtime errors pending')

    # (a) laws on the transcription, and transcription implements the documented grammar
    nred, nfull = (4, 3) if thorough else (3, 2)
    for alpha, iv in (('raw', ['LawsHold']), ('tagged', ['TagsOK', 'RefinesOrKnownSpelling'])):
        r = ctx.tlc('CLILaws', heap=HEAP, cfg='laws_%s.cfg' % alpha, cfg_text=laws_cfg(nred, nfull, alpha, iv), timeout=1500)
        ctx.tlc_expect_ok(r, 'argument laws, %s alphabet' % alpha)
    ctx.cov['laws_mc'] = ('raw alphabet (37 tokens incl. undocumented shapes): 6 laws; tagged alphabet (42 tokens): transcription implements the '
                          'documented grammar; all vectors <= %d over the full and <= %d over the reduced (22 / 19 token) alphabets' % (nfull, nred))
    # anti-vacuity: the known hole (jq's --rawfile) is really the only reason Refines is weakened, and argerr/ok intents are reached
    for probe in (['NeverJqSpellingHole', 'NeverArgErr', 'NeverOkIntent'] if thorough else []):
        r = ctx.tlc('CLILaws', heap=HEAP, cfg='probe_%s.cfg' % probe, cfg_text=laws_cfg(3, 1, 'tagged', [probe]), count=False, timeout=300)
        if r.violated != probe:
            if probe == 'NeverJqSpellingHole':
                ctx.cov['as_built_rawfile_hole'] = False    # transcription accepts --rawfile (code repaired and spec updated)
            else:
                raise Inconclusive('refinement model vacuous: probe %s not violated' % probe)
        elif probe == 'NeverJqSpellingHole':
            ctx.cov['as_built_rawfile_hole'] = True


def parse_arm(ctx, binp, extra_argvs):
    """GEN(parse): every raw vector inside the constants through the real _args_parse; the transcription is a drift detector."""
    thorough = ctx.tier == 'thorough'
    nred, nfull = (4, 3) if thorough else (3, 2)
    g = ctx.tlc('CLIGen', heap=HEAP, cfg='gen_parse.cfg', cfg_text=gen_cfg('parse', nred, nfull, 0), timeout=1500)
    ctx.tlc_expect_ok(g, 'CLIGen parse')
    preds = g.printed
    if len(preds) < 1000:
        raise Inconclusive('GEN(parse) produced too few vectors')
    preds.sort(key=lambda p: json.dumps(p['argv']))
    seen, uniq = set(), []
    for p in preds:
        k = json.dumps(p['argv'])
        if k in seen:
            continue
        seen.add(k)
        if len(p['argv']) >= 4 and ctx.rng.random() > 0.25:     # thorough only: a seeded quarter of the length-4 vectors goes to the real parser
            continue
        uniq.append(p)
    ctx.cov['parse_vectors_emitted'] = len(seen)
    cpath = os.path.join(ctx.build, 'parse_cases.ndjson')
    vlib.write_ndjson(cpath, [dict(argv=p['argv']) for p in uniq] + [dict(argv=a) for a in extra_argvs])
    opath = os.path.join(ctx.build, 'parse_out.ndjson')
    t0 = time.time()
    ctx.run([binp, 'parse', cpath, opath], check=True, timeout=1500)
    real = vlib.read_ndjson(opath)
    vlib.log('real _args_parse on %d vectors in %.1fs' % (len(real), time.time() - t0))
    if len(real) != len(uniq) + len(extra_argvs):
        raise Inconclusive('parse replay lost vectors')
    drift = 0
    for p, r in zip(uniq, real):
        if p['argv'] != r['argv']:
            raise Inconclusive('parse replay out of order')
        if p['ok'] != r['ok']:
            same = False
        elif p['ok']:
            pp = p['parsed'] if isinstance(p['parsed'], dict) else {}
            same = pp == r.get('parsed', {}) and p['rest'] == r.get('rest', [])
        else:
            same = r.get('err') == '%s: %s' % (p['at'], ERRTXT[p['err']])     # message text: drift only, not part of the requirement
        if not same:
            drift += 1
            if drift <= 3:
                ctx.drift('_args_parse(%s) = %s, transcription %s' % (p['argv'], json.dumps(r)[:200], json.dumps(p)[:200]), 0)
    if drift:
        ctx.drift('_args_parse differs from the ArgsParse transcription on %d of %d vectors' % (drift, len(uniq)), drift)
    ctx.cov['parse_vectors_replayed'] = len(uniq)
    ctx.cov['evaluations'] += len(real)
    ctx.sample(dict(kind='_args_parse', **real[len(uniq) // 3]))
    return real[len(uniq):]


def binary_arm(ctx, binp, gen_events):
    """pkg/cli/cli.go (process exit status, real OS/FS): the real fq binary on a few of the same command lines, compared with the in-process run."""
    import subprocess
    t0 = time.time()
    fq = os.path.join(ctx.build, 'bin', 'fq')
    ctx.run(['go', 'build', '-o', fq, '.'], cwd=vlib.REPO, check=True, timeout=900)
    fx = os.path.join(ctx.build, 'fx')
    os.makedirs(fx, exist_ok=True)
    ctx.run([binp, 'fixtures', fx], check=True, timeout=60)
    chosen, seen = [], set()
    for e in gen_events:
        k = (e['fam'].split(':')[0], e['exit'], len(e['fidx']) > 1)
        if k not in seen and 'nul' not in ''.join(e['argv']):
            seen.add(k); chosen.append(e)
    chosen = chosen[:60]
    env = dict(os.environ); env.update(NO_COLOR='1', NO_DECODE_PROGRESS='1')
    for e in chosen:
        p = None
        for attempt in (1, 2):       # the shared machine stalls now and then: one retry before giving up
            try:
                p = subprocess.run([fq] + e['argv'], cwd=fx, env=env, stdin=open(os.path.join(fx, 'stdin_' + e['stdin']), 'rb'),
                                   stdout=subprocess.PIPE, stderr=subprocess.PIPE, timeout=120)
                break
            except subprocess.TimeoutExpired:
                pass
        if p is None:
            raise Inconclusive('fq binary timed out twice on %s' % e['argv'])
        out = p.stdout.decode('utf-8', 'replace').replace('\x00', '<NUL>')
        if p.returncode != e['exit']:
            ctx.finding('cli.process_exit_differs_from_interp_main', 'fq %s: process exit %d, interp.Main exit class %d' % (e['argv'], p.returncode, e['exit']),
                        dict(argv=e['argv'], stdin=e['stdin'], process_exit=p.returncode, inprocess_exit=e['exit']))
        elif out != e['stdout']:
            ctx.finding('cli.process_stdout_differs_from_interp_main', 'fq %s: process stdout %r, in-process %r' % (e['argv'], out[:80], e['stdout'][:80]),
                        dict(argv=e['argv'], stdin=e['stdin'], process_stdout=out, inprocess_stdout=e['stdout']))
    ctx.cov['real_binary_runs'] = len(chosen)
    vlib.log('real fq binary: build + %d runs in %.1fs' % (len(chosen), time.time() - t0))
    ctx.cov['evaluations'] += len(chosen)


def jq_arm(ctx, cases):
    """Validation of the as-required layer itself: where a reference jq is installed, the predicted (exit, stdout) of the jq-compatible
    modes must be what jq does on the same command line (all-good newline-terminated inputs, flags jq knows, predicted exit 0 or 3)."""
    import subprocess, shutil
    jq = shutil.which('jq')
    if not jq:
        ctx.cov['reference_jq'] = 'not installed; spec not cross-checked against jq'
        return
    fx = os.path.join(ctx.build, 'fx')
    known = {'null_input', 'slurp', 'string_input', 'raw_string', 'join_output', 'compact', 'arg', 'argjson', 'raw_file', 'expr_file'}
    good = {'a.json', 'b.json', 'c.json', 'o.json', '<stdin>'}
    n, bad = 0, []
    for c in cases:
        if c['st'] != 'ok' or c['exit'] not in (0, 3) or not set(c['inputs']) <= good or (not c['fidx'] and c['stdin'] not in 'ABC'):
            continue
        argv, ok, seen_pos = [], True, False
        for t in c['toks']:
            if t['k'] in ('dd', 'bad') or (t['k'] == 'flag' and (t['inl'] or not set(t['names']) <= known)):
                ok = False
            if t['k'] == 'flag' and 'expr_file' in t['names'] and seen_pos:
                ok = False          # jq takes the program from the first positional it has seen before -f
            seen_pos = seen_pos or t['k'] == 'pos'

            argv.append('--rawfile' if t['k'] == 'flag' and t['names'] == ['raw_file'] else ''.join(t['sym']))
        if not ok:
            continue
        p = subprocess.run([jq] + argv, cwd=fx, stdin=open(os.path.join(fx, 'stdin_' + c['stdin']), 'rb'), stdout=subprocess.PIPE, stderr=subprocess.PIPE, timeout=30)
        n += 1
        if (p.returncode, p.stdout.decode('utf-8', 'replace')) != (c['exit'], c['out']):
            bad.append('jq %s -> (%d, %r), spec (%d, %r)' % (argv, p.returncode, p.stdout[:60], c['exit'], c['out'][:60]))
        if n >= 400:
            break
    ctx.cov['reference_jq'] = '%s: %d spec predictions compared, %d differ' % (subprocess.run([jq, '--version'], stdout=subprocess.PIPE, text=True).stdout.strip(), n, len(bad))
    if bad:
        raise Inconclusive('as-required layer disagrees with reference jq: %s' % bad[:3])


def replay(ctx, path):
    d = json.load(open(path))
    case = d['case']
    binp = ctx.go_build('c17')
    evs = [case['event']] if 'event' in case else [case['a']['event'], case['b']['event']] if 'a' in case else None
    if evs is None:
        raise Inconclusive('replay file without a recorded event (real-binary comparison: re-run the check)')
    cpath = os.path.join(ctx.build, 'replay_cases.ndjson')
    vlib.write_ndjson(cpath, [dict(id=i, fam=e['fam'], group=e['group'], toks=e['toks'], fidx=e['fidx'], stdin=e['stdin'], solo=True) for i, e in enumerate(evs)])
    epath = os.path.join(ctx.build, 'replay_events.ndjson')
    ctx.run([binp, 'replay', cpath, epath], check=True, timeout=300)
    new = vlib.read_ndjson(epath)
    if 'a' in case:
        a, b = new
        if (a['exit'], a['stdout']) != (b['exit'], b['stdout']):
            ctx.finding(d['sig'], 'replayed: fq %s -> (%d, %r) but fq %s -> (%d, %r)' % (a['argv'], a['exit'], a['stdout'][:80], b['argv'], b['exit'], b['stdout'][:80]), case)
        return
    tpath = os.path.join(ctx.build, 'replay_trace.ndjson')
    vlib.write_ndjson(tpath, [strip(e) for e in new])
    rej, _, _ = ctx.tv('TraceCLI', 'TraceCLI.cfg', tpath, name='tv_replay', heap=HEAP)
    for line, sig in rej:
        e = new[line - 1]
        ctx.finding(sig, 'replayed: fq %s -> exit %d stdout %r' % (e['argv'], e['exit'], e['stdout'][:120]), case)


def strip(e):
    return {k: e[k] for k in ('id', 'fam', 'group', 'toks', 'fidx', 'stdin', 'exit', 'stdout', 'solo')}


def binary_independence(ctx):
    """Independence clause on binary inputs (default display carries file name and dump): harness/c17b + TraceCLIIndep.tla."""
    b = ctx.go_build('c17b')
    ep = os.path.join(ctx.build, 'indep_events.ndjson')
    ctx.run([b, 'indep', ep], check=True, timeout=900)
    cfg = 'SPECIFICATION TSpec\nPOSTCONDITION Consumed\nCHECK_DEADLOCK FALSE\n'
    rej, _, _ = ctx.tv('TraceCLIIndep', 'ti.cfg', ep, name='tv_indep', cfg_text=cfg)
    evs = vlib.read_ndjson(ep)
    ctx.cov['traces_validated_against_impl'] += len(evs)
    ctx.cov['binary_independence_command_lines'] = len(evs)
    for l, sig in rej:
        e = evs[l - 1]
        ctx.finding(sig, 'fq %r %s: exit %d, stdout %d bytes, solo concatenation %d bytes' % (e['prog'], ' '.join(e['inputs']), e['exit'], e['got_len'], e['want_len']), e)
    bad = dict(evs[3]); bad['equal'] = False
    bad2 = dict(evs[4]); bad2['exit'] = 5
    ctx.binding_demo('TraceCLIIndep', 'ti.cfg', [evs[2], bad, bad2], [2, 3], cfg_text=cfg)


def run(ctx):
    thorough = ctx.tier == 'thorough'
    binary_independence(ctx)
    ctx.cov['rule'] = ('one evaluation = one real command line through in-process interp.Main (solo runs not counted) or one real _args_parse call; '
                       'distinct non-trivial = distinct (argv, stdin) command lines judged by TraceCLI that have at least one flag token and either '
                       '>= 2 input files or a failing input / argument error / non-zero exit')
    ctx.assumptions += [
        'pkg/cli/cli.go Main calls os.Exit, so the bulk runs use interp.Main with the same 4-line error-to-exit mapping; <= 60 of the same command lines also run as a real fq process on a real directory',
        'virtual OS: stdout is not a terminal, NO_COLOR=1; in-memory FS where a directory opens but fails to read (EISDIR) as on a real OS',
        'fixture contents in harness/c17/main.go equal KindContent/RawFileContent of CLI.tla (a mismatch shows as rejected events)',
        'undecodable = probe finds no format (garbage text); -d FORMAT on it is excluded (documented partial decode, exit 0)',
        'stderr, error message texts, -h/-v/-i and options other than the documented jq-compatible set are outside the requirement',
        'solo run of input i = same argv with the other input-file tokens removed (done by the harness from the fidx list; TraceCLI re-checks fidx against the grammar)',
    ]
    ctx.cov['trusted_base'] += ['harness/c17: joins token symbols into argv strings, replaces byte 0 by <NUL>, removes file tokens for solo runs (no oracle)',
                                'checks/c17.py: equality of (exit, stdout) inside a law group; equality of real _args_parse JSON with TLC-emitted JSON']
    model_arm(ctx)
    binp = ctx.go_build('c17')

    # GEN(e2e): tagged command lines with predictions
    g = ctx.tlc('CLIGen', heap=HEAP, cfg='gen_e2e.cfg', cfg_text=gen_cfg('e2e', 1, 1, 4 if thorough else 2), timeout=1500)
    ctx.tlc_expect_ok(g, 'CLIGen e2e')
    cases = g.printed
    if len(cases) < 1500:
        raise Inconclusive('GEN(e2e) produced too few cases')
    cases.sort(key=lambda c: json.dumps([c['fam'], c['group'], c['argv'], c['stdin']]))
    if thorough:
        cases = [c for c in cases if not (c['fam'] == 'loop' and len(c['fidx']) >= 4 and ctx.rng.random() > 0.15)]
    else:
        # quick: seeded sample (55%) of the loop family (all lists of <= 2 inputs + all orders of three failure classes) and of the
        # format/bind/argerr families (40%), 12 law groups; thorough replays everything up to 3 inputs and 15% of the 4-input lists
        groups = sorted({c['group'] for c in cases if c['fam'].startswith('law:')})
        keepg = set(ctx.rng.sample(groups, min(len(groups), 12))) | {'negnum', 'dashfile', 'dashfile2', 'dashprog'}
        kept = []
        for c in cases:
            if c['fam'].startswith('law:') and c['group'] not in keepg:
                continue
            if c['fam'] == 'loop' and ctx.rng.random() > 0.55:
                continue
            if c['fam'] in ('bind', 'argerr', 'format') and ctx.rng.random() > 0.4:
                continue
            kept.append(c)
        ctx.cov['gen_e2e_emitted'] = len(cases)
        cases = kept
    for i, c in enumerate(cases):
        c['id'] = i
    cpath = os.path.join(ctx.build, 'e2e_cases.ndjson')
    vlib.write_ndjson(cpath, [dict(solo=c['indep'], **{k: c[k] for k in ('id', 'fam', 'group', 'toks', 'fidx', 'stdin')}) for c in cases])
    epath = os.path.join(ctx.build, 'e2e_events.ndjson')
    t0 = time.time()
    ctx.run([binp, 'replay', cpath, epath], check=True, timeout=1500)
    gen_events = vlib.read_ndjson(epath)
    vlib.log('replayed %d TLC-emitted command lines in %.1fs' % (len(gen_events), time.time() - t0))
    if len(gen_events) != len(cases):
        raise Inconclusive('replay lost cases')
    # TV driver: seeded random longer/mixed command lines
    nrand = 1500 if thorough else 200
    rpath = os.path.join(ctx.build, 'rand_events.ndjson')
    t0 = time.time()
    ctx.run([binp, 'rand', str(nrand), rpath], check=True, timeout=1500)
    rand_events = vlib.read_ndjson(rpath)
    vlib.log('ran %d random command lines in %.1fs' % (len(rand_events), time.time() - t0))
    for e in rand_events:
        e['id'] += len(gen_events)
    events = gen_events + rand_events

    # the real _args_parse on TLC's raw vectors and on every argv used above (predicted parsed options of the e2e cases)
    parse_problem = None
    try:
        real_parsed = parse_arm(ctx, binp, [c['argv'] for c in cases])
    except Inconclusive as ex:      # reported at the end: the command lines below are judged first
        parse_problem, real_parsed = str(ex), []
    pdrift = 0
    for c, r in zip(cases, real_parsed):
        if c['ist'] == 'ok' and not c['jqspell']:
            pp = c['parsed'] if isinstance(c['parsed'], dict) else {}
            if not (r['ok'] and pp == r.get('parsed', {}) and c['rest'] == r.get('rest', [])):
                pdrift += 1
                if pdrift <= 3:
                    ctx.drift('parsed options of %s: real %s, grammar %s' % (c['argv'], json.dumps(r)[:160], json.dumps(pp)), 0)
    if pdrift:
        ctx.drift('real _args_parse differs from the predicted parsed options on %d e2e command lines' % pdrift, pdrift)

    # TV: every recorded run judged by TraceCLI
    tpath = os.path.join(ctx.build, 'cli_trace.ndjson')
    vlib.write_ndjson(tpath, [strip(e) for e in events])
    rej, driftl, res = ctx.tv('TraceCLI', 'TraceCLI.cfg', tpath, name='tv_cli', timeout=1500, heap=HEAP)
    badtag = [l for l in res.raw_printed if l.startswith('<<"BADTAG"')]
    unjudged = [l for l in res.raw_printed if l.startswith('<<"UNJUDGED"')]
    nosolo = [l for l in res.raw_printed if l.startswith('<<"NOSOLO"')]
    if nosolo:
        raise Inconclusive('%d events where independence applies were recorded without solo runs, e.g. %s' % (len(nosolo), nosolo[0]))
    if badtag:
        raise Inconclusive('%d events with tags that do not match their symbols, e.g. %s' % (len(badtag), badtag[0]))
    if len(unjudged) > len(events) // 8:
        raise Inconclusive('%d of %d events outside the modelled universe' % (len(unjudged), len(events)))
    ctx.cov['traces_validated_against_impl'] += len(events)
    ctx.cov['evaluations'] += len(events)
    ctx.cov['events_unjudged'] = len(unjudged)
    ctx.cov['events_by_family'] = dict(collections.Counter(e['fam'].split(':')[0] for e in events))
    ctx.cov['exit_codes_seen'] = dict(collections.Counter(str(e['exit']) for e in events))
    ctx.cov['solo_runs_compared'] = sum(len(e['solo']) for e in events)
    ctx.cov['events_with_independence_checked'] = sum(1 for e in events if e['solo'])
    if any(c['indep'] and len(e['solo']) != len(e['fidx']) for c, e in zip(cases, gen_events)):
        raise Inconclusive('solo runs missing for a case where independence applies')
    rejected = {}
    for line, sig in rej:
        rejected[line - 1] = sig
        e = events[line - 1]
        ctx.finding(sig, 'fq %s (stdin %s) -> exit %d stdout %r' % (' '.join(map(repr, e['argv'])), e['stdin'], e['exit'], e['stdout'][:120]),
                    dict(argv=e['argv'], stdin=e['stdin'], exit=e['exit'], stdout=e['stdout'], stderr=e.get('stderr', '')[:400], event=strip(e)))
    if driftl:
        ctx.drift('transcription (ArgsParse / loop machine) disagrees with the requirement on %d recorded command lines' % len(driftl), len(driftl))

    # GEN cross-check: the emitted prediction is what TraceCLI judged with
    for c, e in zip(cases, gen_events):
        if c['st'] in ('ok', 'argerr') and not c['jqspell'] and (c['exit'], c['out']) != (e['exit'], e['stdout']) and e['id'] not in rejected:
            raise Inconclusive('GEN prediction differs from the real run but TraceCLI accepted it: %s' % c['argv'])

    binary_arm(ctx, binp, gen_events)
    jq_arm(ctx, cases)

    # metamorphic laws as pairs of real runs: all renderings of one intent give the same exit code and stdout
    groups = collections.defaultdict(list)
    for e in gen_events:
        if e['group']:
            groups[e['group']].append(e)
    npairs = 0
    for gname, es in sorted(groups.items()):
        base = [e for e in es if e['fam'] in ('law:base',)] or es[:1]
        b = base[0]
        for e in es:
            if e is b:
                continue
            npairs += 1
            if (e['exit'], e['stdout']) != (b['exit'], b['stdout']):
                ctx.finding('law.%s' % e['fam'].split(':', 1)[1],
                            'fq %s -> (%d, %r) but fq %s -> (%d, %r)' % (e['argv'], e['exit'], e['stdout'][:80], b['argv'], b['exit'], b['stdout'][:80]),
                            dict(a=dict(argv=e['argv'], exit=e['exit'], stdout=e['stdout'], event=strip(e)),
                                 b=dict(argv=b['argv'], exit=b['exit'], stdout=b['stdout'], event=strip(b)), group=gname))
    ctx.cov['law_pairs_compared'] = npairs
    ctx.cov['law_groups'] = len(groups)

    distinct = set()
    for e in events:
        if any(t['k'] in ('flag', 'bad') for t in e['toks']) and (len(e['fidx']) >= 2 or e['exit'] != 0):
            distinct.add(json.dumps([e['argv'], e['stdin']]))
    ctx.cov['distinct_nontrivial'] += len(distinct)
    for e in (gen_events[len(gen_events) // 2], rand_events[0], rand_events[-1]):
        ctx.sample(dict(kind='command line', argv=e['argv'], stdin=e['stdin'], exit=e['exit'], stdout=e['stdout'][:200], solo=e['solo']))

    # binding demonstration: damage one recorded field, TraceCLI must reject exactly that line
    def pick(pred):
        for e in rand_events + gen_events:
            if e['id'] not in rejected and pred(e):
                return strip(e)
        raise Inconclusive('no event available for binding demo')
    ok0 = pick(lambda e: e['exit'] == 0 and e['stdout'] and len(e['fidx']) >= 2)
    bad_exit = copy.deepcopy(pick(lambda e: e['exit'] == 2 and e['stdout'] and len(e['fidx']) >= 3)); bad_exit['exit'] = 4
    bad_out = copy.deepcopy(pick(lambda e: e['exit'] == 0 and e['stdout'].count('\n') >= 2 and len(e['fidx']) >= 2))
    bad_out['stdout'] = bad_out['stdout'][bad_out['stdout'].index('\n') + 1:]
    indep_ids = {c['id'] for c in cases if c['indep']}
    ind = pick(lambda e: e['id'] in indep_ids and e['exit'] in (2, 4, 5) and e['stdout'] and len(e['fidx']) >= 2)
    bad_solo = copy.deepcopy(ind)
    k = next(i for i, s in enumerate(bad_solo['solo']) if s['stdout'])
    bad_solo['solo'][k]['stdout'] += 'x\n'
    bad_arg = copy.deepcopy(pick(lambda e: e['exit'] == 2 and not e['stdout'] and any(t['k'] == 'bad' for t in e['toks']))); bad_arg['exit'] = 0
    ctx.binding_demo('TraceCLI', 'TraceCLI.cfg', [ok0, bad_exit, ind, bad_out, bad_solo, bad_arg], [2, 4, 5, 6], heap=HEAP)
    if parse_problem:
        raise Inconclusive('real _args_parse could not be driven: ' + parse_problem)
