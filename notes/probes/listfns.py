import re,glob
fns=set()
for f in glob.glob('/repo/pkg/interp/*.jq')+glob.glob('/repo/format/*/*.jq')+glob.glob('/repo/format/*/*/*.jq'):
    if f.endswith('.jq.test'): continue
    src=open(f).read()
    for m in re.finditer(r'^def\s+([a-zA-Z][a-zA-Z0-9_]*)\s*(\(([^)]*)\))?\s*:', src, re.M):
        name=m.group(1); args=m.group(3)
        n=0 if not args else len(args.split(';'))
        fns.add((name,n))
for n,a in sorted(fns): print(f"{n}/{a}")
