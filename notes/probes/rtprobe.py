import random, json, subprocess, sys
random.seed(int(sys.argv[1]) if len(sys.argv)>1 else 1)
STR=["","a","yes","no","null","true","~","1","1e3","0x10","-","- a","a: b","#c"," lead","trail ","multi\nline","tab\t","quote\"q","back\\slash","é😀","\u0001","\u001f","\u007f","a,b","a=b","a.b","<x>&amp;","]]>","'single'","key with space"," ","0123","+1",".5","1_000","2020-01-01","2020-01-01T00:00:00Z","@at","`bt`","{x}","[y]","%25","a b/c?d=e&f#g"]
def rstr(): return random.choice(STR)
def rnum(): return random.choice([0,1,-1,255,2**31,2**53+1,2**64,-2**63,12345678901234567890123,0.5,-2.25,1e21,1e-7,1.5e300])
def rval(d, nullok=True, numok=True):
    c=random.random()
    if d==0 or c<0.45:
        k=random.random()
        if k<0.45: return rstr()
        if k<0.7 and numok: return rnum()
        if k<0.8: return random.choice([True,False])
        if k<0.9 and nullok: return None
        return rstr()
    if c<0.7: return [rval(d-1,nullok,numok) for _ in range(random.randint(0,3))]
    return {rstr(): rval(d-1,nullok,numok) for _ in range(random.randint(0,3))}
def canon(v): return json.dumps(v,sort_keys=True,ensure_ascii=False)
tests=[]
for i in range(300):
    v=rval(3)
    tests.append(("json", v, "tojson|fromjson"))
    tests.append(("jq", v, "to_jq|from_jq"))
    tests.append(("yaml", v, "to_yaml|from_yaml"))
    tv=rval(3,nullok=False)
    if not isinstance(tv,dict): tv={"k":tv}
    tests.append(("toml", tv, "to_toml|from_toml"))
    rows=[[rstr() for _ in range(random.randint(1,3))] for _ in range(random.randint(1,3))]
    w=len(rows[0]); rows=[ (r+[""]*w)[:w] for r in rows]
    tests.append(("csv", rows, "to_csv|from_csv"))
    s=rstr()
    tests.append(("urlencode", s, "to_urlencode|from_urlencode"))
    tests.append(("urlpath", s, "to_urlpath|from_urlpath"))
    tests.append(("hex", s, "to_hex|from_hex|tostring"))
    tests.append(("base64", s, "to_base64|from_base64|tostring"))
    tests.append(("xmlentities", s, "to_xmlentities|from_xmlentities"))
    q={rstr() or "k": random.choice([rstr(), [rstr(),rstr()]]) for _ in range(random.randint(0,3))}
    tests.append(("urlquery", q, "to_urlquery|from_urlquery"))
prog="(" + ",".join('(%s | try (%s | tojson) catch ("ERR:"+tostring))' % (json.dumps(v,ensure_ascii=False), f) for _,v,f in tests) + ")"
open("rt_prog.jq","w").write(prog)
out=subprocess.run(["./fq","-nr","-f","rt_prog.jq"],capture_output=True,text=True)
if out.returncode!=0: print("FQERR", out.stderr[:600]); sys.exit(1)
lines=out.stdout.rstrip("\n").split("\n")
from collections import Counter
bad=Counter(); shown=Counter()
if len(lines)!=len(tests): print("LINECOUNT",len(lines),len(tests))
for (name,v,f),ln in zip(tests,lines):
    try: got=json.loads(ln)
    except Exception: got=("RAW",ln)
    def numeq(a,b):
        return canon(a)==canon(b)
    if ln.startswith("ERR:") or not numeq(got,v):
        bad[name]+=1
        if shown[name]<4:
            shown[name]+=1
            print(name, "IN ", canon(v)[:110], "\n      OUT", ln[:110])
print(dict(bad), "total", len(tests))
