package verifh

import (
	"context"
	"fmt"
	"os"
	"path/filepath"
	"regexp"
	"runtime/debug"
	"sort"
	"strings"
	"sync"
	"testing"
	"time"

	_ "github.com/wader/fq/format/all"
	"github.com/wader/fq/pkg/bitio"
	"github.com/wader/fq/pkg/decode"
	"github.com/wader/fq/pkg/interp"
)

var frameRe = regexp.MustCompile(`(github\.com/wader/fq/[^\s(]+)\(.*\n\s+(/repo/[^\s]+)`)

func sig(format string, r any, stack string) string {
	msg := fmt.Sprint(r)
	msg = regexp.MustCompile(`[0-9]+`).ReplaceAllString(msg, "N")
	if len(msg) > 60 {
		msg = msg[:60]
	}
	top := ""
	for _, m := range frameRe.FindAllStringSubmatch(stack, -1) {
		if strings.Contains(m[1], "recoverfn") || strings.Contains(m[1], "verifh") {
			continue
		}
		top = m[1] + " " + filepath.Base(m[2])
		break
	}
	return format + " | " + top + " | " + msg
}

func TestScan(t *testing.T) {
	deadline := time.Now().Add(6 * time.Minute)
	files, _ := filepath.Glob("/repo/format/*/testdata/*")
	more, _ := filepath.Glob("/repo/format/*/testdata/*/*")
	files = append(files, more...)
	type job struct {
		b      []byte
		format string
		file   string
	}
	jobs := make(chan job, 1000)
	var mu sync.Mutex
	sigs := map[string]int{}
	example := map[string]string{}
	n := 0
	var wg sync.WaitGroup
	for w := 0; w < 12; w++ {
		wg.Add(1)
		go func() {
			defer wg.Done()
			for j := range jobs {
				g, err := interp.DefaultRegistry.Group(j.format)
				if err != nil {
					continue
				}
				for _, force := range []bool{false} {
					id := fmt.Sprintf("%s|%s|%d|%v|%x", j.file, j.format, len(j.b), force, func() []byte { if len(j.b) > 8 { return j.b[:8] }; return j.b }())
					fmt.Fprintf(os.Stderr, "S %s\n", id)
					func() {
						defer fmt.Fprintf(os.Stderr, "E %s\n", id)
						defer func() {
							if r := recover(); r != nil {
								s := sig(j.format, r, string(debug.Stack()))
								mu.Lock()
								sigs[s]++
								if _, ok := example[s]; !ok {
									example[s] = fmt.Sprintf("%s len=%d force=%v", j.file, len(j.b), force)
								}
								mu.Unlock()
							}
						}()
						ctx, cancel := context.WithTimeout(context.Background(), 5*time.Second)
						defer cancel()
						decode.Decode(ctx, bitio.NewBitReader(j.b, -1), g, decode.Options{IsRoot: true, FillGaps: true, Force: force})
					}()
				}
				mu.Lock()
				n++
				mu.Unlock()
			}
		}()
	}
	groups := interp.DefaultRegistry.Groups()
	for _, f := range files {
		if time.Now().After(deadline) {
			break
		}
		if strings.HasSuffix(f, ".fqtest") || strings.HasSuffix(f, ".md") || strings.HasSuffix(f, ".jq") || strings.HasSuffix(f, ".sh") {
			continue
		}
		b, err := os.ReadFile(f)
		if err != nil || len(b) == 0 || len(b) > 100000 {
			continue
		}
		dir := strings.Split(strings.TrimPrefix(f, "/repo/format/"), "/")[0]
		if os.Getenv("SKIPDIRS") != "" && strings.Contains(","+os.Getenv("SKIPDIRS")+",", ","+dir+",") {
			continue
		}
		var fmts []string
		fmts = append(fmts, "probe")
		for name, g := range groups {
			if len(g.Formats) == 1 && g.Formats[0].Name == name && (strings.HasPrefix(name, dir) || strings.HasPrefix(dir, name)) {
				fmts = append(fmts, name)
			}
		}
		var muts [][]byte
		for i := 0; i <= 40; i++ {
			cut := len(b) * i / 40
			muts = append(muts, b[:cut])
		}
		for i := 0; i < 64 && i < len(b); i++ {
			for _, v := range []byte{0x00, 0xff, 0x7f, 0x80} {
				c := append([]byte(nil), b...)
				c[i] = v
				muts = append(muts, c)
			}
		}
		for i := 64; i < len(b); i += 1 + len(b)/64 {
			c := append([]byte(nil), b...)
			c[i] = 0xff
			muts = append(muts, c)
			c2 := append([]byte(nil), b...)
			c2[i] = 0
			muts = append(muts, c2)
		}
		for _, fm := range fmts {
			for _, mb := range muts {
				jobs <- job{mb, fm, strings.TrimPrefix(f, "/repo/format/")}
			}
		}
	}
	close(jobs)
	wg.Wait()
	var keys []string
	for k := range sigs {
		keys = append(keys, k)
	}
	sort.Strings(keys)
	t.Logf("jobs=%d distinct fault signatures=%d", n, len(keys))
	for _, k := range keys {
		t.Logf("%5d  %s   [%s]", sigs[k], k, example[k])
	}
}
