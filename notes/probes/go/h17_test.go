package verifh

import (
	"context"
	"math"
	"math/big"
	"math/rand"
	"testing"
	"unicode/utf16"

	"github.com/wader/fq/pkg/bitio"
	"github.com/wader/fq/pkg/decode"
)

func run1(bs []byte, nbits int64, align int64, fn func(d *decode.D) (any, error)) (v any, err error, pos int64) {
	g := decode.FormatFn(func(d *decode.D) any {
		d.SeekAbs(align)
		v, err = fn(d)
		pos = d.Pos()
		return nil
	})
	_, _, derr := decode.Decode(context.Background(), bitio.NewBitReader(bs, nbits), g, decode.Options{IsRoot: true})
	if derr != nil && err == nil {
		err = derr
	}
	return
}

func uleb(n *big.Int) []byte {
	var out []byte
	x := new(big.Int).Set(n)
	for {
		b := byte(new(big.Int).And(x, big.NewInt(0x7f)).Int64())
		x.Rsh(x, 7)
		if x.Sign() != 0 {
			out = append(out, b|0x80)
		} else {
			out = append(out, b)
			break
		}
	}
	return out
}
func sleb(v int64) []byte {
	var out []byte
	for {
		b := byte(v & 0x7f)
		v >>= 7
		if (v == 0 && b&0x40 == 0) || (v == -1 && b&0x40 != 0) {
			out = append(out, b)
			break
		}
		out = append(out, b|0x80)
	}
	return out
}

func TestScalars2(t *testing.T) {
	rng := rand.New(rand.NewSource(2))
	bad := 0
	fail := func(f string, a ...any) {
		bad++
		if bad < 30 {
			t.Logf(f, a...)
		}
	}
	// ULEB128 / SLEB128
	for i := 0; i < 20000; i++ {
		bits := rng.Intn(64) + 1
		n := new(big.Int).Rand(rng, new(big.Int).Lsh(big.NewInt(1), uint(bits)))
		enc := uleb(n)
		v, err, pos := run1(append(enc, 0xaa), -1, 0, func(d *decode.D) (any, error) { return d.TryULEB128() })
		if n.BitLen() <= 63 {
			if err != nil || new(big.Int).SetUint64(v.(uint64)).Cmp(n) != 0 || pos != int64(len(enc))*8 {
				fail("uleb %v enc=%x got %v err=%v pos=%d", n, enc, v, err, pos)
			}
		}
		sv := rng.Int63()
		if rng.Intn(2) == 0 {
			sv = -sv
		}
		sv >>= uint(rng.Intn(64))
		if i%50 == 0 {
			sv = []int64{math.MinInt64, math.MaxInt64, -1, 0, 63, 64, -64, -65}[rng.Intn(8)]
		}
		senc := sleb(sv)
		v, err, pos = run1(append(senc, 0xaa), -1, 0, func(d *decode.D) (any, error) { return d.TrySLEB128() })
		if err != nil || v.(int64) != sv || pos != int64(len(senc))*8 {
			fail("sleb %d enc=%x got %v err=%v pos=%d", sv, senc, v, err, pos)
		}
	}
	// unary
	for i := 0; i < 3000; i++ {
		k := rng.Intn(40)
		ov := uint64(rng.Intn(2))
		s := ""
		for j := 0; j < k; j++ {
			s += string('0' + byte(ov))
		}
		s += string('0' + byte(1-ov))
		s += "0110"
		align := rng.Intn(8)
		pre := ""
		for j := 0; j < align; j++ {
			pre += string('0' + byte(1-ov))
		}
		bs, nb := bitio.BytesFromBitString(pre + s)
		v, err, pos := run1(bs, nb, int64(align), func(d *decode.D) (any, error) { return d.TryUnary(ov) })
		if err != nil || v.(uint64) != uint64(k) || pos != int64(align+k+1) {
			fail("unary k=%d ov=%d align=%d got %v err=%v pos=%d", k, ov, align, v, err, pos)
		}
	}
	// FP
	for i := 0; i < 6000; i++ {
		for _, c := range []struct {
			name    string
			n, f    int
		}{{"FP16", 16, 8}, {"FP32", 32, 16}, {"FP64", 64, 32}} {
			raw := rng.Uint64()
			if i%7 == 0 {
				raw = ^uint64(0)
			}
			if c.n < 64 {
				raw &= (1 << uint(c.n)) - 1
			}
			bs := make([]byte, 9)
			for k := 0; k < c.n/8; k++ {
				bs[k] = byte(raw >> uint(c.n-8-8*k))
			}
			v, err, _ := run1(bs, -1, 0, func(d *decode.D) (any, error) {
				switch c.name {
				case "FP16":
					return d.TryFP16()
				case "FP32":
					return d.TryFP32()
				default:
					return d.TryFP64()
				}
			})
			want, _ := new(big.Float).SetPrec(200).Quo(new(big.Float).SetPrec(200).SetUint64(raw), new(big.Float).SetPrec(200).SetUint64(1<<uint(c.f))).Float64()
			if err != nil || v.(float64) != want {
				fail("%s raw=%x got %v want %v err=%v", c.name, raw, v, want, err)
			}
		}
	}
	// F80
	for i := 0; i < 6000; i++ {
		sign := uint16(rng.Intn(2))
		e := uint16(rng.Intn(0x7fff))
		if i%3 == 0 {
			e = uint16(16383 + rng.Intn(200) - 100)
		}
		if i%97 == 0 {
			e = 0
		}
		m := rng.Uint64() | (1 << 63)
		if e == 0 {
			m &^= (1 << 63)
		}
		bs := make([]byte, 11)
		se := sign<<15 | e
		bs[0], bs[1] = byte(se>>8), byte(se)
		for k := 0; k < 8; k++ {
			bs[2+k] = byte(m >> uint(56-8*k))
		}
		v, err, _ := run1(bs, -1, 0, func(d *decode.D) (any, error) { return d.TryF80() })
		bf := new(big.Float).SetPrec(300).SetUint64(m)
		exp := int(e) - 16383 - 63
		if e == 0 {
			exp = 1 - 16383 - 63
		}
		bf.SetMantExp(bf, exp)
		want, _ := bf.Float64()
		if sign == 1 {
			want = -want
		}
		got, _ := v.(float64)
		if err != nil || !(got == want) {
			fail("F80 se=%04x m=%016x got %v want %v err=%v", se, m, v, want, err)
		}
	}
	// text
	for i := 0; i < 4000; i++ {
		var rs []rune
		for k := rng.Intn(6); k > 0; k-- {
			rs = append(rs, []rune{'a', 'é', 0x20ac, 0x1F600, 'z', 0x7ff, 0x800, 0xffff, 0x10000, 0x10ffff}[rng.Intn(10)])
		}
		s := string(rs)
		u8 := []byte(s)
		v, err, pos := run1(append(append([]byte{}, u8...), 0, 0x41), -1, 0, func(d *decode.D) (any, error) { return d.TryUTF8(len(u8)) })
		if err != nil || v.(string) != s || pos != int64(len(u8))*8 {
			fail("utf8 %q got %q err=%v pos=%d", s, v, err, pos)
		}
		v, err, pos = run1(append(append([]byte{}, u8...), 0, 0x41), -1, 0, func(d *decode.D) (any, error) { return d.TryUTF8Null() })
		if err != nil || v.(string) != s || pos != int64(len(u8)+1)*8 {
			fail("utf8null %q got %q err=%v pos=%d", s, v, err, pos)
		}
		u16 := utf16.Encode(rs)
		var le, be []byte
		for _, c := range u16 {
			le = append(le, byte(c), byte(c>>8))
			be = append(be, byte(c>>8), byte(c))
		}
		v, err, pos = run1(append(append([]byte{}, le...), 0, 0, 0x41), -1, 0, func(d *decode.D) (any, error) { return d.TryUTF16LE(len(le)) })
		if err != nil || v.(string) != s || pos != int64(len(le))*8 {
			fail("utf16le %q got %q err=%v pos=%d", s, v, err, pos)
		}
		v, err, pos = run1(append(append([]byte{}, be...), 0, 0, 0x41), -1, 0, func(d *decode.D) (any, error) { return d.TryUTF16BENull() })
		if err != nil || v.(string) != s || pos != int64(len(be)+2)*8 {
			fail("utf16benull %q got %q err=%v pos=%d", s, v, err, pos)
		}
		if len(u8) < 256 {
			ps := append([]byte{byte(len(u8))}, u8...)
			v, err, pos = run1(append(ps, 0x41), -1, 0, func(d *decode.D) (any, error) { return d.TryUTF8ShortString() })
			if err != nil || v.(string) != s || pos != int64(len(ps))*8 {
				fail("shortstring %q got %q err=%v pos=%d", s, v, err, pos)
			}
		}
	}
	t.Logf("bad=%d", bad)
}
