package verifh

import (
	"context"
	"testing"

	"github.com/wader/fq/pkg/bitio"
	"github.com/wader/fq/pkg/decode"
)

func dumpT(t *testing.T, v *decode.Value, ind string) {
	t.Logf("%s%s idx=%d range=%v root=%v", ind, v.Name, v.Index, v.Range, v.IsRoot)
	if c, ok := v.V.(*decode.Compound); ok {
		for _, ch := range c.Children {
			dumpT(t, ch, ind+"  ")
		}
	}
}

func TestNestedAbort(t *testing.T) {
	nested := bitio.NewBitReader([]byte{1, 2, 3}, -1)
	g := decode.FormatFn(func(d *decode.D) any {
		d.FieldU8("a")
		d.FieldStructRootBitBufFn("nested", nested, func(d *decode.D) {
			d.FieldArray("arr", func(d *decode.D) {
				d.FieldU8("e")
				d.FieldU8("e")
				d.FieldU8("e")
				d.FieldU8("e") // past end -> abort
			})
		})
		return nil
	})
	dv, _, err := decode.Decode(context.Background(), bitio.NewBitReader([]byte{9, 8, 7}, -1), g, decode.Options{IsRoot: true, FillGaps: true})
	t.Logf("err=%v", err)
	if dv != nil {
		dumpT(t, dv, "")
	}
}
