package verifh

import (
	"context"
	"testing"

	"github.com/wader/fq/internal/ctxstack"
)

func TestCtxRace(t *testing.T) {
	trig := make(chan struct{})
	s := ctxstack.New(func(stopCh chan struct{}) {
		select {
		case <-stopCh:
		case <-trig:
		}
	})
	done := make(chan struct{})
	go func() {
		for i := 0; i < 2000; i++ {
			select {
			case trig <- struct{}{}:
			case <-done:
				return
			}
		}
	}()
	for i := 0; i < 2000; i++ {
		_, c1 := s.Push(context.Background())
		_, c2 := s.Push(context.Background())
		c2()
		c1()
	}
	close(done)
	s.Stop()
}
