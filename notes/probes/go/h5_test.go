package verifh

import (
	"bytes"
	"context"
	"encoding/binary"
	"fmt"
	"net"
	"os"
	"testing"

	"github.com/gopacket/gopacket"
	"github.com/gopacket/gopacket/layers"
	_ "github.com/wader/fq/format/all"
	"github.com/wader/fq/pkg/bitio"
	"github.com/wader/fq/pkg/decode"
	"github.com/wader/fq/pkg/interp"
)

type seg struct {
	c2s     bool
	seq     uint32
	ack     uint32
	syn, fin, ackf bool
	payload []byte
}

func mkpkt(s seg, id uint16) []byte {
	cip, sip := net.IP{10, 0, 0, 1}, net.IP{10, 0, 0, 2}
	cport, sport := layers.TCPPort(40000), layers.TCPPort(80)
	eth := &layers.Ethernet{SrcMAC: net.HardwareAddr{1, 2, 3, 4, 5, 6}, DstMAC: net.HardwareAddr{6, 5, 4, 3, 2, 1}, EthernetType: layers.EthernetTypeIPv4}
	ip := &layers.IPv4{Version: 4, IHL: 5, TTL: 64, Protocol: layers.IPProtocolTCP, Id: id}
	tcp := &layers.TCP{Seq: s.seq, Ack: s.ack, SYN: s.syn, FIN: s.fin, ACK: s.ackf, Window: 65535}
	if s.c2s {
		ip.SrcIP, ip.DstIP = cip, sip
		tcp.SrcPort, tcp.DstPort = cport, sport
	} else {
		ip.SrcIP, ip.DstIP = sip, cip
		tcp.SrcPort, tcp.DstPort = sport, cport
	}
	tcp.SetNetworkLayerForChecksum(ip)
	buf := gopacket.NewSerializeBuffer()
	if err := gopacket.SerializeLayers(buf, gopacket.SerializeOptions{FixLengths: true, ComputeChecksums: true}, eth, ip, tcp, gopacket.Payload(s.payload)); err != nil {
		panic(err)
	}
	return append([]byte(nil), buf.Bytes()...)
}

func mkpcap(pkts [][]byte) []byte {
	b := &bytes.Buffer{}
	w := func(vs ...any) { for _, v := range vs { binary.Write(b, binary.LittleEndian, v) } }
	w(uint32(0xa1b2c3d4), uint16(2), uint16(4), int32(0), uint32(0), uint32(65535), uint32(1))
	for i, p := range pkts {
		w(uint32(i), uint32(0), uint32(len(p)), uint32(len(p)))
		b.Write(p)
	}
	return b.Bytes()
}

func streams(t *testing.T, pc []byte) string {
	g, _ := interp.DefaultRegistry.Group("pcap")
	dv, _, err := decode.Decode(context.Background(), bitio.NewBitReader(pc, -1), g, decode.Options{IsRoot: true, FillGaps: true})
	if dv == nil {
		return fmt.Sprintf("ERR %v", err)
	}
	out := ""
	var walk func(v *decode.Value, path string)
	walk = func(v *decode.Value, path string) {
		if c, ok := v.V.(*decode.Compound); ok {
			for _, ch := range c.Children {
				walk(ch, path+"/"+ch.Name)
			}
			return
		}
		for _, k := range []string{"tcp_connections/tcp_connection/client/", "tcp_connections/tcp_connection/server/"} {
			if i := bytes.Index([]byte(path), []byte(k)); i >= 0 {
				name := path[i+len("tcp_connections/tcp_connection/"):]
				if name == "client/stream" || name == "server/stream" {
					buf := &bytes.Buffer{}
					br, _ := bitio.CloneReaderAtSeeker(v.RootReader)
					n := v.Range.Len
					_ = n
					bs := make([]byte, v.Range.Len/8)
					bitio.ReadAtFull(br, bs, v.Range.Len, 0)
					buf.Write(bs)
					out += fmt.Sprintf(" %s=%q", name, buf.String())
				}
			}
		}
	}
	walk(dv, "")
	// scalars via interp would be nicer; good enough
	var walk2 func(v *decode.Value, path string)
	walk2 = func(v *decode.Value, path string) {
		if c, ok := v.V.(*decode.Compound); ok {
			for _, ch := range c.Children {
				walk2(ch, path+"/"+ch.Name)
			}
			return
		}
		if bytes.Contains([]byte(path), []byte("tcp_connection/")) && (bytes.HasSuffix([]byte(path), []byte("skipped_bytes")) || bytes.HasSuffix([]byte(path), []byte("has_start")) || bytes.HasSuffix([]byte(path), []byte("has_end"))) {
			if s, ok := v.V.(interface{ ScalarActual() any }); ok {
				out += fmt.Sprintf(" %s=%v", path[len(path)-20:], s.ScalarActual())
			}
		}
	}
	walk2(dv, "")
	return out
}

func TestTCP(t *testing.T) {
	hs := []seg{
		{c2s: true, seq: 1000, syn: true},
		{c2s: false, seq: 5000, ack: 1001, syn: true, ackf: true},
		{c2s: true, seq: 1001, ack: 5001, ackf: true},
	}
	d := func(seq uint32, p string) seg { return seg{c2s: true, seq: seq, ack: 5001, ackf: true, payload: []byte(p)} }
	r := func(seq uint32, p string) seg { return seg{c2s: false, seq: seq, ack: 1013, ackf: true, payload: []byte(p)} }
	fin := []seg{{c2s: true, seq: 1013, ack: 5007, ackf: true, fin: true}, {c2s: false, seq: 5007, ack: 1014, ackf: true, fin: true}, {c2s: true, seq: 1014, ack: 5008, ackf: true}}
	A, B, C := d(1001, "AAAA"), d(1005, "BBBB"), d(1009, "CCCC")
	R1, R2 := r(5001, "xxx"), r(5004, "yyy")
	cases := map[string][]seg{
		"inorder":   append(append(append([]seg{}, hs...), A, B, C, R1, R2), fin...),
		"swapBC":    append(append(append([]seg{}, hs...), A, C, B, R1, R2), fin...),
		"dupB":      append(append(append([]seg{}, hs...), A, B, B, C, R1, R2), fin...),
		"omitB":     append(append(append([]seg{}, hs...), A, C, R1, R2), fin...),
		"omitA":     append(append(append([]seg{}, hs...), B, C, R1, R2), fin...),
		"nohs":      append([]seg{A, B, C, R1, R2}, fin...),
		"nohs_nofin": {A, B, C, R1, R2},
		"omitB_nofin": append(append([]seg{}, hs...), A, C, R1, R2),
		"interleave": append(append(append([]seg{}, hs...), A, R1, B, R2, C), fin...),
		"retrans_overlap": append(append(append([]seg{}, hs...), A, d(1003, "AABB"), d(1007,"BBCCCC"), R1, R2), fin...),
	}
	for name, segs := range cases {
		var pk [][]byte
		for i, s := range segs {
			pk = append(pk, mkpkt(s, uint16(i+1)))
		}
		os.MkdirAll("/tmp/probe/tcp", 0o755)
		os.WriteFile("/tmp/probe/tcp/"+name+".pcap", mkpcap(pk), 0o644)
	}
}
