package verifh

import (
	"bytes"
	"io"
	"testing"

	"github.com/wader/fq/internal/aheadreadseeker"
	"github.com/wader/fq/pkg/ranges"
	"github.com/wader/fq/pkg/bitio"
)

func TestAheadSeekEnd(t *testing.T) {
	data := make([]byte, 100)
	for i := range data { data[i] = byte(i) }
	r := aheadreadseeker.New(bytes.NewReader(data), 16)
	r.Seek(70, io.SeekStart)
	p := make([]byte, 4)
	r.Read(p)
	t.Logf("read@70 %v", p)
	off, err := r.Seek(-20, io.SeekEnd)
	t.Logf("seekend %d %v", off, err)
	q := make([]byte, 10)
	n, err := r.Read(q)
	t.Logf("read1 n=%d %v %v", n, q[:n], err)
	n, err = r.Read(q)
	t.Logf("read2 n=%d %v %v (expect 86..)", n, q[:n], err)
}

func TestGapHole(t *testing.T) {
	g := ranges.Gaps(ranges.Range{Start:0, Len:10}, []ranges.Range{{Start:1,Len:1},{Start:3,Len:5}})
	t.Logf("gaps %v (bit 2 is a hole)", g)
	g = ranges.Gaps(ranges.Range{Start:0, Len:10}, []ranges.Range{{Start:1,Len:1},{Start:3,Len:20}})
	t.Logf("gaps over %v", g)
}

func TestIOReadSeekerStale(t *testing.T) {
	data := make([]byte, 9)
	for i := range data { data[i] = byte(0x10+i) }
	br := bitio.NewBitReader(data, 68)
	rs := bitio.NewIOReadSeeker(br)
	p := make([]byte, 9)
	n, err := rs.Read(p)
	t.Logf("read n=%d %x %v", n, p[:n], err)
	o, err := rs.Seek(1, io.SeekStart)
	t.Logf("seek %d %v", o, err)
	n, err = rs.Read(p)
	t.Logf("read n=%d %x %v (expect 11 12 ...)", n, p[:n], err)
}
