package verifh

import (
	"context"
	"fmt"
	"os"
	"path/filepath"
	"strings"
	"testing"

	_ "github.com/wader/fq/format/all"
	"github.com/wader/fq/internal/mathx"
	"github.com/wader/fq/pkg/bitio"
	"github.com/wader/fq/pkg/decode"
	"github.com/wader/fq/pkg/interp"
)

func TestULEB(t *testing.T) {
	for _, bs := range [][]byte{
		{0xff, 0xff, 0xff, 0xff, 0xff, 0xff, 0xff, 0xff, 0xff, 0x01}, // 2^64-1
		{0x80, 0x80, 0x80, 0x80, 0x80, 0x80, 0x80, 0x80, 0x80, 0x01}, // 2^63
		{0xff, 0xff, 0xff, 0xff, 0xff, 0xff, 0xff, 0xff, 0x7f},       // 2^63-1
	} {
		var v uint64
		var rerr error
		g := decode.FormatFn(func(d *decode.D) any {
			v, rerr = d.TryULEB128()
			return nil
		})
		_, _, err := decode.Decode(context.Background(), bitio.NewBitReader(bs, -1), g, decode.Options{IsRoot: true})
		t.Logf("%x -> %d rerr=%v err=%v", bs, v, rerr, err)
	}
}

func TestDigits(t *testing.T) {
	for _, c := range []struct{ n int64; b int }{{1000, 10}, {100, 10}, {4096, 16}, {256, 16}, {64, 8}, {512, 8}, {8, 2}, {1296, 36}, {125,5}, {243, 3}, {1<<20, 2}, {1<<30,2}} {
		t.Logf("DigitsInBase(%d,%d)=%d", c.n, c.b, mathx.DigitsInBase(c.n, false, c.b))
	}
}

func walkIdx(t *testing.T, v *decode.Value, path string, bad *int) {
	if c, ok := v.V.(*decode.Compound); ok {
		for i, ch := range c.Children {
			if c.IsArray && ch.Index != i {
				*bad++
				if *bad < 5 {
					t.Logf("BAD index at %s[%d] Index=%d name=%s", path, i, ch.Index, ch.Name)
				}
			}
			if ch.Parent != v { *bad++; t.Logf("BAD parent %s", path) }
			walkIdx(t, ch, path+"/"+ch.Name, bad)
		}
	}
}

func TestNestedRootPartial(t *testing.T) {
	files, _ := filepath.Glob("/repo/format/*/testdata/*")
	n := 0
	for _, f := range files {
		if strings.HasSuffix(f, ".fqtest") || strings.HasSuffix(f, ".md") { continue }
		for _, fmtName := range []string{"ogg", "avro_ocf", "tls", "rtmp", "avc_nalu", "hevc_nalu", "mp4", "matroska", "pcap"} {
			if !strings.Contains(f, "/"+strings.Split(fmtName, "_")[0]) && !(fmtName=="avc_nalu" && strings.Contains(f,"mpeg")) && !(fmtName=="hevc_nalu" && strings.Contains(f,"mpeg")) { continue }
			b, err := os.ReadFile(f)
			if err != nil || len(b) == 0 || len(b) > 300000 { continue }
			g, err := interp.DefaultRegistry.Group(fmtName)
			if err != nil { continue }
			for _, cut := range []int{len(b), len(b) * 3 / 4, len(b) / 2, len(b) / 3, len(b)/5} {
				func() {
					defer func() {
						if r := recover(); r != nil {
							t.Logf("PANIC %s %s cut=%d: %v", fmtName, filepath.Base(f), cut, r)
						}
					}()
					dv, _, _ := decode.Decode(context.Background(), bitio.NewBitReader(b[:cut], -1), g, decode.Options{IsRoot: true, FillGaps: true})
					if dv == nil { return }
					n++
					bad := 0
					walkIdx(t, dv, "", &bad)
					if bad > 0 { t.Logf("%s %s cut=%d bad=%d", fmtName, filepath.Base(f), cut, bad) }
				}()
			}
		}
	}
	t.Logf("trees %d", n)
	_ = fmt.Sprint
}
