package verifh

import (
	"bytes"
	"context"
	"crypto/sha256"
	"fmt"
	"io"
	"io/fs"
	"os"
	"path/filepath"
	"strings"
	"sync"
	"testing"

	_ "github.com/wader/fq/format/all"
	"github.com/wader/fq/pkg/interp"
)

type mfs struct{ files map[string][]byte }
type mfile struct {
	*bytes.Reader
	name string
	size int64
}

func (f mfile) Stat() (fs.FileInfo, error) {
	return interp.FixedFileInfo{FName: f.name, FSize: f.size}, nil
}
func (f mfile) Close() error { return nil }
func (m mfs) Open(name string) (fs.File, error) {
	b, ok := m.files[name]
	if !ok {
		return nil, &fs.PathError{Op: "open", Path: name, Err: fs.ErrNotExist}
	}
	return mfile{Reader: bytes.NewReader(b), name: name, size: int64(len(b))}, nil
}

type vos2 struct {
	args           []string
	stdout, stderr *bytes.Buffer
	fsys           fs.FS
}

type vin2 struct{ interp.FileReader }

func (vin2) IsTerminal() bool { return false }
func (vin2) Size() (int, int) { return 120, 25 }

type vout2 struct{ io.Writer }

func (vout2) Size() (int, int) { return 120, 25 }
func (vout2) IsTerminal() bool { return false }

func (o *vos2) Platform() interp.Platform { return interp.Platform{} }
func (o *vos2) Stdin() interp.Input {
	return vin2{FileReader: interp.FileReader{R: bytes.NewBuffer(nil)}}
}
func (o *vos2) Stdout() interp.Output                             { return vout2{o.stdout} }
func (o *vos2) Stderr() interp.Output                             { return vout2{o.stderr} }
func (o *vos2) InterruptChan() chan struct{}                      { return nil }
func (o *vos2) Environ() []string                                 { return []string{"NO_COLOR=1", "NO_DECODE_PROGRESS=1"} }
func (o *vos2) Args() []string                                    { return o.args }
func (o *vos2) ConfigDir() (string, error)                        { return "/config", nil }
func (o *vos2) FS() fs.FS                                         { return o.fsys }
func (o *vos2) History() ([]string, error)                        { return nil, nil }
func (o *vos2) Readline(opts interp.ReadlineOpts) (string, error) { return "", io.EOF }

func runJob(m mfs, name string) string {
	o := &vos2{args: []string{"fq", "-o", "force=false", "dv", name}, stdout: &bytes.Buffer{}, stderr: &bytes.Buffer{}, fsys: m}
	i, err := interp.New(o, interp.DefaultRegistry)
	if err != nil {
		return "newerr"
	}
	err = i.Main(context.Background(), o.Stdout(), "v")
	h := sha256.Sum256(append(o.stdout.Bytes(), o.stderr.Bytes()...))
	return fmt.Sprintf("%x/%v", h[:6], err != nil)
}

func TestConc(t *testing.T) {
	files, _ := filepath.Glob("/repo/format/*/testdata/*")
	m := mfs{files: map[string][]byte{}}
	var names []string
	for _, f := range files {
		if strings.HasSuffix(f, ".fqtest") || strings.HasSuffix(f, ".md") || strings.HasSuffix(f, ".jq") {
			continue
		}
		b, err := os.ReadFile(f)
		if err != nil || len(b) == 0 || len(b) > 200000 {
			continue
		}
		n := strings.ReplaceAll(strings.TrimPrefix(f, "/repo/format/"), "/", "_")
		m.files[n] = b
		names = append(names, n)
		if len(names) >= 300 {
			break
		}
	}
	t.Logf("files %d", len(names))
	solo := map[string]string{}
	for _, n := range names {
		solo[n] = runJob(m, n)
	}
	var wg sync.WaitGroup
	var mu sync.Mutex
	bad := 0
	for w := 0; w < 16; w++ {
		wg.Add(1)
		go func(w int) {
			defer wg.Done()
			for k := 0; k < len(names); k++ {
				n := names[(k*7+w*13)%len(names)]
				r := runJob(m, n)
				if r != solo[n] {
					mu.Lock()
					bad++
					if bad < 10 {
						t.Logf("MISMATCH %s solo=%s conc=%s", n, solo[n], r)
					}
					mu.Unlock()
				}
			}
		}(w)
	}
	wg.Wait()
	t.Logf("bad=%d", bad)
}
