package verifh

import (
	"testing"

	"github.com/wader/fq/pkg/ranges"
)

func TestGapCex(t *testing.T) {
	t.Logf("%v", ranges.Gaps(ranges.Range{Start: 0, Len: 6}, []ranges.Range{{Start: 0, Len: 1}, {Start: 2, Len: 0}}))
}
