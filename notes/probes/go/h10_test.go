package verifh

import (
	"context"
	"fmt"
	"os"
	"path/filepath"
	"sort"
	"strings"
	"testing"

	_ "github.com/wader/fq/format/all"
	"github.com/wader/fq/internal/bitiox"
	"github.com/wader/fq/pkg/bitio"
	"github.com/wader/fq/pkg/decode"
	"github.com/wader/fq/pkg/interp"
	"github.com/wader/fq/pkg/scalar"
)

type stats struct {
	trees, nodes int
	issues       map[string]int
	ex           map[string]string
}

func (s *stats) issue(kind, where string) {
	if kind != "struct-index-not-minus1" {
		fmt.Fprintf(os.Stderr, "ISSUE %s %s\n", kind, where)
	}
	s.issues[kind]++
	if _, ok := s.ex[kind]; !ok {
		s.ex[kind] = where
	}
}

func isSynth(v *decode.Value) bool {
	if sc, ok := v.V.(scalar.Scalarable); ok {
		return sc.ScalarFlags().IsSynthetic()
	}
	return false
}
func isGap(v *decode.Value) bool {
	if sc, ok := v.V.(scalar.Scalarable); ok {
		return sc.ScalarFlags().IsGap()
	}
	return false
}

func pathOf(v *decode.Value) string {
	var parts []string
	for v.Parent != nil {
		if c, ok := v.Parent.V.(*decode.Compound); ok && c.IsArray {
			parts = append([]string{fmt.Sprintf("[%d]", v.Index)}, parts...)
		} else {
			parts = append([]string{"." + v.Name}, parts...)
		}
		v = v.Parent
	}
	return strings.Join(parts, "")
}

func check(st *stats, file string, root *decode.Value) {
	st.trees++
	// per buffer root coverage
	type cov struct {
		l      int64
		leaves [][2]int64
		gaps   [][2]int64
	}
	covs := map[*decode.Value]*cov{}
	var walk func(v *decode.Value, bufRoot *decode.Value)
	walk = func(v *decode.Value, bufRoot *decode.Value) {
		st.nodes++
		if v.IsRoot {
			bufRoot = v
		}
		where := file + " " + pathOf(v)
		rl, err := bitiox.Len(v.RootReader)
		if err != nil {
			st.issue("len-error", where)
			return
		}
		ir := v.InnerRange()
		if !isSynth(v) {
			if ir.Start < 0 || ir.Len < 0 || ir.Stop() > rl {
				st.issue("range-outside-buffer", fmt.Sprintf("%s %v len=%d", where, ir, rl))
			}
		}
		if _, ok := covs[bufRoot]; !ok {
			brl, _ := bitiox.Len(bufRoot.RootReader)
			covs[bufRoot] = &cov{l: brl}
		}
		switch c := v.V.(type) {
		case *decode.Compound:
			names := map[string]bool{}
			var prevStart int64 = -1 << 62
			minS, maxE := int64(1<<62), int64(-1<<62)
			any := false
			for i, ch := range c.Children {
				if ch.Parent != v {
					st.issue("parent-link", where)
				}
				if c.IsArray {
					if ch.Index != i {
						st.issue("array-index", fmt.Sprintf("%s child %d has %d", where, i, ch.Index))
					}
				} else {
					if names[ch.Name] {
						st.issue("dup-name", where+" "+ch.Name)
					}
					names[ch.Name] = true
					if ch.Range.Start < prevStart {
						st.issue("struct-order", fmt.Sprintf("%s child %s start %d < %d", where, ch.Name, ch.Range.Start, prevStart))
					}
					prevStart = ch.Range.Start
					if ch.Index != -1 {
						st.issue("struct-index-not-minus1", where+" "+ch.Name)
					}
				}
				if !ch.IsRoot && !isSynth(ch) {
					any = true
					if ch.Range.Start < minS {
						minS = ch.Range.Start
					}
					if ch.Range.Stop() > maxE {
						maxE = ch.Range.Stop()
					}
				}
				walk(ch, bufRoot)
			}
			if any && !v.IsRoot {
				if v.Range.Start > minS || v.Range.Stop() < maxE {
					st.issue("compound-not-spanning", fmt.Sprintf("%s %v children %d-%d", where, v.Range, minS, maxE))
				}
			}
			if any && v.IsRoot {
				if ir.Start > minS || ir.Stop() < maxE {
					st.issue("root-compound-not-spanning", fmt.Sprintf("%s %v children %d-%d", where, ir, minS, maxE))
				}
			}
		default:
			if isSynth(v) {
				return
			}
			// leaf belongs to buffer root unless it is itself a root (raw nested buffer)
			if v.IsRoot {
				return
			}
			cv := covs[bufRoot]
			if isGap(v) {
				cv.gaps = append(cv.gaps, [2]int64{v.Range.Start, v.Range.Stop()})
			} else {
				cv.leaves = append(cv.leaves, [2]int64{v.Range.Start, v.Range.Stop()})
			}
		}
	}
	walk(root, root)
	for br, cv := range covs {
		if _, ok := br.V.(*decode.Compound); !ok {
			continue
		}
		where := file + " " + pathOf(br)
		if cv.l > 1<<24 {
			continue
		}
		bm := make([]byte, cv.l)
		for _, r := range cv.leaves {
			for i := r[0]; i < r[1] && i < cv.l; i++ {
				if i >= 0 {
					bm[i] |= 1
				}
			}
		}
		for _, r := range cv.gaps {
			for i := r[0]; i < r[1] && i < cv.l; i++ {
				if i >= 0 {
					if bm[i]&1 != 0 {
						st.issue("gap-overlaps-leaf", fmt.Sprintf("%s bit %d", where, i))
						break
					}
					bm[i] |= 2
				}
			}
		}
		holes := 0
		first := int64(-1)
		for i, b := range bm {
			if b == 0 {
				holes++
				if first < 0 {
					first = int64(i)
				}
			}
		}
		if holes > 0 {
			kind := "hole"
			if holes == 1 {
				kind = "hole-1bit"
			}
			// only roots decoded with FillGaps are expected to be covered
			st.issue(kind, fmt.Sprintf("%s holes=%d first=%d len=%d", where, holes, first, cv.l))
		}
	}
}

func TestCorpusTrees(t *testing.T) {
	files, _ := filepath.Glob("/repo/format/*/testdata/*")
	more, _ := filepath.Glob("/repo/format/*/testdata/*/*")
	files = append(files, more...)
	st := &stats{issues: map[string]int{}, ex: map[string]string{}}
	g, _ := interp.DefaultRegistry.Group("probe")
	for _, f := range files {
		if strings.HasSuffix(f, ".fqtest") || strings.HasSuffix(f, ".md") || strings.HasSuffix(f, ".jq") || strings.HasSuffix(f, ".sh") {
			continue
		}
		b, err := os.ReadFile(f)
		if err != nil || len(b) == 0 || len(b) > 2000000 || strings.Contains(f, "bigzero") {
			continue
		}
		func() {
			defer func() {
				if r := recover(); r != nil {
					st.issue("panic", fmt.Sprintf("%s %v", f, r))
				}
			}()
			dv, _, _ := decode.Decode(context.Background(), bitio.NewBitReader(b, -1), g, decode.Options{IsRoot: true, FillGaps: true})
			if dv != nil {
				check(st, strings.TrimPrefix(f, "/repo/format/"), dv)
			}
		}()
	}
	t.Logf("trees=%d nodes=%d", st.trees, st.nodes)
	var ks []string
	for k := range st.issues {
		ks = append(ks, k)
	}
	sort.Strings(ks)
	for _, k := range ks {
		t.Logf("%-28s %6d  e.g. %s", k, st.issues[k], st.ex[k])
	}
}
