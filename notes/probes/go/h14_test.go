package verifh

import (
	"context"
	"fmt"
	"math/rand"
	"sort"
	"strings"
	"testing"

	"github.com/wader/fq/pkg/bitio"
	"github.com/wader/fq/pkg/decode"
	"github.com/wader/fq/pkg/scalar"
)

// ---- program
type op struct {
	Kind string // leaf synth struct array framed limited seek format_len format_rest format_range bitbuf fail
	Name string
	N    int64
	P    int64
	Body []op
	Buf  int // nested buffer length bits for bitbuf
	OrRaw bool
}

var names = []string{"a", "b", "c"}

func genOps(rng *rand.Rand, depth int, n int) []op {
	var ops []op
	for i := 0; i < n; i++ {
		k := rng.Intn(14)
		nm := names[rng.Intn(len(names))]
		switch {
		case k < 4:
			ops = append(ops, op{Kind: "leaf", Name: nm, N: int64([]int{1, 3, 8, 5}[rng.Intn(4)])})
		case k == 4:
			ops = append(ops, op{Kind: "synth", Name: nm})
		case k == 5 && depth > 0:
			ops = append(ops, op{Kind: "struct", Name: nm, Body: genOps(rng, depth-1, rng.Intn(4))})
		case k == 6 && depth > 0:
			ops = append(ops, op{Kind: "array", Name: nm, Body: genOps(rng, depth-1, rng.Intn(4))})
		case k == 7 && depth > 0:
			ops = append(ops, op{Kind: "framed", N: int64(rng.Intn(14)), Body: genOps(rng, depth-1, rng.Intn(3))})
		case k == 8 && depth > 0:
			ops = append(ops, op{Kind: "limited", N: int64(rng.Intn(14)), Body: genOps(rng, depth-1, rng.Intn(3))})
		case k == 9:
			ops = append(ops, op{Kind: "seek", P: int64(rng.Intn(30))})
		case k == 10 && depth > 0:
			ops = append(ops, op{Kind: "format_len", Name: nm, N: int64(rng.Intn(16)), Body: genOps(rng, depth-1, rng.Intn(4)), OrRaw: rng.Intn(2) == 0})
		case k == 11 && depth > 0:
			ops = append(ops, op{Kind: "format_rest", Name: nm, Body: genOps(rng, depth-1, rng.Intn(4)), OrRaw: rng.Intn(2) == 0})
		case k == 12 && depth > 0:
			ops = append(ops, op{Kind: "bitbuf", Name: nm, Buf: rng.Intn(20), Body: genOps(rng, depth-1, rng.Intn(4))})
		case k == 13 && rng.Intn(3) == 0:
			ops = append(ops, op{Kind: "fail"})
		default:
			ops = append(ops, op{Kind: "leaf", Name: nm, N: 2})
		}
	}
	return ops
}

func (o op) String() string {
	s := o.Kind
	if o.Name != "" {
		s += ":" + o.Name
	}
	if o.N != 0 || o.Kind == "framed" || o.Kind == "limited" || o.Kind == "format_len" {
		s += fmt.Sprintf("(%d)", o.N)
	}
	if o.Kind == "seek" {
		s += fmt.Sprintf("(%d)", o.P)
	}
	if o.Kind == "bitbuf" {
		s += fmt.Sprintf("[%d]", o.Buf)
	}
	if o.OrRaw {
		s += "?"
	}
	if o.Body != nil {
		var bs []string
		for _, b := range o.Body {
			bs = append(bs, b.String())
		}
		s += "{" + strings.Join(bs, " ") + "}"
	}
	return s
}

// ---- real execution
func runReal(d *decode.D, ops []op) {
	for _, o := range ops {
		o := o
		switch o.Kind {
		case "leaf":
			d.FieldRawLen(o.Name, o.N)
		case "synth":
			d.FieldValueUint(o.Name, 7)
		case "struct":
			d.FieldStruct(o.Name, func(d *decode.D) { runReal(d, o.Body) })
		case "array":
			d.FieldArray(o.Name, func(d *decode.D) { runReal(d, o.Body) })
		case "framed":
			d.FramedFn(o.N, func(d *decode.D) { runReal(d, o.Body) })
		case "limited":
			d.LimitedFn(o.N, func(d *decode.D) { runReal(d, o.Body) })
		case "seek":
			d.SeekAbs(o.P)
		case "format_len":
			g := decode.FormatFn(func(d *decode.D) any { runReal(d, o.Body); return nil })
			if o.OrRaw {
				d.FieldFormatOrRawLen(o.Name, o.N, g, nil)
			} else {
				d.FieldFormatLen(o.Name, o.N, g, nil)
			}
		case "format_rest":
			g := decode.FormatFn(func(d *decode.D) any { runReal(d, o.Body); return nil })
			if o.OrRaw {
				d.FieldFormatOrRaw(o.Name, g, nil)
			} else {
				d.FieldFormat(o.Name, g, nil)
			}
		case "bitbuf":
			g := decode.FormatFn(func(d *decode.D) any { runReal(d, o.Body); return nil })
			nb := make([]byte, (o.Buf+7)/8)
			d.FieldFormatBitBuf(o.Name, bitio.NewBitReader(nb, int64(o.Buf)), g, nil)
		case "fail":
			d.Fatalf("fail")
		}
	}
}

// ---- projection of real tree
func proj(v *decode.Value, ind string, sb *strings.Builder) {
	kind := "leaf"
	if c, ok := v.V.(*decode.Compound); ok {
		kind = "struct"
		if c.IsArray {
			kind = "array"
		}
	} else if s, ok := v.V.(scalar.Scalarable); ok {
		if s.ScalarFlags().IsGap() {
			kind = "gap"
		} else if s.ScalarFlags().IsSynthetic() {
			kind = "synth"
		}
	}
	root := ""
	if v.IsRoot {
		root = " root"
	}
	e := ""
	if v.Err != nil {
		e = " err"
	}
	fmt.Fprintf(sb, "%s%s %s %d:%d idx=%d%s%s\n", ind, v.Name, kind, v.Range.Start, v.Range.Len, v.Index, root, e)
	if c, ok := v.V.(*decode.Compound); ok {
		for _, ch := range c.Children {
			proj(ch, ind+"  ", sb)
		}
	}
}

// ---- model
type mnode struct {
	name       string
	kind       string // struct array leaf gap synth
	start, ln  int64
	idx        int
	isRoot     bool
	err        bool
	children   []*mnode
}

type abort struct{ msg string }

type mdec struct {
	// window: coordinates are relative to base; limit is exclusive end in those coords
	limit int64
	pos   *int64 // shared cursor
	val   *mnode
	bufLen int64
}

func (d *mdec) addChild(n *mnode) {
	if d.val.kind == "struct" {
		for _, c := range d.val.children {
			if c.name == n.name {
				panic(abort{"dup"})
			}
		}
	}
	d.val.children = append(d.val.children, n)
}

func shift(n *mnode, delta int64) {
	// rebase this value and all descendants not crossing into nested roots (the value itself is rebased even if... only called on non-root decode results' walk)
	n.start += delta
	for _, c := range n.children {
		if c.isRoot {
			continue
		}
		shift(c, delta)
	}
}

func collectLeaves(n *mnode, top bool, out *[][2]int64) {
	if !top && n.isRoot {
		return
	}
	if n.kind == "struct" || n.kind == "array" {
		for _, c := range n.children {
			collectLeaves(c, false, out)
		}
		return
	}
	*out = append(*out, [2]int64{n.start, n.ln})
}

func maxStop(n *mnode, top bool, m *int64) {
	if !top && n.isRoot {
		return
	}
	if n.start+n.ln > *m {
		*m = n.start + n.ln
	}
	for _, c := range n.children {
		maxStop(c, false, m)
	}
}

func gapsModel(total int64, rs [][2]int64) [][2]int64 {
	if len(rs) == 0 {
		return [][2]int64{{0, total}}
	}
	sort.SliceStable(rs, func(i, j int) bool { return rs[i][0] < rs[j][0] })
	var merged [][2]int64
	i := 0
	for i < len(rs) {
		m := rs[i]
		if m[1] == 0 {
			i++
			continue
		}
		j := i + 1
		for ; j < len(rs); j++ {
			if m[0] <= rs[j][0] && m[0]+m[1]+1 >= rs[j][0] {
				if rs[j][0]+rs[j][1] > m[0]+m[1] {
					m[1] = rs[j][0] + rs[j][1] - m[0]
				}
			} else {
				break
			}
		}
		merged = append(merged, m)
		i = j
	}
	if len(merged) == 0 {
		return [][2]int64{{0, total}}
	}
	var gaps [][2]int64
	if merged[0][0] != 0 {
		gaps = append(gaps, [2]int64{0, merged[0][0]})
	}
	for k := 0; k+1 < len(merged); k++ {
		gaps = append(gaps, [2]int64{merged[k][0] + merged[k][1], merged[k+1][0] - merged[k][0] - merged[k][1]})
	}
	l := merged[len(merged)-1]
	if l[0]+l[1] != total {
		gaps = append(gaps, [2]int64{l[0] + l[1], total - l[0] - l[1]})
	}
	return gaps
}

func postProcess(n *mnode, top bool) {
	if !top && n.isRoot {
		return
	}
	for _, c := range n.children {
		postProcess(c, false)
	}
	if n.kind != "struct" && n.kind != "array" {
		return
	}
	first := true
	for _, c := range n.children {
		if c.isRoot || c.kind == "synth" {
			continue
		}
		if first {
			n.start, n.ln = c.start, c.ln
			first = false
		} else {
			s := n.start
			if c.start < s {
				s = c.start
			}
			e := n.start + n.ln
			if c.start+c.ln > e {
				e = c.start + c.ln
			}
			n.start, n.ln = s, e-s
		}
	}
	if n.kind == "struct" {
		sort.SliceStable(n.children, func(i, j int) bool { return n.children[i].start < n.children[j].start })
	}
	n.idx = -1
	for i, c := range n.children {
		if n.kind == "array" {
			c.idx = i
		} else {
			c.idx = -1
		}
	}
}

// decodeModel mirrors decode(): single format group. parent coords: window [start, start+ln) of a buffer of length bufLen
// returns the value (nil if failed and not kept), and whether failed
func decodeModel(ops []op, name string, bufLen, start, ln int64, fillGaps, isRoot bool) (v *mnode, failed bool, rangeErr bool) {
	if start == 0 && ln == 0 {
		ln = bufLen // as-built quirk: zero Range means whole buffer
	}
	if start+ln > bufLen || ln < 0 {
		return nil, true, true
	}
	p := int64(0)
	root := &mnode{name: name, kind: "struct", isRoot: isRoot}
	d := &mdec{limit: ln, pos: &p, val: root, bufLen: ln}
	func() {
		defer func() {
			if r := recover(); r != nil {
				if _, ok := r.(abort); ok {
					failed = true
					root.err = true
					return
				}
				panic(r)
			}
		}()
		runModel(d, ops)
	}()
	if fillGaps {
		var ls [][2]int64
		collectLeaves(root, true, &ls)
		for i, g := range gapsModel(ln, ls) {
			// bitiox.Range(d.bitBuf, gap.Start, gap.Len) must be valid else IOPanic (outside recover!) -> we treat as fatal mismatch marker
			gn := &mnode{name: fmt.Sprintf("gap%d", i), kind: "gap", start: g[0], ln: g[1]}
			root.children = append(root.children, gn)
		}
	}
	var ms int64
	maxStop(root, true, &ms)
	shift(root, start)
	root.start, root.ln = start, ms
	if isRoot {
		postProcess(root, true)
	}
	return root, failed, false
}

func runModel(d *mdec, ops []op) {
	for _, o := range ops {
		switch o.Kind {
		case "leaf":
			if *d.pos+o.N > d.limit {
				panic(abort{"eof"})
			}
			n := &mnode{name: o.Name, kind: "leaf", start: *d.pos, ln: o.N}
			*d.pos += o.N
			d.addChild(n)
		case "synth":
			d.addChild(&mnode{name: o.Name, kind: "synth", start: *d.pos, ln: 0})
		case "struct", "array":
			n := &mnode{name: o.Name, kind: o.Kind, start: *d.pos}
			d.addChild(n)
			cd := &mdec{limit: d.limit, pos: d.pos, val: n, bufLen: d.bufLen}
			runModel(cd, o.Body)
		case "framed", "limited":
			startPos := *d.pos
			if startPos+o.N > d.limit { // BitBufRange(0, first+n) outside
				panic(abort{"range"})
			}
			np := startPos
			nd := &mdec{limit: startPos + o.N, pos: &np, val: d.val, bufLen: d.bufLen}
			runModel(nd, o.Body)
			if o.Kind == "framed" {
				*d.pos = startPos + o.N
			} else {
				*d.pos = startPos + (np - startPos)
			}
		case "seek":
			*d.pos = o.P
		case "format_len", "format_rest":
			ln := o.N
			fill := true
			if o.Kind == "format_rest" {
				ln = d.limit - *d.pos
				fill = false
			}
			v, failed, rerr := decodeModel(o.Body, o.Name, d.limit, *d.pos, ln, fill, false)
			if failed || rerr {
				if o.OrRaw {
					// FieldRawLen(name, nBits or BitsLeft)
					if *d.pos+ln > d.limit || ln < 0 {
						panic(abort{"eof"})
					}
					n := &mnode{name: o.Name, kind: "leaf", start: *d.pos, ln: ln}
					*d.pos += ln
					d.addChild(n)
					continue
				}
				panic(abort{"subformat"})
			}
			d.addChild(v)
			if o.Kind == "format_len" {
				*d.pos += ln
			} else {
				*d.pos += v.ln
			}
		case "bitbuf":
			v, failed, _ := decodeModel(o.Body, o.Name, int64(o.Buf), 0, int64(o.Buf), true, true)
			if failed {
				panic(abort{"subformat"})
			}
			v.start = *d.pos
			d.addChild(v)
		case "fail":
			panic(abort{"fail"})
		}
	}
}

func mproj(n *mnode, ind string, sb *strings.Builder) {
	root := ""
	if n.isRoot {
		root = " root"
	}
	e := ""
	if n.err {
		e = " err"
	}
	fmt.Fprintf(sb, "%s%s %s %d:%d idx=%d%s%s\n", ind, n.name, n.kind, n.start, n.ln, n.idx, root, e)
	for _, c := range n.children {
		mproj(c, ind+"  ", sb)
	}
}

func TestDecodeModel(t *testing.T) {
	bad := 0
	nTrees, nFail := 0, 0
	for seed := int64(0); seed < 60000 && bad < 6; seed++ {
		rng := rand.New(rand.NewSource(seed))
		L := int64(rng.Intn(33))
		ops := genOps(rng, 3, 1+rng.Intn(5))
		buf := make([]byte, (L+7)/8)
		g := decode.FormatFn(func(d *decode.D) any { runReal(d, ops); return nil })
		var realS string
		func() {
			defer func() {
				if r := recover(); r != nil {
					realS = fmt.Sprintf("PANIC %v", r)
				}
			}()
			dv, _, err := decode.Decode(context.Background(), bitio.NewBitReader(buf, L), g, decode.Options{IsRoot: true, FillGaps: true})
			if dv == nil {
				realS = fmt.Sprintf("NIL %v", err)
				return
			}
			var sb strings.Builder
			proj(dv, "", &sb)
			realS = sb.String()
		}()
		mv, failed, _ := decodeModel(ops, "", L, 0, L, true, true)
		var sb strings.Builder
		mproj(mv, "", &sb)
		nTrees++
		if failed {
			nFail++
		}
		if sb.String() != realS {
			bad++
			var ps []string
			for _, o := range ops {
				ps = append(ps, o.String())
			}
			t.Logf("seed=%d L=%d prog: %s\n--- real\n%s--- model\n%s", seed, L, strings.Join(ps, " "), realS, sb.String())
		}
	}
	t.Logf("trees=%d failed=%d bad=%d", nTrees, nFail, bad)
}
