package verifh

import (
	"context"
	"fmt"
	"math"
	"math/big"
	"math/rand"
	"reflect"
	"testing"

	"github.com/wader/fq/pkg/bitio"
	"github.com/wader/fq/pkg/decode"
)

func bitsToBig(bits string) *big.Int {
	n := new(big.Int)
	n.SetString(bits, 2)
	return n
}

func swapBytes(bits string) string {
	out := ""
	for i := len(bits) - 8; i >= 0; i -= 8 {
		out += bits[i : i+8]
	}
	return out
}

func TestScalars(t *testing.T) {
	rng := rand.New(rand.NewSource(1))
	bad := 0
	fail := func(f string, a ...any) {
		bad++
		if bad < 25 {
			t.Logf(f, a...)
		}
	}
	patterns := func(n int) []string {
		ps := []string{}
		z, o, a1, a2 := "", "", "", ""
		for i := 0; i < n; i++ {
			z += "0"
			o += "1"
			a1 += string('0' + byte(i%2))
			a2 += string('0' + byte((i+1)%2))
		}
		ps = append(ps, z, o, a1, a2, "1"+z[1:], "0"+o[1:])
		for k := 0; k < 6; k++ {
			r := ""
			for i := 0; i < n; i++ {
				r += string('0' + byte(rng.Intn(2)))
			}
			ps = append(ps, r)
		}
		return ps
	}
	cnt := 0
	for n := 1; n <= 64; n++ {
		for align := 0; align < 8; align++ {
			for _, pat := range patterns(n) {
				pre := ""
				for i := 0; i < align; i++ {
					pre += string('0' + byte(rng.Intn(2)))
				}
				post := "1011001110001111"
				buf, nb := bitio.BytesFromBitString(pre + pat + post)
				type res struct {
					name string
					v    any
					pos  int64
					err  error
				}
				var rs []res
				g := decode.FormatFn(func(d *decode.D) any {
					call := func(name string) {
						d.SeekAbs(int64(align))
						m := reflect.ValueOf(d).MethodByName(name)
						if !m.IsValid() {
							return
						}
						out := m.Call(nil)
						var err error
						if len(out) == 2 && !out[1].IsNil() {
							err = out[1].Interface().(error)
						}
						rs = append(rs, res{name, out[0].Interface(), d.Pos(), err})
					}
					call(fmt.Sprintf("TryU%d", n))
					call(fmt.Sprintf("TryS%d", n))
					if n >= 8 {
						call(fmt.Sprintf("TryU%dBE", n))
						call(fmt.Sprintf("TryS%dBE", n))
						if n%8 == 0 {
							call(fmt.Sprintf("TryU%dLE", n))
							call(fmt.Sprintf("TryS%dLE", n))
						}
					}
					// big ints
					for _, nm := range []string{"TryUBigIntBE", "TryUBigIntLE", "TrySBigIntBE", "TrySBigIntLE"} {
						if nm[len(nm)-2:] == "LE" && n%8 != 0 {
							continue
						}
						d.SeekAbs(int64(align))
						m := reflect.ValueOf(d).MethodByName(nm)
						out := m.Call([]reflect.Value{reflect.ValueOf(n)})
						var err error
						if !out[1].IsNil() {
							err = out[1].Interface().(error)
						}
						rs = append(rs, res{nm, out[0].Interface(), d.Pos(), err})
					}
					return nil
				})
				_, _, err := decode.Decode(context.Background(), bitio.NewBitReader(buf, nb), g, decode.Options{IsRoot: true})
				if err != nil {
					fail("decode err n=%d align=%d: %v", n, align, err)
					continue
				}
				for _, r := range rs {
					cnt++
					bits := pat
					if len(r.name) > 2 && r.name[len(r.name)-2:] == "LE" {
						bits = swapBytes(pat)
					}
					u := bitsToBig(bits)
					s := new(big.Int).Set(u)
					if bits[0] == '1' {
						s.Sub(s, new(big.Int).Lsh(big.NewInt(1), uint(n)))
					}
					if r.err != nil {
						fail("%s n=%d align=%d pat=%s err=%v", r.name, n, align, pat, r.err)
						continue
					}
					if r.pos != int64(align+n) {
						fail("%s n=%d align=%d pos=%d want %d", r.name, n, align, r.pos, align+n)
					}
					var got *big.Int
					switch v := r.v.(type) {
					case uint64:
						got = new(big.Int).SetUint64(v)
						if got.Cmp(u) != 0 {
							fail("%s n=%d align=%d pat=%s got %v want %v", r.name, n, align, pat, got, u)
						}
					case int64:
						got = big.NewInt(v)
						if got.Cmp(s) != 0 {
							fail("%s n=%d align=%d pat=%s got %v want %v", r.name, n, align, pat, got, s)
						}
					case *big.Int:
						want := u
						if r.name[3] == 'S' {
							want = s
						}
						if v.Cmp(want) != 0 {
							fail("%s n=%d align=%d pat=%s got %v want %v", r.name, n, align, pat, v, want)
						}
					}
				}
			}
		}
	}
	// floats
	for _, c := range []struct {
		name string
		n    int
	}{{"TryF32", 32}, {"TryF64", 64}, {"TryF16", 16}, {"TryF32LE", 32}, {"TryF64LE", 64}} {
		for k := 0; k < 3000; k++ {
			align := rng.Intn(8)
			var raw uint64 = rng.Uint64()
			if k%5 == 0 {
				raw = []uint64{0, 1 << 63, 0x7ff0000000000000, 0x7f800000, 0x7c00, 0x3c00, 1, 0x8000, 0x7fffffff}[rng.Intn(9)]
			}
			pat := fmt.Sprintf("%064b", raw)[64-c.n:]
			pre := ""
			for i := 0; i < align; i++ {
				pre += "1"
			}
			buf, nb := bitio.BytesFromBitString(pre + pat + "0000000000")
			var got float64
			var gerr error
			g := decode.FormatFn(func(d *decode.D) any {
				d.SeekAbs(int64(align))
				out := reflect.ValueOf(d).MethodByName(c.name).Call(nil)
				got = out[0].Float()
				if !out[1].IsNil() {
					gerr = out[1].Interface().(error)
				}
				return nil
			})
			decode.Decode(context.Background(), bitio.NewBitReader(buf, nb), g, decode.Options{IsRoot: true})
			bits := pat
			if c.name[len(c.name)-2:] == "LE" {
				bits = swapBytes(pat)
			}
			v := bitsToBig(bits).Uint64()
			var want float64
			switch c.n {
			case 64:
				want = math.Float64frombits(v)
			case 32:
				want = float64(math.Float32frombits(uint32(v)))
			case 16:
				sign := (v >> 15) & 1
				e := (v >> 10) & 0x1f
				m := v & 0x3ff
				switch {
				case e == 0:
					want = math.Ldexp(float64(m), -24)
				case e == 31 && m == 0:
					want = math.Inf(1)
				case e == 31:
					want = math.NaN()
				default:
					want = math.Ldexp(float64(m|0x400), int(e)-25)
				}
				if sign == 1 {
					want = -want
				}
			}
			cnt++
			if gerr != nil || !(got == want || (math.IsNaN(got) && math.IsNaN(want))) || (got == 0 && math.Signbit(got) != math.Signbit(want)) {
				fail("%s align=%d pat=%s got %v want %v err=%v", c.name, align, pat, got, want, gerr)
			}
		}
	}
	t.Logf("checked=%d bad=%d", cnt, bad)
}
