package verifh

import (
	"bytes"
	"context"
	"encoding/json"
	"fmt"
	"io"
	"io/fs"
	"os"
	"strings"
	"testing"

	_ "github.com/wader/fq/format/all"
	"github.com/wader/fq/pkg/interp"
	"github.com/wader/gojq"
)

type vfs struct{}

func (vfs) Open(name string) (fs.File, error) { return nil, fmt.Errorf("%s: file not found", name) }

type vin struct {
	interp.FileReader
}

func (vin) IsTerminal() bool { return false }
func (vin) Size() (int, int) { return 120, 25 }

type vout struct{ io.Writer }

func (vout) Size() (int, int) { return 120, 25 }
func (vout) IsTerminal() bool { return false }

type vos struct {
	args   []string
	stdout *bytes.Buffer
	stderr *bytes.Buffer
}

func (o *vos) Platform() interp.Platform { return interp.Platform{} }
func (o *vos) Stdin() interp.Input {
	return vin{FileReader: interp.FileReader{R: bytes.NewBuffer(nil)}}
}
func (o *vos) Stdout() interp.Output                             { return vout{o.stdout} }
func (o *vos) Stderr() interp.Output                             { return vout{o.stderr} }
func (o *vos) InterruptChan() chan struct{}                      { return nil }
func (o *vos) Environ() []string                                 { return []string{"NO_COLOR=1"} }
func (o *vos) Args() []string                                    { return o.args }
func (o *vos) ConfigDir() (string, error)                        { return "/config", nil }
func (o *vos) FS() fs.FS                                         { return vfs{} }
func (o *vos) History() ([]string, error)                        { return nil, nil }
func (o *vos) Readline(opts interp.ReadlineOpts) (string, error) { return "", io.EOF }

func runFq(prog string, in string) (string, string, int) {
	o := &vos{args: []string{"fq", "-nc", "--argjson", "in", in, "$in | " + prog}, stdout: &bytes.Buffer{}, stderr: &bytes.Buffer{}}
	i, err := interp.New(o, interp.DefaultRegistry)
	if err != nil {
		return "", err.Error(), -1
	}
	err = i.Main(context.Background(), o.Stdout(), "v")
	code := 0
	if err != nil {
		if ex, ok := err.(interp.Exiter); ok {
			code = ex.ExitCode()
		} else {
			code = -2
		}
	}
	return o.stdout.String(), o.stderr.String(), code
}

func runGojq(prog string, in string) (string, string) {
	q, err := gojq.Parse(prog)
	if err != nil {
		return "", "parse: " + err.Error()
	}
	c, err := gojq.Compile(q)
	if err != nil {
		return "", "compile: " + err.Error()
	}
	var v any
	d := json.NewDecoder(strings.NewReader(in))
	d.UseNumber()
	if err := d.Decode(&v); err != nil {
		return "", err.Error()
	}
	v = norm(v)
	it := c.Run(v)
	var sb strings.Builder
	for {
		x, ok := it.Next()
		if !ok {
			break
		}
		if e, ok := x.(error); ok {
			return sb.String(), "error: " + e.Error()
		}
		b, _ := gojq.Marshal(x)
		sb.Write(b)
		sb.WriteByte('\n')
	}
	return sb.String(), ""
}

func norm(v any) any {
	switch v := v.(type) {
	case json.Number:
		if i, err := v.Int64(); err == nil {
			return int(i)
		}
		f, _ := v.Float64()
		return f
	case []any:
		for i := range v {
			v[i] = norm(v[i])
		}
		return v
	case map[string]any:
		for k := range v {
			v[k] = norm(v[k])
		}
		return v
	}
	return v
}

func TestDiff(t *testing.T) {
	b, _ := os.ReadFile("/tmp/probe/c07.txt")
	for _, line := range strings.Split(string(b), "\n") {
		if line == "" {
			continue
		}
		parts := strings.SplitN(line, "\t", 2)
		in, prog := parts[0], parts[1]
		fo, fe, code := runFq(prog, in)
		gout, ge := runGojq(prog, in)
		st := "SAME"
		if fo != gout || (fe == "") != (ge == "") {
			st = "DIFF"
		}
		if st == "DIFF" || (fe != "" && strings.TrimSpace(fe) != strings.TrimSpace(ge)) {
			t.Logf("%s in=%s prog=%s\n   fq: %q err=%q code=%d\n   gj: %q err=%q", st, in, prog, fo, fe, code, gout, ge)
		}
	}
}
