package verifh

import (
	"bytes"
	"errors"
	"fmt"
	"io"
	"math/rand"
	"testing"

	"github.com/wader/fq/internal/bitiox"
	"github.com/wader/fq/pkg/bitio"
)

type node struct {
	r    bitio.ReaderAtSeeker
	bits string
	desc string
}

func bitsOf(b []byte, n int) string { return bitio.BitStringFromBytes(b, int64(n)) }

func gen(rng *rand.Rand, depth int) node {
	k := rng.Intn(5)
	if depth == 0 {
		k = rng.Intn(2)
	}
	switch k {
	case 0: // leaf
		nb := rng.Intn(6)
		b := make([]byte, nb)
		rng.Read(b)
		n := nb * 8
		if nb > 0 && rng.Intn(2) == 0 {
			n = rng.Intn(nb*8 + 1)
		}
		return node{bitio.NewBitReader(b, int64(n)), bitsOf(b, n), fmt.Sprintf("leaf(%x,%d)", b, n)}
	case 1: // zero
		n := rng.Intn(20)
		s := ""
		for i := 0; i < n; i++ {
			s += "0"
		}
		zr := bitiox.NewZeroAtSeeker(int64(n))
		// wrap zero in multi to get ReaderAtSeeker
		m, _ := bitio.NewMultiReader(zr)
		return node{m, s, fmt.Sprintf("zero(%d)", n)}
	case 2, 3: // section
		c := gen(rng, depth-1)
		l := len(c.bits)
		off := rng.Intn(l + 1)
		n := rng.Intn(l - off + 1)
		r, err := bitiox.Range(c.r, int64(off), int64(n))
		if err != nil {
			panic(err)
		}
		return node{r, c.bits[off : off+n], fmt.Sprintf("sec(%s,%d,%d)", c.desc, off, n)}
	default: // multi
		cnt := rng.Intn(4)
		var rs []bitio.ReadAtSeeker
		s := ""
		d := "multi("
		for i := 0; i < cnt; i++ {
			c := gen(rng, depth-1)
			rs = append(rs, c.r)
			s += c.bits
			d += c.desc + ","
		}
		m, err := bitio.NewMultiReader(rs...)
		if err != nil {
			panic(err)
		}
		return node{m, s, d + ")"}
	}
}

func TestBitioRandom(t *testing.T) {
	bad := 0
	for seed := int64(0); seed < 200000 && bad < 12; seed++ {
		rng := rand.New(rand.NewSource(seed))
		nd := gen(rng, 3)
		L := len(nd.bits)
		pos := 0
		for op := 0; op < 12; op++ {
			fail := func(f string, a ...any) {
				bad++
				t.Logf("seed=%d %s L=%d pos=%d: %s", seed, nd.desc, L, pos, fmt.Sprintf(f, a...))
			}
			switch rng.Intn(5) {
			case 0: // ReadBitsAt
				n := rng.Intn(70)
				off := rng.Intn(L + 3)
				p := make([]byte, (n+7)/8+1)
				k, err := nd.r.ReadBitsAt(p, int64(n), int64(off))
				if k < 0 || int(k) > n || off+int(k) > L && k > 0 {
					fail("readat n=%d off=%d -> k=%d err=%v beyond", n, off, k, err)
					break
				}
				if k > 0 && bitsOf(p, int(k)) != nd.bits[off:off+int(k)] {
					fail("readat n=%d off=%d -> k=%d bits %s want %s", n, off, k, bitsOf(p, int(k)), nd.bits[off:off+int(k)])
				}
				if errors.Is(err, io.EOF) && off+int(k) < L {
					fail("readat n=%d off=%d -> k=%d early EOF", n, off, k)
				}
				if err == nil && k == 0 && n > 0 {
					fail("readat n=%d off=%d -> stall", n, off)
				}
			case 1: // ReadBits
				n := rng.Intn(70)
				p := make([]byte, (n+7)/8+1)
				k, err := nd.r.ReadBits(p, int64(n))
				if pos <= L {
					if int(k) > n || pos+int(k) > L {
						fail("read n=%d -> k=%d err=%v beyond", n, k, err)
						break
					}
					if k > 0 && bitsOf(p, int(k)) != nd.bits[pos:pos+int(k)] {
						fail("read n=%d -> k=%d bits %s want %s", n, k, bitsOf(p, int(k)), nd.bits[pos:pos+int(k)])
					}
					if errors.Is(err, io.EOF) && pos+int(k) < L {
						fail("read n=%d -> k=%d early EOF", n, k)
					}
					if err == nil && k == 0 && n > 0 {
						fail("read n=%d -> stall", n)
					}
				}
				pos += int(k)
			case 2: // Seek
				wh := rng.Intn(3)
				off := rng.Intn(2*L+5) - L - 2
				base := []int{0, pos, L}[wh]
				res, err := nd.r.SeekBits(int64(off), wh)
				tgt := base + off
				if tgt < 0 && err == nil {
					fail("seek off=%d wh=%d -> %d no error for negative", off, wh, res)
				}
				if err == nil {
					if int(res) != tgt {
						fail("seek off=%d wh=%d -> %d want %d", off, wh, res, tgt)
					}
					pos = int(res)
				}
				cur, _ := nd.r.SeekBits(0, io.SeekCurrent)
				if int(cur) != pos {
					fail("after seek off=%d wh=%d err=%v cur=%d want %d", off, wh, err, cur, pos)
					pos = int(cur)
				}
			case 3: // ReadAtFull
				n := rng.Intn(70)
				off := rng.Intn(L + 2)
				p := make([]byte, (n+7)/8+1)
				_, err := bitio.ReadAtFull(nd.r, p, int64(n), int64(off))
				if off+n <= L {
					if err != nil {
						fail("readatfull n=%d off=%d err=%v", n, off, err)
					} else if bitsOf(p, n) != nd.bits[off:off+n] {
						fail("readatfull n=%d off=%d bits %s want %s", n, off, bitsOf(p, n), nd.bits[off:off+n])
					}
				} else if err == nil && n > 0 {
					fail("readatfull n=%d off=%d no error past end", n, off)
				}
			case 4: // io copy of clone
				c, err := bitio.CloneReaderAtSeeker(nd.r)
				if err != nil {
					break
				}
				var buf bytes.Buffer
				if _, err := io.Copy(&buf, bitio.NewIOReader(c)); err != nil {
					fail("copy err %v", err)
					break
				}
				want, _ := bitio.BytesFromBitString(nd.bits)
				if !bytes.Equal(buf.Bytes(), want) {
					fail("copy got %x want %x", buf.Bytes(), want)
				}
			}
		}
	}
	t.Logf("bad=%d", bad)
}
