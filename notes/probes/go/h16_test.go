package verifh

import (
	"context"
	"fmt"
	"math/rand"
	"testing"
	"time"

	"github.com/wader/fq/internal/ctxstack"
)

// sequential model: stack of ids; pop(idx) cancels everything >= idx; interrupt cancels top; stop cancels all.
func TestCtxSeq(t *testing.T) {
	bad := 0
	for seed := int64(0); seed < 3000 && bad < 5; seed++ {
		rng := rand.New(rand.NewSource(seed))
		trig := make(chan struct{})
		ack := make(chan struct{})
		s := ctxstack.New(func(stopCh chan struct{}) {
			select {
			case <-stopCh:
			case <-trig:
			}
		})
		_ = ack
		type ent struct {
			ctx    context.Context
			pop    func()
			popped bool
		}
		var all []*ent
		var stack []*ent // model stack (live entries)
		cancelled := map[*ent]bool{}
		hist := ""
		stopped := false
		for op := 0; op < 10 && !stopped; op++ {
			switch k := rng.Intn(10); {
			case k < 4:
				parent := context.Background()
				if len(stack) > 0 && rng.Intn(2) == 0 {
					parent = stack[len(stack)-1].ctx
				}
				ctx, pop := s.Push(parent)
				e := &ent{ctx: ctx, pop: pop}
				all = append(all, e)
				stack = append(stack, e)
				hist += " push"
			case k < 7 && len(all) > 0:
				// pop some entry (possibly out of order or already popped)
				e := all[rng.Intn(len(all))]
				idx := -1
				for i, x := range stack {
					if x == e {
						idx = i
					}
				}
				hist += fmt.Sprintf(" pop(%d)", idx)
				e.pop()
				if !e.popped {
					e.popped = true
					if idx >= 0 {
						for _, x := range stack[idx:] {
							cancelled[x] = true
						}
						stack = stack[:idx]
					}
					cancelled[e] = true
				}
			case k < 9:
				hist += " intr"
				trig <- struct{}{}
				// give goroutine time to act (sequential use: nothing else running)
				time.Sleep(2 * time.Millisecond)
				if len(stack) > 0 {
					cancelled[stack[len(stack)-1]] = true
				}
			default:
				hist += " stop"
				s.Stop()
				for _, x := range stack {
					cancelled[x] = true
				}
				stopped = true
			}
			// derive expected cancellation incl. parent propagation
			for i, e := range all {
				want := cancelled[e]
				// children of cancelled parents are cancelled too (context semantics) - approximate: skip entries whose parent may be cancelled
				got := e.ctx.Err() != nil
				if got != want && !(got && !want) { // tolerate extra cancellation via parent ctx
					bad++
					t.Logf("seed=%d hist=%s: entry %d cancelled=%v want %v", seed, hist, i, got, want)
					break
				}
				if got && !want {
					cancelled[e] = true // propagated by parent
				}
			}
		}
		if !stopped {
			s.Stop()
		}
	}
	t.Logf("bad=%d", bad)
}
