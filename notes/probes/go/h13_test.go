package verifh

import (
	"bytes"
	"encoding/binary"
	"net"
	"os"
	"testing"

	"github.com/gopacket/gopacket"
	"github.com/gopacket/gopacket/layers"
)

func tcpBytes(s seg) (ipSrc, ipDst net.IP, tcpb []byte) {
	cip, sip := net.IP{10, 0, 0, 1}, net.IP{10, 0, 0, 2}
	ip := &layers.IPv4{Version: 4, IHL: 5, TTL: 64, Protocol: layers.IPProtocolTCP}
	tcp := &layers.TCP{Seq: s.seq, Ack: s.ack, SYN: s.syn, FIN: s.fin, ACK: s.ackf, Window: 65535}
	if s.c2s {
		ip.SrcIP, ip.DstIP = cip, sip
		tcp.SrcPort, tcp.DstPort = 40000, 80
	} else {
		ip.SrcIP, ip.DstIP = sip, cip
		tcp.SrcPort, tcp.DstPort = 80, 40000
	}
	tcp.SetNetworkLayerForChecksum(ip)
	buf := gopacket.NewSerializeBuffer()
	if err := gopacket.SerializeLayers(buf, gopacket.SerializeOptions{FixLengths: true, ComputeChecksums: true}, tcp, gopacket.Payload(s.payload)); err != nil {
		panic(err)
	}
	return ip.SrcIP, ip.DstIP, append([]byte(nil), buf.Bytes()...)
}

func ipPkt(src, dst net.IP, id uint16, payload []byte, fragOff int, mf bool) []byte {
	ip := &layers.IPv4{Version: 4, IHL: 5, TTL: 64, Protocol: layers.IPProtocolTCP, Id: id, SrcIP: src, DstIP: dst, FragOffset: uint16(fragOff / 8)}
	if mf {
		ip.Flags = layers.IPv4MoreFragments
	}
	buf := gopacket.NewSerializeBuffer()
	if err := gopacket.SerializeLayers(buf, gopacket.SerializeOptions{FixLengths: true, ComputeChecksums: true}, ip, gopacket.Payload(payload)); err != nil {
		panic(err)
	}
	return append([]byte(nil), buf.Bytes()...)
}

func link(kind string, ippkt []byte) []byte {
	switch kind {
	case "eth":
		return append([]byte{6, 5, 4, 3, 2, 1, 1, 2, 3, 4, 5, 6, 0x08, 0x00}, ippkt...)
	case "raw":
		return ippkt
	case "sll":
		h := make([]byte, 16)
		binary.BigEndian.PutUint16(h[0:], 0)
		binary.BigEndian.PutUint16(h[2:], 1)
		binary.BigEndian.PutUint16(h[4:], 6)
		binary.BigEndian.PutUint16(h[14:], 0x0800)
		return append(h, ippkt...)
	case "null":
		return append([]byte{2, 0, 0, 0}, ippkt...)
	}
	panic(kind)
}

var linkType = map[string]uint32{"eth": 1, "raw": 101, "sll": 113, "null": 0}

func pcapOf(kind string, pkts [][]byte, be bool) []byte {
	b := &bytes.Buffer{}
	var bo binary.ByteOrder = binary.LittleEndian
	if be {
		bo = binary.BigEndian
	}
	w := func(vs ...any) {
		for _, v := range vs {
			binary.Write(b, bo, v)
		}
	}
	w(uint32(0xa1b2c3d4), uint16(2), uint16(4), int32(0), uint32(0), uint32(65535), linkType[kind])
	for i, p := range pkts {
		w(uint32(i), uint32(0), uint32(len(p)), uint32(len(p)))
		b.Write(p)
	}
	return b.Bytes()
}

func TestTCPFrag(t *testing.T) {
	hs := []seg{
		{c2s: true, seq: 4294967290, syn: true},
		{c2s: false, seq: 5000, ack: 4294967291, syn: true, ackf: true},
		{c2s: true, seq: 4294967291, ack: 5001, ackf: true},
	}
	big := bytes.Repeat([]byte("0123456789abcdef"), 8) // 128 bytes
	A := seg{c2s: true, seq: 4294967291, ack: 5001, ackf: true, payload: big}
	B := seg{c2s: true, seq: 123, ack: 5001, ackf: true, payload: []byte("TAIL")} // wraps
	os.MkdirAll("/tmp/probe/tcp2", 0o755)
	for _, kind := range []string{"eth", "raw", "sll", "null"} {
		for _, be := range []bool{false, true} {
			var pk [][]byte
			id := uint16(1)
			add := func(s seg, frag bool) {
				src, dst, tb := tcpBytes(s)
				if !frag {
					pk = append(pk, link(kind, ipPkt(src, dst, id, tb, 0, false)))
				} else {
					// 3 fragments: 0..64, 64..112, 112..end ; send out of order 2,1,3
					f1 := ipPkt(src, dst, id, tb[:64], 0, true)
					f2 := ipPkt(src, dst, id, tb[64:112], 64, true)
					f3 := ipPkt(src, dst, id, tb[112:], 112, false)
					pk = append(pk, link(kind, f2), link(kind, f1), link(kind, f3))
				}
				id++
			}
			for _, s := range hs {
				add(s, false)
			}
			add(A, true)
			add(B, false)
			name := kind
			if be {
				name += "_be"
			}
			os.WriteFile("/tmp/probe/tcp2/"+name+".pcap", pcapOf(kind, pk, be), 0o644)
		}
	}
}
