package verifh

import (
	"bytes"
	"errors"
	"fmt"
	"io"
	"math/rand"
	"os"
	"time"
	"testing"

	"github.com/wader/fq/internal/aheadreadseeker"
	"github.com/wader/fq/internal/progressreadseeker"
	"github.com/wader/fq/pkg/bitio"
)

// byte-level ReadSeeker vs bytes.Reader reference
var curHist *string
var curSeed int64

func TestByteAdapters(t *testing.T) {
	go func() {
		last := int64(-1)
		for {
			time.Sleep(3 * time.Second)
			if curSeed == last && curHist != nil {
				fmt.Printf("STUCK seed=%d hist=%s\n", curSeed, *curHist)
				os.Exit(3)
			}
			last = curSeed
		}
	}()
	kinds := []string{"ioreadseeker(bits)", "ahead(ioreadseeker)", "bitrs(ahead)"}
	for _, kind := range kinds {
		bad := 0
		firstSeeds := []int64{}
		for seed := int64(0); seed < 20000; seed++ {
			rng := rand.New(rand.NewSource(seed))
			n := rng.Intn(40)
			data := make([]byte, n)
			for i := range data {
				data[i] = byte(i + 1)
			}
			nbits := n * 8
			if kind == "ioreadseeker(bits)" || kind == "ahead(ioreadseeker)" {
				if n > 0 && rng.Intn(2) == 0 {
					nbits = rng.Intn(n*8 + 1)
				}
			}
			// logical bytes (zero padded last byte)
			lb := (nbits + 7) / 8
			want := make([]byte, lb)
			copy(want, data[:lb])
			if nbits%8 != 0 {
				want[lb-1] &= byte(0xff << (8 - nbits%8))
			}
			var rs io.ReadSeeker
			switch kind {
			case "ahead":
				rs = aheadreadseeker.New(bytes.NewReader(data), 1+rng.Intn(6))
			case "progress+ahead":
				rs = aheadreadseeker.New(progressreadseeker.New(bytes.NewReader(data), 4, int64(n)+1, func(int64, int64) {}), 1+rng.Intn(6))
			case "ioreadseeker(bits)":
				rs = bitio.NewIOReadSeeker(bitio.NewBitReader(data, int64(nbits)))
			case "ahead(ioreadseeker)":
				rs = aheadreadseeker.New(bitio.NewIOReadSeeker(bitio.NewBitReader(data, int64(nbits))), 1+rng.Intn(6))
			case "bitrs(ahead)":
				rs = bitio.NewIOReadSeeker(bitio.NewIOBitReadSeeker(aheadreadseeker.New(bytes.NewReader(data), 1+rng.Intn(6))))
			}
			pos := 0
			L := len(want)
			ok := true
			hist := ""
			curHist = &hist
			curSeed = seed
			for op := 0; op < 10 && ok; op++ {
				if rng.Intn(3) == 0 {
					wh := rng.Intn(3)
					off := rng.Intn(2*L+3) - L - 1
					tgt := []int{0, pos, L}[wh] + off
					res, err := rs.Seek(int64(off), wh)
					hist += fmt.Sprintf(" seek(%d,%d)->%d,%v", off, wh, res, err != nil)
					if tgt < 0 {
						if err == nil {
							ok = false
							hist += " NOERR-NEG"
						}
						// after failed seek, resync position expectations by asking current
						cur, cerr := rs.Seek(0, io.SeekCurrent)
						if cerr == nil {
							if int(cur) != pos {
								hist += fmt.Sprintf(" POS-MOVED-ON-ERR cur=%d want=%d", cur, pos)
								ok = false
							}
						}
						continue
					}
					if err != nil {
						hist += " ERR-ON-VALID"
						ok = false
						continue
					}
					if int(res) != tgt {
						ok = false
						hist += fmt.Sprintf(" WRONG-RES want %d", tgt)
					}
					pos = tgt
				} else {
					k := 1 + rng.Intn(8)
					p := make([]byte, k)
					hist += fmt.Sprintf(" read(%d)...", k)
					got, err := rs.Read(p)
					hist += fmt.Sprintf(" read(%d)->%d,%v", k, got, err)
					if got < 0 || got > k {
						ok = false
						continue
					}
					if pos >= L {
						if got != 0 {
							ok = false
							hist += " DATA-PAST-END"
						}
						if k > 0 && !errors.Is(err, io.EOF) {
							ok = false
							hist += " NO-EOF-AT-END"
						}
						continue
					}
					if pos+got > L || !bytes.Equal(p[:got], want[pos:pos+got]) {
						ok = false
						hist += fmt.Sprintf(" WRONG-DATA got %x want %x", p[:got], want[pos:min(L, pos+got)])
					}
					if got == 0 && k > 0 && err == nil {
						ok = false
						hist += " STALL"
					}
					if errors.Is(err, io.EOF) && pos+got < L {
						ok = false
						hist += " EARLY-EOF"
					}
					pos += got
				}
			}
			if !ok {
				bad++
				if len(firstSeeds) < 3 {
					firstSeeds = append(firstSeeds, seed)
					t.Logf("%s seed=%d n=%d nbits=%d:%s", kind, seed, n, nbits, hist)
				}
			}
		}
		t.Logf("%s: bad=%d/20000", kind, bad)
	}
}
