def chk:
  . as $root
  | [ .. | select(_exttype == "decode_value") ] as $vs
  | reduce $vs[] as $v ({n:0, bad:[]};
      .n += 1
      | ($v | topath) as $p
      | ($root | try getpath($p) catch null) as $w
      | if ($w == null) or ($w._start != $v._start) or ($w._stop != $v._stop) or ($w._name != $v._name) or (($w|_exttype) != "decode_value") then
          .bad += [{k:"path", p:$p}]
        else . end
      | ( try (
            ($v._buffer_root) as $br
            | if ($v | _is_scalar) and ($v._len > 0) and ($v._len < 100000) and (($v | try tobits catch null) != null) then
                ( ($v | tobits | tostring) as $a
                | ($br | tobits | .[$v._start:$v._stop] | tostring) as $b
                | if $v._start != null and ($v == $br | not) and $a != $b then "tobits" else null end)
              else null end
          ) catch "err:\(.)" ) as $r
      | if $r then .bad += [{k:$r, p:$p}] else . end
    )
  | {n, nbad: (.bad|length), bad: (.bad[0:3])};
