def qs: [
 "type", "length", "keys", "has(0)", "has(\"a\")", ".[0]", ".[-1]", ".[1:]", ".[]", "[.[]?]", "paths|tojson", "[paths]|length", "tojson", "tostring", "to_entries", "[..]|length",
 ". == .", ". < 1", "[., 1] | sort", ". + 0", ". + \"\"", ". * 2", "-(.)", "not", "ascii_downcase", "test(\"a\")", "explode", "ltrimstr(\"a\")", "tonumber", "@base64", "@json", "@text",
 "[.] | add", "{a: .}", "[., .] | unique", "if . then 1 else 2 end", ". // 3", "select(. != null)", "isvalid(.a)?", "type == \"number\"", "floor?", "sqrt?", "length?", "utf8bytelength?",
 "splits(\"a\")?", "split(\"a\")?", "join(\",\")?", "min?", "flatten?", "map(.)?", "map_values(.)?", "to_entries?", "with_entries(.)?", "del(.[0])?", "getpath([0])?", "getpath([\"a\"])?", ".a?", ".[\"a\"]?", ".a", "index(\"a\")?", "inside([1])?", "contains(1)?", "tojson|fromjson|tojson", "ascii?", "@html", "@uri", "@csv?", "@sh?", "env|type", "input_line_number?", "splits(\"a\";\"g\")?", "ascii_upcase?", "implode?", "group_by(.)?", "sort_by(.)?", "any?", "all?", "range(.)?", "limit(1;.[]?)", "first(.[]?)", "nth(0)?", "in([1])?", "indices(1)?", "transpose?", "tostream|tojson", "[leaf_paths?]", "infinite > .", "isnan?", "isnormal?", "abs?", "toarray?", "have_literal_numbers?", "trim?", "ltrimstr(1)", "significand?", "@base32", "tojson|length", "[.[]?]|length", "(.. | numbers) |= . + 1 | tojson", ". as [$a] | $a", ". as {a: $a} | $a", "keys_unsorted?", "objects", "arrays", "scalars", "values", "nulls", "strings", "numbers", "booleans", "iterables"
];
def cmp($v):
  qs[] as $q
  | ([ $v | try (eval($q) | tojson) catch "ERR:\(tostring)" ]) as $a
  | ([ $v | tovalue | try (eval($q) | tojson) catch "ERR:\(tostring)" ]) as $b
  | select($a != $b)
  | {q: $q, dv: ($a|tostring|.[0:100]), jv: ($b|tostring|.[0:100])};
