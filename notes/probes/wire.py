import struct, subprocess, json, itertools, sys, math
def be(n, w): return n.to_bytes(w,'big')
def sbe(n, w): return n.to_bytes(w,'big',signed=True)
# ---------- msgpack: all encodings of a value
def mp_ints(n):
    outs=[]
    if 0<=n<=127: outs.append(bytes([n]))
    if -32<=n<0: outs.append(bytes([n&0xff]))
    for code,w in ((0xcc,1),(0xcd,2),(0xce,4),(0xcf,8)):
        if 0<=n<2**(8*w): outs.append(bytes([code])+be(n,w))
    for code,w in ((0xd0,1),(0xd1,2),(0xd2,4),(0xd3,8)):
        if -2**(8*w-1)<=n<2**(8*w-1): outs.append(bytes([code])+sbe(n,w))
    return outs
def mp_strs(s):
    b=s.encode(); outs=[]
    if len(b)<32: outs.append(bytes([0xa0|len(b)])+b)
    for code,w in ((0xd9,1),(0xda,2),(0xdb,4)):
        if len(b)<2**(8*w): outs.append(bytes([code])+be(len(b),w)+b)
    return outs
def mp_bins(b):
    return [bytes([code])+be(len(b),w)+b for code,w in ((0xc4,1),(0xc5,2),(0xc6,4)) if len(b)<2**(8*w)]
def mp_arr_hdr(n):
    outs=[]
    if n<16: outs.append(bytes([0x90|n]))
    outs.append(b'\xdc'+be(n,2)); outs.append(b'\xdd'+be(n,4)); return outs
def mp_map_hdr(n):
    outs=[]
    if n<16: outs.append(bytes([0x80|n]))
    outs.append(b'\xde'+be(n,2)); outs.append(b'\xdf'+be(n,4)); return outs
def mp(v, pick):
    # pick: function choosing among alternatives (index)
    if v is None: return b'\xc0'
    if v is True: return b'\xc3'
    if v is False: return b'\xc2'
    if isinstance(v,int): a=mp_ints(v); return a[pick(len(a))]
    if isinstance(v,float): a=[b'\xcb'+struct.pack('>d',v)]; 
    if isinstance(v,float):
        try:
            if struct.unpack('>f',struct.pack('>f',v))[0]==v: a.append(b'\xca'+struct.pack('>f',v))
        except OverflowError: pass
        return a[pick(len(a))]
    if isinstance(v,str): a=mp_strs(v); return a[pick(len(a))]
    if isinstance(v,bytes): a=mp_bins(v); return a[pick(len(a))]
    if isinstance(v,list): a=mp_arr_hdr(len(v)); return a[pick(len(a))]+b''.join(mp(x,pick) for x in v)
    if isinstance(v,dict): a=mp_map_hdr(len(v)); return a[pick(len(a))]+b''.join(mp(k,pick)+mp(x,pick) for k,x in v.items())
# ---------- cbor
def cb_head(major, n):
    outs=[]
    if n<24: outs.append(bytes([major<<5|n]))
    for ai,w in ((24,1),(25,2),(26,4),(27,8)):
        if n<2**(8*w): outs.append(bytes([major<<5|ai])+be(n,w))
    return outs
def cb(v,pick,indef=False):
    if v is None: return b'\xf6'
    if v is True: return b'\xf5'
    if v is False: return b'\xf4'
    if isinstance(v,int):
        a=cb_head(0,v) if v>=0 else cb_head(1,-1-v); return a[pick(len(a))]
    if isinstance(v,float):
        a=[b'\xfb'+struct.pack('>d',v)]
        try:
            if struct.unpack('>f',struct.pack('>f',v))[0]==v: a.append(b'\xfa'+struct.pack('>f',v))
        except OverflowError: pass
        try:
            if struct.unpack('>e',struct.pack('>e',v))[0]==v: a.append(b'\xf9'+struct.pack('>e',v))
        except Exception: pass
        return a[pick(len(a))]
    if isinstance(v,str):
        b=v.encode(); a=cb_head(3,len(b)); r=a[pick(len(a))]+b
        if indef and len(b)>1: return b'\x7f'+cb(v[:1],pick)+cb(v[1:],pick)+b'\xff'
        return r
    if isinstance(v,bytes):
        a=cb_head(2,len(v)); return a[pick(len(a))]+v
    if isinstance(v,list):
        if indef: return b'\x9f'+b''.join(cb(x,pick,indef) for x in v)+b'\xff'
        a=cb_head(4,len(v)); return a[pick(len(a))]+b''.join(cb(x,pick,indef) for x in v)
    if isinstance(v,dict):
        if indef: return b'\xbf'+b''.join(cb(k,pick)+cb(x,pick,indef) for k,x in v.items())+b'\xff'
        a=cb_head(5,len(v)); return a[pick(len(a))]+b''.join(cb(k,pick)+cb(x,pick,indef) for k,x in v.items())
vals=[None,True,False,0,1,23,24,127,128,255,256,65535,65536,2**32-1,2**32,2**63-1,2**63,2**64-1,-1,-24,-25,-32,-33,-128,-129,-32768,-32769,-2**31,-2**31-1,-2**63,
      0.0,1.5,-2.25,1e300,3.4028234663852886e+38,65504.0,5.960464477539063e-08,
      "", "a", "é😀", "x"*31, "y"*32, "z"*255, "w"*256, [], [1], [1,[2,[3]]], list(range(15)), list(range(16)), {}, {"a":1}, {"a":{"b":[1,"c"]}}, {str(i):i for i in range(16)}]
def torepr(fmt, data):
    p=subprocess.run(["./fq","-c","-d",fmt,'torepr, (._error|if . then "ERR:"+.error else empty end)'],input=data,capture_output=True)
    return p.stdout.decode(errors='replace').strip().split("\n"), p.returncode
def canon(v):
    return json.dumps(v,sort_keys=True,separators=(',',':'),ensure_ascii=False)
bad=0;n=0
for fmt,enc in (("msgpack",mp),("cbor",cb),("cbor-indef",lambda v,p: cb(v,p,True))):
    for v in vals:
        for choice in range(6):
            cnt=[0]
            def pick(k):
                cnt[0]+=1
                return min(choice,k-1)
            data=enc(v,pick)
            out,rc=torepr(fmt.split('-')[0],data)
            n+=1
            try: got=json.loads(out[0])
            except Exception: got=("PARSE",out)
            ok = (len(out)==1) and (canon(got)==canon(v) or (isinstance(v,float) and isinstance(got,(int,float)) and float(got)==v))
            if not ok:
                bad+=1
                if bad<25: print(fmt,"val",repr(v)[:40],"enc",data[:24].hex(),"=>",str(out)[:120])
print("n",n,"bad",bad)
