import random, json, subprocess, sys
random.seed(int(sys.argv[1]) if len(sys.argv)>1 else 1)
class Err(Exception): pass
class Bin:
    def __init__(s, buf, start, ln, unit): s.buf=buf; s.start=start; s.ln=ln; s.unit=unit
    def bits(s): return s.buf[s.start:s.start+s.ln]
def bits_of_bytes(b): return "".join(format(x,'08b') for x in b)
def tobin_reader(v, inarr=False):
    # returns bit string
    if isinstance(v,Bin):
        if v.start<0 or v.ln<0 or v.start+v.ln>len(v.buf): raise Err("outside")
        return v.bits()
    if isinstance(v,str): return bits_of_bytes(v.encode())
    if isinstance(v,bool) or v is None or isinstance(v,dict): raise Err("not binary")
    if isinstance(v,int):
        if inarr:
            if v<0 or v>255: raise Err("range")
            return format(v,'08b')
        if v<0: raise Err("neg?")
        if v==0: return "0"
        return format(v,'b')
    if isinstance(v,list):
        return "".join(tobin_reader(e,True) for e in v)
    raise Err("type")
def tobinary(v):
    if isinstance(v,Bin): return Bin(v.buf,v.start,v.ln,v.unit)
    b=tobin_reader(v); return Bin(b,0,len(b),8)
def tobits(v, unit, keep, padunits):
    bv=tobinary(v)
    pad=unit*padunits
    if pad==0: pad=unit
    bv.unit=unit
    p=(pad - bv.ln%pad)%pad
    if keep: return bv
    if bv.start<0 or bv.ln<0 or bv.start+bv.ln>len(bv.buf): raise Err("outside")
    b="0"*p+bv.bits()
    return Bin(b,0,len(b),unit)
def clamp(i,lo,hi):
    if i<0: i+=hi
    if i<lo: return lo
    if i<hi: return i
    return hi
def ev(e):
    k=e[0]
    if k=="lit": return e[1]
    if k=="arr": return [ev(x) for x in e[1]]
    v=ev(e[1])
    if k in("tobits","tobytes","tobitsrange","tobytesrange"):
        return tobits(v, 1 if "bits" in k else 8, k.endswith("range"), 0)
    if k in("tobitsn","tobytesn"):
        return tobits(v, 1 if "bits" in k else 8, False, e[2])
    if not isinstance(v,Bin):
        raise Err("skip-nonbin")
    n=v.ln//v.unit
    if k=="bits": return Bin(v.buf,v.start,v.ln,1)
    if k=="bytes": return Bin(v.buf,v.start,v.ln,8)
    if k=="slice":
        a,b=e[2],e[3]
        s=0 if a is None else clamp(a,0,n)
        t=n if b is None else clamp(b,s,n)
        return Bin(v.buf, v.start+s*v.unit, (t-s)*v.unit, v.unit)
    if k=="index":
        i=clamp(e[2],-1,n)
        if i<0 or i>=n: return None
        st=v.start+i*v.unit
        if st<0 or st+v.unit>len(v.buf): raise Err("outside")
        return int(v.buf[st:st+v.unit],2)
    if k=="tonumber":
        b=tobin_reader(v); return int(b,2) if b else 0
    if k=="size": return n
    if k=="length": return n
    if k=="start": return v.start//v.unit
    if k=="stop": return -((-(v.start+v.ln))//v.unit)
    if k=="unit": return v.unit
    if k=="explode":
        out=[]
        for i in range(n):
            st=v.start+i*v.unit; out.append(int(v.buf[st:st+v.unit],2))
        return out
    if k=="tostringbytes":
        b=tobin_reader(v); b=b+"0"*((8-len(b)%8)%8)
        return [int(b[i:i+8],2) for i in range(0,len(b),8)]
    raise Exception(k)
def jq(e):
    k=e[0]
    if k=="lit": return json.dumps(e[1])
    if k=="arr": return "["+",".join(jq(x) for x in e[1])+"]"
    s="("+jq(e[1])+")"
    if k in("tobits","tobytes","tobitsrange","tobytesrange"): return s+"|"+k
    if k=="tobitsn": return s+"|tobits(%d)"%e[2]
    if k=="tobytesn": return s+"|tobytes(%d)"%e[2]
    if k=="bits": return s+"|.bits"
    if k=="bytes": return s+"|.bytes"
    if k=="slice": return s+"|.[%s:%s]"%("" if e[2] is None else e[2], "" if e[3] is None else e[3])
    if k=="index": return s+"|.[%d]"%e[2]
    if k=="tostringbytes": return s+"|tostring|tobytes|explode"
    if k in("size","start","stop","unit"): return s+"|."+k
    return s+"|"+k
def gen(d):
    if d==0 or random.random()<0.25:
        c=random.random()
        if c<0.4: return ("lit", random.choice(["","a","ab","éz","abc"]))
        if c<0.7: return ("lit", random.choice([0,1,5,255,256,65535,4095]))
        return ("arr",[gen(0) if random.random()<0.6 else ("lit",random.choice([0,7,255,"x"])) for _ in range(random.randint(0,3))])
    k=random.choice(["tobits","tobytes","tobitsrange","tobytesrange","tobitsn","tobytesn","bits","bytes","slice","slice","slice","index","tonumber","size","start","stop","unit","explode","tostringbytes","length","arr"])
    if k=="arr": return ("arr",[gen(d-1) for _ in range(random.randint(1,3))])
    sub=gen(d-1)
    if k in("tobitsn","tobytesn"): return (k,sub,random.randint(0,3))
    if k=="slice":
        r=lambda: random.choice([None]+list(range(-6,26)))
        return (k,sub,r(),r())
    if k=="index": return (k,sub,random.randint(-5,24))
    return (k,sub)
cases=[]
while len(cases)<1500:
    e=gen(4)
    try:
        v=ev(e); exp=("ok",v)
    except Err as x:
        if str(x)=="skip-nonbin": continue
        exp=("err",str(x))
    cases.append((e,exp))
def proj(v):
    if isinstance(v,Bin): return {"bin":[v.unit, [int(c) for c in tobin_reader(v)]]}
    if isinstance(v,list): return [proj(x) for x in v]
    return v
prog=",".join('(try ((%s) | _p) catch "ERR")' % jq(e) for e,_ in cases)
prog='def _p: if _exttype=="binary" then {bin:[.unit, (tobits|explode)]} elif type=="array" then map(_p) else . end; '+prog
out=subprocess.run(["./fq","-nc",prog],capture_output=True,text=True)
if out.returncode!=0: print("FQ ERR",out.stderr[:800]); sys.exit(1)
lines=out.stdout.strip().split("\n")
bad=0
for (e,exp),ln in zip(cases,lines):
    got=json.loads(ln)
    if exp[0]=="err": ok = got=="ERR"
    else: ok = got==proj(exp[1])
    if not ok:
        bad+=1
        if bad<=12: print("MISMATCH", jq(e)[:160], "\n   got ",ln[:150],"\n   want",json.dumps(proj(exp[1]) if exp[0]=="ok" else "ERR:"+exp[1])[:150])
print("cases",len(cases),"lines",len(lines),"bad",bad)
