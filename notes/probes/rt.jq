def norm: walk(if type == "object" and .term? and (.term.type=="TermTypeQuery") and ((.term|keys) - ["type","query"] == []) then .term.query else . end);
