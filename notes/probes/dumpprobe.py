import subprocess, random, json, sys
random.seed(int(sys.argv[1]) if len(sys.argv)>1 else 1)
N=96
def tobase(n,b):
    ds="0123456789abcdefghijklmnopqrstuvwxyz"
    if n==0: return "0"
    s=""
    while n: s=ds[n%b]+s; n//=b
    return s
pref={2:"0b",8:"0o",16:"0x"}
bad=0; tot=0
cases=[]
for it in range(400):
    unit=random.choice([1,8])
    L=random.choice([1,2,3,4,5,7,8,9,16,17,32,64])
    base=random.choice([2,8,10,16,36])
    if unit==8:
        a=random.randint(0,N); b=random.randint(a,N)
        startbit,endbit=a*8,b*8
        sel=f"tobytes[{a}:{b}]"
    else:
        a=random.randint(0,N*8); b=random.randint(a,min(N*8,a+300))
        startbit,endbit=a,b
        sel=f"tobits[{a}:{b}]"
    db=random.choice([0,0,0,1,L,L+1,2*L+1,5])
    cases.append((sel,L,base,db,startbit,endbit))
prog="[range(%d)] | tobytes as $b | (%s)" % (N, ", ".join('($b | %s | [_hexdump({line_bytes:%d,addrbase:%d,display_bytes:%d,sizebase:10,color:false,unicode:false,verbose:true,depth:0,array_truncate:0,string_truncate:0,colors:{},byte_colors:[],bits_format:"string",width:0})] | 1), "=====%d"' % (sel,L,base,db,i) for i,(sel,L,base,db,_,_) in enumerate(cases)))
out=subprocess.run(["./fq","-nr",prog],capture_output=True,text=True)
if out.returncode!=0: print("ERR",out.stderr[:500]); sys.exit(1)
chunks=out.stdout.split("=====")
# chunk i text is before marker i
texts=[]
cur=out.stdout
pos=0
res=[]
import re
parts=re.split(r"=====\d+\n", out.stdout)
for i,(sel,L,base,db,sb,eb) in enumerate(cases):
    txt=parts[i]
    # strip the "1" result lines
    lines=[l for l in txt.split("\n") if l!="" and l!="1"]
    shown=[]
    trunc=False
    for ln in lines:
        cols=ln.split("|")
        if len(cols)<4: continue
        addr=cols[0].strip()
        hexf=cols[1]
        if addr=="" : continue
        if addr=="*": trunc=True; continue
        if hexf.startswith("until"): continue
        p=pref.get(base,"")
        if not addr.startswith(p):
            bad+=1; print("BADADDRPREFIX",cases[i],repr(ln)); continue
        try: av=int(addr[len(p):],base)
        except Exception as e:
            bad+=1; print("BADADDR",cases[i],repr(ln)); continue
        if av%L!=0:
            bad+=1; print("ADDR-NOT-LINE-ALIGNED",cases[i],repr(ln))
        for c in range(L):
            cell=hexf[3*c:3*c+2]
            if cell.strip()=="": continue
            try: v=int(cell,16)
            except: bad+=1; print("BADCELL",cases[i],repr(ln)); continue
            tot+=1
            if av+c>=N or v!=av+c:
                bad+=1; print("WRONG-BYTE",cases[i],"addr",av,"col",c,"shown",v); 
            shown.append(av+c)
    if eb>sb:
        fb,lb=sb//8,(eb-1)//8
        if shown!=sorted(set(shown)): bad+=1; print("DUP/ORDER",cases[i],shown[:10])
        if shown and shown[0]!=fb: bad+=1; print("FIRST",cases[i],shown[:3],fb)
        if shown and shown!=list(range(shown[0],shown[-1]+1)): bad+=1; print("NONCONTIG",cases[i])
        if not trunc and (not shown or shown[-1]!=lb): bad+=1; print("INCOMPLETE",cases[i],shown[-3:] if shown else None,lb,"dbytes",db)
        if db==0 and trunc: bad+=1; print("TRUNC-WITH-DB0",cases[i])
    else:
        if shown: bad+=1; print("SHOWN-FOR-EMPTY",cases[i],shown)
print("cells",tot,"bad",bad)
