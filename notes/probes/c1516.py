import random, json, subprocess, struct, io, tarfile, zipfile, sys, os
random.seed(3)
def fq(args, data=None):
    p=subprocess.run(["./fq"]+args, input=data, capture_output=True)
    return p.returncode, p.stdout.decode(errors="replace"), p.stderr.decode(errors="replace")
bad=0
# ---- bencode
def benc(v):
    if isinstance(v,int): return b"i%de"%v
    if isinstance(v,str): b=v.encode(); return b"%d:"%len(b)+b
    if isinstance(v,list): return b"l"+b"".join(benc(x) for x in v)+b"e"
    if isinstance(v,dict): return b"d"+b"".join(benc(k)+benc(v[k]) for k in sorted(v))+b"e"
def rv(d):
    c=random.random()
    if d==0 or c<0.4: return random.choice([0,1,-1,255,2**63-1,-2**63,2**64,10**30,"","a","é😀","x"*300,"with:colon","12:ab"])
    if c<0.7: return [rv(d-1) for _ in range(random.randint(0,3))]
    return {random.choice(["a","b","","é","zz"]): rv(d-1) for _ in range(random.randint(0,3))}
for i in range(150):
    v=rv(3); data=benc(v)
    rc,out,err=fq(["-c","-d","bencode","torepr, (._error|if . then \"ERR\" else empty end)"],data)
    try: got=json.loads(out.strip().split("\n")[0])
    except Exception: got=("RAW",out[:80],err[:80])
    if got!=v or len(out.strip().split("\n"))!=1:
        bad+=1; print("bencode",json.dumps(v)[:80],"=>",str(got)[:100])
# ---- bson
def cstr(s): return s.encode()+b"\0"
def bson_doc(d, arr=False):
    body=b""
    items = enumerate(d) if arr else d.items()
    for k,v in items:
        k=str(k)
        if isinstance(v,bool): body+=b"\x08"+cstr(k)+(b"\1" if v else b"\0")
        elif v is None: body+=b"\x0a"+cstr(k)
        elif isinstance(v,int):
            if -2**31<=v<2**31 and random.random()<0.5: body+=b"\x10"+cstr(k)+struct.pack("<i",v)
            else: body+=b"\x12"+cstr(k)+struct.pack("<q",v)
        elif isinstance(v,float): body+=b"\x01"+cstr(k)+struct.pack("<d",v)
        elif isinstance(v,str): b=v.encode()+b"\0"; body+=b"\x02"+cstr(k)+struct.pack("<i",len(b))+b
        elif isinstance(v,list): body+=b"\x04"+cstr(k)+bson_doc(v,True)
        elif isinstance(v,dict): body+=b"\x03"+cstr(k)+bson_doc(v)
    return struct.pack("<i",len(body)+5)+body+b"\0"
def rb(d):
    c=random.random()
    if d==0 or c<0.5: return random.choice([0,1,-1,2**31-1,-2**31,2**31,2**63-1,-2**63,1.5,-2.25,1e300,"","a","é😀",True,False,None])
    if c<0.75: return [rb(d-1) for _ in range(random.randint(0,3))]
    return {random.choice(["a","b","é","zz","k1"]): rb(d-1) for _ in range(random.randint(0,3))}
for i in range(150):
    v={random.choice(["a","b","c"]): rb(3) for _ in range(random.randint(0,3))}
    data=bson_doc(v)
    rc,out,err=fq(["-c","-d","bson","torepr, (._error|if . then \"ERR\" else empty end)"],data)
    try: got=json.loads(out.strip().split("\n")[0])
    except Exception: got=("RAW",out[:80],err[:80])
    if got!=v or len(out.strip().split("\n"))!=1:
        bad+=1; print("bson",json.dumps(v)[:90],"=>",str(got)[:110])
# ---- tar
for i in range(25):
    members=[]
    buf=io.BytesIO()
    fmt=random.choice([tarfile.USTAR_FORMAT,tarfile.GNU_FORMAT,tarfile.PAX_FORMAT])
    with tarfile.open(fileobj=buf,mode="w",format=fmt) as tf:
        for j in range(random.randint(0,4)):
            name=random.choice(["a.txt","dir/b.bin","é😀.txt","n"*90 if fmt!=tarfile.USTAR_FORMAT else "n"*90,"x"*150 if fmt!=tarfile.USTAR_FORMAT else "short"])+str(j)
            data=random.choice([b"",b"hello",bytes(range(256))*3,b"z"*70000])
            ti=tarfile.TarInfo(name); ti.size=len(data)
            tf.addfile(ti,io.BytesIO(data)); members.append((name,data))
    data=buf.getvalue()
    open("t.tar","wb").write(data)
    rc,out,err=fq(["-c","-d","tar",'[.files[] | select(.typeflag=="regular" or .typeflag==null or true) | {n: .name, s: .size, d: (.data|tobytes|to_hex)?}]',"t.tar"])
    try: got=json.loads(out)
    except Exception: got=None
    # compare only regular files by order: names may be in pax/gnu extension records
    want=[{"n":n,"s":len(d),"d":d.hex()} for n,d in members]
    reg=[g for g in (got or []) if g.get("d") is not None and g["n"] in [m[0] for m in members]] if got else None
    if reg is None or [ (g["n"],g["s"],g["d"]) for g in reg ] != [(w["n"],w["s"],w["d"]) for w in want]:
        bad+=1; print("tar fmt",fmt,[m[0][:20] for m in members],"=>",(str([(g['n'][:20],g['s']) for g in got]) if got else err[:150])[:200])
# ---- zip
for i in range(25):
    members=[]
    buf=io.BytesIO()
    with zipfile.ZipFile(buf,"w") as zf:
        for j in range(random.randint(0,4)):
            name=random.choice(["a.txt","dir/b.bin","é😀.txt","n"*120])+str(j)
            data=random.choice([b"",b"hello",bytes(range(256))*3,b"z"*70000,os.urandom(3000)])
            zf.writestr(zipfile.ZipInfo(name), data, compress_type=random.choice([zipfile.ZIP_STORED,zipfile.ZIP_DEFLATED]))
            members.append((name,data))
    open("t.zip","wb").write(buf.getvalue())
    rc,out,err=fq(["-c","-d","zip",'[.local_files[] | {n: .file_name, cs: .compressed_size, us: .uncompressed_size, d: ((.uncompressed // .compressed) | tobytes | to_md5 | to_hex)}]',"t.zip"])
    import hashlib
    try: got=json.loads(out)
    except Exception: got=None
    want=[{"n":n,"us":len(d),"d":hashlib.md5(d).hexdigest()} for n,d in members]
    if got is None or [(g["n"],g["us"],g["d"]) for g in got]!=[(w["n"],w["us"],w["d"]) for w in want]:
        bad+=1; print("zip",[m[0][:12] for m in members],"=>",(str(got) if got else err[:200])[:300])
print("bad",bad)
