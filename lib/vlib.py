# Shared runner library for /verif/bin/check.
#
# Contract (DESIGN.md section 3, MANIFEST schema):
#   exit 0  property held on everything explored (KNOWN-FINDING lines allowed)
#   exit 1  at least one `VIOLATION property=<id> replay=<path>` line
#   exit 2  inconclusive (machinery problem: TLC/driver died, vacuous model, ...)
# evidence/<id>.json is rewritten by every run.
import os, sys, json, subprocess, time, shutil, re, hashlib, random, glob

VERIF = os.path.dirname(os.path.dirname(os.path.abspath(__file__)))
REPO = os.environ.get('VERIF_REPO', '/repo')
SPEC = os.path.join(VERIF, 'spec')
HARNESS = os.path.join(VERIF, 'harness')
TLA_CP = '/opt/veriftools/tla/tla2tools.jar:/opt/veriftools/tla/CommunityModules-deps.jar'
NCPU = os.cpu_count() or 4

GOENV = dict(GOFLAGS='-mod=mod', GOPROXY='off', GOSUMDB='off', GOTOOLCHAIN='local')


class Inconclusive(Exception):
    pass


def log(*a):
    print('[check]', *a, file=sys.stderr, flush=True)


class TlcResult:
    def __init__(self):
        self.rc = None
        self.stdout = ''
        self.generated = 0
        self.distinct = 0
        self.printed = []      # parsed PrintT(ToJson(..)) values / raw tuples
        self.raw_printed = []  # raw printed lines that were not JSON strings
        self.violated = None   # name of violated invariant/property if any
        self.postcondition_false = False
        self.zero_coverage = []
        self.wall = 0.0
        self.rundir = None
        self.error = None

    def ok(self):
        return self.rc == 0 and not self.violated and not self.postcondition_false and not self.error


def load_known():
    """known_findings.txt -> {pid: {sig: desc}}, fixed list"""
    known, fixed = {}, []
    p = os.path.join(VERIF, 'known_findings.txt')
    if os.path.exists(p):
        for line in open(p):
            line = line.strip()
            if not line or line.startswith('#'):
                continue
            m = re.match(r'known:\s+property=(\S+)\s+sig=(\S+)\s*(.*)', line)
            if m:
                known.setdefault(m.group(1), {})[m.group(2)] = m.group(3)
                continue
            m = re.match(r'fixed:\s+property=(\S+)\s+(\S+)\s*(.*)', line)
            if m:
                fixed.append((m.group(1), m.group(2), m.group(3)))
    return known, fixed


class Ctx:
    def __init__(self, pid, tier, seed, level):
        self.pid = pid
        self.tier = tier
        self.seed = seed
        self.level = level
        self.t0 = time.time()
        self.build = os.path.join(VERIF, 'build', pid)
        shutil.rmtree(self.build, ignore_errors=True)
        os.makedirs(self.build, exist_ok=True)
        self.replay_dir = os.path.join(VERIF, 'replay', pid)
        shutil.rmtree(self.replay_dir, ignore_errors=True)
        self.known = load_known()[0].get(pid, {})
        self.known_hits = {}     # sig -> (desc, count)
        self.violations = []     # (sig, what, path)
        self.viol_sigs = {}
        self.inconclusive = []
        self.cov = dict(states=0, transitions=0, traces_validated_against_impl=0,
                        evaluations=0, distinct_nontrivial=0, samples=[], rule='',
                        trusted_base=[], model_drift=0, tlc_runs=[], binding_demo=[])
        self.assumptions = []
        self.rng = random.Random(seed)
        self._run_n = 0
        self._overlay = None

    # ---------------------------------------------------------------- findings
    def finding(self, sig, what, case=None):
        """A real-code observation rejected by the as-required spec."""
        if sig in self.known:
            d = self.known_hits.get(sig)
            self.known_hits[sig] = (what if d is None else d[0], 1 if d is None else d[1] + 1)
            return 'known'
        n = self.viol_sigs.get(sig, 0)
        self.viol_sigs[sig] = n + 1
        if n >= 5:     # cap replay files per signature
            return 'violation'
        os.makedirs(self.replay_dir, exist_ok=True)
        path = os.path.join(self.replay_dir, '%s-%d.json' % (re.sub(r'[^A-Za-z0-9_.=-]', '_', sig)[:80], n))
        with open(path, 'w') as f:
            json.dump(dict(property=self.pid, sig=sig, what=what, case=case, seed=self.seed, tier=self.tier), f, indent=1, default=str)
        self.violations.append((sig, what, path))
        print('VIOLATION property=%s replay=%s' % (self.pid, path), flush=True)
        log('violation sig=%s: %s' % (sig, what))
        return 'violation'

    def inconc(self, what):
        log('INCONCLUSIVE:', what)
        self.inconclusive.append(what)

    def drift(self, what, n=1):
        self.cov['model_drift'] += n
        if len(self.cov.setdefault('model_drift_samples', [])) < 5:
            self.cov['model_drift_samples'].append(what)

    def sample(self, s, cap=6):
        if len(self.cov['samples']) < cap:
            self.cov['samples'].append(s)

    # ---------------------------------------------------------------- go build
    def overlay(self):
        if self._overlay:
            return self._overlay
        rep = {}
        for root, dirs, files in os.walk(HARNESS):
            for fn in files:
                if not fn.endswith('.go') and not fn.endswith('.jq'):
                    continue
                src = os.path.join(root, fn)
                rel = os.path.relpath(src, HARNESS)
                if rel.startswith('_inject' + os.sep):
                    dst = os.path.join(REPO, rel[len('_inject' + os.sep):])
                else:
                    dst = os.path.join(REPO, 'internal', 'verif', rel)
                rep[dst] = src
        p = os.path.join(self.build, 'overlay.json')
        with open(p, 'w') as f:
            json.dump({'Replace': rep}, f)
        self._overlay = p
        return p

    def go_build(self, pkg, race=False, name=None, tags='verif'):
        """Build /verif/harness/<pkg> (mapped to /repo/internal/verif/<pkg>) from /repo's working tree."""
        out = os.path.join(self.build, 'bin', name or (pkg.replace('/', '_') + ('_race' if race else '')))
        os.makedirs(os.path.dirname(out), exist_ok=True)
        cmd = ['go', 'build', '-tags', tags, '-overlay', self.overlay(), '-o', out]
        if race:
            cmd.append('-race')
        cmd.append('./internal/verif/' + pkg + '/')
        env = dict(os.environ); env.update(GOENV)
        t = time.time()
        r = subprocess.run(cmd, cwd=REPO, env=env, stdout=subprocess.PIPE, stderr=subprocess.STDOUT, text=True)
        if r.returncode != 0:
            sys.stderr.write(r.stdout)
            raise Inconclusive('go build %s failed' % pkg)
        log('built %s in %.1fs' % (pkg, time.time() - t))
        return out

    def run(self, cmd, timeout=None, env=None, stdin=None, cwd=None, check=False):
        e = dict(os.environ); e.update(GOENV)
        e['VERIF_SEED'] = str(self.seed); e['VERIF_TIER'] = self.tier
        if env:
            e.update(env)
        try:
            r = subprocess.run(cmd, cwd=cwd or self.build, env=e, input=stdin, stdout=subprocess.PIPE,
                               stderr=subprocess.PIPE, text=True, timeout=timeout)
        except subprocess.TimeoutExpired:
            raise Inconclusive('timeout running %s' % (cmd[:3],))
        if check and r.returncode != 0:
            sys.stderr.write(r.stderr[-4000:])
            raise Inconclusive('command failed rc=%d: %s' % (r.returncode, cmd[:3]))
        return r

    # ---------------------------------------------------------------- TLC
    def tlc(self, module, cfg, *, workers=None, simulate=None, depth=None, coverage=False,
            timeout=600, files=None, defines=None, name=None, count=True, dfs=False, heap='4g',
            keep_stdout=True, cfg_text=None, seed=None):
        """Run TLC on spec/<module>.tla with spec/<cfg> in a scratch copy.
        files: {relname: path-or-text-bytes} extra files placed in the run dir (traces).
        simulate: 'num=N' string -> -simulate.
        """
        self._run_n += 1
        name = name or ('%02d_%s' % (self._run_n, cfg.replace('.cfg', '')))
        rd = os.path.join(self.build, 'tlc', name)
        shutil.rmtree(rd, ignore_errors=True)
        os.makedirs(rd)
        for f in glob.glob(os.path.join(SPEC, '*.tla')):
            shutil.copy(f, rd)
        if cfg_text is not None:
            open(os.path.join(rd, cfg), 'w').write(cfg_text)
        else:
            shutil.copy(os.path.join(SPEC, cfg), rd)
        for rel, src in (files or {}).items():
            dst = os.path.join(rd, rel)
            if isinstance(src, (bytes, bytearray)):
                open(dst, 'wb').write(src)
            elif os.path.exists(src):
                shutil.copy(src, dst)
            else:
                raise Inconclusive('missing file for TLC: %s' % src)
        jopts = ['-XX:+UseParallelGC', '-Xss512m', '-Xmx' + heap]
        if dfs:
            jopts.append('-Dtlc2.tool.queue.IStateQueue=StateDeque')
        cmd = ['timeout', str(timeout), 'java'] + jopts + ['-cp', TLA_CP, 'tlc2.TLC',
               '-metadir', os.path.join(rd, 'meta'), '-config', cfg, '-noGenerateSpecTE']
        cmd += ['-workers', str(workers or ('1' if simulate else 'auto'))]
        if simulate:
            cmd += ['-simulate', simulate]
            if depth:
                cmd += ['-depth', str(depth)]
            cmd += ['-seed', str(seed if seed is not None else self.seed)]
        if coverage:
            cmd += ['-coverage', '1']
        cmd.append(module + '.tla')
        res = TlcResult(); res.rundir = rd
        t = time.time()
        outp = os.path.join(rd, 'stdout.txt')
        with open(outp, 'w') as fo:
            p = subprocess.run(cmd, cwd=rd, stdout=fo, stderr=subprocess.STDOUT)
        res.rc = p.returncode
        res.wall = time.time() - t
        self._parse_tlc(res, outp, keep_stdout)
        shutil.rmtree(os.path.join(rd, 'meta'), ignore_errors=True)
        shutil.rmtree(os.path.join(rd, 'states'), ignore_errors=True)
        if res.rc == 124:
            res.error = 'timeout'
        if count:
            self.cov['states'] += res.distinct
            self.cov['transitions'] += res.generated
        self.cov['tlc_runs'].append(dict(module=module, cfg=cfg, mode=('SIM' if simulate else 'MC'), rc=res.rc,
                                         generated=res.generated, distinct=res.distinct,
                                         printed=len(res.printed), wall_s=round(res.wall, 1)))
        log('tlc %s/%s rc=%s gen=%d distinct=%d printed=%d %.1fs%s' % (
            module, cfg, res.rc, res.generated, res.distinct, len(res.printed), res.wall,
            (' VIOLATED ' + str(res.violated)) if res.violated else ''))
        return res

    def _parse_tlc(self, res, outp, keep):
        gen = dist = 0
        tail = []
        with open(outp, errors='replace') as f:
            for line in f:
                line = line.rstrip('\n')
                if line.startswith('"') and line.endswith('"'):
                    try:
                        s = json.loads(line)
                        try:
                            res.printed.append(json.loads(s))
                        except Exception:
                            res.raw_printed.append(s)
                        continue
                    except Exception:
                        pass
                if line.startswith('<<') and line.endswith('>>'):
                    res.raw_printed.append(line)
                    continue
                m = re.match(r'(\d+) states generated, (\d+) distinct states found', line)
                if m:
                    gen, dist = int(m.group(1)), int(m.group(2))
                m = re.match(r'Progress.*?(\d[\d,]*) states generated.*?(\d[\d,]*) distinct', line)
                if m and not gen:
                    pass
                m = re.match(r'Error: Invariant (\S+) is violated', line)
                if m:
                    res.violated = m.group(1)
                m = re.match(r'Error: Action property (\S+) is violated', line)
                if m:
                    res.violated = m.group(1)
                if 'Temporal properties were violated' in line:
                    res.violated = res.violated or 'temporal'
                m = re.match(r'Error: Temporal property (\S+) was violated', line)
                if m:
                    res.violated = res.violated or m.group(1)
                if re.search(r'Postcondition .* is false|POSTCONDITION.*(violated|false)', line) or 'evaluated to FALSE' in line and 'ostcondition' in line:
                    res.postcondition_false = True
                if line.startswith('Error:') and not res.violated:
                    if 'Deadlock' in line:
                        res.violated = 'Deadlock'
                    elif 'ostcondition' in line:
                        res.postcondition_false = True
                    else:
                        res.error = (res.error or '') + line + '\n'
                m = re.match(r'\s*(line \d+, col \d+ to line \d+, col \d+ of module \S+): 0$', line)
                if m:
                    res.zero_coverage.append(m.group(1))
                m = re.match(r'<(\w+) line \d+, col \d+ to line \d+, col \d+ of module (\w+)>: (\d+):(\d+)', line)
                if m:
                    res.__dict__.setdefault('actions', {})[m.group(1)] = (int(m.group(3)), int(m.group(4)))
                tail.append(line)
                if len(tail) > 60:
                    tail.pop(0)
        # simulation mode has no "states generated" summary in the same form
        res.generated, res.distinct = gen, dist
        res.stdout = '\n'.join(tail)
        if not keep:
            os.unlink(outp)

    def tv(self, module, cfg, trace_path, name=None, count=True, timeout=900, workers=1, extra_files=None, **kw):
        """Trace validation of independent events (non-stopping trace spec, DESIGN section 3).
        The trace spec prints <<"REJECT", line, sig>> / <<"DRIFT", line>> and must consume the whole trace
        (POSTCONDITION). Returns (rejects [(line, sig)], drift_lines [line], TlcResult)."""
        files = {'trace.ndjson': trace_path}
        files.update(extra_files or {})
        r = self.tlc(module, cfg, files=files, workers=workers, name=name, count=count, timeout=timeout, **kw)
        self.tlc_expect_ok(r, 'trace validation %s/%s' % (module, name or cfg))
        rej, drift = [], []
        for line in r.raw_printed:
            m = re.match(r'<<"REJECT",\s*(\d+)(?:,\s*"?([^">]*)"?)?.*>>', line)
            if m:
                rej.append((int(m.group(1)), m.group(2) or 'rejected'))
                continue
            m = re.match(r'<<"DRIFT",\s*(\d+).*>>', line)
            if m:
                drift.append(int(m.group(1)))
        return rej, drift, r

    def tv_stateful(self, module, cfg, traces, name=None, reset_event=None, max_rejects=20, count=True, timeout=900, **kw):
        """Trace validation of stateful traces. `traces` is a list of event lists; they are concatenated with
        `reset_event` (default {"op":"reset"}) in front of each. The trace spec must
          - handle the reset event by re-initialising its state, and
          - have POSTCONDITION  IF diameter-1 = Len(Trace) THEN TRUE ELSE PrintT(<<"PREFIX", diameter-1>>) /\\ FALSE
        A rejected trace is recorded and removed, and validation is repeated for the rest (so every trace is judged).
        Returns list of (trace_index, event_index_within_trace (0-based) of first unmatched event)."""
        reset_event = reset_event or {'op': 'reset'}
        live = list(range(len(traces)))
        rejected = []
        rounds = 0
        while live:
            rounds += 1
            evs, owner = [], []
            for ti in live:
                evs.append(reset_event); owner.append((ti, -1))
                for k, e in enumerate(traces[ti]):
                    evs.append(e); owner.append((ti, k))
            tp = os.path.join(self.build, '%s_r%d.ndjson' % (name or module, rounds))
            write_ndjson(tp, evs)
            r = self.tlc(module, cfg, files={'trace.ndjson': tp}, workers=1, name='%s_r%d' % (name or module, rounds),
                         count=count, timeout=timeout, **kw)
            if r.rc == 124:
                raise Inconclusive('TLC timeout in trace validation ' + module)
            prefix = None
            for line in r.raw_printed:
                m = re.match(r'<<"PREFIX",\s*(\d+)>>', line)
                if m:
                    prefix = int(m.group(1))
            if r.ok() and prefix is None:
                break
            if prefix is None or not r.postcondition_false and not r.violated:
                sys.stderr.write(r.stdout[-3000:] + '\n')
                raise Inconclusive('trace validation %s failed without a PREFIX report (rc=%s err=%s)' % (module, r.rc, r.error))
            if prefix >= len(evs):
                raise Inconclusive('trace validation %s: bad prefix %d' % (module, prefix))
            ti, k = owner[prefix]      # first unmatched event (0-based index = matched prefix length)
            if k == -1 and live.index(ti) > 0:
                # a trace spec whose reset action has a guard on how the trace before it ended: the culprit is that trace
                ti = live[live.index(ti) - 1]
                k = len(traces[ti])
            rejected.append((ti, k))
            live.remove(ti)
            if len(rejected) >= max_rejects:
                self.inconc('more than %d rejected traces in %s; remaining traces not judged' % (max_rejects, module))
                break
        return rejected

    def binding_demo(self, module, cfg, events, expect_reject_lines, name=None, **kw):
        """Anti-vacuity: `events` is a short trace in which exactly the 1-based lines `expect_reject_lines` were
        corrupted by the caller; the trace spec must reject exactly those."""
        dp = os.path.join(self.build, (name or module) + '_demo.ndjson')
        write_ndjson(dp, events)
        rej, _, _ = self.tv(module, cfg, dp, name=(name or module) + '_demo', count=False, **kw)
        lines = sorted(set(l for l, _ in rej))
        ok = lines == sorted(expect_reject_lines)
        self.cov['binding_demo'].append(dict(spec=module, corrupted_lines=sorted(expect_reject_lines), rejected_lines=lines, ok=ok))
        if not ok:
            raise Inconclusive('binding demo failed for %s: corrupted %s, rejected %s' % (module, expect_reject_lines, lines))

    def tlc_expect_ok(self, res, what):
        if res.rc == 124 or res.error == 'timeout':
            raise Inconclusive('TLC timeout: ' + what)
        if not res.ok():
            sys.stderr.write(res.stdout[-3000:] + '\n')
            raise Inconclusive('TLC failed (%s): rc=%s violated=%s err=%s' % (what, res.rc, res.violated, (res.error or '')[:300]))

    # ---------------------------------------------------------------- evidence
    def finish(self):
        for sig, (what, n) in sorted(self.known_hits.items()):
            print('KNOWN-FINDING: property=%s sig=%s %s (observed %d times; %s)' % (self.pid, sig, self.known.get(sig, ''), n, what), flush=True)
        cov = self.cov
        cov['known_findings_observed'] = sorted(self.known_hits)
        cov['inconclusive'] = self.inconclusive
        if not cov['samples']:
            cov['samples'] = ['(no sample recorded)']
        ev = dict(property_id=self.pid, tier=self.tier, seed=self.seed, level=self.level, coverage=cov,
                  assumptions=self.assumptions, wall_s=round(time.time() - self.t0, 1),
                  violations=len(self.viol_sigs) and sum(self.viol_sigs.values()))
        os.makedirs(os.path.join(VERIF, 'evidence'), exist_ok=True)
        with open(os.path.join(VERIF, 'evidence', self.pid + '.json'), 'w') as f:
            json.dump(ev, f, indent=1, default=str)
        if self.violations:
            return 1
        if self.inconclusive:
            return 2
        return 0


def write_ndjson(path, recs):
    with open(path, 'w') as f:
        for r in recs:
            f.write(json.dumps(r, separators=(',', ':')) + '\n')


def read_ndjson(path):
    out = []
    with open(path) as f:
        for line in f:
            line = line.strip()
            if line:
                out.append(json.loads(line))
    return out
