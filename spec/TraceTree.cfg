SPECIFICATION TSpec
CONSTANTS
 BuiltZeroQuirk = TRUE
 BuiltPPOnAbort = FALSE
 BuiltSlack = 1
POSTCONDITION Consumed
CHECK_DEADLOCK FALSE
