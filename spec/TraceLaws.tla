----------------------------- MODULE TraceLaws -----------------------------
(***************************************************************************)
(* C14 TV mode.  Every event is one job run through real fq (harness/c14): *)
(* the job's input plus what fq returned, projected to bytes / code points *)
(* / bit sequences / tagged JSON values.  Events are independent: a        *)
(* rejected event is printed with its signature and skipped.               *)
(*                                                                         *)
(*   k = "bin"    x = 1: a binary of Len(bits) bits (any alignment).        *)
(*                to_hex, to_base64 (default + 4 variants) re-evaluated     *)
(*                EXACTLY; from_X(to_X(b)) = zero-padded bytes; hashes      *)
(*   k = "bytes"  whole bytes at any size: length/alphabet laws, inverse    *)
(*   k = "unhex" / "unb64"   decoding a text: well formed => the bytes,     *)
(*                malformed => an error                                     *)
(*   k = "fromradix" / "toradix"                                            *)
(*   k = "enc"    string -> 5 text encodings and back                       *)
(*   k = "dec"    bytes -> string, possibly malformed                       *)
(*   k = "url" / "unurl"                                                    *)
(*   k = "ser"    x | to_F | from_F for a serialiser F                      *)
(*   k = "bad"    from_F of a malformed document                            *)
(* Sig(e) = "" when the event satisfies the as-required layer.              *)
(***************************************************************************)
EXTENDS Laws, Json
Trace == ndJsonDeserialize("trace.ndjson")
VARIABLE l

T == FqRadixTable

LeftoverTag(n) == IF n % 3 = 1 THEN ".leftover1" ELSE IF n % 3 = 2 THEN ".leftover2" ELSE ".leftover0"
HashSig(e) ==
    IF \E i \in 1 .. Len(e.hashes) : ~e.hashes[i].ok \/ ~HashLaw(e.hashes[i].h, e.hashes[i].out, e.hashes[i].ref)
    THEN LET i == CHOOSE i \in 1 .. Len(e.hashes) : ~e.hashes[i].ok \/ ~HashLaw(e.hashes[i].h, e.hashes[i].out, e.hashes[i].ref)
         IN "hash." \o e.hashes[i].h \o ".differs_from_go_crypto"
    ELSE ""

BinSig(e) ==
    LET bs == BitsToBytes(e.bits)
        aligned == IF Len(e.bits) % 8 = 0 THEN "" ELSE ".unaligned"
    IN IF ~e.hexok \/ e.hex # Hex(e.bits) THEN "hex.to_hex_differs_from_reference" \o aligned
       ELSE IF ~e.unhexok \/ e.unhex # bs THEN "hex.from_hex_of_to_hex" \o aligned
       ELSE IF \E v \in B64Variants : ~e.b64ok[v] \/ e.b64[v] # Base64(v, e.bits)
            THEN "base64." \o (CHOOSE v \in B64Variants : ~e.b64ok[v] \/ e.b64[v] # Base64(v, e.bits)) \o ".to_base64_differs_from_reference" \o LeftoverTag(Len(bs))
       ELSE IF \E v \in B64Variants : ~e.unb64ok[v] \/ e.unb64[v] # bs
            THEN "base64." \o (CHOOSE v \in B64Variants : ~e.unb64ok[v] \/ e.unb64[v] # bs) \o ".from_base64_of_to_base64" \o LeftoverTag(Len(bs))
       ELSE IF ~e.b64dok \/ e.b64d # Base64("std", e.bits) THEN "base64.default_is_not_std"
       ELSE HashSig(e)

BytesSig(e) ==
    LET bs == e.inb IN
    IF ~e.hexok \/ ~HexLaw(bs, e.hex) THEN "hex.to_hex_law"
    ELSE IF ~e.unhexok \/ e.unhex # bs THEN "hex.from_hex_of_to_hex"
    ELSE IF \E v \in B64Variants : ~e.b64ok[v] \/ ~B64Law(v, bs, e.b64[v])
         THEN "base64." \o (CHOOSE v \in B64Variants : ~e.b64ok[v] \/ ~B64Law(v, bs, e.b64[v])) \o ".to_base64_law" \o LeftoverTag(Len(bs))
    ELSE IF \E v \in B64Variants : ~e.unb64ok[v] \/ e.unb64[v] # bs
         THEN "base64." \o (CHOOSE v \in B64Variants : ~e.unb64ok[v] \/ e.unb64[v] # bs) \o ".from_base64_of_to_base64" \o LeftoverTag(Len(bs))
    ELSE IF ~e.b64dok \/ e.b64d # e.b64["std"] THEN "base64.default_is_not_std"
    ELSE HashSig(e)

UnhexSig(e) ==
    IF HexWellFormed(e.txt) THEN (IF e.ok /\ e.out = UnHex(e.txt) THEN "" ELSE "hex.from_hex.wellformed_text_wrong_or_refused")
    ELSE (IF e.ok THEN (IF Len(e.txt) % 2 = 1 THEN "hex.from_hex.odd_length_accepted" ELSE "hex.from_hex.nonhex_char_accepted") ELSE "")

Unb64Sig(e) ==
    IF B64Canonical(e.variant, e.txt) THEN (IF e.ok /\ e.out = UnBase64(e.variant, e.txt) THEN "" ELSE "base64." \o e.variant \o ".from_base64.canonical_text_wrong_or_refused")
    ELSE IF B64Malformed(e.variant, e.txt) THEN (IF e.ok THEN "base64." \o e.variant \o ".from_base64.malformed_accepted" ELSE "")
    ELSE ""

FromRadixSig(e) ==
    IF RadixWellFormed(e.base, T, e.txt)
    THEN (IF ~e.ok THEN "radix.from_radix.numeral_refused"
          ELSE IF ~e.isnat THEN "radix.from_radix.not_a_natural"
          ELSE IF e.x = 1 /\ RadixLimbs(e.base, Digits(T, e.txt)) # BitsToLimbs(e.bitsout) THEN "radix.from_radix.wrong_value"
          ELSE "")
    ELSE (IF ~e.ok THEN ""
          ELSE IF Len(e.txt) = 0 THEN "radix.from_radix.empty_string_accepted"
          ELSE IF \A i \in 1 .. Len(e.txt) : DigitOf(T, e.txt[i]) >= 0 THEN "radix.from_radix.digit_ge_base_accepted"
          ELSE "radix.from_radix.nondigit_accepted")

ToRadixSig(e) ==
    IF ~e.ok THEN "radix.to_radix.error"
    ELSE IF ~RadixWellFormed(e.base, T, e.out) THEN "radix.to_radix.digit_outside_base"
    ELSE IF ~RadixCanonical(T, e.out) THEN "radix.to_radix.leading_zero"
    ELSE IF e.x = 1 /\ RadixLimbs(e.base, Digits(T, e.out)) # BitsToLimbs(e.bits) THEN "radix.to_radix.wrong_numeral"
    ELSE IF ~e.rtok \/ ~e.rtnat \/ NormBits(e.rt) # NormBits(e.bits) THEN "radix.from_radix_of_to_radix"
    ELSE ""

EncOneSig(x, cps, r) ==
    IF EncDomain(r.enc, cps)
    THEN (IF ~r.ok THEN "text." \o r.enc \o ".encode_error"
          ELSE IF x = 1 /\ r.out # Encode(r.enc, cps) THEN "text." \o r.enc \o ".encode_differs_from_reference"
          ELSE IF ~r.rtok \/ r.rt # cps THEN "text." \o r.enc \o ".roundtrip"
          ELSE "")
    ELSE (IF r.ok THEN "text." \o r.enc \o ".unrepresentable_accepted" ELSE "")
EncSig(e) == IF \E i \in 1 .. Len(e.r) : EncOneSig(e.x, e.cps, e.r[i]) # ""
             THEN EncOneSig(e.x, e.cps, e.r[CHOOSE i \in 1 .. Len(e.r) : EncOneSig(e.x, e.cps, e.r[i]) # ""])
             ELSE ""

DecSig(e) == IF DecodeLaw(e.enc, e.inb, e.ok, e.cpsout) THEN ""
             ELSE IF EncodedWF(e.enc, e.inb) THEN "text." \o e.enc \o ".decode_wellformed_wrong"
             ELSE "text." \o e.enc \o ".decode_malformed_unmarked"

UrlSig(e) ==
    LET bs == UTF8Bytes(e.cps) IN
    IF ~e.compok THEN "url.to_urlencode.error"
    ELSE IF ~e.pathok THEN "url.to_urlpath.error"
    ELSE IF e.x = 1 /\ ~UrlEscapeRequired("component", bs, e.comp) THEN "url.to_urlencode.not_rfc3986_component"
    ELSE IF e.x = 1 /\ ~UrlEscapeRequired("path", bs, e.path) THEN "url.to_urlpath.not_rfc3986_segment"
    ELSE IF ~e.rtcompok \/ e.rtcomp # e.cps THEN "url.urlencode.roundtrip"
    ELSE IF ~e.rtpathok \/ e.rtpath # e.cps THEN "url.urlpath.roundtrip"
    ELSE ""
UrlDrift(e) == e.x = 1 /\ e.compok /\ e.pathok
               /\ (e.comp # UrlEscape("component", UTF8Bytes(e.cps)) \/ e.path # UrlEscape("path", UTF8Bytes(e.cps)))

UnurlSig(e) ==
    IF UrlWellFormed(e.txt)
    THEN (IF ~e.compok \/ e.comp # UrlUnescape("component", e.txt) THEN "url.from_urlencode.wellformed_wrong_or_refused"
          ELSE IF ~e.pathok \/ e.path # UrlUnescape("path", e.txt) THEN "url.from_urlpath.wellformed_wrong_or_refused"
          ELSE "")
    ELSE (IF e.compok THEN "url.from_urlencode.bad_escape_accepted" ELSE IF e.pathok THEN "url.from_urlpath.bad_escape_accepted" ELSE "")

SerSig(e) == IF RoundTripLaw(e.f, e.v, e.ok, e.rt) THEN "" ELSE RoundTripSig(e.f, e.v, e.ok)

BadSig(e) == IF <<e.f, e.doc>> \in MalformedDocs /\ e.ok
             THEN (IF e.f = "csv" THEN "csv.ragged_rows_accepted_as_value" ELSE e.f \o ".malformed_document_accepted")
             ELSE ""

Sig(e) == CASE e.k = "bin"       -> BinSig(e)
            [] e.k = "bytes"     -> BytesSig(e)
            [] e.k = "unhex"     -> UnhexSig(e)
            [] e.k = "unb64"     -> Unb64Sig(e)
            [] e.k = "fromradix" -> FromRadixSig(e)
            [] e.k = "toradix"   -> ToRadixSig(e)
            [] e.k = "enc"       -> EncSig(e)
            [] e.k = "dec"       -> DecSig(e)
            [] e.k = "url"       -> UrlSig(e)
            [] e.k = "unurl"     -> UnurlSig(e)
            [] e.k = "ser"       -> SerSig(e)
            [] e.k = "bad"       -> BadSig(e)
            [] OTHER             -> "unknown_event_kind"
Drift(e) == e.k = "url" /\ UrlDrift(e)

\* coverage counters (TLC registers, single worker): serialiser events inside their domain, per serialiser
SerNames == Serialisers \cup {"json_i", "jq_i"}
Count(e) == IF e.k = "ser" /\ InDomain(e.f, e.v)
            THEN TLCSet(1, [TLCGet(1) EXCEPT ![e.f] = @ + 1]) ELSE TRUE
TInit == l = 1 /\ TLCSet(1, [f \in SerNames |-> 0])
TNext == /\ l <= Len(Trace)
         /\ LET e == Trace[l] s == Sig(e) IN
              /\ IF s = "" THEN TRUE ELSE PrintT(<<"REJECT", l, s>>)
              /\ IF Drift(e) THEN PrintT(<<"DRIFT", l>>) ELSE TRUE
              /\ Count(e)
         /\ l' = l + 1
TSpec == TInit /\ [][TNext]_l
Consumed == PrintT(<<"INDOMAIN", TLCGet(1)>>) /\ TLCGet("stats").diameter - 1 = Len(Trace)
=============================================================================
