------------------------------- MODULE Wire_ber -------------------------------
(***************************************************************************)
(* C16: ASN.1 BER, from ITU-T X.690 (08/2015) clause 8.  Enc(v) is the set *)
(* of all BER encodings of v for the types fq maps to a JSON-like value:   *)
(*   identifier octets: class, P/C bit, tag number (low and high form)     *)
(*   length octets    : short form, long form with ANY number k of length  *)
(*                      octets that can hold the length (8.1.3.5 allows    *)
(*                      non-minimal k; k in LongK), indefinite form for    *)
(*                      constructed encodings (8.1.3.6, end 00 00)         *)
(*   strings          : primitive, or constructed from primitive segments  *)
(*                      (8.7.3 / 8.23.6), definite or indefinite outer     *)
(* Values: Null, Bool, IntV, Str (UTF8String), Bin (OCTET STRING),         *)
(* Arr (SEQUENCE), and [t |-> "ber", ty, ...] for                          *)
(*   "str"  (tag 19 PrintableString / 22 IA5String, s)   "set" (a)         *)
(*   "ctx"  (context-specific constructed [tag] { a })   "oid" (arcs)      *)
(*   "real" (REAL in the binary encoding: sign, mantissa, base, F, E)      *)
(* Domain notes: contents of INTEGER are minimal two's complement (8.3.2), *)
(* so only the length octets vary; fq reads long-form lengths of at most 8 *)
(* octets (decodeLength: `TODO: bigint`), LongK stays inside that.         *)
(***************************************************************************)
EXTENDS WireBytes
CONSTANTS MaxSegs       \* constructed strings: at most this many segments (0: primitive only)

LongK == {1, 2, 4, 8}
Lens(n) == (IF n < 128 THEN {<<n>>} ELSE {}) \cup {<<128 + k>> \o BE(n, k) : k \in {k \in LongK : FitsSmall(n, k)}}

\* identifier octets: class 0..3, constructed 0/1, tag number
RECURSIVE B128(_)
B128(n) == IF n < 128 THEN <<n>> ELSE [i \in 1..Len(B128(n \div 128)) |-> IF B128(n \div 128)[i] < 128 THEN B128(n \div 128)[i] + 128 ELSE B128(n \div 128)[i]] \o <<n % 128>>
Ident(class, cons, tag) == IF tag < 31 THEN <<class * 64 + cons * 32 + tag>>
                           ELSE <<class * 64 + cons * 32 + 31>> \o B128(tag)

Primitive(class, tag, content) == {Ident(class, 0, tag) \o l \o content : l \in Lens(RLen(content))}
Constructed(class, tag, content) == {Ident(class, 1, tag) \o l \o content : l \in Lens(RLen(content))}
                        \cup {Ident(class, 1, tag) \o <<128>> \o content \o <<0, 0>>}

MinW(v) == CHOOSE w \in 1..9 : SFits(v, w) /\ (w = 1 \/ ~SFits(v, w - 1))
IntContent(v) == SEnc(v, MinW(v))

\* segmentations of a plain string (text: between characters only)
HasRun(s) == \E i \in 1..Len(s) : s[i] < 0
RECURSIVE Segs(_, _, _)
Segs(s, text, k) ==
    IF Len(s) = 0 THEN {<<>>}
    ELSE IF k = 0 THEN {}
    ELSE UNION {{<<SubSeq(s, 1, i)>> \o r : r \in Segs(SubSeq(s, i + 1, Len(s)), text, k - 1)}
                  : i \in {i \in 1..Len(s) : ~text \/ i = Len(s) \/ ~IsCont(s[i + 1])}}
EncString(tag, s, text) ==
    Primitive(0, tag, s)
    \cup (IF MaxSegs = 0 \/ HasRun(s) THEN {}
          ELSE UNION {Constructed(0, tag, b) : b \in UNION {CatAll([i \in 1..Len(c) |-> Primitive(0, tag, c[i])]) : c \in Segs(s, text, MaxSegs)}})

OidContent(arcs) == <<40 * arcs[1] + arcs[2]>> \o Flat([i \in 1..(Len(arcs) - 2) |-> B128(arcs[i + 2])])

\* REAL, binary encoding (8.5.7): value = S * N * 2^F * B^E with B in {2, 8, 16}, F in 0..3.  First contents octet:
\* 1 S bb ff ee (bb: base 2/8/16, ff: F, ee: exponent format); then the exponent in two's complement in 1, 2 or 3 octets
\* (ee = 0, 1, 2) or a count octet and that many octets (ee = 3); then N as an unsigned binary number.
\* v = [t |-> "ber", ty |-> "real", neg, n (1 .. 2^20), base, f, e (an IntV)]
RealFirst(v, ee) == 128 + (IF v.neg THEN 64 ELSE 0) + (CASE v.base = 2 -> 0 [] v.base = 8 -> 16 [] OTHER -> 32) + 4 * v.f + ee
RealExps(v) == {<<RealFirst(v, w - 1)>> \o SEnc(v.e, w) : w \in {w \in 1..3 : SFits(v.e, w)}}
               \cup {<<RealFirst(v, 3), w>> \o SEnc(v.e, w) : w \in {w \in 1..4 : SFits(v.e, w)}}
RealMant(v) == {Strip(BE(v.n, 4)), <<0>> \o Strip(BE(v.n, 4))}
RealContent(v) == {x \o m : x \in RealExps(v), m \in RealMant(v)}
\* the binary64 pattern of the value: exact for the mantissas and exponents used (normal range)
RealShift(v) == v.f + (CASE v.base = 2 -> 1 [] v.base = 8 -> 3 [] OTHER -> 4) * (IF v.e.neg THEN 0 - SmallOf(v.e.mag) ELSE SmallOf(v.e.mag))
RealF64(v) == LET sb == SigBits(BE(v.n, 4))
                  h  == Len(sb) - 1
              IN BytesOfBits(<<IF v.neg THEN 1 ELSE 0>> \o BitsOfVal(h + RealShift(v) + 1023, 11) \o Tail(sb) \o Zeros(52 - h))

RECURSIVE Enc(_)
Items(a) == CatAll([i \in 1..Len(a) |-> Enc(a[i])])
Enc(v) ==
    CASE v.t = "null" -> Primitive(0, 5, <<>>)
      [] v.t = "bool" -> Primitive(0, 1, <<IF v.b THEN 255 ELSE 0>>)
      [] v.t = "int"  -> Primitive(0, 2, IntContent(v))
      [] v.t = "str"  -> EncString(12, v.s, TRUE)
      [] v.t = "bin"  -> EncString(4, v.x, FALSE)
      [] v.t = "arr"  -> UNION {Constructed(0, 16, b) : b \in Items(v.a)}
      [] v.t = "ber"  ->
          (CASE v.ty = "str" -> EncString(v.tag, v.s, TRUE)
             [] v.ty = "set" -> UNION {Constructed(0, 17, b) : b \in Items(v.a)}
             [] v.ty = "ctx" -> UNION {Constructed(2, v.tag, b) : b \in Items(v.a)}
             [] v.ty = "real" -> UNION {Primitive(0, 9, c) : c \in RealContent(v)}
             [] v.ty = "oid" -> Primitive(0, 6, OidContent(v.arcs)))

\* torepr: SEQUENCE, SET and context-tagged constructed values are arrays of their members,
\* strings of every kind are strings, an OID is the array of its arcs
RECURSIVE Repr(_)
Repr(v) ==
    CASE v.t = "bin" -> Str(v.x)
      [] v.t = "arr" -> Arr([i \in 1..Len(v.a) |-> Repr(v.a[i])])
      [] v.t = "ber" ->
          (CASE v.ty = "str" -> Str(v.s)
             [] v.ty = "real" -> F64(RealF64(v))
             [] v.ty = "oid" -> Arr([i \in 1..Len(v.arcs) |-> IntV(FALSE, MagOf(v.arcs[i]))])
             [] OTHER -> Arr([i \in 1..Len(v.a) |-> Repr(v.a[i])]))
      [] OTHER -> v
=============================================================================
