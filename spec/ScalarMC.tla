------------------------------ MODULE ScalarMC ------------------------------
(***************************************************************************)
(* MC mode for C02: the AS-BUILT case analyses of pkg/decode/read.go       *)
(* (tryUEndian + bitio.ReverseBytes64, trySEndian, tryBigIntEndianSign)    *)
(* refine the AS-REQUIRED operators U / S / LE / BigU / BigS of Scalar.tla *)
(* for every width 1..64 (big integers: BigW) on the pattern family.       *)
(* One action per branch of the code so that -coverage shows each fired.   *)
(***************************************************************************)
EXTENDS Scalar
CONSTANTS MaxExh,    \* widths <= MaxExh: every bit pattern
          Two,       \* TRUE: also every pattern with (at most) two ones
          BigW,      \* big-integer widths (> 64)
          SignOff,   \* 1 in the code
          MaskOff    \* 0 in the code
VARIABLES w, bits, le, u, s, pc
vars == <<w, bits, le, u, s, pc>>

PatSet(x) == IF x <= MaxExh THEN AllBits(x)
             ELSE IF Two /\ x <= 64 THEN Patterns(x) \cup TwoOnes(x) ELSE Patterns(x)
NoS == [neg |-> FALSE, mag |-> <<>>]
Init == /\ w \in (1 .. 64) \cup BigW
        /\ bits \in PatSet(w)
        /\ le \in (IF w % 8 = 0 THEN BOOLEAN ELSE {FALSE})    \* LE is stated for whole-byte widths only
        /\ u = <<>> /\ s = NoS /\ pc = "start"

\* step 1: tryUEndian
NoSwap  == pc = "start" /\ w <= 64 /\ ~le /\ u' = UAsBuilt(w, FALSE, bits) /\ pc' = "u" /\ UNCHANGED <<w, bits, le, s>>
\* one action per case of ReverseBytes64 (separate definitions so that coverage counts each)
Swap1 == pc = "start" /\ w <= 64 /\ le /\ RB64Case(w) = 1 /\ u' = UAsBuilt(w, TRUE, bits) /\ pc' = "u" /\ UNCHANGED <<w, bits, le, s>>
Swap2 == pc = "start" /\ w <= 64 /\ le /\ RB64Case(w) = 2 /\ u' = UAsBuilt(w, TRUE, bits) /\ pc' = "u" /\ UNCHANGED <<w, bits, le, s>>
Swap3 == pc = "start" /\ w <= 64 /\ le /\ RB64Case(w) = 3 /\ u' = UAsBuilt(w, TRUE, bits) /\ pc' = "u" /\ UNCHANGED <<w, bits, le, s>>
Swap4 == pc = "start" /\ w <= 64 /\ le /\ RB64Case(w) = 4 /\ u' = UAsBuilt(w, TRUE, bits) /\ pc' = "u" /\ UNCHANGED <<w, bits, le, s>>
Swap5 == pc = "start" /\ w <= 64 /\ le /\ RB64Case(w) = 5 /\ u' = UAsBuilt(w, TRUE, bits) /\ pc' = "u" /\ UNCHANGED <<w, bits, le, s>>
Swap6 == pc = "start" /\ w <= 64 /\ le /\ RB64Case(w) = 6 /\ u' = UAsBuilt(w, TRUE, bits) /\ pc' = "u" /\ UNCHANGED <<w, bits, le, s>>
Swap7 == pc = "start" /\ w <= 64 /\ le /\ RB64Case(w) = 7 /\ u' = UAsBuilt(w, TRUE, bits) /\ pc' = "u" /\ UNCHANGED <<w, bits, le, s>>
Swap8 == pc = "start" /\ w <= 64 /\ le /\ RB64Case(w) = 8 /\ u' = UAsBuilt(w, TRUE, bits) /\ pc' = "u" /\ UNCHANGED <<w, bits, le, s>>
\* step 2: trySEndian, one action per branch of `if n&(1<<(nBits-1)) > 0`
SignBitSet == ~IsZero(AndB(u, Shl(One64, w - SignOff)))
Negative    == pc = "u" /\ SignBitSet  /\ s' = SAsBuiltP(w, u, SignOff, MaskOff) /\ pc' = "done" /\ UNCHANGED <<w, bits, le, u>>
NonNegative == pc = "u" /\ ~SignBitSet /\ s' = SAsBuiltP(w, u, SignOff, MaskOff) /\ pc' = "done" /\ UNCHANGED <<w, bits, le, u>>
\* big integers wider than 64 bits have no uint64 stage
BigOnly == pc = "start" /\ w > 64 /\ pc' = "done" /\ UNCHANGED <<w, bits, le, u, s>>
Next == NoSwap \/ Swap1 \/ Swap2 \/ Swap3 \/ Swap4 \/ Swap5 \/ Swap6 \/ Swap7 \/ Swap8 \/ Negative \/ NonNegative \/ BigOnly
Spec == Init /\ [][Next]_vars

\* refinement
URefines == (pc \in {"u", "done"} /\ w <= 64) => Norm(u) = UE(bits, le)
\* the swapped value stays inside the width (ReverseBytes64: "rest of bytes will be zero")
UInWidth == (pc \in {"u", "done"} /\ w <= 64) => IsZero(SubSeq(u, 1, 64 - w))
SRefines == (pc = "done" /\ w <= 64) => s = SE(bits, le)
BigRefines == pc = "done" => /\ BigAsBuilt(bits, le, FALSE).mag = BigU(bits, le)
                             /\ BigAsBuilt(bits, le, TRUE) = BigS(bits, le)
=============================================================================
