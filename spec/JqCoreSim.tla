------------------------------ MODULE JqCoreSim ------------------------------
(* C07 SIM (run with -simulate): random programs one level deeper than GEN: construct o with child p replaced by construct i *)
(* whose child p2 is replaced by construct j; random input.  One step per behaviour.                                       *)
EXTENDS JqCoreUniv, Json
VARIABLES c, n
R(k) == RandomElement(1 .. k)
Init == n = 0 /\ c = [o |-> 1, p |-> 0, i |-> 1, q |-> 0, j |-> 1, x |-> 1]
Pick == /\ n = 0 /\ n' = 1
        /\ \E o \in {R(Len(Cons))}, i \in {R(Len(Cons))}, j \in {R(Len(Cons))}, x \in {R(Len(Inputs))}, p \in {R(5)}, q \in {R(5)} :
              c' = [o |-> o, p |-> IF Cons[o].k = 0 THEN 0 ELSE 1 + (p % Cons[o].k), i |-> i,
                    q |-> IF Cons[i].k = 0 THEN 0 ELSE 1 + (q % Cons[i].k), j |-> j, x |-> x]
Spec == Init /\ [][Pick]_<<c, n>>
Deep(o, p, i, q, j) ==
    LET inner == IF q = 0 THEN Base(Cons[i].n) ELSE Mk(Cons[i].n, [m \in 1 .. Cons[i].k |-> IF m = q THEN Base(Cons[j].n) ELSE Dflt(Cons[i].n, m)]) IN
    IF p = 0 THEN Base(Cons[o].n) ELSE Mk(Cons[o].n, [m \in 1 .. Cons[o].k |-> IF m = p THEN inner ELSE Dflt(Cons[o].n, m)])
Emit == n = 1 =>
        LET raw == Deep(c.o, c.p, c.i, c.q, c.j)
            ast == Min(raw)
            r == Run(ast, Inputs[c.x], InputList, GenLit) IN
        PrintT(ToJson([id |-> <<"sim", Cons[c.o].n, Cons[c.i].n \o "/" \o Cons[c.j].n>>,
                       prog |-> PrintQ(Full(raw)), ast |-> ast, input |-> Inputs[c.x], inputs |-> InputList,
                       out |-> r.out, side |-> r.side, core |-> r.core]))
=============================================================================
