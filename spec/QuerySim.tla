------------------------------ MODULE QuerySim ------------------------------
(* C11 SIM: random deeper trees (run with -simulate): the tree grows by wrapping it in one more construct per step. *)
EXTENDS QueryUniv, Json
(* random deeper trees: grow by replacing one default child at a time *)
VARIABLES t, n
SimInit == t = D3 /\ n = 0
SimGrow == /\ n < 4
           /\ \E o \in 1 .. Len(Outers), p \in 1 .. 5 :
                /\ p <= Outers[o].k
                /\ t' = MkO(Outers[o].n, [j \in 1 .. Outers[o].k |-> IF j = p THEN t ELSE IF j = 1 THEN Inner(InnerNames[RandomElement(1 .. Len(InnerNames))]) ELSE Dflt[j]])
           /\ n' = n + 1
SimEmit == /\ n >= 3 /\ n < 9
           /\ PrintT(ToJson([id |-> <<"sim">>, ast |-> Min(t), min |-> PrintQ(Min(t)), full |-> PrintQ(Full(t))]))
           /\ n' = 9 /\ t' = t
SimSpec == SimInit /\ [][SimGrow \/ SimEmit]_<<t, n>>
SimProps == n = 9 => LET m == Min(t) IN
                     /\ Norm(Full(t)) = Norm(m)
                     /\ DeepReparse(m) = m
                     /\ RewriteKeepsUser(m, OptsOf("inputs")) /\ NoCapture(m, OptsOf("inputs")) /\ RewriteReparses(m, OptsOf("repl"))
=============================================================================
