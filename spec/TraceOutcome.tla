--------------------------- MODULE TraceOutcome ---------------------------
(***************************************************************************)
(* C13 TV mode.  Every event of trace.ndjson is one call                   *)
(*     INPUT | try F(ARGS) catch .                                         *)
(* executed by real fq in an isolated worker (harness/c13):                *)
(*   <<f, fn, arity, pos, vals, outcome>>                                  *)
(* f indexes c13_fns.ndjson (the inventory the harness read from the       *)
(* running program: Go-registered functions and the definitions of every   *)
(* bundled jq module), vals index c13_pool.ndjson.  Events are independent:*)
(* a rejected event is printed and skipped, the whole trace is consumed.   *)
(*                                                                         *)
(* POSTCONDITION Covered: the coverage obligation of Outcome.tla section 3 *)
(* holds for the recorded trace and the inventory is plausible, so a run   *)
(* that silently skipped functions, positions or pool values fails here.   *)
(***************************************************************************)
EXTENDS Outcome, TLC, Json
CONSTANTS FullClasses,   \* classes whose functions must see every pool value at every position (tier policy)
          WantPairs,     \* TRUE: the all-pairs obligation is part of the postcondition (thorough)
          MinGo, MinPublic, MinInternal, MinGenerated

Trace == ndJsonDeserialize("trace.ndjson")
Inv   == ndJsonDeserialize("c13_fns.ndjson")
Pool  == ndJsonDeserialize("c13_pool.ndjson")
NPool == Len(Pool)

\* Functions that the fq documentation gives a process-level effect: they end fq with an exit status or
\* hand control to the terminal / standard input.  Only these names may carry exit = TRUE in the inventory.
ExitNames == { "halt", "halt_error", "input", "inputs", "repl" }

\* fq-added functions that are known to exist (pinned from the design-round sweep); <<name, arity>>
Anchors == { <<"bsl", 2>>, <<"bsr", 2>>, <<"band", 2>>, <<"bnot", 0>>, <<"_tobits", 1>>, <<"_decode", 2>>,
             <<"_to_toml", 1>>, <<"to_xml", 1>>, <<"_to_yaml", 1>>, <<"_to_csv", 1>>, <<"_to_hash", 1>>, <<"_display", 1>>,
             <<"_hexdump", 1>>, <<"_match_binary", 2>>, <<"to_hex", 0>>, <<"from_url", 0>>, <<"_to_strencoding", 1>>,
             <<"tobytes", 0>>, <<"tobits", 0>>, <<"tobytes", 1>>, <<"decode", 2>>, <<"display", 1>>, <<"hexdump", 0>>,
             <<"to_toml", 1>>, <<"to_yaml", 1>>, <<"to_csv", 1>>, <<"to_radix", 1>>, <<"from_radix", 1>>,
             <<"to_base64", 1>>, <<"grep", 2>>, <<"tovalue", 1>>, <<"path_to_expr", 0>>, <<"repl", 1>>, <<"input", 0>> }
MinPerClass == [go |-> MinGo, public |-> MinPublic, internal |-> MinInternal, generated |-> MinGenerated]

VARIABLE l

TInit == l = 1
TNext == /\ l <= Len(Trace)
         /\ LET e == Trace[l] IN
              IF C13WellFormed(e, Inv, NPool) /\ C13Accept(e, Inv, ExitNames) THEN TRUE
              ELSE PrintT(<<"REJECT", l, C13RejectSig(e, Inv, NPool)>>)
         /\ l' = l + 1
TSpec == TInit /\ [][TNext]_l

Consumed == TLCGet("stats").diameter - 1 = Len(Trace)

WellFormedEvents == { i \in 1 .. Len(Trace) : C13WellFormed(Trace[i], Inv, NPool) }
SinglesSeen == C13SinglesSeen(Trace, WellFormedEvents, Pool)
PairsSeen   == IF WantPairs THEN C13PairsSeen(Trace, WellFormedEvents, Pool) ELSE {}
MissingSingles == C13SingleObligations(Inv, Pool) \ SinglesSeen
MissingPairs   == IF WantPairs THEN C13PairObligations(Inv, Pool) \ PairsSeen ELSE {}

Report(tag, s) == IF s = {} THEN TRUE ELSE PrintT(<<tag, Cardinality(s), CHOOSE x \in s : TRUE>>) /\ FALSE
CoveredDemo == Consumed /\ Report("MISSING-SINGLE", MissingSingles)     \* binding demo: tiny inventory, no plausibility floor
Covered ==
    /\ Consumed
    /\ IF C13ReqHonest(Inv, Pool, FullClasses) THEN TRUE ELSE PrintT(<<"DISHONEST-REQ", 0>>) /\ FALSE
    /\ IF C13InventoryPlausible(Inv, MinPerClass, Anchors) THEN TRUE ELSE PrintT(<<"INVENTORY-SHRUNK", 0>>) /\ FALSE
    /\ Report("MISSING-SINGLE", MissingSingles)
    /\ Report("MISSING-PAIR", MissingPairs)
=============================================================================
