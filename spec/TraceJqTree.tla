---------------------------- MODULE TraceJqTree ----------------------------
(***************************************************************************)
(* TV mode for C05 and C12 at the jq level.  An event is one real decode    *)
(* tree: the node table of the real *decode.Value tree (harness/treelib),   *)
(* the bits of its buffers, and for every node (pre-order, same numbering)  *)
(* what the real jq layer returned for tobits, tobytes, the bits_format     *)
(* renderings, topath, getpath, parent, root, buffer_root, format_root.     *)
(*   bits.*  C05      path.*  C12                                           *)
(***************************************************************************)
EXTENDS Integers, Sequences, FiniteSets, TLC, Json

Trace == ndJsonDeserialize("trace.ndjson")
DT == INSTANCE DecodeTree WITH ZeroQuirk <- FALSE, PPOnAbort <- TRUE, Slack <- 0
VARIABLE l

(* bit sequences *)
Zeros(n) == [i \in 1 .. n |-> 0]
PadLeft8(b)  == Zeros((8 - (Len(b) % 8)) % 8) \o b
PadRight8(b) == b \o Zeros((8 - (Len(b) % 8)) % 8)
ByteVal(b, k) == \* value of the k-th (1-based) group of eight bits
    LET o == 8 * (k - 1) IN
    128 * b[o + 1] + 64 * b[o + 2] + 32 * b[o + 3] + 16 * b[o + 4] + 8 * b[o + 5] + 4 * b[o + 6] + 2 * b[o + 7] + b[o + 8]
BytesOf(b) == [k \in 1 .. (Len(b) \div 8) |-> ByteVal(b, k)]
Take(s, n) == SubSeq(s, 1, IF Len(s) < n THEN Len(s) ELSE n)

(* the bits of a node: its buffer's bits in its inner range *)
BufOf(e, T, id) == e.bufs[ToString(DT!RootOf(T, id))]
HasBuf(e, T, id) == ToString(DT!RootOf(T, id)) \in DOMAIN e.bufs
Blen(T) == [id \in DOMAIN T |-> T[id].blen]
NodeBitsSeq(e, T, id) == SubSeq(BufOf(e, T, id), DT!InnerStart(T, id) + 1, DT!InnerStart(T, id) + T[id].len)
Judgeable(e, T, id) == HasBuf(e, T, id) /\ DT!InBufOK(T, Blen(T), id) /\ T[id].kind # "synth"
                       /\ DT!InnerStart(T, id) + T[id].len <= Len(BufOf(e, T, id))

(* C05 *)
ToBitsOK(e, T, id)  == Judgeable(e, T, id) => (e.obs[id].bits.ok /\ e.obs[id].bits.v = NodeBitsSeq(e, T, id))
ToBytesOK(e, T, id) == Judgeable(e, T, id) => (e.obs[id].bytes.ok /\ e.obs[id].bytes.v = BytesOf(PadLeft8(NodeBitsSeq(e, T, id))))
RenderOK(e, T, id) ==
    (Judgeable(e, T, id) /\ T[id].raw /\ e.obs[id].r.has) =>
       LET want == BytesOf(PadRight8(NodeBitsSeq(e, T, id)))
           r == e.obs[id].r
       IN /\ r.bad = ""
          /\ r.hex = want /\ r.b64 = want /\ r.str = want /\ r.arr = want
          /\ r.trunc = Take(want, 1024)
          /\ r.snip = Take(want, 256)
          /\ r.md5of = r.md5ref          \* digest of exactly the bytes of the `string` rendering (crypto/md5 on the harness side)
RootRawOK(e, T) == (HasBuf(e, T, 1) /\ T[1].len = Len(e.bufs["1"]) /\ Len(e.bufs["1"]) % 8 = 0) => (e.rawok /\ e.rawout = BytesOf(e.bufs["1"]))
RootWholeOK(e, T) == (HasBuf(e, T, 1) /\ T[1].len = Len(e.bufs["1"])) => e.obs[1].bits.v = e.bufs["1"]

BitsSig(e, T) ==
    IF \E id \in DOMAIN T : ~ToBitsOK(e, T, id) THEN "bits.tobits_differs_from_buffer_range"
    ELSE IF \E id \in DOMAIN T : ~ToBytesOK(e, T, id) THEN "bits.tobytes_not_left_padded_range"
    ELSE IF \E id \in DOMAIN T : ~RenderOK(e, T, id) THEN "bits.bits_format_rendering_differs"
    ELSE IF ~RootWholeOK(e, T) THEN "bits.root_is_not_whole_input"
    ELSE IF ~RootRawOK(e, T) THEN "bits.raw_stdout_differs_from_input"
    ELSE "ok"

(* C12 *)
\* follow a reported path from the root of the real tree; 0 when it does not resolve
RECURSIVE ResolveFrom(_, _, _, _)
ResolveFrom(T, cur, p, i) ==
    IF cur = 0 \/ i > Len(p) THEN cur
    ELSE LET el == p[i]
             kids == T[cur].kids
             nxt == IF el.k = "i"
                    THEN IF el.i >= 0 /\ el.i < Len(kids) THEN kids[el.i + 1] ELSE 0
                    ELSE LET m == {j \in DOMAIN kids : T[kids[j]].name = el.s} IN
                         IF T[cur].kind = "struct" /\ Cardinality(m) = 1 THEN kids[CHOOSE j \in m : TRUE] ELSE 0
         IN ResolveFrom(T, nxt, p, i + 1)
Resolve(T, p) == ResolveFrom(T, 1, p, 1)

RECURSIVE FormatRootOf(_, _)
FormatRootOf(T, id) == IF T[id].par = 0 \/ T[id].root \/ T[id].fmt THEN id ELSE FormatRootOf(T, T[id].par)

PathOK(e, T, id) == Resolve(T, e.obs[id].p) = id
GetPathOK(e, T, id) == e.obs[id].gpok /\ e.obs[id].gps = T[id].start /\ e.obs[id].gpe = T[id].start + T[id].len /\ e.obs[id].gpn = T[id].name
ReportOK(e, T, id) == e.obs[id].s = T[id].start /\ e.obs[id].e = T[id].start + T[id].len /\ e.obs[id].n = T[id].name
ParentOK(e, T, id) ==
    LET o == e.obs[id].par IN
    o.ok /\ (IF T[id].par = 0 THEN o.null ELSE ~o.null /\ Resolve(T, o.v) = T[id].par)
ViaParentOK(e, T, id) ==
    LET o == e.obs[id].via IN
    T[id].par # 0 => (o.ok /\ ~o.null /\ Resolve(T, o.v) = id)
RootsOK(e, T, id) ==
    /\ e.obs[id].root.ok /\ ~e.obs[id].root.null /\ Resolve(T, e.obs[id].root.v) = 1
    /\ e.obs[id].br.ok /\ ~e.obs[id].br.null /\ Resolve(T, e.obs[id].br.v) = DT!RootOf(T, id)
    /\ e.obs[id].fr.ok /\ ~e.obs[id].fr.null /\ Resolve(T, e.obs[id].fr.v) = FormatRootOf(T, id)

PathSig(e, T) ==
    IF \E id \in DOMAIN T : ~ReportOK(e, T, id) THEN "path.reported_range_or_name_differs_from_tree"
    ELSE IF \E id \in DOMAIN T : ~PathOK(e, T, id) THEN "path.reported_path_does_not_resolve_to_value"
    ELSE IF \E id \in DOMAIN T : ~GetPathOK(e, T, id) THEN "path.getpath_of_reported_path_is_other_value"
    ELSE IF \E id \in DOMAIN T : ~ParentOK(e, T, id) THEN "path.parent_differs_from_tree"
    ELSE IF \E id \in DOMAIN T : ~ViaParentOK(e, T, id) THEN "path.parent_lookup_by_name_or_index_is_other_value"
    ELSE IF \E id \in DOMAIN T : ~RootsOK(e, T, id) THEN "path.root_buffer_root_format_root_differ_from_tree"
    ELSE "ok"

Report(sig) == IF sig = "ok" THEN TRUE ELSE PrintT(<<"REJECT", l, sig>>)

TInit == l = 1
TNext == /\ l <= Len(Trace)
         /\ LET e == Trace[l]
                T == e.nodes
            IN IF e.kind = "slice"
               THEN \* decode of a sliced binary: the root's bytes are exactly the slice that was decoded
                    (IF e.got = e.want THEN TRUE ELSE PrintT(<<"REJECT", l, "bits.root_of_sliced_binary_is_not_the_slice">>))
               ELSE IF e.kind = "bigarr"
               THEN \* an array of e.len elements: every element's path ends in its position (count, mismatches, last element, and back through parent)
                    (IF e.got = <<e.len, 0, e.len - 1, e.len - 1>> THEN TRUE ELSE PrintT(<<"REJECT", l, "path.array_index_differs_from_position">>))
               ELSE IF Len(T) = 0 THEN TRUE
               ELSE IF Len(e.obs) # Len(T) THEN PrintT(<<"REJECT", l, "path.node_count_differs">>)
               ELSE Report(BitsSig(e, T)) /\ Report(PathSig(e, T))
         /\ l' = l + 1
TSpec == TInit /\ [][TNext]_l
Consumed == TLCGet("stats").diameter - 1 = Len(Trace)
=============================================================================
