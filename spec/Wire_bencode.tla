---------------------------- MODULE Wire_bencode ----------------------------
(***************************************************************************)
(* C16: bencoding, from the BitTorrent specification (BEP 3).  Every value *)
(* has exactly one encoding (integers have no leading zeros and no "-0",   *)
(* dictionary keys are strings in sorted order), so Enc(v) is a singleton. *)
(* Domain restriction measured in the design round: fq reports integers    *)
(* outside the signed 64-bit range as a decode error (strconv.ParseInt),   *)
(* and string lengths of more than 20 digits likewise; InDomain states it. *)
(***************************************************************************)
EXTENDS WireBytes

ListOf(body) == <<108>> \o body \o <<101>>
DictOf(body) == <<100>> \o body \o <<101>>

RECURSIVE Enc(_)
Enc(v) ==
    CASE v.t = "int" -> {<<105>> \o (IF v.neg THEN <<45>> ELSE <<>>) \o Decimal(v.mag) \o <<101>>}
      [] v.t = "str" -> {Decimal(MagOf(RLen(v.s))) \o <<58>> \o v.s}
      [] v.t = "arr" -> {ListOf(b) : b \in CatAll([i \in 1..Len(v.a) |-> Enc(v.a[i])])}
      [] v.t = "map" -> {DictOf(b) :
                            b \in CatAll([i \in 1..(2 * Len(v.k)) |->
                                   IF i % 2 = 1 THEN Enc(Str(v.k[(i + 1) \div 2])) ELSE Enc(v.v[i \div 2])])}
      [] OTHER -> {}

RECURSIVE InDomain(_)
InDomain(v) ==
    CASE v.t = "int" -> SFits(v, 8)
      [] v.t = "str" -> TRUE
      [] v.t = "arr" -> \A i \in 1..Len(v.a) : InDomain(v.a[i])
      [] v.t = "map" -> \A i \in 1..Len(v.v) : InDomain(v.v[i])
      [] OTHER -> FALSE

Repr(v) == v
=============================================================================
