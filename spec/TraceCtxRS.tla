----------------------------- MODULE TraceCtxRS -----------------------------
(* TV mode for CtxReadSeeker.tla: traces recorded from the real internal/ctxreadseeker over a gated source (harness/ctxrs). *)
(* Logged: call k, under_start k, under_end k (in the loop goroutine, around the underlying call), ret k cls, cancel,        *)
(* closed (the source's Close).  Not loggable without touching the code: the hand-over of the call to the loop goroutine   *)
(* and the closing of the per-call done channel; they are silent steps (the position in the trace stays).  Acceptance: the  *)
(* whole concatenation is consumed (high-water mark of the position, -workers 1); every trace must end with the loop        *)
(* goroutine gone (checked when the next trace's reset event is consumed, and by the final "end" event).                    *)
EXTENDS CtxReadSeeker, Json
Trace == ndJsonDeserialize("trace.ndjson")
VARIABLE l
Ev == Trace[l]
Is(op) == l <= Len(Trace) /\ Trace[l].op = op
Adv == l' = l + 1
Keep == UNCHANGED l
TInit == Init /\ l = 1
Fresh == /\ cancelled' = FALSE /\ xvc' = Zero /\ cpc' = "idle" /\ k' = 1 /\ cret' = <<>> /\ lpc' = "sel" /\ lk' = 0
         /\ vc' = [p \in Procs |-> Zero] /\ under' = [c \in Calls |-> "no"] /\ resw' = [c \in Calls |-> FALSE] /\ wvc' = [c \in Calls |-> Zero]
         /\ cacc' = [c \in Calls |-> Zero] /\ chacc' = [c \in Calls |-> FALSE] /\ tok' = 0 /\ tokvc' = Zero
         /\ done' = [c \in Calls |-> FALSE] /\ donevc' = [c \in Calls |-> Zero] /\ race' = FALSE /\ stale' = FALSE
\* "reset" starts a trace; the one before it must have ended with the loop goroutine gone and the caller through
Ended == lpc = "closed" /\ cpc \in {"idle", "fin"}
TReset == Is("reset") /\ (l = 1 \/ Ended) /\ Fresh /\ Adv
TEnd == Is("end") /\ Ended /\ Adv /\ UNCHANGED vars
TCall == Is("call") /\ Ev.k = k /\ StartCall /\ Adv
TCancel == Is("cancel") /\ Cancel /\ Adv
TUnderStart == Is("under_start") /\ lk = Ev.k /\ UnderStart /\ Adv
TUnderEnd == Is("under_end") /\ lk = Ev.k /\ UnderEnd /\ Adv
TRetCtx == Is("ret") /\ Ev.cls = "ctx" /\ Ev.k = k /\ (Sel1Ctx \/ Sel2Ctx) /\ Adv
TRetOk == Is("ret") /\ Ev.cls = "ok" /\ Ev.k = k /\ (Sel2Tok \/ Sel2Done) /\ Adv
TClosed == Is("closed") /\ LoopCtx /\ Adv
Silent == (Handover \/ PostBuilt \/ PostBuffered \/ PostPerCall) /\ Keep
TNext == TReset \/ TEnd \/ TCall \/ TCancel \/ TUnderStart \/ TUnderEnd \/ TRetCtx \/ TRetOk \/ TClosed \/ Silent
TSpec == TInit /\ [][TNext]_<<vars, l>>

ASSUME TLCSet(1, 0)
HighWater == TLCSet(1, IF l - 1 > TLCGet(1) THEN l - 1 ELSE TLCGet(1))      \* CONSTRAINT: evaluated on every state (-workers 1)
Consumed == IF TLCGet(1) = Len(Trace) THEN TRUE ELSE PrintT(<<"PREFIX", TLCGet(1)>>) /\ FALSE
=============================================================================
