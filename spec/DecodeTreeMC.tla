---------------------------- MODULE DecodeTreeMC ----------------------------
(* Generator / model-checking machine over DecodeTree: every decoder program *)
(* of at most MaxOps calls and nesting MaxDepth, one API call per step.      *)
EXTENDS DecodeTree, Json

CONSTANTS L,            \* input length in bits
          MaxOps,       \* max number of calls (not counting `end`)
          MaxDepth,     \* max nesting of open bodies
          Names, Widths, SeekTo, FrameLens, BufLens, Force,
          Kinds,        \* token kinds offered to the generator
          AllowedWhy

VARIABLES M, prog, open, nops
vars == <<M, prog, open, nops>>

EndTok == Tok("end", "", 0, 0, FALSE)

Alphabet ==
    {Tok("leaf", n, w, 0, FALSE) : n \in Names, w \in Widths}
    \cup {Tok("synth", n, 0, 0, FALSE) : n \in Names}
    \cup {Tok(k, n, 0, 0, FALSE) : k \in {"struct", "array"}, n \in Names}
    \cup {Tok(k, "", w, 0, FALSE) : k \in {"framed", "limited"}, w \in FrameLens}
    \cup {Tok("seek", "", 0, p, FALSE) : p \in SeekTo}
    \cup {Tok("seekfn", "", 0, p, FALSE) : p \in SeekTo}
    \cup {Tok("fmtrest", n, 0, 0, o) : n \in Names, o \in BOOLEAN}
    \cup {Tok("fmtlen", n, w, 0, o) : n \in Names, w \in FrameLens, o \in BOOLEAN}
    \cup {Tok("fmtrange", n, w, p, FALSE) : n \in Names, w \in FrameLens, p \in SeekTo}
    \cup {Tok(k, n, b, 0, FALSE) : k \in {"bitbuf", "rootstruct", "rootarray"}, n \in Names, b \in BufLens}
    \cup {Tok("fail", "", 0, 0, FALSE), Tok("errorf", "", 0, 0, FALSE)}

Offered == {t \in Alphabet : t.k \in Kinds}

RECURSIVE Ends(_)
Ends(n) == IF n <= 0 THEN <<>> ELSE <<EndTok>> \o Ends(n - 1)
RECURSIVE CloseSkips(_)
CloseSkips(m) == IF m.status = "run" /\ m.skip > 0 THEN CloseSkips(Step(m, EndTok)) ELSE m

Init == M = InitM(L, Force) /\ prog = <<>> /\ open = 0 /\ nops = 0

Call(t) ==
    /\ M.status = "run"
    /\ IF t.k = "end" THEN open > 0 ELSE nops < MaxOps
    /\ IsBegin(t) => open < MaxDepth
    /\ LET m1 == Step(M, t)
           op1 == open + (IF IsBegin(t) THEN 1 ELSE 0) - (IF t.k = "end" THEN 1 ELSE 0)
           nend == IF m1.status = "failed" THEN op1 ELSE m1.skip
       IN /\ M' = CloseSkips(m1)
          /\ prog' = Append(prog, t) \o Ends(nend)
          /\ open' = op1 - nend
          /\ nops' = nops + (IF t.k = "end" THEN 0 ELSE 1)

Done ==
    /\ M.status \in {"run", "failed"}
    /\ open = 0
    /\ M' = Finish(M)
    /\ UNCHANGED <<prog, open, nops>>

Next == (\E t \in Offered \cup {EndTok} : Call(t)) \/ Done
\* SIM mode: emission inside the action (constraints are not a filter in simulation), gated on a minimum length
SimNext == (\E t \in Offered \cup {EndTok} : Call(t))
           \/ (nops >= MaxOps - 2 /\ Done /\ PrintT(ToJson([len |-> L, force |-> Force, prog |-> prog])))
SimSpec == Init /\ [][SimNext]_vars
Spec == Init /\ [][Next]_vars

View == <<M, open, nops>>

\* roots decoded with gap filling in the model: node 1 and bitbuf roots (not *RootBitBufFn roots)
FilledIds(m) == {1} \cup {id \in DOMAIN m.nodes : m.nodes[id].root /\ \E i \in DOMAIN m.nodes[id].kids : m.nodes[m.nodes[id].kids[i]].kind = "gap"}

(* invariants *)
\* AllowedWhy: the malformed shapes already known for the configuration (DESIGN section 6)
TreeOK == M.status = "done" => Why(M.nodes, BlenOfM(M)) \in AllowedWhy
\* as built: besides AllowedWhy, the only malformed trees are those with an aborted *RootBitBufFn root
TreeOKOrD8 == M.status = "done" => (Why(M.nodes, BlenOfM(M)) \in AllowedWhy \/ M.d8)
\* coverage of the input buffer (as required needs Slack = 0)
InputCovered == M.status = "done" => CoveredRoot(M.nodes, BlenOfM(M), 1)
GapsDisjoint == M.status = "done" => \A g \in AllIds(M.nodes, 1) : M.nodes[g].kind = "gap" => GapDisjoint(M.nodes, g)
\* reachability witnesses (must be VIOLATED: anti-vacuity)
NeverFailed == ~(M.status = "done" /\ M.nodes[1].err)
NeverD8 == ~(M.status = "done" /\ M.d8)

Emit == IF M.status = "done"
        THEN PrintT(ToJson([len |-> L, force |-> Force, prog |-> prog]))
        ELSE TRUE
=============================================================================
