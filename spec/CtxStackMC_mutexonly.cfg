\* quick constants; thorough: MaxPush = 4, MaxDepth = 4, MaxIntr = 3 (checks/c20.py generates the cfg text it runs)
SPECIFICATION Spec
CONSTANTS Locked = TRUE
 EntryFlag = FALSE
 AtomicIndex = FALSE
 MaxPush = 3
 MaxDepth = 3
 MaxIntr = 2
 MaxCalls = 2
\* expected: Innermost is VIOLATED (defect D20); the rest holds
INVARIANT NoCrash NoRace StopAll FinishedCancelled
PROPERTY Innermost Enclosing Finished Termination
