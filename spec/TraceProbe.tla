----------------------------- MODULE TraceProbe -----------------------------
(* TV: what the real decode.Decode returned for synthetic formats (harness/probe) against Probe!Expect *)
EXTENDS ProbeOps, Json
Trace == ndJsonDeserialize("trace.ndjson")
VARIABLE l
Why(e) ==
    LET w == Expect(e.s) o == e.obs IN
    IF o.ran # w.ran THEN "probe.formats_tried"
    ELSE IF o.winner # w.winner THEN "probe.winner"
    ELSE IF o.nerr # w.nerr \/ o.haserr # w.haserr THEN "probe.errors_collected"
    ELSE IF o.rooterr # w.rooterr THEN "probe.error_attached_to_value"
    ELSE IF o.targ # w.targ THEN "probe.format_argument_precedence"
    ELSE IF o.garg # w.garg THEN "probe.group_argument_precedence"
    ELSE "ok"
TInit == l = 1
TNext == /\ l <= Len(Trace)
         /\ LET y == Why(Trace[l]) IN IF y = "ok" THEN TRUE ELSE PrintT(<<"REJECT", l, y>>)
         /\ l' = l + 1
TSpec == TInit /\ [][TNext]_l
Consumed == TLCGet("stats").diameter - 1 = Len(Trace)
=============================================================================
