---------------------------- MODULE ReaderStackOps ----------------------------
(***************************************************************************)
(* C01, as built: the operators of ReaderStack.tla (no variables), so that *)
(* the model checker (ReaderStack.tla) and the trace validation of calls   *)
(* recorded from the real readers (TraceBitIO.tla, RS!...) evaluate the    *)
(* same transcription.                                                     *)
(***************************************************************************)
EXTENDS Integers, Sequences, FiniteSets, TLC
Min2(x, y) == IF x < y THEN x ELSE y
Max2(x, y) == IF x > y THEN x ELSE y
Sym(id, j) == 1000 * id + j
Slice(s, o, n) == SubSeq(s, o + 1, o + n)
R(bits, err) == [bits |-> bits, err |-> err]

Leaf(id, nb) == [t |-> "leaf", id |-> id, nb |-> nb]
Sec(r, base, n) == [t |-> "section", r |-> r, base |-> base, n |-> n]
Mul(rs) == [t |-> "multi", rs |-> rs]
Zero(n) == [t |-> "zero", n |-> n]

(* ---------------- as required: the denotation ---------------- *)
RECURSIVE Den(_), Cat(_, _)
Cat(rs, i) == IF i = 0 THEN <<>> ELSE Cat(rs, i - 1) \o Den(rs[i])
Den(t) == CASE t.t = "leaf"    -> [j \in 1 .. 8 * t.nb |-> Sym(t.id, j - 1)]
            [] t.t = "zero"    -> [j \in 1 .. t.n |-> 0 - 1]
            [] t.t = "section" -> LET d == Den(t.r) IN Slice(d, t.base, Max2(0, Min2(t.n, Len(d) - t.base)))
            [] t.t = "multi"   -> Cat(t.rs, Len(t.rs))

RECURSIVE WellFormed(_)
WellFormed(t) == CASE t.t = "section" -> WellFormed(t.r) /\ t.base + t.n <= Len(Den(t.r))
                   [] t.t = "multi"   -> \A i \in 1 .. Len(t.rs) : WellFormed(t.rs[i])
                   [] OTHER           -> TRUE

(* ---------------- as built ---------------- *)
\* endPos(r): SeekBits(0, end) of each reader kind
RECURSIVE End(_), SumEnd(_, _)
SumEnd(rs, i) == IF i = 0 THEN 0 ELSE SumEnd(rs, i - 1) + End(rs[i])
End(t) == CASE t.t = "leaf"    -> 8 * t.nb              \* rs.Seek(0, end) * 8
            [] t.t = "zero"    -> t.n
            [] t.t = "section" -> t.n                   \* bitLimit - bitBase, whatever the source holds
            [] t.t = "multi"   -> SumEnd(t.rs, Len(t.rs))

\* ReadBitsAt(p, n, off)
RECURSIVE RAt(_, _, _)
RAt(t, n, off) ==
    CASE t.t = "leaf" ->
            IF n < 0 THEN R(<<>>, "neg")
            ELSE IF off < 0 THEN R(<<>>, "offset")
            ELSE LET bytePos   == off \div 8
                     skip      == off % 8
                     want      == skip + n
                     wantBytes == (want + 7) \div 8
                     got       == Min2(wantBytes, Max2(0, t.nb - bytePos))      \* io.ReadFull after Seek(bytePos)
                     d         == Den(t)
                 IN IF wantBytes = 0 THEN R(<<>>, "nil")                        \* ReadFull of an empty slice
                    ELSE IF got = 0 THEN R(<<>>, "eof")                         \* io.EOF is returned as it is, 0 bits
                    ELSE IF got < wantBytes                                     \* io.ErrUnexpectedEOF: the bits after the skipped ones
                         THEN R(Slice(d, off, Max2(0, 8 * got - skip)), "eof")
                         ELSE R(Slice(d, off, n), "nil")
      [] t.t = "zero" ->
            IF off < 0 \/ off > t.n THEN R(<<>>, "offset")
            ELSE IF off = t.n THEN R(<<>>, "eof")
            ELSE R([j \in 1 .. Min2(n, t.n - off) |-> 0 - 1], "nil")
      [] t.t = "section" ->
            IF off < 0 \/ off >= t.n THEN R(<<>>, "eof")
            ELSE LET o  == off + t.base
                     mx == (t.base + t.n) - o
                 IN RAt(t.r, IF n > mx THEN mx ELSE n, o)                       \* clamp; the error of the source is passed on
      [] t.t = "multi" ->
            LET k    == Len(t.rs)
                ends == [i \in 1 .. k |-> SumEnd(t.rs, i)]
                end  == IF k > 0 THEN ends[k] ELSE 0
            IN IF end <= off THEN R(<<>>, "eof")
               ELSE IF k = 0 THEN R(<<>>, "panic")                              \* m.readers[0] of no readers (negative offset only)
               ELSE LET hit  == {i \in 1 .. k : off < ends[i]}
                        i    == IF hit = {} THEN 1 ELSE CHOOSE x \in hit : \A y \in hit : x <= y
                        prev == IF hit = {} \/ i = 1 THEN 0 ELSE ends[i - 1]
                        r    == RAt(t.rs[i], n, off - prev)
                    IN IF r.err = "eof" /\ off + Len(r.bits) < end THEN R(r.bits, "nil") ELSE r

\* readFull(p, n, off, fn) with fn = ReadBitsAt of t.  rbo = readBitOffset, acc = the bits placed in p so far.
RECURSIVE FullLoop(_, _, _, _, _, _)
FullLoop(t, n, off, rbo, acc, fuel) ==
    IF ~(rbo < n) THEN [bits |-> acc, ret |-> n, err |-> "nil", hang |-> FALSE]
    ELSE IF fuel = 0 THEN [bits |-> acc, ret |-> 0, err |-> "nil", hang |-> TRUE]
    ELSE LET bbo     == rbo % 8
             partial == (8 - bbo) % 8
             left    == n - rbo
         IN IF partial # 0 \/ left < 8
            THEN LET rb == IF partial = 0 \/ left < partial THEN left ELSE partial
                     r  == RAt(t, rb, off + rbo)                                 \* into a one byte buffer, then Write64 into p
                     a2 == acc \o r.bits
                 IN IF r.err # "nil" THEN [bits |-> a2, ret |-> n - (rbo + Len(r.bits)), err |-> r.err, hang |-> FALSE]
                    ELSE FullLoop(t, n, off, rbo + Len(r.bits), a2, fuel - 1)
            ELSE LET r  == RAt(t, left, off + rbo)                               \* straight into p[byteOffset:]
                     a2 == acc \o r.bits
                 IN IF r.err # "nil" THEN [bits |-> a2, ret |-> n - (rbo + Len(r.bits)), err |-> r.err, hang |-> FALSE]
                    ELSE FullLoop(t, n, off, rbo + Len(r.bits), a2, fuel - 1)
ReadAtFull(t, n, off) == IF n < 0 THEN [bits |-> <<>>, ret |-> 0, err |-> "neg", hang |-> FALSE]
                         ELSE FullLoop(t, n, off, 0, <<>>, 2 * n + 4)

\* SeekBits of the top reader; returns [pos, err]
SeekTop(t, pos, off, wh) ==
    CASE t.t = "section" -> LET p == (CASE wh = 0 -> t.base [] wh = 1 -> t.base + pos [] OTHER -> t.base + t.n) + off
                            IN IF p < t.base THEN [pos |-> pos, err |-> TRUE] ELSE [pos |-> p - t.base, err |-> FALSE]
      [] t.t = "multi"   -> LET end == End(t)
                                p == (CASE wh = 0 -> 0 [] wh = 1 -> pos [] OTHER -> end) + off
                            IN IF p < 0 \/ p > end THEN [pos |-> pos, err |-> TRUE] ELSE [pos |-> p, err |-> FALSE]
      [] t.t = "zero"    -> LET p == (CASE wh = 0 -> 0 [] wh = 1 -> pos [] OTHER -> t.n) + off
                            IN IF p < 0 \/ p > t.n THEN [pos |-> pos, err |-> TRUE] ELSE [pos |-> p, err |-> FALSE]
      [] OTHER           -> LET p == (CASE wh = 0 -> 0 [] wh = 1 -> pos [] OTHER -> 8 * t.nb) + off
                            IN IF p < 0 THEN [pos |-> pos, err |-> TRUE] ELSE [pos |-> p, err |-> FALSE]

=============================================================================
