------------------------------- MODULE JqCore -------------------------------
(***************************************************************************)
(* A denotational semantics of a jq core over the JSON universe of         *)
(* JsonVal.tla and the syntax trees of Query.tla (the parser's JSON shape, *)
(* so the tree evaluated here is the tree handed to fq and to the engine). *)
(*                                                                         *)
(*   Run(q, input, inputs, lit) = [out |-> outcomes, side |-> records]     *)
(*                                                                         *)
(* outcomes: a sequence of [k |-> "v", v |-> value], ended early by        *)
(*   [k |-> "e", u |-> TRUE,  v |-> x]   error raised with a value: error(x)*)
(*   [k |-> "e", u |-> FALSE, v |-> m]   error raised by a built-in (m: the *)
(*                                       message if the semantics needs it, *)
(*                                       else the opaque value)            *)
(*   [k |-> "x", why |-> ..]             outside the modelled core (never a *)
(*                                       verdict; counted by the checks)   *)
(* side: debug / stderr records in evaluation order; inputs: the list       *)
(* input/inputs read from.  Both are threaded through the evaluation in the *)
(* state record that flows through every construct, together with the path *)
(* tracking state of path(f) (the engine's rules, including its quirks:     *)
(* scalars are "on the path" by value equality).                           *)
(*                                                                         *)
(* Library functions the engine defines in jq (map, select, recurse, range, *)
(* first, limit, until, paths, to_entries..., see Lib) are evaluated from   *)
(* their jq definitions written as trees; functions it implements natively *)
(* are given here as operators on values (Native).                         *)
(* Variable-free.                                                          *)
(***************************************************************************)
EXTENDS JsonVal, Query

MaxOut == 200          \* longer outcome sequences are outside the model
S(s) == JStr(s)

(******************************* flowing state *****************************)
(* v value; id identity of the value when it is physically a part of the root of the current path(f) (frame f, path p); *)
(* P, W: path so far and the value there; pm: path mode; f: frame; ins: unread inputs; side: debug/stderr records       *)
NoId == [f |-> 0, p |-> <<>>]
St0(v, ins) == [v |-> v, id |-> NoId, P |-> <<>>, W |-> JNull, pm |-> FALSE, f |-> 0, ins |-> ins, side |-> <<>>]
Fresh(st, v) == [st EXCEPT !.v = v, !.id = NoId]
NP(st) == [st EXCEPT !.pm = FALSE, !.id = NoId]                 \* sub-expression evaluated outside path tracking
Back(st, s) == [st EXCEPT !.ins = s.ins, !.side = s.side]       \* keep st's path context, take the effects of s
OutV(s) == [k |-> "v", s |-> s]
Opaque == [t |-> "opaque"]
ErrB(st) == [k |-> "e", u |-> FALSE, v |-> Opaque, s |-> st]      \* built-in error, message not modelled
ErrM(st, m) == [k |-> "e", u |-> FALSE, v |-> m, s |-> st]        \* built-in error whose message the library observes
ErrU(st, v) == [k |-> "e", u |-> TRUE, v |-> v, s |-> st]
Brk(st, l) == [k |-> "b", l |-> l, s |-> st]
Unm(st, why) == [k |-> "x", why |-> why, s |-> st]
IsV(o) == o.k = "v"
Ended(os) == os # <<>> /\ os[Len(os)].k # "v"
LastSt(os, st) == IF os = <<>> THEN st ELSE os[Len(os)].s      \* effects (ins, side) after a sequence of outcomes

RECURSIVE HasOpaque(_)
HasOpaque(v) == CASE v.t = "opaque" -> TRUE
                  [] v.t = "arr" -> \E i \in 1 .. Len(v.v) : HasOpaque(v.v[i])
                  [] v.t = "obj" -> \E i \in 1 .. Len(v.v) : HasOpaque(v.v[i])
                  [] OTHER -> FALSE

(* sequencing: run Op on every value outcome, threading effects; stop at the first non-value *)
FlatMap(os, st, Op(_)) ==
    LET RECURSIVE G(_, _)
        G(i, eff) == IF i > Len(os) THEN <<>>
                     ELSE IF ~IsV(os[i]) THEN <<os[i]>>
                     ELSE LET r == Op(Back(os[i].s, eff))
                              eff2 == LastSt(r, eff) IN
                          IF Ended(r) THEN r
                          ELSE IF Len(r) > MaxOut THEN Append(r, Unm(eff2, "too many outputs"))
                          ELSE LET rest == G(i + 1, eff2) IN r \o rest
    IN G(1, LastSt(os, st))
(* FlatMap threads `ins`/`side` forward: os was computed first, so its last effects are the starting effects; *)
(* each os[i].s carries the effects at the time it was produced, which are superseded by later ones.          *)

(******************************** environment ******************************)
(* vars: <<[n, v, id]>>; funcs: closures <<[n, ar, ps, body, env, param]>>; labels: <<[n, id]>>;               *)
(* dc: dynamic counter naming label activations and path frames; fuel: remaining call depth; lit: literals     *)
Env0(lit) == [vars |-> <<>>, funcs |-> <<>>, labels |-> <<>>, dc |-> 0, fuel |-> 14, lit |-> lit]
Dyn(callee, caller) == [callee EXCEPT !.dc = caller.dc, !.fuel = caller.fuel - 1]
LookupVar(env, n) == LET is == {i \in 1 .. Len(env.vars) : env.vars[i].n = n} IN
                     IF is = {} THEN <<>> ELSE env.vars[CHOOSE i \in is : \A j \in is : j <= i]
LookupFn(env, n, ar) == LET is == {i \in 1 .. Len(env.funcs) : env.funcs[i].n = n /\ env.funcs[i].ar = ar} IN
                        IF is = {} THEN 0 ELSE CHOOSE i \in is : \A j \in is : j <= i
LookupLabel(env, n) == LET is == {i \in 1 .. Len(env.labels) : env.labels[i].n = n} IN
                       IF is = {} THEN 0 ELSE env.labels[CHOOSE i \in is : \A j \in is : j <= i].id
BindVar(env, n, v, id) == [env EXCEPT !.vars = Append(@, [n |-> n, v |-> v, id |-> id])]
(* literal tables: lit.str maps the string literals / field names of the program to code points, lit.num number literals to integers *)
HasStrLit(env, s) == s = "" \/ s \in DOMAIN env.lit.str
StrLit(env, s) == IF s = "" THEN <<>> ELSE env.lit.str[s]
StrOfRec(env, r) == IF HasF(r, "str") THEN r.str ELSE ""
(* `$name` parameter: the variable name is the parameter name itself; the function name would be it without `$` (not callable here) *)
IsVarName(n) == n \in {"$a", "$b", "$c", "$x", "$y", "$z", "$v", "$n", "$item", "$end", "$start", "$step", "$__loc__", "$in", "$re", "$flags", "$i", "$k", "$p", "$q"}

(*************************** natives on plain values ************************)
Err == [err |-> TRUE]                 \* a native failed (built-in error)
Unk(why) == [unk |-> why]             \* a native left the modelled universe
IsErr(r) == HasF(r, "err")
IsUnk(r) == HasF(r, "unk")
Cps(s) == [i \in 1 .. Len(s) |-> s[i]]

AbsI(n) == IF n < 0 THEN -n ELSE n
RECURSIVE DigitsOf(_)
DigitsOf(n) == IF n < 10 THEN <<48 + n>> ELSE DigitsOf(n \div 10) \o <<48 + (n % 10)>>
NumText(n) == IF n < 0 THEN <<45>> \o DigitsOf(-n) ELSE DigitsOf(n)

(* JSON text of a value as code points (compact, keys sorted, as tojson prints); strings limited to printable ASCII without escapes *)
PlainChar(c) == c >= 32 /\ c <= 126 /\ c # 34 /\ c # 92
RECURSIVE JsonText(_), JoinCps(_, _)
JoinCps(parts, sep) == IF parts = <<>> THEN <<>> ELSE IF Len(parts) = 1 THEN parts[1] ELSE parts[1] \o sep \o JoinCps(Tail(parts), sep)
QuoteOK(cps) == \A i \in 1 .. Len(cps) : PlainChar(cps[i])
Quote(cps) == <<34>> \o cps \o <<34>>
JsonTextOK(v) == LET RECURSIVE OK(_)
                     OK(x) == CASE x.t = "str" -> QuoteOK(x.v)
                                [] x.t = "arr" -> \A i \in 1 .. Len(x.v) : OK(x.v[i])
                                [] x.t = "obj" -> (\A i \in 1 .. Len(x.v) : OK(x.v[i])) /\ (\A i \in 1 .. Len(x.k) : QuoteOK(x.k[i]))
                                [] x.t \in {"big", "opaque"} -> FALSE
                                [] OTHER -> TRUE
                 IN OK(v)
JsonText(v) == CASE v.t = "null" -> <<110, 117, 108, 108>>
                 [] v.t = "true" -> <<116, 114, 117, 101>>
                 [] v.t = "false" -> <<102, 97, 108, 115, 101>>
                 [] v.t = "num" -> NumText(v.v)
                 [] v.t = "str" -> Quote(v.v)
                 [] v.t = "arr" -> <<91>> \o JoinCps([i \in 1 .. Len(v.v) |-> JsonText(v.v[i])], <<44>>) \o <<93>>
                 [] v.t = "obj" -> <<123>> \o JoinCps([i \in 1 .. Len(v.k) |-> Quote(v.k[i]) \o <<58>> \o JsonText(v.v[i])], <<44>>) \o <<125>>

(* fromjson on the texts tojson produces for this universe: a recursive descent over code points; result [ok, v, rest] *)
IsDigit(c) == c >= 48 /\ c <= 57
IsWs(c) == c \in {32, 9, 10, 13}
RECURSIVE SkipWs(_), PValue(_), PNumber(_, _), PString(_, _), PArray(_, _), PArray2(_, _), PObject(_, _, _)
PBad == [ok |-> FALSE, v |-> JNull, rest |-> <<>>]
SkipWs(s) == IF s # <<>> /\ IsWs(Head(s)) THEN SkipWs(Tail(s)) ELSE s
StartsWith(s, p) == Len(s) >= Len(p) /\ SubSeq(s, 1, Len(p)) = p
Drop(s, n) == SubSeq(s, n + 1, Len(s))
PUnknown == [ok |-> FALSE, v |-> JNull, rest |-> <<0>>]          \* rest = <<0>>: the text leaves the modelled universe (escapes, fractions, exponents)
PNumber(s, acc) == IF s # <<>> /\ IsDigit(Head(s)) THEN (IF acc > 100000 THEN PUnknown ELSE PNumber(Tail(s), acc * 10 + (Head(s) - 48)))
                   ELSE IF s # <<>> /\ Head(s) \in {46, 69, 101} THEN PUnknown
                   ELSE [ok |-> TRUE, v |-> JNum(acc), rest |-> s]
PNumber0(s) == IF Head(s) = 48 /\ Len(s) > 1 /\ IsDigit(s[2]) THEN PBad ELSE PNumber(s, 0)     \* no leading zeros in JSON
PString(s, acc) == IF s = <<>> THEN PBad
                   ELSE IF Head(s) = 34 THEN [ok |-> TRUE, v |-> JStr(acc), rest |-> Tail(s)]
                   ELSE IF ~PlainChar(Head(s)) THEN PUnknown
                   ELSE PString(Tail(s), Append(acc, Head(s)))
PArray(s0, acc) == LET s == SkipWs(s0) IN
                   IF s # <<>> /\ Head(s) = 93 /\ acc = <<>> THEN [ok |-> TRUE, v |-> JArr(acc), rest |-> Tail(s)]
                   ELSE LET e == PValue(s) IN IF ~e.ok THEN e
                        ELSE LET r == SkipWs(e.rest) IN
                             IF r # <<>> /\ Head(r) = 44 THEN PArray2(Tail(r), Append(acc, e.v))
                             ELSE IF r # <<>> /\ Head(r) = 93 THEN [ok |-> TRUE, v |-> JArr(Append(acc, e.v)), rest |-> Tail(r)]
                             ELSE PBad
PArray2(s, acc) == LET e == PValue(s) IN IF ~e.ok THEN e
                   ELSE LET r == SkipWs(e.rest) IN
                        IF r # <<>> /\ Head(r) = 44 THEN PArray2(Tail(r), Append(acc, e.v))
                        ELSE IF r # <<>> /\ Head(r) = 93 THEN [ok |-> TRUE, v |-> JArr(Append(acc, e.v)), rest |-> Tail(r)]
                        ELSE PBad
PObject(s0, acc, first) ==
    LET s == SkipWs(s0) IN
    IF first /\ s # <<>> /\ Head(s) = 125 THEN [ok |-> TRUE, v |-> ObjFromPairs(acc), rest |-> Tail(s)]
    ELSE IF s = <<>> \/ Head(s) # 34 THEN PBad
    ELSE LET k == PString(Tail(s), <<>>) IN IF ~k.ok THEN k
         ELSE LET c == SkipWs(k.rest) IN
              IF c = <<>> \/ Head(c) # 58 THEN PBad
              ELSE LET e == PValue(Tail(c)) IN IF ~e.ok THEN e
                   ELSE LET r == SkipWs(e.rest) acc2 == Append(acc, <<k.v.v, e.v>>) IN
                        IF r # <<>> /\ Head(r) = 44 THEN PObject(Tail(r), acc2, FALSE)
                        ELSE IF r # <<>> /\ Head(r) = 125 THEN [ok |-> TRUE, v |-> ObjFromPairs(acc2), rest |-> Tail(r)]
                        ELSE PBad
PValue(s0) == LET s == SkipWs(s0) IN
    IF s = <<>> THEN PBad
    ELSE CASE StartsWith(s, <<110, 117, 108, 108>>) -> [ok |-> TRUE, v |-> JNull, rest |-> Drop(s, 4)]
           [] StartsWith(s, <<116, 114, 117, 101>>) -> [ok |-> TRUE, v |-> JTrue, rest |-> Drop(s, 4)]
           [] StartsWith(s, <<102, 97, 108, 115, 101>>) -> [ok |-> TRUE, v |-> JFalse, rest |-> Drop(s, 5)]
           [] Head(s) = 34 -> PString(Tail(s), <<>>)
           [] Head(s) = 91 -> PArray(Tail(s), <<>>)
           [] Head(s) = 123 -> PObject(Tail(s), <<>>, TRUE)
           [] Head(s) = 45 /\ Len(s) > 1 /\ IsDigit(s[2]) -> LET n == PNumber0(Tail(s)) IN IF n.ok THEN [n EXCEPT !.v = JNum(-n.v.v)] ELSE n
           [] IsDigit(Head(s)) -> PNumber0(s)
           [] Head(s) \in {78, 110, 73, 105} -> PUnknown                  \* nan / NaN / Infinity spellings
           [] OTHER -> PBad
