------------------------------- MODULE JqCore -------------------------------
(***************************************************************************)
(* A denotational semantics of a jq core over the JSON universe of         *)
(* JsonVal.tla and the syntax trees of Query.tla (the parser's JSON shape, *)
(* so the tree evaluated here is the tree handed to fq and to the engine). *)
(*                                                                         *)
(*   Run(q, input, inputs, lit) = [out |-> outcomes, side |-> records]     *)
(*                                                                         *)
(* outcomes: a sequence of [k |-> "v", v |-> value], ended early by        *)
(*   [k |-> "e", u |-> TRUE,  v |-> x]   error raised with a value: error(x)*)
(*   [k |-> "e", u |-> FALSE, v |-> m]   error raised by a built-in (m: the *)
(*                                       message if the semantics needs it, *)
(*                                       else the opaque value)            *)
(*   [k |-> "x", why |-> ..]             outside the modelled core (never a *)
(*                                       verdict; counted by the checks)   *)
(* side: debug / stderr records in evaluation order; inputs: the list       *)
(* input/inputs read from.  Both are threaded through the evaluation in the *)
(* state record that flows through every construct, together with the path *)
(* tracking state of path(f) (the engine's rules, including its quirks:     *)
(* scalars are "on the path" by value equality).                           *)
(*                                                                         *)
(* Library functions the engine defines in jq (map, select, recurse, range, *)
(* first, limit, until, paths, to_entries..., see Lib) are evaluated from   *)
(* their jq definitions written as trees; functions it implements natively *)
(* are given here as operators on values (Native).                         *)
(*                                                                         *)
(* Covered (each exercised by JqCoreGen on every run): identity, `..`,     *)
(* .a / .a? / ."a" / .[k] / .[a:b] / .[] / .[]? and the same as suffixes   *)
(* (incl. the engine's `T.k?` = `T | try .k`), pipe, comma, literals,      *)
(* unary minus, [..], {k: v} with computed keys, shorthand {a} and         *)
(* cartesian expansion (first entry outermost, first duplicate key wins),  *)
(* "..\(q).." and @json/@text interpolation, + - * / % on the universe     *)
(* (fractions: outside), == != < <= > >= with jq's total order, and/or/not, *)
(* // (errors of the left side are NOT swallowed by this engine),          *)
(* if/elif/else, try/catch, `?`, error/0,1, reduce, foreach/2,3,           *)
(* label/break, `as` with array/object/(query)-key destructuring and ?//   *)
(* (errors downstream of a live alternative: outside), def with closure    *)
(* and $value parameters and recursion, path(f) with the engine's identity *)
(* rules, getpath, paths/0,1, length, keys, has, in, type, add/0,1, range/ *)
(* 1,2,3, map, select, empty, recurse/0,1,2, while, until, repeat, values.. *)
(* scalars, first/last/0,1, limit, nth, isempty, any/all/0,1,2,            *)
(* to_entries/from_entries/with_entries, tostring, tojson/fromjson (texts  *)
(* without escapes, fractions or exponents), explode/implode, split/1,     *)
(* ltrimstr/rtrimstr/startswith/endswith, join, sort/sort_by/group_by/     *)
(* unique/unique_by/min/max/min_by/max_by, reverse, input/inputs over the  *)
(* supplied list, debug/0,1 and stderr as identity with a side record,     *)
(* input_filename.  Not covered: update operators (= |= += ...), formats   *)
(* other than @json/@text, regular expressions, floats and big integers,   *)
(* dates, limit/first inside path() on containers bound through variables  *)
(* beyond the identity rule, $__loc__, getpath/setpath/delpaths updates.   *)
(* Variable-free.                                                          *)
(***************************************************************************)
EXTENDS JsonVal, Query

MaxOut == 200          \* longer outcome sequences are outside the model

(******************************* flowing state *****************************)
(* v value; id identity of the value when it is physically a part of the root of the current path(f) (frame f, path p); *)
(* P, W: path so far and the value there; pm: path mode; f: frame; ins: unread inputs; side: debug/stderr records;      *)
(* alt: produced under a non-final `?//` alternative, whose generator is still live: an error raised downstream goes    *)
(* back into it and tries the next pattern (the engine backtracks), which a sequence semantics cannot express           *)
NoId == [f |-> 0, p |-> <<>>]
St0(v, ins) == [v |-> v, id |-> NoId, P |-> <<>>, W |-> JNull, pm |-> FALSE, f |-> 0, ins |-> ins, side |-> <<>>, alt |-> FALSE]
Fresh(st, v) == [st EXCEPT !.v = v, !.id = NoId]
NP(st) == [st EXCEPT !.pm = FALSE, !.id = NoId]                 \* sub-expression evaluated outside path tracking
Back(st, s) == [st EXCEPT !.ins = s.ins, !.side = s.side, !.alt = st.alt \/ s.alt]       \* keep st's path context, take the effects of s (a live alternative stays live)
OutV(s) == [k |-> "v", s |-> s]
Opaque == [t |-> "opaque"]
ErrB(st) == [k |-> "e", u |-> FALSE, v |-> Opaque, s |-> st]      \* built-in error, message not modelled
ErrM(st, m) == [k |-> "e", u |-> FALSE, v |-> m, s |-> st]        \* built-in error whose message the library observes
ErrU(st, v) == [k |-> "e", u |-> TRUE, v |-> v, s |-> st]
Brk(st, l) == [k |-> "b", l |-> l, s |-> st]
Unm(st, why) == [k |-> "x", why |-> why, s |-> st]
Nop(st) == [k |-> "n", s |-> st]           \* no value, but the effects (inputs read, side records) up to here
IsV(o) == o.k = "v"
IsN(o) == o.k = "n"
Ended(os) == os # <<>> /\ os[Len(os)].k \notin {"v", "n"}
Eff(s) == <<s.ins, s.side>>
LastSt(os, st) == IF os = <<>> THEN st ELSE os[Len(os)].s      \* effects (ins, side) after a sequence of outcomes
WithEff(os, st, e) == IF Ended(os) \/ Eff(LastSt(os, st)) = Eff(e) THEN os ELSE Append(os, Nop(Back(st, e)))
Vals(os) == SelectSeq(os, IsV)
(* cut a sequence after its first terminating outcome *)
Trunc(os) == LET is == {i \in 1 .. Len(os) : os[i].k \notin {"v", "n"}} IN
             IF is = {} THEN os ELSE SubSeq(os, 1, CHOOSE i \in is : \A j \in is : i <= j)

RECURSIVE HasOpaque(_)
HasOpaque(v) == CASE v.t \in {"opaque", "big"} -> TRUE          \* message text of a built-in error, or a number outside the universe
                  [] v.t = "arr" -> \E i \in 1 .. Len(v.v) : HasOpaque(v.v[i])
                  [] v.t = "obj" -> \E i \in 1 .. Len(v.v) : HasOpaque(v.v[i])
                  [] OTHER -> FALSE

(* sequencing: run Op on every value outcome, threading effects; stop at the first non-value *)
(* The engine is lazy: item i of a generator is consumed downstream before item i+1 is produced.  Sequences are strict, so  *)
(* effects are placed as follows: if the generator itself has effects, the effects seen downstream of item i are those at the *)
(* production of item i (and downstream must then be effect-free, else: outside the model); otherwise downstream effects are  *)
(* threaded from item to item.                                                                                               *)
FlatMap(os, st, Op(_)) ==
    LET genEff == \E i \in 1 .. Len(os) : Eff(os[i].s) # Eff(st)
        RECURSIVE G(_, _)
        G(i, eff) ==
            IF i > Len(os) THEN [o |-> <<>>, e |-> eff]
            ELSE LET cur == IF genEff THEN os[i].s ELSE eff IN
                 IF IsN(os[i]) THEN G(i + 1, cur)
                 ELSE IF ~IsV(os[i]) THEN [o |-> <<[os[i] EXCEPT !.s = Back(os[i].s, cur)]>>, e |-> cur]
                 ELSE LET r == Op(Back(os[i].s, cur))
                          eff2 == LastSt(r, cur) IN
                      IF genEff /\ Eff(eff2) # Eff(cur)
                      THEN [o |-> <<Unm(eff2, "effects of a generator interleave with effects downstream")>>, e |-> eff2]
                      ELSE IF os[i].s.alt /\ Ended(r) /\ r[Len(r)].k \in {"e", "b"}
                      THEN [o |-> <<Unm(eff2, "error downstream of a live destructuring alternative")>>, e |-> eff2]
                      ELSE IF Ended(r) THEN [o |-> r, e |-> eff2]
                      ELSE IF Len(r) > MaxOut THEN [o |-> Append(r, Unm(eff2, "too many outputs")), e |-> eff2]
                      ELSE LET rest == G(i + 1, eff2) IN [o |-> r \o rest.o, e |-> rest.e]
        res == G(1, st)
    IN WithEff(res.o, st, res.e)

(******************************** environment ******************************)
(* vars: <<[n, v, id]>>; funcs: closures <<[n, ar, ps, body, env, param]>>; labels: <<[n, id]>>;               *)
(* dc: dynamic counter naming label activations and path frames; fuel: remaining call depth; lit: literals     *)
Env0(lit) == [vars |-> <<>>, funcs |-> <<>>, labels |-> <<>>, dc |-> 0, fuel |-> 14, lit |-> lit]
Dyn(callee, caller) == [callee EXCEPT !.dc = caller.dc, !.fuel = caller.fuel - 1]
LookupVar(env, n) == LET is == {i \in 1 .. Len(env.vars) : env.vars[i].n = n} IN
                     IF is = {} THEN <<>> ELSE env.vars[CHOOSE i \in is : \A j \in is : j <= i]
LookupFn(env, n, ar) == LET is == {i \in 1 .. Len(env.funcs) : env.funcs[i].n = n /\ env.funcs[i].ar = ar} IN
                        IF is = {} THEN 0 ELSE CHOOSE i \in is : \A j \in is : j <= i
LookupLabel(env, n) == LET is == {i \in 1 .. Len(env.labels) : env.labels[i].n = n} IN
                       IF is = {} THEN 0 ELSE env.labels[CHOOSE i \in is : \A j \in is : j <= i].id
BindVar(env, n, v, id) == [env EXCEPT !.vars = Append(@, [n |-> n, v |-> v, id |-> id])]
(* literal tables: lit.str maps the string literals / field names of the program to code points, lit.num number literals to integers *)
HasStrLit(env, s) == s = "" \/ s \in DOMAIN env.lit.str \/ s \in {"array", "object", "string", "number", "boolean", "break", "limit doesn't support negative count"}
HasNumLit(env, s) == s \in DOMAIN env.lit.num \/ s \in {"0", "1"}
StrOfRec(env, r) == IF HasF(r, "str") THEN r.str ELSE ""
(* `$name` parameter: the variable name is the parameter name itself; the function name would be it without `$` (not callable here) *)
IsVarName(n) == n \in {"$a", "$b", "$c", "$x", "$y", "$z", "$v", "$n", "$item", "$end", "$start", "$step", "$__loc__", "$in", "$re", "$flags", "$i", "$k", "$p", "$q"}

(*************************** natives on plain values ************************)
Err == [err |-> TRUE]                 \* a native failed (built-in error)
Unk(why) == [unk |-> why]             \* a native left the modelled universe
IsErr(r) == HasF(r, "err")
IsUnk(r) == HasF(r, "unk")
Cps(s) == [i \in 1 .. Len(s) |-> s[i]]

AbsI(n) == IF n < 0 THEN -n ELSE n
RECURSIVE DigitsOf(_)
DigitsOf(n) == IF n < 10 THEN <<48 + n>> ELSE DigitsOf(n \div 10) \o <<48 + (n % 10)>>
NumText(n) == IF n < 0 THEN <<45>> \o DigitsOf(-n) ELSE DigitsOf(n)

(* JSON text of a value as code points (compact, keys sorted, as tojson prints); strings limited to printable ASCII without escapes *)
PlainChar(c) == c >= 32 /\ c <= 126 /\ c # 34 /\ c # 92
RECURSIVE JsonText(_), JoinCps(_, _)
JoinCps(parts, sep) == IF parts = <<>> THEN <<>> ELSE IF Len(parts) = 1 THEN parts[1] ELSE parts[1] \o sep \o JoinCps(Tail(parts), sep)
QuoteOK(cps) == \A i \in 1 .. Len(cps) : PlainChar(cps[i])
Quote(cps) == <<34>> \o cps \o <<34>>
JsonTextOK(v) == LET RECURSIVE OK(_)
                     OK(x) == CASE x.t = "str" -> QuoteOK(x.s)
                                [] x.t = "arr" -> \A i \in 1 .. Len(x.v) : OK(x.v[i])
                                [] x.t = "obj" -> (\A i \in 1 .. Len(x.v) : OK(x.v[i])) /\ (\A i \in 1 .. Len(x.k) : QuoteOK(x.k[i]))
                                [] x.t \in {"big", "opaque"} -> FALSE
                                [] OTHER -> TRUE
                 IN OK(v)
JsonText(v) == CASE v.t = "null" -> <<110, 117, 108, 108>>
                 [] v.t = "true" -> <<116, 114, 117, 101>>
                 [] v.t = "false" -> <<102, 97, 108, 115, 101>>
                 [] v.t = "num" -> NumText(v.n)
                 [] v.t = "str" -> Quote(v.s)
                 [] v.t = "arr" -> <<91>> \o JoinCps([i \in 1 .. Len(v.v) |-> JsonText(v.v[i])], <<44>>) \o <<93>>
                 [] v.t = "obj" -> <<123>> \o JoinCps([i \in 1 .. Len(v.k) |-> Quote(v.k[i]) \o <<58>> \o JsonText(v.v[i])], <<44>>) \o <<125>>

(* fromjson on the texts tojson produces for this universe: a recursive descent over code points; result [ok, v, rest] *)
IsDigit(c) == c >= 48 /\ c <= 57
IsWs(c) == c \in {32, 9, 10, 13}
RECURSIVE SkipWs(_), PValue(_), PNumber(_, _), PString(_, _), PArray(_, _), PArray2(_, _), PObject(_, _, _)
PBad == [ok |-> FALSE, v |-> JNull, rest |-> <<>>]
SkipWs(s) == IF s # <<>> /\ IsWs(Head(s)) THEN SkipWs(Tail(s)) ELSE s
StartsWith(s, p) == Len(s) >= Len(p) /\ SubSeq(s, 1, Len(p)) = p
Drop(s, n) == SubSeq(s, n + 1, Len(s))
PUnknown == [ok |-> FALSE, v |-> JNull, rest |-> <<0>>]          \* rest = <<0>>: the text leaves the modelled universe (escapes, fractions, exponents)
PNumber(s, acc) == IF s # <<>> /\ IsDigit(Head(s)) THEN (IF acc > 100000 THEN PUnknown ELSE PNumber(Tail(s), acc * 10 + (Head(s) - 48)))
                   ELSE IF s # <<>> /\ Head(s) \in {46, 69, 101} THEN PUnknown
                   ELSE [ok |-> TRUE, v |-> JNum(acc), rest |-> s]
PNumber0(s) == IF Head(s) = 48 /\ Len(s) > 1 /\ IsDigit(s[2]) THEN PBad ELSE PNumber(s, 0)     \* no leading zeros in JSON
PString(s, acc) == IF s = <<>> THEN PBad
                   ELSE IF Head(s) = 34 THEN [ok |-> TRUE, v |-> JStr(acc), rest |-> Tail(s)]
                   ELSE IF ~PlainChar(Head(s)) THEN PUnknown
                   ELSE PString(Tail(s), Append(acc, Head(s)))
PArray(s0, acc) == LET s == SkipWs(s0) IN
                   IF s # <<>> /\ Head(s) = 93 /\ acc = <<>> THEN [ok |-> TRUE, v |-> JArr(acc), rest |-> Tail(s)]
                   ELSE LET e == PValue(s) IN IF ~e.ok THEN e
                        ELSE LET r == SkipWs(e.rest) IN
                             IF r # <<>> /\ Head(r) = 44 THEN PArray2(Tail(r), Append(acc, e.v))
                             ELSE IF r # <<>> /\ Head(r) = 93 THEN [ok |-> TRUE, v |-> JArr(Append(acc, e.v)), rest |-> Tail(r)]
                             ELSE PBad
PArray2(s, acc) == LET e == PValue(s) IN IF ~e.ok THEN e
                   ELSE LET r == SkipWs(e.rest) IN
                        IF r # <<>> /\ Head(r) = 44 THEN PArray2(Tail(r), Append(acc, e.v))
                        ELSE IF r # <<>> /\ Head(r) = 93 THEN [ok |-> TRUE, v |-> JArr(Append(acc, e.v)), rest |-> Tail(r)]
                        ELSE PBad
PObject(s0, acc, first) ==
    LET s == SkipWs(s0) IN
    IF first /\ s # <<>> /\ Head(s) = 125 THEN [ok |-> TRUE, v |-> ObjFromPairs(acc), rest |-> Tail(s)]
    ELSE IF s = <<>> \/ Head(s) # 34 THEN PBad
    ELSE LET k == PString(Tail(s), <<>>) IN IF ~k.ok THEN k
         ELSE LET c == SkipWs(k.rest) IN
              IF c = <<>> \/ Head(c) # 58 THEN PBad
              ELSE LET e == PValue(Tail(c)) IN IF ~e.ok THEN e
                   ELSE LET r == SkipWs(e.rest) acc2 == Append(acc, <<k.v.s, e.v>>) IN
                        IF r # <<>> /\ Head(r) = 44 THEN PObject(Tail(r), acc2, FALSE)
                        ELSE IF r # <<>> /\ Head(r) = 125 THEN [ok |-> TRUE, v |-> ObjFromPairs(acc2), rest |-> Tail(r)]
                        ELSE PBad
PValue(s0) == LET s == SkipWs(s0) IN
    IF s = <<>> THEN PBad
    ELSE CASE StartsWith(s, <<110, 117, 108, 108>>) -> [ok |-> TRUE, v |-> JNull, rest |-> Drop(s, 4)]
           [] StartsWith(s, <<116, 114, 117, 101>>) -> [ok |-> TRUE, v |-> JTrue, rest |-> Drop(s, 4)]
           [] StartsWith(s, <<102, 97, 108, 115, 101>>) -> [ok |-> TRUE, v |-> JFalse, rest |-> Drop(s, 5)]
           [] Head(s) = 34 -> PString(Tail(s), <<>>)
           [] Head(s) = 91 -> PArray(Tail(s), <<>>)
           [] Head(s) = 123 -> PObject(Tail(s), <<>>, TRUE)
           [] Head(s) = 45 /\ Len(s) > 1 /\ IsDigit(s[2]) -> LET n == PNumber0(Tail(s)) IN IF n.ok THEN [n EXCEPT !.v = JNum(-n.v.n)] ELSE n
           [] IsDigit(Head(s)) -> PNumber0(s)
           [] Head(s) \in {78, 110, 73, 105} -> PUnknown                  \* nan / NaN / Infinity spellings
           [] OTHER -> PBad

(************************ natives: value -> value | Err | Unk ***************)
NFromJson(v) == IF v.t # "str" THEN Err
                ELSE LET r == PValue(v.s) IN
                     IF r.rest = <<0>> THEN Unk("fromjson text outside the model")
                     ELSE IF r.ok /\ SkipWs(r.rest) = <<>> THEN r.v ELSE Err
NToJson(v) == IF JsonTextOK(v) THEN JStr(JsonText(v)) ELSE Unk("tojson text outside the model")
NToString(v) == IF v.t = "str" THEN v ELSE NToJson(v)
NLength(v) == CASE v.t = "null" -> JNum(0) [] v.t = "num" -> JNum(AbsI(v.n)) [] v.t = "str" -> JNum(Len(v.s)) [] v.t = "arr" -> JNum(Len(v.v))
                [] v.t = "obj" -> JNum(Len(v.k)) [] OTHER -> Err
NKeys(v) == CASE v.t = "arr" -> JArr([i \in 1 .. Len(v.v) |-> JNum(i - 1)])
              [] v.t = "obj" -> JArr([i \in 1 .. Len(v.k) |-> JStr(v.k[i])]) [] OTHER -> Err
NHas(v, x) == CASE v.t = "arr" /\ x.t = "num" -> JBool(0 <= x.n /\ x.n < Len(v.v))
                [] v.t = "obj" /\ x.t = "str" -> JBool(ObjHas(v, x.s))
                [] v.t = "null" -> JFalse [] OTHER -> Err
ValuesOf(v) == IF v.t \in {"arr", "obj"} THEN v.v ELSE <<>>
Entry(k, x) == JObjRaw(<<Cps(<<107, 101, 121>>), Cps(<<118, 97, 108, 117, 101>>)>>, <<k, x>>)        \* {"key":k,"value":x}
NToEntries(v) == CASE v.t = "arr" -> JArr([i \in 1 .. Len(v.v) |-> Entry(JNum(i - 1), v.v[i])])
                   [] v.t = "obj" -> JArr([i \in 1 .. Len(v.k) |-> Entry(JStr(v.k[i]), v.v[i])]) [] OTHER -> Err
K_key == <<107, 101, 121>>  K_Key == <<75, 101, 121>>  K_name == <<110, 97, 109, 101>>  K_Name == <<78, 97, 109, 101>>
K_value == <<118, 97, 108, 117, 101>>  K_Value == <<86, 97, 108, 117, 101>>
NFromEntries(v) ==
    IF v.t # "arr" THEN Err
    ELSE LET keyOf(o) == LET c == <<ObjGet(o, K_key), ObjGet(o, K_Key), ObjGet(o, K_name), ObjGet(o, K_Name)>>
                             is == {i \in 1 .. 4 : Truthy(c[i])} IN
                         IF is = {} THEN Err ELSE c[CHOOSE i \in is : \A j \in is : i <= j]
             valOf(o) == IF ObjHas(o, K_value) THEN ObjGet(o, K_value) ELSE ObjGet(o, K_Value)
             bad == \E i \in 1 .. Len(v.v) : v.v[i].t # "obj" \/ IsErr(keyOf(v.v[i])) \/ keyOf(v.v[i]).t # "str"
         IN IF bad THEN Err ELSE ObjFromPairs([i \in 1 .. Len(v.v) |-> <<keyOf(v.v[i]).s, valOf(v.v[i])>>])
RECURSIVE MergeObj(_, _, _), DeepMerge(_, _), RemoveAll(_, _), Repeat(_, _)
MergeObj(a, b, i) == IF i > Len(b.k) THEN a ELSE MergeObj(ObjSet(a, b.k[i], b.v[i]), b, i + 1)
DeepMerge(a, b) == LET RECURSIVE G(_, _)
                       G(acc, i) == IF i > Len(b.k) THEN acc
                                    ELSE LET old == ObjGet(acc, b.k[i]) IN
                                         G(ObjSet(acc, b.k[i], IF ObjHas(acc, b.k[i]) /\ old.t = "obj" /\ b.v[i].t = "obj" THEN DeepMerge(old, b.v[i]) ELSE b.v[i]), i + 1)
                   IN G(a, 1)
RemoveAll(xs, ys) == SelectSeq(xs, LAMBDA x : \A j \in 1 .. Len(ys) : CmpJ(x, ys[j]) # 0)
Repeat(s, n) == IF n <= 0 THEN <<>> ELSE s \o Repeat(s, n - 1)
(* split on a separator (Go strings.Split): "" separator explodes into characters *)
RECURSIVE SplitCps(_, _, _)
SplitCps(s, sep, cur) == IF s = <<>> THEN <<cur>>
                         ELSE IF StartsWith(s, sep) THEN <<cur>> \o SplitCps(Drop(s, Len(sep)), sep, <<>>)
                         ELSE SplitCps(Tail(s), sep, Append(cur, Head(s)))
NSplit(v, x) == IF v.t # "str" \/ x.t # "str" THEN Err
                ELSE IF x.s = <<>> THEN JArr([i \in 1 .. Len(v.s) |-> JStr(<<v.s[i]>>)])
                ELSE JArr(LET p == SplitCps(v.s, x.s, <<>>) IN [i \in 1 .. Len(p) |-> JStr(p[i])])
TruncMod(a, b) == LET m == AbsI(a) % AbsI(b) IN IF a < 0 THEN -m ELSE m
Arith(op, l, r) ==
    CASE op = "+" -> CASE l.t = "null" -> r [] r.t = "null" -> l
                       [] l.t = "num" /\ r.t = "num" -> JNum(l.n + r.n)
                       [] l.t = "str" /\ r.t = "str" -> JStr(l.s \o r.s)
                       [] l.t = "arr" /\ r.t = "arr" -> JArr(l.v \o r.v)
                       [] l.t = "obj" /\ r.t = "obj" -> MergeObj(l, r, 1)
                       [] OTHER -> Err
      [] op = "-" -> CASE l.t = "num" /\ r.t = "num" -> JNum(l.n - r.n)
                       [] l.t = "arr" /\ r.t = "arr" -> JArr(RemoveAll(l.v, r.v))
                       [] OTHER -> Err
      [] op = "*" -> CASE l.t = "num" /\ r.t = "num" -> JNum(l.n * r.n)
                       [] l.t = "str" /\ r.t = "num" -> IF r.n < 0 THEN JNull ELSE JStr(Repeat(l.s, r.n))
                       [] l.t = "num" /\ r.t = "str" -> IF l.n < 0 THEN JNull ELSE JStr(Repeat(r.s, l.n))
                       [] l.t = "obj" /\ r.t = "obj" -> DeepMerge(l, r)
                       [] OTHER -> Err
      [] op = "/" -> CASE l.t = "num" /\ r.t = "num" -> IF r.n = 0 THEN Err
                                                       ELSE IF TruncMod(l.n, r.n) = 0 THEN JNum((IF (l.n < 0) = (r.n < 0) THEN 1 ELSE -1) * (AbsI(l.n) \div AbsI(r.n)))
                                                       ELSE Unk("fraction")
                       [] l.t = "str" /\ r.t = "str" -> IF l.s = <<>> THEN JArr(<<>>) ELSE NSplit(l, r)
                       [] OTHER -> Err
      [] op = "%" -> CASE l.t = "num" /\ r.t = "num" -> IF r.n = 0 THEN Err ELSE JNum(TruncMod(l.n, r.n))
                       [] OTHER -> Err
      [] op = "==" -> JBool(CmpJ(l, r) = 0)
      [] op = "!=" -> JBool(CmpJ(l, r) # 0)
      [] op = "<" -> JBool(CmpJ(l, r) < 0)
      [] op = "<=" -> JBool(CmpJ(l, r) <= 0)
      [] op = ">" -> JBool(CmpJ(l, r) > 0)
      [] op = ">=" -> JBool(CmpJ(l, r) >= 0)
RECURSIVE FoldAdd(_, _, _)
FoldAdd(acc, xs, i) == IF i > Len(xs) \/ IsErr(acc) THEN acc ELSE FoldAdd(Arith("+", acc, xs[i]), xs, i + 1)
NAdd(v) == IF v.t \notin {"arr", "obj"} THEN Err ELSE FoldAdd(JNull, v.v, 1)
NExplode(v) == IF v.t # "str" THEN Err ELSE JArr([i \in 1 .. Len(v.s) |-> JNum(v.s[i])])
NImplode(v) == IF v.t # "arr" \/ \E i \in 1 .. Len(v.v) : v.v[i].t # "num" THEN Err
               ELSE IF \E i \in 1 .. Len(v.v) : v.v[i].n < 0 \/ v.v[i].n > 55295 THEN Unk("implode code point")
               ELSE JStr([i \in 1 .. Len(v.v) |-> v.v[i].n])
NTrim(v, x, left) == IF v.t # "str" \/ x.t # "str" THEN Err
                     ELSE IF left THEN (IF StartsWith(v.s, x.s) THEN JStr(Drop(v.s, Len(x.s))) ELSE v)
                     ELSE (IF Len(v.s) >= Len(x.s) /\ SubSeq(v.s, Len(v.s) - Len(x.s) + 1, Len(v.s)) = x.s THEN JStr(SubSeq(v.s, 1, Len(v.s) - Len(x.s))) ELSE v)
NStarts(v, x, left) == IF v.t # "str" \/ x.t # "str" THEN Err
                       ELSE IF left THEN JBool(StartsWith(v.s, x.s))
                       ELSE JBool(Len(v.s) >= Len(x.s) /\ SubSeq(v.s, Len(v.s) - Len(x.s) + 1, Len(v.s)) = x.s)
NJoin(v, x) == IF v.t \notin {"arr", "obj"} THEN Err
               ELSE IF v.v = <<>> THEN JStr(<<>>)
               ELSE IF Len(v.v) > 1 /\ x.t # "str" THEN Err
               ELSE IF \E i \in 1 .. Len(v.v) : v.v[i].t \in {"arr", "obj"} THEN Err
               ELSE JStr(JoinCps([i \in 1 .. Len(v.v) |-> CASE v.v[i].t = "null" -> <<>> [] v.v[i].t = "str" -> v.v[i].s [] OTHER -> JsonText(v.v[i])],
                                 IF x.t = "str" THEN x.s ELSE <<>>))
RECURSIVE UniqSorted(_)
UniqSorted(xs) == IF Len(xs) <= 1 THEN xs
                  ELSE IF CmpJ(xs[1], xs[2]) = 0 THEN UniqSorted(Tail(xs)) ELSE <<xs[1]>> \o UniqSorted(Tail(xs))
NSort(v) == IF v.t # "arr" THEN Err ELSE JArr(SortJ(v.v))
NUnique(v) == IF v.t # "arr" THEN Err ELSE LET s == SortJ(v.v) IN
              JArr(LET RECURSIVE U(_) U(i) == IF i > Len(s) THEN <<>> ELSE IF i > 1 /\ CmpJ(s[i - 1], s[i]) = 0 THEN U(i + 1) ELSE <<s[i]>> \o U(i + 1) IN U(1))
MinMaxIdx(ks, isMin) == LET RECURSIVE G(_, _) G(i, j) == IF i > Len(ks) THEN j ELSE G(i + 1, IF (CmpJ(ks[j], ks[i]) > 0) = isMin THEN i ELSE j) IN G(2, 1)
NMinMaxBy(v, x, isMin) == IF v.t # "arr" \/ x.t # "arr" \/ Len(v.v) # Len(x.v) THEN Err
                          ELSE IF v.v = <<>> THEN JNull ELSE v.v[MinMaxIdx(x.v, isMin)]
NSortBy(v, x) == IF v.t # "arr" \/ x.t # "arr" \/ Len(v.v) # Len(x.v) THEN Err ELSE JArr(SortByKeys(x.v, v.v))
(* groups of equal keys, in key order, members in input order *)
NGroupBy(v, x, uniq) ==
    IF v.t # "arr" \/ x.t # "arr" \/ Len(v.v) # Len(x.v) THEN Err
    ELSE LET p == SortPairs(x.v, v.v)
             RECURSIVE G(_, _)
             G(i, cur) == IF i > Len(p) THEN (IF cur = <<>> THEN <<>> ELSE <<cur>>)
                          ELSE IF cur # <<>> /\ CmpJ(p[i - 1][1], p[i][1]) = 0 THEN G(i + 1, Append(cur, p[i][2]))
                          ELSE (IF cur = <<>> THEN <<>> ELSE <<cur>>) \o G(i + 1, <<p[i][2]>>)
             gs == G(1, <<>>)
         IN JArr([i \in 1 .. Len(gs) |-> IF uniq THEN gs[i][1] ELSE JArr(gs[i])])
NReverse(v) == IF v.t # "arr" THEN Err ELSE JArr([i \in 1 .. Len(v.v) |-> v.v[Len(v.v) + 1 - i]])
(* indexing (the engine's _index / _slice): key may be a number, string, slice object; value null, array, string, object *)
Clamp(i, lo, hi) == LET j == IF i < 0 THEN i + hi ELSE i IN IF j < lo THEN lo ELSE IF j < hi THEN j ELSE hi
K_start == <<115, 116, 97, 114, 116>>  K_end == <<101, 110, 100>>
NSlice(v, e, s) ==
    CASE v.t = "null" -> JNull
      [] v.t \in {"arr", "str"} ->
            IF (s.t \notin {"null", "num"}) \/ (e.t \notin {"null", "num"}) THEN Err
            ELSE LET pl == IF v.t = "str" THEN v.s ELSE v.v
                     n == Len(pl)
                     a == IF s.t = "null" THEN 0 ELSE Clamp(s.n, 0, n)
                     b == IF e.t = "null" THEN n ELSE Clamp(e.n, a, n)
                 IN IF v.t = "str" THEN JStr(SubSeq(pl, a + 1, b)) ELSE JArr(SubSeq(pl, a + 1, b))
      [] OTHER -> Err
NIndex(v, x) ==
    CASE x.t = "str" -> CASE v.t = "null" -> JNull [] v.t = "obj" -> ObjGet(v, x.s) [] OTHER -> Err
      [] x.t = "num" -> CASE v.t = "null" -> JNull
                          [] v.t = "arr" -> LET i == Clamp(x.n, -1, Len(v.v)) IN IF 0 <= i /\ i < Len(v.v) THEN v.v[i + 1] ELSE JNull
                          [] v.t = "str" -> LET i == Clamp(x.n, -1, Len(v.s)) IN IF 0 <= i /\ i < Len(v.s) THEN JStr(<<v.s[i + 1]>>) ELSE JNull
                          [] OTHER -> Err
      [] x.t = "arr" -> CASE v.t = "null" -> JNull
                          [] v.t = "arr" -> IF x.v = <<>> THEN JArr(<<>>)
                                            ELSE JArr(LET is == {i \in 0 .. (Len(v.v) - Len(x.v)) : CmpSeqJ(SubSeq(v.v, i + 1, i + Len(x.v)), x.v) = 0}
                                                          RECURSIVE L(_) L(ss) == IF ss = {} THEN <<>> ELSE LET m == CHOOSE a \in ss : \A b \in ss : a <= b IN <<JNum(m)>> \o L(ss \ {m})
                                                      IN L(is))
                          [] OTHER -> Err
      [] x.t = "obj" -> IF v.t = "null" THEN JNull
                        ELSE IF ~ObjHas(x, K_start) \/ ~ObjHas(x, K_end) THEN Err
                        ELSE NSlice(v, ObjGet(x, K_end), ObjGet(x, K_start))
      [] OTHER -> Err
RECURSIVE NGetpath(_, _, _)
NGetpath(v, p, i) == IF i > Len(p) THEN v
                     ELSE IF v.t \notin {"null", "arr", "obj"} THEN Err
                     ELSE LET w == NIndex(v, p[i]) IN IF IsErr(w) THEN Err ELSE NGetpath(w, p, i + 1)

(**************** library functions the engine defines in jq ****************)
F0(n) == FuncQ(n, <<>>)
F1(n, a) == FuncQ(n, <<a>>)
F2(n, a, b) == FuncQ(n, <<a, b>>)
IterAll == AddSuffix(Ident, SIter)
IterOptQ == AddSuffix(AddSuffix(Ident, SIter), SOpt)
EmptyQ == F0("empty")
BinQ(op, l, r) == Bin(op, l, r)
SelfRec(name, body) == DefQ(FDef(name, <<>>, body), F0(name))          \* def name: body; name
Lib == <<
  FDef("not", <<>>, IfQ(Ident, FalseQ, TrueQ)),
  FDef("in", <<"xs">>, BindQ(Ident, <<PVar("$x")>>, Pipe(F0("xs"), F1("has", VarQ("$x"))))),
  FDef("map", <<"f">>, ArrQ(Pipe(IterAll, F0("f")))),
  FDef("with_entries", <<"f">>, Pipe(F0("to_entries"), Pipe(F1("map", F0("f")), F0("from_entries")))),
  FDef("select", <<"f">>, IfQ(F0("f"), Ident, EmptyQ)),
  FDef("recurse", <<>>, F1("recurse", IterOptQ)),
  FDef("recurse", <<"f">>, SelfRec("r", Comma(Ident, Paren(Pipe(F0("f"), F0("r")))))),
  FDef("recurse", <<"f", "cond">>, SelfRec("r", Comma(Ident, Paren(Pipe(F0("f"), Pipe(F1("select", F0("cond")), F0("r"))))))),
  FDef("while", <<"cond", "update">>, SelfRec("_while", IfQ(F0("cond"), Comma(Ident, Paren(Pipe(F0("update"), F0("_while")))), EmptyQ))),
  FDef("until", <<"cond", "next">>, SelfRec("_until", IfQ(F0("cond"), Ident, Pipe(F0("next"), F0("_until"))))),
  FDef("repeat", <<"f">>, SelfRec("_repeat", Comma(F0("f"), F0("_repeat")))),
  FDef("range", <<"$end">>, FuncQ("_range", <<NumQ("0"), VarQ("$end"), NumQ("1")>>)),
  FDef("range", <<"$start", "$end">>, FuncQ("_range", <<VarQ("$start"), VarQ("$end"), NumQ("1")>>)),
  FDef("range", <<"$start", "$end", "$step">>, FuncQ("_range", <<VarQ("$start"), VarQ("$end"), VarQ("$step")>>)),
  FDef("add", <<"f">>, Pipe(ArrQ(F0("f")), F0("add"))),
  FDef("min_by", <<"f">>, F1("_min_by", F1("map", ArrQ(F0("f"))))),
  FDef("max_by", <<"f">>, F1("_max_by", F1("map", ArrQ(F0("f"))))),
  FDef("sort_by", <<"f">>, F1("_sort_by", F1("map", ArrQ(F0("f"))))),
  FDef("group_by", <<"f">>, F1("_group_by", F1("map", ArrQ(F0("f"))))),
  FDef("unique_by", <<"f">>, F1("_unique_by", F1("map", ArrQ(F0("f"))))),
  FDef("arrays", <<>>, F1("select", BinQ("==", F0("type"), StrQ("array")))),
  FDef("objects", <<>>, F1("select", BinQ("==", F0("type"), StrQ("object")))),
  FDef("strings", <<>>, F1("select", BinQ("==", F0("type"), StrQ("string")))),
  FDef("numbers", <<>>, F1("select", BinQ("==", F0("type"), StrQ("number")))),
  FDef("booleans", <<>>, F1("select", BinQ("==", F0("type"), StrQ("boolean")))),
  FDef("nulls", <<>>, F1("select", BinQ("==", Ident, NullQ))),
  FDef("values", <<>>, F1("select", BinQ("!=", Ident, NullQ))),
  FDef("scalars", <<>>, F1("select", Pipe(F0("type"), BinQ("and", BinQ("!=", Ident, StrQ("array")), BinQ("!=", Ident, StrQ("object")))))),
  FDef("iterables", <<>>, F1("select", Pipe(F0("type"), BinQ("or", BinQ("==", Ident, StrQ("array")), BinQ("==", Ident, StrQ("object")))))),
  FDef("first", <<>>, IndexQ(NumQ("0"))),
  FDef("first", <<"g">>, LabelQ("$out", Pipe(F0("g"), Comma(Ident, BreakQ("$out"))))),
  FDef("last", <<>>, IndexQ(NegQ(NumQ("1")))),
  FDef("isempty", <<"g">>, LabelQ("$out", Comma(Paren(Pipe(F0("g"), Comma(FalseQ, BreakQ("$out")))), TrueQ))),
  FDef("all", <<>>, F1("all", Ident)),
  FDef("all", <<"y">>, F2("all", IterAll, F0("y"))),
  FDef("all", <<"g", "y">>, F1("isempty", Pipe(F0("g"), F1("select", Pipe(F0("y"), F0("not")))))),
  FDef("any", <<>>, F1("any", Ident)),
  FDef("any", <<"y">>, F2("any", IterAll, F0("y"))),
  FDef("any", <<"g", "y">>, Pipe(F1("isempty", Pipe(F0("g"), F1("select", F0("y")))), F0("not"))),
  FDef("limit", <<"$n", "g">>,
       IfElifQ(BinQ(">", VarQ("$n"), NumQ("0")),
               LabelQ("$out", Foreach3Q(F0("g"), PVar("$item"), VarQ("$n"), BinQ("-", Ident, NumQ("1")),
                                        Comma(VarQ("$item"), IfQ(BinQ("<=", Ident, NumQ("0")), BreakQ("$out"), EmptyQ)))),
               BinQ("==", VarQ("$n"), NumQ("0")), EmptyQ,
               F1("error", StrQ("limit doesn't support negative count")))),
  FDef("nth", <<"$n">>, IndexQ(VarQ("$n"))),
  FDef("paths", <<>>, Pipe(F1("path", RecurseQ), F1("select", BinQ("!=", Ident, EmptyArrQ)))),
  FDef("paths", <<"f">>, Pipe(F1("path", Pipe(RecurseQ, F1("select", F0("f")))), F1("select", BinQ("!=", Ident, EmptyArrQ)))),
  FDef("inputs", <<>>, TryCatchQ(F1("repeat", F0("input")), IfQ(BinQ("==", Ident, StrQ("break")), EmptyQ, F0("error"))))
>>
LibIdx(n, ar) == LET is == {i \in 1 .. Len(Lib) : Lib[i].name = n /\ (IF HasF(Lib[i], "args") THEN Len(Lib[i].args) ELSE 0) = ar} IN
                 IF is = {} THEN 0 ELSE CHOOSE i \in is : TRUE
(* literals the library itself uses *)
LibStr == ("array" :> <<97, 114, 114, 97, 121>>) @@ ("object" :> <<111, 98, 106, 101, 99, 116>>) @@ ("string" :> <<115, 116, 114, 105, 110, 103>>)
          @@ ("number" :> <<110, 117, 109, 98, 101, 114>>) @@ ("boolean" :> <<98, 111, 111, 108, 101, 97, 110>>) @@ ("null" :> <<110, 117, 108, 108>>) @@ ("break" :> <<98, 114, 101, 97, 107>>)
          @@ ("limit doesn't support negative count" :> <<108,105,109,105,116,32,100,111,101,115,110,39,116,32,115,117,112,112,111,114,116,32,110,101,103,97,116,105,118,101,32,99,111,117,110,116>>)
LibNum == ("0" :> 0) @@ ("1" :> 1)
Natives0 == {"length", "keys", "type", "add", "tostring", "tojson", "fromjson", "explode", "implode", "to_entries", "from_entries",
             "sort", "unique", "min", "max", "reverse", "input_filename"}
Natives1 == {"has", "split", "ltrimstr", "rtrimstr", "startswith", "endswith", "join", "_sort_by", "_group_by", "_unique_by",
             "_min_by", "_max_by", "getpath"}
(* names the core gives a meaning to, with arity: used by the checks to decide whether a program is in the core at all *)
KnownFn(n, ar) == \/ LibIdx(n, ar) # 0
                  \/ (ar = 0 /\ n \in Natives0 \cup {"empty", "error", "input", "debug", "stderr"})
                  \/ (ar = 1 /\ n \in Natives1 \cup {"error", "path", "debug", "last"})
                  \/ (ar = 3 /\ n = "_range")
LibStrType(v) == LibStr[TypeName(v)]
StrLit(env, s) == IF s = "" THEN <<>> ELSE IF s \in DOMAIN env.lit.str THEN env.lit.str[s] ELSE LibStr[s]
NumLit(env, s) == IF s \in DOMAIN env.lit.num THEN env.lit.num[s] ELSE LibNum[s]

(******************************** path tracking *****************************)
(* Is the current value the one at the tracked path?  Containers: physically the same object (identity); scalars: *)
(* equal to the tracked value (the engine compares scalars by value).  "unk": empty arrays may alias.            *)
Intact(st) == LET here == [f |-> st.f, p |-> st.P] IN
              IF st.id = here THEN "yes"
              ELSE IF st.v.t \in {"arr", "obj"} THEN (IF st.v.t = "arr" /\ st.v.v = <<>> /\ st.W = st.v THEN "unk" ELSE "no")
              ELSE IF st.v = st.W THEN "yes" ELSE "no"
(* a path operation produced w under key: check, then extend the path *)
PathStep(st, key, w) ==
    IF ~st.pm THEN <<OutV(Fresh(st, w))>>
    ELSE LET i == Intact(st) IN
         IF i = "unk" THEN <<Unm(st, "identity of an empty array")>>
         ELSE IF i = "no" THEN <<ErrB(st)>>
         ELSE <<OutV([st EXCEPT !.v = w, !.P = Append(st.P, key), !.W = w, !.id = [f |-> st.f, p |-> Append(st.P, key)]])>>
Guarded(st, vals, r) ==          \* outcome of a native result r computed from vals
    IF \E i \in 1 .. Len(vals) : HasOpaque(vals[i]) THEN <<Unm(st, "uses the text of a built-in error message")>>
    ELSE IF IsErr(r) THEN (IF st.alt THEN <<Unm(st, "error downstream of a live destructuring alternative")>> ELSE <<ErrB(st)>>)
    ELSE IF IsUnk(r) THEN <<Unm(st, r.unk)>> ELSE <<OutV(Fresh(st, r))>>
IndexStep(st, key) ==
    IF HasOpaque(st.v) \/ HasOpaque(key) THEN <<Unm(st, "uses the text of a built-in error message")>>
    ELSE LET w == NIndex(st.v, key) IN IF IsErr(w) THEN <<ErrB(st)>> ELSE PathStep(st, key, w)
SliceKey(s, e) == JObjRaw(<<K_end, K_start>>, <<e, s>>)
SliceStep(st, s, e) ==
    IF HasOpaque(st.v) \/ HasOpaque(s) \/ HasOpaque(e) THEN <<Unm(st, "uses the text of a built-in error message")>>
    ELSE LET w == NSlice(st.v, e, s) IN IF IsErr(w) THEN <<ErrB(st)>> ELSE PathStep(st, SliceKey(s, e), w)
IterStep(st) ==
    LET v == st.v IN
    IF HasOpaque(v) THEN <<Unm(st, "uses the text of a built-in error message")>>
    ELSE IF v.t \notin {"arr", "obj"} THEN <<ErrB(st)>>
    ELSE LET i == IF st.pm THEN Intact(st) ELSE "yes" IN
         IF i = "unk" THEN <<Unm(st, "identity of an empty array")>>
         ELSE IF i = "no" THEN <<ErrB(st)>>
         ELSE [j \in 1 .. Len(v.v) |->
                 LET key == IF v.t = "arr" THEN JNum(j - 1) ELSE JStr(v.k[j]) IN
                 IF st.pm THEN OutV([st EXCEPT !.v = v.v[j], !.P = Append(st.P, key), !.W = v.v[j], !.id = [f |-> st.f, p |-> Append(st.P, key)]])
                 ELSE OutV(Fresh(st, v.v[j]))]

(********************************* evaluation *******************************)
RECURSIVE Eval(_, _, _), EvalTerm(_, _, _), EvalBase(_, _, _), EvalFn(_, _, _, _), Call(_, _, _, _), EvalArgs(_, _, _, _, _),
          EvalObj(_, _, _, _, _), EvalStr(_, _, _, _), EvalIdx(_, _, _, _), EvalIf(_, _, _, _, _, _), EvalBind(_, _, _, _),
          Destr(_, _, _, _, _), DestrSeq(_, _, _, _, _, _), Reduce(_, _, _), Foreach(_, _, _), PatVarsOf(_), CutLabel(_, _, _), EvalDefs(_, _, _)

(* evaluate argument queries for a native call: last argument first (outermost loop), each on the call's input; *)
(* results [k |-> "a", vals, s] with the path context threaded through, or a terminating outcome               *)
EvalArgs(args, i, st, cur, env) ==
    IF i = 0 THEN <<[k |-> "a", vals |-> <<>>, s |-> cur]>>
    ELSE LET os == Eval(args[i], [cur EXCEPT !.v = st.v, !.id = st.id], env)
             genEff == \E j \in 1 .. Len(os) : Eff(os[j].s) # Eff(cur)
             RECURSIVE G(_, _)
             G(j, eff) == IF j > Len(os) THEN (IF Eff(eff) = Eff(cur) THEN <<>> ELSE <<Nop(eff)>>)
                          ELSE LET now == IF genEff THEN os[j].s ELSE eff IN
                               IF IsN(os[j]) THEN G(j + 1, now)
                               ELSE IF ~IsV(os[j]) THEN <<os[j]>>
                               ELSE LET inner == EvalArgs(args, i - 1, st, Back(os[j].s, now), env)
                                        mine == [m \in 1 .. Len(inner) |-> IF inner[m].k = "a" THEN [inner[m] EXCEPT !.vals = Append(@, os[j].s.v)] ELSE inner[m]]
                                        eff2 == IF mine = <<>> THEN now ELSE mine[Len(mine)].s IN
                                    IF genEff /\ Eff(eff2) # Eff(now) THEN <<Unm(eff2, "effects of a generator interleave with effects downstream")>>
                                    ELSE IF mine # <<>> /\ mine[Len(mine)].k \notin {"a", "n"} THEN mine ELSE mine \o G(j + 1, eff2)
         IN G(1, cur)
(* vals come out in argument order: vals[1] is the first argument *)
ApplyNative(args, st, env, Op(_)) ==
    LET as == EvalArgs(args, Len(args), st, st, env) IN
    LET RECURSIVE G(_)
        G(j) == IF j > Len(as) THEN <<>>
                ELSE IF IsN(as[j]) THEN <<as[j]>> \o G(j + 1)
                ELSE IF as[j].k # "a" THEN <<as[j]>>
                ELSE LET r == Guarded(as[j].s, <<st.v>> \o as[j].vals, Op(as[j].vals)) IN
                     IF Ended(r) THEN r ELSE r \o G(j + 1)
    IN G(1)

EvalDefs(ds, i, env) == IF i > Len(ds) THEN env
                        ELSE EvalDefs(ds, i + 1, [env EXCEPT !.funcs = Append(@, [n |-> ds[i].name, ar |-> IF HasF(ds[i], "args") THEN Len(ds[i].args) ELSE 0,
                                                                                     ps |-> IF HasF(ds[i], "args") THEN ds[i].args ELSE <<>>,
                                                                                     body |-> ds[i].body, env |-> env, param |-> FALSE])])
Eval(q, st, env0) ==
    LET env == EvalDefs(DefsOf(q), 1, env0) IN
    IF HasF(q, "term") THEN EvalTerm(q.term, st, env)
    ELSE IF ~HasF(q, "op") THEN <<Unm(st, "program without a body")>>
    ELSE LET op == q.op IN
    CASE op = "|" -> FlatMap(Eval(q.left, st, env), st, LAMBDA s : Eval(q.right, s, env))
      [] op = "," -> LET l == Eval(q.left, st, env) IN IF Ended(l) THEN l ELSE l \o Eval(q.right, Back(st, LastSt(l, st)), env)
      [] op = "//" ->    \* truthy outputs of the left side as they come (an error of the left side ends everything); if there were none, the right side
            LET l == Eval(q.left, st, env)
                lv == SelectSeq(l, LAMBDA o : IsV(o) /\ Truthy(o.s.v)) IN
            IF Ended(l) THEN Append(lv, l[Len(l)])
            ELSE IF lv # <<>> THEN WithEff(lv, st, LastSt(l, st))
            ELSE Eval(q.right, Back(st, LastSt(l, st)), env)
      [] op = "and" -> EvalIf(q.left, IfQ(q.right, TrueQ, FalseQ), <<>>, FalseQ, st, env)
      [] op = "or" -> EvalIf(q.left, TrueQ, <<>>, IfQ(q.right, TrueQ, FalseQ), st, env)
      [] op \in {"+", "-", "*", "/", "%", "==", "!=", "<", "<=", ">", ">="} ->
            ApplyNative(<<q.left, q.right>>, st, env, LAMBDA vs : Arith(op, vs[1], vs[2]))
      [] OTHER -> <<Unm(st, "update operator")>>

(* if c then t (elif..)* else e: c evaluated outside path tracking, the branch on the input *)
EvalIf(c, t, elifs, e, st, env) ==
    FlatMap(Eval(c, NP(st), env), st, LAMBDA s :
        IF Truthy(s.v) THEN Eval(t, Back(st, s), env)
        ELSE IF elifs # <<>> THEN EvalIf(elifs[1].cond, elifs[1].then, Tail(elifs), e, Back(st, s), env)
        ELSE IF e = <<>> THEN <<OutV(Back(st, s))>>
        ELSE Eval(e, Back(st, s), env))

EvalTerm(t, st, env) ==
    IF ~HasF(t, "suffix_list") THEN EvalBase(t, st, env)
    ELSE LET n == Len(t.suffix_list)
             s == t.suffix_list[n]
             base == WithSuffixes(t, SubSeq(t.suffix_list, 1, n - 1)) IN
         IF HasF(s, "index") THEN EvalIdx(base, s.index, st, env)
         ELSE IF HasF(s, "iter") THEN FlatMap(EvalTerm(base, st, env), st, LAMBDA x : IterStep(x))
         ELSE IF HasF(s, "bind") THEN EvalBind(base, s.bind, st, env)
         ELSE \* optional: `T.k?` is T | try .k  (the engine wraps only the last index/iterate step); otherwise try(T)
              LET m == Len(SuffixesOf(base))
                  lastS == IF m > 0 THEN base.suffix_list[m] ELSE <<>>
                  tryBody == IF m > 0 /\ HasF(lastS, "index") THEN [type |-> "TermTypeIndex", index |-> lastS.index]
                             ELSE IF m > 0 /\ HasF(lastS, "iter") THEN IterAll.term ELSE base
                  pre == IF m > 0 /\ (HasF(lastS, "index") \/ HasF(lastS, "iter")) THEN WithSuffixes(base, SubSeq(base.suffix_list, 1, m - 1)) ELSE <<>>
                  tryIt(x) == LET os == EvalTerm(tryBody, x, env) IN
                              IF Ended(os) /\ os[Len(os)].k = "e" THEN
                                  (IF os[Len(os)].s.alt /\ ~x.alt THEN Append(SubSeq(os, 1, Len(os) - 1), Unm(os[Len(os)].s, "error downstream of a live destructuring alternative"))
                                   ELSE WithEff(SubSeq(os, 1, Len(os) - 1), x, os[Len(os)].s))
                              ELSE os
              IN IF pre = <<>> THEN tryIt(st) ELSE FlatMap(EvalTerm(pre, st, env), st, LAMBDA x : tryIt(x))

(* T[key], T[a:b], T.name, T."str": constant keys index T's outputs directly; computed keys are evaluated first (on the input, *)
(* outside path tracking), slice start before slice end, and T innermost                                                      *)
ConstKey(x, env) ==
    IF HasF(x, "name") THEN (IF HasStrLit(env, x.name) THEN JStr(StrLit(env, x.name)) ELSE [unk |-> "literal"])
    ELSE IF HasF(x, "str") THEN (IF HasF(x.str, "queries") THEN <<>> ELSE IF HasStrLit(env, StrOfRec(env, x.str)) THEN JStr(StrLit(env, StrOfRec(env, x.str))) ELSE [unk |-> "literal"])
    ELSE IF HasF(x, "is_slice") THEN <<>>
    ELSE LET k == x.start IN
         IF ~TermOnly(k) \/ HasF(k.term, "suffix_list") THEN <<>>
         ELSE IF k.term.type = "TermTypeNumber" THEN (IF HasNumLit(env, k.term.number) THEN JNum(NumLit(env, k.term.number)) ELSE [unk |-> "literal"])
         ELSE IF k.term.type = "TermTypeUnary" /\ k.term.unary.term.type = "TermTypeNumber" /\ ~HasF(k.term.unary.term, "suffix_list")
              THEN (IF HasNumLit(env, k.term.unary.term.number) THEN JNum((IF k.term.unary.op = "-" THEN -1 ELSE 1) * NumLit(env, k.term.unary.term.number)) ELSE [unk |-> "literal"])
         ELSE IF k.term.type = "TermTypeString" /\ ~HasF(k.term.str, "queries")
              THEN (IF HasStrLit(env, StrOfRec(env, k.term.str)) THEN JStr(StrLit(env, StrOfRec(env, k.term.str))) ELSE [unk |-> "literal"])
         ELSE <<>>
EvalIdx(base, x, st, env) ==
    LET ck == ConstKey(x, env) IN
    IF ck # <<>> THEN (IF IsUnk(ck) THEN <<Unm(st, "literal outside the table")>>
                       ELSE FlatMap(EvalTerm(base, st, env), st, LAMBDA b : IndexStep(b, ck)))
    ELSE IF HasF(x, "str") THEN
        FlatMap(EvalStr(x.str, "tostring", NP(st), env), st, LAMBDA k : FlatMap(EvalTerm(base, Back(st, k), env), st, LAMBDA b : IndexStep(b, k.v)))
    ELSE IF ~HasF(x, "is_slice") THEN
        FlatMap(Eval(x.start, NP(st), env), st, LAMBDA k : FlatMap(EvalTerm(base, Back(st, k), env), st, LAMBDA b : IndexStep(b, k.v)))
    ELSE LET startQ == IF HasF(x, "start") THEN x.start ELSE NullQ
             endQ == IF HasF(x, "end") THEN x.end ELSE NullQ IN
         FlatMap(Eval(startQ, NP(st), env), st, LAMBDA s :
            FlatMap(Eval(endQ, NP(Back(st, s)), env), st, LAMBDA e :
               FlatMap(EvalTerm(base, Back(st, e), env), st, LAMBDA b : SliceStep(b, s.v, e.v))))

(* "..\(q).." : parts added left to right; the engine evaluates the LAST part outermost *)
EvalStr(sr, fmt, st, env) ==
    IF ~HasF(sr, "queries") THEN
        (IF HasStrLit(env, StrOfRec(env, sr)) THEN <<OutV(Fresh(st, JStr(StrLit(env, StrOfRec(env, sr)))))>> ELSE <<Unm(st, "literal outside the table")>>)
    ELSE LET parts == [i \in 1 .. Len(sr.queries) |->
                          IF HasF(sr.queries[i].term, "str") THEN sr.queries[i] ELSE Pipe(sr.queries[i], F0(fmt))]
             RECURSIVE Sum(_)
             Sum(i) == IF i = 1 THEN parts[1] ELSE Bin("+", Sum(i - 1), parts[i])
         IN IF parts = <<>> THEN <<OutV(Fresh(st, JStr(<<>>)))>> ELSE Eval(Sum(Len(parts)), st, env)

(* {k: v, ...}: entries left to right, the first entry outermost; key before value; later duplicates win *)
EvalObj(kvs, i, st, cur, env) ==
    IF i > Len(kvs) THEN <<[k |-> "a", vals |-> <<>>, s |-> cur]>>
    ELSE LET kv == kvs[i]
             inSt == [cur EXCEPT !.v = st.v, !.id = st.id]
             keyOs == IF HasF(kv, "key") THEN
                          (IF IsVarName(kv.key) THEN <<OutV(Fresh(inSt, JNull))>>      \* {$x}: key is the name without `$` (see below)
                           ELSE IF HasStrLit(env, kv.key) THEN <<OutV(Fresh(inSt, JStr(StrLit(env, kv.key))))>> ELSE <<Unm(cur, "literal outside the table")>>)
                      ELSE IF HasF(kv, "key_string") THEN EvalStr(kv.key_string, "tostring", inSt, env)
                      ELSE Eval(kv.key_query, inSt, env)
             valOf(ks) == IF HasF(kv, "val") THEN Eval(kv.val, [ks EXCEPT !.v = st.v, !.id = st.id], env)
                          ELSE IF HasF(kv, "key") /\ IsVarName(kv.key) THEN <<Unm(ks, "{$x} shorthand")>>
                          ELSE IndexStep([ks EXCEPT !.v = st.v, !.id = st.id], ks.v)       \* {a} == {a: .a}
             RECURSIVE G(_, _)
             G(pairs, j) == IF j > Len(pairs) THEN <<>>
                            ELSE IF HasF(pairs[j], "k") /\ pairs[j].k = "n" THEN <<pairs[j]>> \o G(pairs, j + 1)
                            ELSE IF ~HasF(pairs[j], "kk") THEN <<pairs[j]>>
                            ELSE LET rest == EvalObj(kvs, i + 1, st, pairs[j].s, env)
                                     mine == [m \in 1 .. Len(rest) |-> IF rest[m].k = "a" THEN [rest[m] EXCEPT !.vals = <<<<pairs[j].kk, pairs[j].s.v>>>> \o @] ELSE rest[m]] IN
                                 IF mine # <<>> /\ mine[Len(mine)].k \notin {"a", "n"} THEN mine ELSE mine \o G(pairs, j + 1)
             \* all (key, value) pairs of this entry in order, key outer
             pairsOf == LET RECURSIVE K(_, _)
                            K(j, eff) == IF j > Len(keyOs) THEN <<>>
                                         ELSE IF IsN(keyOs[j]) THEN <<keyOs[j]>> \o K(j + 1, keyOs[j].s)
                                         ELSE IF ~IsV(keyOs[j]) THEN <<keyOs[j]>>
                                         ELSE LET ks == Back(keyOs[j].s, eff)
                                                  vs == valOf(ks)
                                                  tagged == [m \in 1 .. Len(vs) |-> IF IsV(vs[m]) THEN [kk |-> ks.v, s |-> vs[m].s] ELSE vs[m]] IN
                                              IF Ended(vs) THEN tagged ELSE tagged \o K(j + 1, LastSt(vs, ks))          \* (effects in keys and values of one literal are not interleaved faithfully)
                        IN K(1, LastSt(keyOs, cur))
         IN G(pairsOf, 1)

PatVarsOf(p) == IF HasF(p, "name") THEN {p.name}
                ELSE IF HasF(p, "array") THEN UNION {PatVarsOf(p.array[i]) : i \in 1 .. Len(p.array)}
                ELSE UNION {(IF HasF(p.object[i], "key") /\ IsVarName(p.object[i].key) THEN {p.object[i].key} ELSE {})
                            \cup (IF HasF(p.object[i], "val") THEN PatVarsOf(p.object[i].val) ELSE {}) : i \in 1 .. Len(p.object)}
(* destructuring: outcomes [k |-> "env", e, s] or a terminating outcome *)
Destr(p, v, vid, env, st) ==
    IF HasF(p, "name") THEN <<[k |-> "env", e |-> BindVar(env, p.name, v, vid), s |-> st]>>
    ELSE IF HasOpaque(v) THEN <<Unm(st, "uses the text of a built-in error message")>>
    ELSE IF HasF(p, "array") THEN
        (IF v.t \notin {"null", "arr"} THEN <<ErrB(st)>>
         ELSE DestrSeq([i \in 1 .. Len(p.array) |-> [pat |-> p.array[i], key |-> JNum(i - 1)]], 1, v, env, st, FALSE))
    ELSE DestrSeq([i \in 1 .. Len(p.object) |-> [ent |-> p.object[i]]], 1, v, env, st, TRUE)
DestrSeq(items, i, v, env, st, isObj) ==
    IF i > Len(items) THEN <<[k |-> "env", e |-> env, s |-> st]>>
    ELSE LET next(e2, s2) == DestrSeq(items, i + 1, v, e2, s2, isObj)
             chain(os) == LET RECURSIVE G(_) G(j) == IF j > Len(os) THEN <<>> ELSE IF os[j].k # "env" THEN <<os[j]>>
                                                     ELSE LET r == next(os[j].e, os[j].s) IN IF r # <<>> /\ r[Len(r)].k # "env" THEN r ELSE r \o G(j + 1)
                          IN G(1) IN
         IF ~isObj THEN LET w == NIndex(v, items[i].key) IN chain(Destr(items[i].pat, w, NoId, env, st))
         ELSE LET ent == items[i].ent
                  \* the key: `$name` (binds $name too), identifier, string (maybe interpolated) or (query); the key query's input is the value
                  withKey(kv, e2, s2) ==
                      IF kv.t # "str" \/ v.t \notin {"null", "obj"} THEN <<ErrB(s2)>>
                      ELSE LET w == NIndex(v, kv) IN
                           IF HasF(ent, "val") THEN Destr(ent.val, w, NoId, e2, s2) ELSE <<[k |-> "env", e |-> e2, s |-> s2]>>
              IN IF HasF(ent, "key") THEN
                     (IF IsVarName(ent.key) THEN <<Unm(st, "{$x} pattern")>>
                      ELSE IF ~HasStrLit(env, ent.key) THEN <<Unm(st, "literal outside the table")>>
                      ELSE chain(withKey(JStr(StrLit(env, ent.key)), env, st)))
                 ELSE LET kos == IF HasF(ent, "key_string") THEN EvalStr(ent.key_string, "tostring", Fresh(NP(st), v), env)
                                 ELSE Eval(ent.key_query, Fresh(NP(st), v), env)
                          RECURSIVE K(_)
                          K(j) == IF j > Len(kos) THEN <<>> ELSE IF IsN(kos[j]) THEN K(j + 1) ELSE IF ~IsV(kos[j]) THEN <<kos[j]>>
                                  ELSE LET r == chain(withKey(kos[j].s.v, env, Back(st, kos[j].s))) IN
                                       IF r # <<>> /\ r[Len(r)].k # "env" THEN r ELSE r \o K(j + 1)
                      IN K(1)

(* T as p1 ?// p2 .. | body: T outside path tracking; body on the input.  With alternatives, an error anywhere after *)
(* binding pattern k (destructuring or body) moves on to pattern k+1, keeping what was already output.              *)
EvalBind(base, b, st, env) ==
    LET allVars == UNION {PatVarsOf(b.patterns[i]) : i \in 1 .. Len(b.patterns)}
        RECURSIVE NullVars(_, _)
        NullVars(e, vs) == IF vs = {} THEN e ELSE LET x == CHOOSE y \in vs : TRUE IN NullVars(BindVar(e, x, JNull, NoId), vs \ {x})
        env1 == IF Len(b.patterns) > 1 THEN NullVars(env, allVars) ELSE env
        RECURSIVE TryPat(_, _, _)
        TryPat(i, src, eff) ==
            LET ds == Destr(b.patterns[i], src.v, src.id, env1, Back(st, eff))
                run == LET RECURSIVE G(_, _)
                           G(j, e2) == IF j > Len(ds) THEN <<>> ELSE IF ds[j].k # "env" THEN <<ds[j]>>
                                       ELSE LET r == Eval(b.body, Back(st, Back(ds[j].s, e2)), ds[j].e) IN
                                            IF Ended(r) THEN r ELSE r \o G(j + 1, LastSt(r, e2))
                       IN G(1, eff)
                mark(os) == [m \in 1 .. Len(os) |-> IF IsV(os[m]) THEN [os[m] EXCEPT !.s.alt = TRUE] ELSE os[m]] IN
            IF i < Len(b.patterns) /\ Ended(run) /\ run[Len(run)].k = "e"
            THEN LET kept == SubSeq(run, 1, Len(run) - 1) IN mark(kept) \o TryPat(i + 1, src, run[Len(run)].s)
            ELSE IF i < Len(b.patterns) THEN mark(run) ELSE run
    IN IF st.pm /\ Len(b.patterns) > 1 THEN <<Unm(st, "destructuring alternatives under path tracking")>>
       ELSE FlatMap(EvalTerm(base, NP(st), env), st, LAMBDA src : TryPat(1, src, src))

(* reduce: for every start value; each item's LAST update output becomes the state (none: unchanged).  Items are produced *)
(* lazily, one per round: the same rule for effects as in FlatMap.                                                          *)
Reduce(r, st, env) ==
    IF st.pm /\ ~HasF(r.pattern, "name") THEN <<Unm(st, "destructuring reduce under path tracking")>>
    ELSE FlatMap(Eval(r.start, st, env), st, LAMBDA s0 :
        LET base == Back(st, s0)
            items == Eval(r.query, base, env)
            genEff == \E j \in 1 .. Len(items) : Eff(items[j].s) # Eff(base)
            RECURSIVE G(_, _)
            G(j, acc) ==      \* acc: state carrying the accumulator value and the effects so far
                IF j > Len(items) THEN <<OutV([acc EXCEPT !.alt = st.alt])>>
                ELSE LET cur == IF genEff THEN Back(acc, items[j].s) ELSE acc IN
                     IF IsN(items[j]) THEN G(j + 1, cur)
                     ELSE IF ~IsV(items[j]) THEN <<[items[j] EXCEPT !.s = Back(items[j].s, cur)]>>
                     ELSE LET ds == Destr(r.pattern, items[j].s.v, items[j].s.id, env, cur)
                              RECURSIVE D(_, _)
                              D(m, a) == IF m > Len(ds) THEN <<OutV(a)>> ELSE IF ds[m].k # "env" THEN <<ds[m]>>
                                         ELSE LET us == Eval(r.update, Back(a, ds[m].s), ds[m].e)
                                                  vs == Vals(us) IN
                                              IF Ended(us) THEN <<us[Len(us)]>>
                                              ELSE D(m + 1, IF vs = <<>> THEN Back(a, LastSt(us, ds[m].s)) ELSE [Back(vs[Len(vs)].s, LastSt(us, a)) EXCEPT !.id = NoId])
                              after == D(1, cur) IN
                          IF ~IsV(after[1]) THEN after
                          ELSE IF genEff /\ Eff(after[1].s) # Eff(cur) THEN <<Unm(after[1].s, "effects of a generator interleave with effects downstream")>>
                          ELSE G(j + 1, after[1].s)
        IN G(1, [base EXCEPT !.v = s0.v, !.id = NoId]))
(* foreach: every update output becomes the state and is emitted (through extract) *)
Foreach(f, st, env) ==
    IF st.pm /\ ~HasF(f.pattern, "name") THEN <<Unm(st, "destructuring foreach under path tracking")>>
    ELSE FlatMap(Eval(f.start, st, env), st, LAMBDA s0 :
        LET base == Back(st, s0)
            items == Eval(f.query, base, env)
            genEff == \E j \in 1 .. Len(items) : Eff(items[j].s) # Eff(base)
            \* result of a round: outcomes emitted, then [k |-> "acc", s] (the state to go on with) unless terminated
            RECURSIVE G(_, _)
            G(j, acc) ==
                IF j > Len(items) THEN <<Nop(acc)>>
                ELSE LET cur == IF genEff THEN Back(acc, items[j].s) ELSE acc IN
                     IF IsN(items[j]) THEN G(j + 1, cur)
                     ELSE IF ~IsV(items[j]) THEN <<[items[j] EXCEPT !.s = Back(items[j].s, cur)]>>
                     ELSE LET it == items[j].s
                              ds == Destr(f.pattern, it.v, it.id, env, cur)
                              RECURSIVE D(_, _)
                              D(m, a) == IF m > Len(ds) THEN <<[k |-> "acc", s |-> a]>> ELSE IF ds[m].k # "env" THEN <<ds[m]>>
                                         ELSE LET us == Eval(f.update, [it EXCEPT !.v = a.v, !.id = NoId, !.ins = ds[m].s.ins, !.side = ds[m].s.side, !.alt = st.alt \/ it.alt], ds[m].e)
                                                  RECURSIVE U(_, _)
                                                  U(n, a2) == IF n > Len(us) THEN <<[k |-> "acc", s |-> IF Vals(us) = <<>> THEN Back(a2, LastSt(us, a2)) ELSE a2]>>
                                                              ELSE IF IsN(us[n]) THEN U(n + 1, a2)
                                                              ELSE IF ~IsV(us[n]) THEN <<us[n]>>
                                                              ELSE LET ex == IF HasF(f, "extract") THEN Eval(f.extract, us[n].s, ds[m].e) ELSE <<OutV(us[n].s)>>
                                                                       a3 == Back(us[n].s, LastSt(ex, us[n].s)) IN
                                                                   IF Ended(ex) THEN ex ELSE ex \o U(n + 1, a3)
                                                  r == U(1, a) IN
                                              IF r[Len(r)].k # "acc" THEN r ELSE SubSeq(r, 1, Len(r) - 1) \o D(m + 1, [r[Len(r)].s EXCEPT !.id = NoId])
                              after == D(1, cur) IN
                          IF after[Len(after)].k # "acc" THEN after
                          ELSE IF genEff /\ Eff(after[Len(after)].s) # Eff(cur) THEN <<Unm(cur, "effects of a generator interleave with effects downstream")>>
                          ELSE SubSeq(after, 1, Len(after) - 1) \o G(j + 1, after[Len(after)].s)
        IN G(1, [base EXCEPT !.v = s0.v, !.id = NoId]))

CutLabel(os, id, entryAlt) == LET is == {i \in 1 .. Len(os) : os[i].k = "b" /\ os[i].l = id} IN
                    IF is = {} THEN os
                    ELSE LET n == CHOOSE i \in is : \A j \in is : i <= j IN
                         IF os[n].s.alt /\ ~entryAlt THEN Append(SubSeq(os, 1, n - 1), Unm(os[n].s, "error downstream of a live destructuring alternative"))      \* the break would first re-enter the alternative
                         ELSE Append(SubSeq(os, 1, n - 1), Nop(os[n].s))

EvalBase(t, st, env) ==
    LET ty == t.type IN
    CASE ty = "TermTypeIdentity" -> <<OutV(st)>>
      [] ty = "TermTypeRecurse" -> EvalFn("recurse", <<>>, st, env)
      [] ty = "TermTypeNull" -> <<OutV(Fresh(st, JNull))>>
      [] ty = "TermTypeTrue" -> <<OutV(Fresh(st, JTrue))>>
      [] ty = "TermTypeFalse" -> <<OutV(Fresh(st, JFalse))>>
      [] ty = "TermTypeNumber" -> IF HasNumLit(env, t.number) THEN <<OutV(Fresh(st, JNum(NumLit(env, t.number))))>> ELSE <<Unm(st, "number literal outside the table")>>
      [] ty = "TermTypeString" -> EvalStr(t.str, "tostring", st, env)
      [] ty = "TermTypeFormat" ->
            IF t.format \notin {"@text", "@json"} THEN <<Unm(st, "format")>>
            ELSE LET fn == IF t.format = "@json" THEN "tojson" ELSE "tostring" IN
                 IF HasF(t, "str") THEN EvalStr(t.str, fn, st, env) ELSE EvalFn(fn, <<>>, st, env)
      [] ty = "TermTypeIndex" -> EvalIdx(Ident.term, t.index, st, env)
      [] ty = "TermTypeFunc" -> EvalFn(t.func.name, IF HasF(t.func, "args") THEN t.func.args ELSE <<>>, st, env)
      [] ty = "TermTypeObject" ->
            IF ~HasF(t.object, "key_vals") THEN <<OutV(Fresh(st, JEmptyObj))>>
            ELSE LET rs == EvalObj(t.object.key_vals, 1, st, st, env) IN
                 Trunc([i \in 1 .. Len(rs) |->
                    IF rs[i].k # "a" THEN rs[i]
                    ELSE IF \E j \in 1 .. Len(rs[i].vals) : rs[i].vals[j][1].t # "str"
                         THEN (IF \E j \in 1 .. Len(rs[i].vals) : HasOpaque(rs[i].vals[j][1]) THEN Unm(rs[i].s, "uses the text of a built-in error message") ELSE ErrB(rs[i].s))
                         \* the engine keeps the FIRST of duplicate keys
                         ELSE OutV(Fresh([st EXCEPT !.ins = rs[i].s.ins, !.side = rs[i].s.side, !.P = rs[i].s.P, !.W = rs[i].s.W],
                                         ObjFromPairs([j \in 1 .. Len(rs[i].vals) |-> <<rs[i].vals[Len(rs[i].vals) + 1 - j][1].s, rs[i].vals[Len(rs[i].vals) + 1 - j][2]>>])))])
      [] ty = "TermTypeArray" ->
            IF ~HasF(t.array, "query") THEN <<OutV(Fresh(st, JArr(<<>>)))>>
            ELSE LET os == Eval(t.array.query, st, env) IN
                 IF Ended(os) THEN <<[os[Len(os)] EXCEPT !.s = Back(st, os[Len(os)].s)]>>
                 ELSE LET vs == Vals(os) IN <<OutV([Fresh(Back(st, LastSt(os, st)), JArr([i \in 1 .. Len(vs) |-> vs[i].s.v])) EXCEPT !.alt = st.alt])>>          \* the generator is exhausted: st.alt as on entry
      [] ty = "TermTypeUnary" ->
            LET u == t.unary.term IN
            IF u.type = "TermTypeNumber" /\ ~HasF(u, "suffix_list") THEN
                (IF HasNumLit(env, u.number) THEN <<OutV(Fresh(st, JNum((IF t.unary.op = "-" THEN -1 ELSE 1) * NumLit(env, u.number))))>>
                 ELSE <<Unm(st, "number literal outside the table")>>)
            ELSE FlatMap(EvalTerm(u, st, env), st, LAMBDA x :
                     Guarded(x, <<x.v>>, IF x.v.t # "num" THEN Err ELSE IF t.unary.op = "-" THEN JNum(-x.v.n) ELSE x.v))
      [] ty = "TermTypeIf" -> EvalIf(t.if.cond, t.if.then, IF HasF(t.if, "elif") THEN t.if.elif ELSE <<>>, IF HasF(t.if, "else") THEN t.if.else ELSE <<>>, st, env)
      [] ty = "TermTypeTry" ->
            LET os == Eval(t.try.body, st, env) IN
            IF Ended(os) /\ os[Len(os)].k = "e" THEN
                LET e == os[Len(os)] kept == SubSeq(os, 1, Len(os) - 1) IN
                IF e.s.alt /\ ~st.alt THEN Append(kept, Unm(e.s, "error downstream of a live destructuring alternative"))
                ELSE IF HasF(t.try, "catch") THEN kept \o Eval(t.try.catch, [Fresh(Back(NP(st), e.s), e.v) EXCEPT !.alt = st.alt], env) ELSE WithEff(kept, st, e.s)
            ELSE os
      [] ty = "TermTypeReduce" -> Reduce(t.reduce, st, env)
      [] ty = "TermTypeForeach" -> Foreach(t.foreach, st, env)
      [] ty = "TermTypeLabel" ->
            LET id == env.dc + 1 IN
            CutLabel(Eval(t.label.body, st, [env EXCEPT !.dc = id, !.labels = Append(@, [n |-> t.label.ident, id |-> id])]), id, st.alt)
      [] ty = "TermTypeBreak" -> LET id == LookupLabel(env, t.break) IN IF id = 0 THEN <<Unm(st, "break without label")>> ELSE <<Brk(st, id)>>
      [] ty = "TermTypeQuery" -> Eval(t.query, st, env)

(* calling a closure: definitions see themselves; `$p` parameters are evaluated on the call's input outside path tracking, *)
(* the first parameter outermost; other parameters are closures over the caller's environment                            *)
Call(c, args, st, env) ==
    IF env.fuel <= 0 THEN <<Unm(st, "call depth")>>
    ELSE LET base == Dyn(IF c.param THEN c.env ELSE [c.env EXCEPT !.funcs = Append(@, c)], env)
             withFilters == [base EXCEPT !.funcs = @ \o [i \in 1 .. Len(args) |->
                                 [n |-> IF IsVarName(c.ps[i]) THEN "" ELSE c.ps[i], ar |-> 0, ps |-> <<>>, body |-> args[i], env |-> env, param |-> TRUE]]]
             valueParams == SelectSeq([i \in 1 .. Len(args) |-> i], LAMBDA i : IsVarName(c.ps[i]))
             RECURSIVE B(_, _, _)
             B(k, e, eff) == IF k > Len(valueParams) THEN Eval(c.body, Back(st, eff), e)
                             ELSE FlatMap(Eval(args[valueParams[k]], NP(Back(st, eff)), env), st,
                                          LAMBDA s : B(k + 1, BindVar(e, c.ps[valueParams[k]], s.v, NoId), s))
         IN B(1, withFilters, st)

EvalFn(n, args, st, env) ==
    LET ar == Len(args)
        ui == LookupFn(env, n, ar)
        var == IF ar = 0 THEN LookupVar(env, n) ELSE <<>> IN
    IF ui # 0 THEN Call(env.funcs[ui], args, st, env)
    ELSE IF var # <<>> THEN <<OutV([st EXCEPT !.v = var.v, !.id = var.id])>>
    ELSE IF IsVarName(n) THEN <<Unm(st, "unbound variable")>>
    ELSE IF LibIdx(n, ar) # 0 THEN
        LET d == Lib[LibIdx(n, ar)] IN
        Call([n |-> n, ar |-> ar, ps |-> IF HasF(d, "args") THEN d.args ELSE <<>>, body |-> d.body,
              env |-> [env EXCEPT !.vars = <<>>, !.funcs = <<>>, !.labels = <<>>], param |-> FALSE], args, st, env)
    ELSE CASE n = "empty" /\ ar = 0 -> <<>>
           [] n = "error" /\ ar = 0 -> <<ErrU(st, st.v)>>
           [] n = "error" /\ ar = 1 -> FlatMap(Eval(args[1], NP(st), env), st, LAMBDA s : <<ErrU(Back(st, s), s.v)>>)
           [] n = "path" /\ ar = 1 ->
                 LET fr == env.dc + 1
                     inner == [st EXCEPT !.pm = TRUE, !.f = fr, !.P = <<>>, !.W = st.v, !.id = [f |-> fr, p |-> <<>>]]
                     os == Eval(args[1], inner, [env EXCEPT !.dc = fr]) IN
                 Trunc([i \in 1 .. Len(os) |->
                    IF ~IsV(os[i]) THEN [os[i] EXCEPT !.s = Back(st, os[i].s)]
                    ELSE LET it == Intact(os[i].s) IN
                         IF it = "unk" THEN Unm(Back(st, os[i].s), "identity of an empty array")
                         ELSE IF it = "no" THEN ErrB(Back(st, os[i].s))
                         ELSE OutV(Fresh(Back(st, os[i].s), JArr(os[i].s.P)))])
           [] n = "getpath" /\ ar = 1 ->
                 FlatMap(Eval(args[1], NP(st), env), st, LAMBDA p :
                    LET x == Back(st, p) IN
                    IF HasOpaque(p.v) \/ HasOpaque(st.v) THEN <<Unm(x, "uses the text of a built-in error message")>>
                    ELSE IF p.v.t # "arr" THEN <<ErrB(x)>>
                    ELSE LET w == NGetpath(st.v, p.v.v, 1) IN
                         IF IsErr(w) THEN <<ErrB(x)>>
                         ELSE IF ~st.pm THEN <<OutV(Fresh(x, w))>>
                         ELSE LET it == Intact(x) IN
                              IF it = "unk" THEN <<Unm(x, "identity of an empty array")>> ELSE IF it = "no" THEN <<ErrB(x)>>
                              ELSE <<OutV([x EXCEPT !.v = w, !.P = x.P \o p.v.v, !.W = w, !.id = [f |-> x.f, p |-> x.P \o p.v.v]])>>)
           [] n = "last" /\ ar = 1 ->
                 LET os == Eval(args[1], st, env) vs == Vals(os) IN
                 IF Ended(os) THEN <<os[Len(os)]>> ELSE IF vs = <<>> THEN WithEff(<<>>, st, LastSt(os, st))
                 \* the generator is exhausted before the value is delivered: the path context is the caller's again
                 ELSE <<OutV([Back(st, LastSt(os, st)) EXCEPT !.v = vs[Len(vs)].s.v, !.id = vs[Len(vs)].s.id, !.alt = st.alt])>>
           [] n = "input" /\ ar = 0 ->
                 IF st.ins = <<>> THEN <<ErrM(st, JStr(LibStr["break"]))>>
                 ELSE <<OutV(Fresh([st EXCEPT !.ins = Tail(st.ins)], Head(st.ins)))>>
           [] n = "debug" /\ ar = 0 ->
                 IF HasOpaque(st.v) THEN <<Unm(st, "uses the text of a built-in error message")>>
                 ELSE <<OutV([st EXCEPT !.side = Append(@, JArr(<<JStr(<<68, 69, 66, 85, 71, 58>>), st.v>>))])>>
           [] n = "debug" /\ ar = 1 ->      \* def debug(f): (f | debug | empty), .;
                 LET os == FlatMap(Eval(args[1], st, env), st, LAMBDA s : EvalFn("debug", <<>>, s, env)) IN
                 IF Ended(os) THEN <<os[Len(os)]>> ELSE <<OutV(Back(st, LastSt(os, st)))>>
           [] n = "stderr" /\ ar = 0 ->
                 LET txt == NToString(st.v) IN
                 IF HasOpaque(st.v) \/ IsUnk(txt) THEN <<Unm(st, "stderr text outside the model")>>
                 ELSE <<OutV([st EXCEPT !.side = Append(@, txt)])>>
           [] n = "input_filename" /\ ar = 0 -> <<OutV(Fresh(st, JNull))>>
           [] n = "_range" /\ ar = 3 ->
                 LET as == EvalArgs(args, 3, st, st, env)
                     cnt(a, b, c) == IF c.n > 0 THEN (IF b.n > a.n THEN ((b.n - a.n - 1) \div c.n) + 1 ELSE 0)
                                     ELSE IF c.n < 0 THEN (IF b.n < a.n THEN ((a.n - b.n - 1) \div (-c.n)) + 1 ELSE 0) ELSE 0
                     rng(a, b, c) == [i \in 1 .. cnt(a, b, c) |-> a.n + (i - 1) * c.n]
                     RECURSIVE G(_)
                     G(j) == IF j > Len(as) THEN <<>> ELSE IF IsN(as[j]) THEN <<as[j]>> \o G(j + 1) ELSE IF as[j].k # "a" THEN <<as[j]>>
                             ELSE LET v == as[j].vals IN
                                  IF \E i \in 1 .. 3 : HasOpaque(v[i]) THEN <<Unm(as[j].s, "uses the text of a built-in error message")>>
                                  ELSE IF \E i \in 1 .. 3 : v[i].t # "num" THEN <<ErrB(as[j].s)>>
                                  ELSE IF v[3].n = 0 /\ v[1].n < v[2].n THEN <<Unm(as[j].s, "unbounded range")>>
                                  ELSE LET r == rng(v[1], v[2], v[3]) IN
                                       IF Len(r) > MaxOut THEN <<Unm(as[j].s, "too many outputs")>>
                                       ELSE [i \in 1 .. Len(r) |-> OutV(Fresh(as[j].s, JNum(r[i])))] \o G(j + 1)
                 IN G(1)
           [] ar = 0 /\ n \in Natives0 ->
                 Guarded(st, <<st.v>>,
                    CASE n = "length" -> NLength(st.v) [] n = "keys" -> NKeys(st.v) [] n = "type" -> JStr(LibStrType(st.v))
                      [] n = "add" -> NAdd(st.v) [] n = "tostring" -> NToString(st.v) [] n = "tojson" -> NToJson(st.v)
                      [] n = "fromjson" -> NFromJson(st.v) [] n = "explode" -> NExplode(st.v) [] n = "implode" -> NImplode(st.v)
                      [] n = "to_entries" -> NToEntries(st.v) [] n = "from_entries" -> NFromEntries(st.v)
                      [] n = "sort" -> NSort(st.v) [] n = "unique" -> NUnique(st.v)
                      [] n = "min" -> NMinMaxBy(st.v, st.v, TRUE) [] n = "max" -> NMinMaxBy(st.v, st.v, FALSE)
                      [] n = "reverse" -> NReverse(st.v))
           [] ar = 1 /\ n \in Natives1 ->
                 ApplyNative(args, st, env, LAMBDA vs :
                    CASE n = "has" -> NHas(st.v, vs[1]) [] n = "split" -> NSplit(st.v, vs[1])
                      [] n = "ltrimstr" -> NTrim(st.v, vs[1], TRUE) [] n = "rtrimstr" -> NTrim(st.v, vs[1], FALSE)
                      [] n = "startswith" -> NStarts(st.v, vs[1], TRUE) [] n = "endswith" -> NStarts(st.v, vs[1], FALSE)
                      [] n = "join" -> NJoin(st.v, vs[1]) [] n = "_sort_by" -> NSortBy(st.v, vs[1])
                      [] n = "_group_by" -> NGroupBy(st.v, vs[1], FALSE) [] n = "_unique_by" -> NGroupBy(st.v, vs[1], TRUE)
                      [] n = "_min_by" -> NMinMaxBy(st.v, vs[1], TRUE) [] n = "_max_by" -> NMinMaxBy(st.v, vs[1], FALSE))
           [] OTHER -> <<Unm(st, "function outside the core")>>

(********************************* top level ********************************)
(* literal tables of the vocabulary the generated programs use *)
StdLit == [str |-> ("a" :> <<97>>) @@ ("b" :> <<98>>) @@ ("ab" :> <<97, 98>>) @@ ("key" :> K_key) @@ ("value" :> K_value) @@ ("x" :> <<120>>) @@ (", " :> <<44, 32>>),
           num |-> ("0" :> 0) @@ ("1" :> 1) @@ ("2" :> 2) @@ ("3" :> 3)]
Outcome(o) == CASE o.k = "v" -> IF HasOpaque(o.s.v) THEN [k |-> "x", why |-> "outputs the text of a built-in error message"] ELSE [k |-> "v", v |-> o.s.v]
                [] o.k = "e" -> IF o.u /\ HasOpaque(o.v) THEN [k |-> "x", why |-> "raises the text of a built-in error message"]
                                ELSE [k |-> "e", u |-> o.u, v |-> IF o.u THEN o.v ELSE JNull]
                [] o.k = "b" -> [k |-> "x", why |-> "break escapes"]
                [] o.k = "x" -> [k |-> "x", why |-> o.why]
Run(q, input, inputs, lit) ==
    LET os == Eval(q, St0(input, inputs), Env0(lit))
        real == SelectSeq(os, LAMBDA o : ~IsN(o))
        outs == [i \in 1 .. Len(real) |-> Outcome(real[i])]
        bad == {i \in 1 .. Len(outs) : outs[i].k = "x"} IN
    IF bad # {} THEN [out |-> <<outs[CHOOSE i \in bad : \A j \in bad : i <= j]>>, side |-> <<>>, core |-> FALSE]
    ELSE [out |-> outs, side |-> LastSt(os, St0(input, inputs)).side, core |-> TRUE]
=============================================================================
