------------------------------ MODULE Outcome ------------------------------
(***************************************************************************)
(* Outcome protocols of one run of real fq code inside an isolated worker  *)
(* (DESIGN section 3 "process isolation", section 5 C13 / C06).            *)
(*                                                                         *)
(* This module is VARIABLE-FREE: operators only.  Trace specs (one per     *)
(* property) EXTEND or INSTANCE it.                                        *)
(*                                                                         *)
(*   Section 1  outcome vocabulary shared by every isolated run            *)
(*   Section 2  C13 call protocol    Call(f, arity, values) -> Results |   *)
(*              CatchableError       (no action for a fault)               *)
(*   Section 3  C13 coverage obligation over a recorded trace              *)
(*   (Section 4 is reserved for the C06 decode-run protocol.)              *)
(***************************************************************************)
EXTENDS Integers, Sequences, FiniteSets

(***************************************************************************)
(* Section 1 - vocabulary.  What the parent of an isolated worker can      *)
(* observe about one job.                                                  *)
(***************************************************************************)
\* the job came back and fq is still alive
OutcomeResults == "results"     \* >= 0 results, no error
OutcomeError   == "error"       \* a jq error that `try` caught, before any result
OutcomeMixed   == "mixed"       \* some results, then a jq error that `try` caught
OutcomeExit    == "exit"        \* the fq main loop returned an exit status (halt, halt_error, input failure): no runtime fault
ReturnedOutcomes == {OutcomeResults, OutcomeError, OutcomeMixed}
\* the job did not come back: the process ended through the Go runtime or stopped making progress
FaultOutcomes == {"panic", "fatal", "fatal-oom", "fatal-stack", "hang"}
AllOutcomes == ReturnedOutcomes \cup {OutcomeExit} \cup FaultOutcomes

IsFault(o) == o \in FaultOutcomes

(***************************************************************************)
(* Section 2 - C13 call protocol.                                          *)
(*                                                                         *)
(* A call is  INPUT | try F(ARGS) catch .  with the input at position 0    *)
(* and the arguments at positions 1..arity; values are pool ids.           *)
(* The as-required layer has exactly two actions, CallResults and          *)
(* CallCatchableError; "mixed" is CallResults followed by                  *)
(* CallCatchableError of the same call.  A function that the documentation *)
(* says ends fq or reads the terminal may also take CallExit.  There is NO *)
(* action for a fault: an event whose outcome is a fault matches nothing   *)
(* and the run is rejected.                                                *)
(***************************************************************************)
\* An event is the tuple <<f, fn, arity, pos, vals, outcome>> (a JSON array: TLC's Json module reads 40 000 arrays in a
\* second but needs half a minute for as many records).
EvF(e)       == e[1]    \* index into the inventory
EvFn(e)      == e[2]    \* function name (cross-checked against the inventory)
EvArity(e)   == e[3]
EvPos(e)     == e[4]    \* the position that was varied (0 = input), -1 for grid / pair calls
EvVals(e)    == e[5]    \* pool ids: input, then arguments
EvOutcome(e) == e[6]

\* inv: sequence of [fn, arity, cls, internal, req, exit, pairs] records; npool: number of pool values
C13WellFormed(e, inv, npool) ==
    /\ Len(e) = 6
    /\ EvF(e) \in 1 .. Len(inv)
    /\ inv[EvF(e)].fn = EvFn(e)
    /\ inv[EvF(e)].arity = EvArity(e)
    /\ Len(EvVals(e)) = EvArity(e) + 1
    /\ \A i \in 1 .. Len(EvVals(e)) : EvVals(e)[i] \in 1 .. npool
    /\ EvPos(e) \in -1 .. EvArity(e)
    /\ EvOutcome(e) \in AllOutcomes

C13CallResults(e)        == EvOutcome(e) \in {OutcomeResults, OutcomeMixed}
C13CallCatchableError(e) == EvOutcome(e) \in {OutcomeError, OutcomeMixed}
\* An orderly exit (the fq main loop returned a status; no Go runtime fault) is part of the protocol only for
\*  - the documented process enders (halt, halt_error, input at end of input, repl, ...): the runner flags them,
\*    the spec pins which names may be flagged at all (ExitNames);
\*  - internal functions (names starting with "_", Go-registered or jq-defined): they are the plumbing of those documented
\*    exits and of the interpreter state (_fatal_error, _cli_*, _global_state/1, _options_stack/1), so replacing
\*    the state or calling an error callback legitimately ends the main loop with an error status.
\* A public function that leaves the main loop although `try` was around it is rejected ("uncaught-exit").
C13CallExit(e, inv, ExitNames) ==
    /\ EvOutcome(e) = OutcomeExit
    /\ \/ inv[EvF(e)].exit /\ EvFn(e) \in ExitNames
       \/ inv[EvF(e)].internal

C13Accept(e, inv, ExitNames) ==
    \/ C13CallResults(e)
    \/ C13CallCatchableError(e)
    \/ C13CallExit(e, inv, ExitNames)

\* signature of a rejected event (the runner refines it with the top fq stack frame)
C13RejectSig(e, inv, npool) ==
    IF ~C13WellFormed(e, inv, npool) THEN "malformed"
    ELSE IF EvOutcome(e) = OutcomeExit THEN "uncaught-exit"
    ELSE EvOutcome(e)

(***************************************************************************)
(* Section 3 - C13 coverage obligation.                                    *)
(*                                                                         *)
(*   inv[i].req      pool ids the runner promises at every position of     *)
(*                   function i (ALL ids for the classes in FullClasses)   *)
(*   pool[v].base    value v belongs to the base pool (the extended        *)
(*                   single-member option objects are extra)               *)
(*   pool[v].inp     value v can be used as input (position 0)             *)
(*   pool[v].benign  value v is a per-type benign default                  *)
(*   pool[v].pair    value v takes part in the all-pairs obligation        *)
(*                                                                         *)
(* Single: for every function i, position p in 0..arity and v in req (at   *)
(* position 0 only values with inp) some event has v at p and benign       *)
(* defaults everywhere else.  Pairs (thorough): for every function with    *)
(* 1 <= arity <= 2 and pairs = TRUE, positions p < q and pair-pool values  *)
(* v, w some event has v at p, w at q and a benign default elsewhere.      *)
(***************************************************************************)
C13OthersBenign(e, ps, pool) == \A r \in 1 .. Len(EvVals(e)) : r \in ps \/ pool[EvVals(e)[r]].benign

\* <<f, p, v>> triples (p is 1-based here: 1 = input) witnessed by the well-formed events evs of trace tr: value v
\* at position p, benign defaults everywhere else.  (One comprehension over event x position pairs: TLC builds and
\* sorts the result once; a UNION of 100 000 small sets is an order of magnitude slower.)
C13SinglesSeen(tr, evs, pool) ==
    { <<EvF(tr[x[1]]), x[2], EvVals(tr[x[1]])[x[2]]>> :
        x \in { y \in evs \X (1 .. 5) : y[2] <= Len(EvVals(tr[y[1]])) /\ C13OthersBenign(tr[y[1]], {y[2]}, pool) } }

\* <<f, p, q, v, w>> for p < q, benign defaults at the third position if there is one
C13PairsSeen(tr, evs, pool) ==
    { <<EvF(tr[x[1]]), x[2], x[3], EvVals(tr[x[1]])[x[2]], EvVals(tr[x[1]])[x[3]]>> :
        x \in { y \in { i \in evs : EvArity(tr[i]) \in 1 .. 2 } \X (1 .. 3) \X (1 .. 3) :
                   /\ y[2] < y[3] /\ y[3] <= Len(EvVals(tr[y[1]]))
                   /\ C13OthersBenign(tr[y[1]], {y[2], y[3]}, pool) } }

C13SingleObligations(inv, pool) ==
    UNION { { <<i, p, inv[i].req[k]>> : k \in { k \in 1 .. Len(inv[i].req) : p > 1 \/ pool[inv[i].req[k]].inp } }
            : <<i, p>> \in { ip \in (1 .. Len(inv)) \X (1 .. 5) : ip[2] <= inv[ip[1]].arity + 1 } }

C13PairPool(pool, atInput) == { v \in 1 .. Len(pool) : pool[v].pair /\ (~atInput \/ pool[v].inp) }

C13PairObligations(inv, pool) ==
    UNION { { <<ipq[1], ipq[2], ipq[3], v, w>> : v \in C13PairPool(pool, ipq[2] = 1), w \in C13PairPool(pool, FALSE) }
            : ipq \in { x \in (1 .. Len(inv)) \X (1 .. 3) \X (1 .. 3) :
                          /\ inv[x[1]].pairs /\ inv[x[1]].arity \in 1 .. 2
                          /\ x[2] < x[3] /\ x[3] <= inv[x[1]].arity + 1 } }

\* the runner may thin the pool only for classes outside FullClasses; everything in FullClasses gets every base pool value
C13ReqHonest(inv, pool, FullClasses) ==
    \A i \in 1 .. Len(inv) :
        /\ \A k \in 1 .. Len(inv[i].req) : inv[i].req[k] \in 1 .. Len(pool)
        /\ inv[i].cls \in FullClasses => { inv[i].req[k] : k \in 1 .. Len(inv[i].req) } = { v \in 1 .. Len(pool) : pool[v].base }

\* the enumeration itself cannot silently shrink below what is known to exist
C13InventoryPlausible(inv, MinPerClass, Anchors) ==
    /\ \A c \in DOMAIN MinPerClass : Cardinality({ i \in 1 .. Len(inv) : inv[i].cls = c }) >= MinPerClass[c]
    /\ \A a \in Anchors : \E i \in 1 .. Len(inv) : inv[i].fn = a[1] /\ inv[i].arity = a[2]
    /\ \A i, j \in 1 .. Len(inv) : (inv[i].fn = inv[j].fn /\ inv[i].arity = inv[j].arity) => i = j
=============================================================================
