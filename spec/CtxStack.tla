------------------------------ MODULE CtxStack ------------------------------
(***************************************************************************)
(* C20: an interrupt cancels exactly the innermost running evaluation,     *)
(* safely.  Concurrent half: internal/ctxstack/ctxstack.go at the grain of *)
(* the Go memory accesses.                                                 *)
(*                                                                         *)
(* Two processes share the slice `cancelFns` (header = length `len`,       *)
(* backing array `arr` holding context ids):                               *)
(*   ev   the evaluating goroutine: Push, the pop/cancel closure returned  *)
(*        by Push (called for ANY context ever pushed: in order, out of    *)
(*        order, twice, late), Stop;                                       *)
(*   trig the goroutine started by New: wait for the trigger function,     *)
(*        select on stopCh, `if len(s.cancelFns) > 0`, then                *)
(*        `s.cancelFns[len(s.cancelFns)-1]()` = read len, load the slice   *)
(*        and bounds-check, load the element, call it.  One label per      *)
(*        memory access.                                                   *)
(*                                                                         *)
(* Locked = FALSE     the code as it is in the pinned tree (no lock)       *)
(* Locked = TRUE      one mutex around every critical section (repair D7)  *)
(* EntryFlag = FALSE  the "already popped" flag is local to each closure   *)
(*                    (pinned tree)                                        *)
(* EntryFlag = TRUE   the flag lives in the stack entry and is set by      *)
(*                    whoever removes the entry (repair D20)               *)
(*                                                                         *)
(* Ghost variable `live` is the as-required stack of evaluations in        *)
(* progress; it changes at the linearisation points (the header writes).   *)
(***************************************************************************)
EXTENDS Integers, Sequences, FiniteSets, TLC

CONSTANTS Locked, EntryFlag,
          AtomicIndex,  \* TRUE: the index expression `s.cancelFns[len(s.cancelFns)-1]` is one step (the grain at which
                        \* scheduler gates can be placed in Go source: between statements); FALSE: one step per load
          MaxPush,      \* contexts pushed (all growing values are bounded)
          MaxDepth,     \* nesting depth
          MaxIntr,      \* interrupts delivered
          MaxCalls      \* calls of one context's closure (2 = double call)

EV == 1
TR == 2
Range(s) == {s[j] : j \in DOMAIN s}

(*--algorithm CtxStack {
  variables
    arr = <<>>,          \* backing array of cancelFns (never shrinks; stale entries stay)
    len = 0,             \* len(cancelFns)
    mu = 0,              \* mutex holder, 0 = free (only used when Locked)
    stopped = FALSE,     \* stopCh closed
    cancelled = {},      \* ids of cancelled contexts
    n = 0,               \* contexts created so far
    idx = <<>>,          \* idx[k] = stackIdx captured by k's closure (1-based position)
    own = {},            \* ids whose "already popped" flag is set
    called = <<>>,       \* called[k] = how often k's closure was called
    live = <<>>,         \* ghost: evaluations in progress, innermost last
    intr = 0,            \* interrupts delivered so far
    crashed = FALSE;     \* index out of range in the trigger goroutine

  fair process (ev = EV)
    variables cur = 0, i = 0, sidx = 0, evdone = FALSE;
  {
  ev_loop:
    while (~evdone) {
      either {
        \* ------------------------------------------------ Push(parent)
        await ~stopped /\ n < MaxPush /\ Len(live) < MaxDepth;
        n := n + 1;                              \* context.WithCancel
        called := Append(called, 0);
      p_lock:
        if (Locked) { await mu = 0; mu := EV };
      p_len:                                     \* stackIdx := len(s.cancelFns)
        sidx := len + 1;
        idx := Append(idx, sidx);
      p_elem:                                    \* append: load header, store element
        arr := IF len + 1 <= Len(arr) THEN [arr EXCEPT ![len + 1] = n] ELSE Append(arr, n);
      p_hdr:                                     \* append: store header
        len := len + 1;
        live := Append(live, n);
      p_unlock:
        if (Locked) { mu := 0 };
      } or {
        \* ------------------------------------------------ closure of context cur
        with (k \in {k \in 1 .. n : called[k] < MaxCalls}) {
          cur := k;
          called[k] := called[k] + 1;
        };
      c_lock:
        if (Locked) { await mu = 0; mu := EV };
      c_flag:                                    \* if cancelled { return }; cancelled = true
        if (cur \in own) { goto c_unlock } else { own := own \cup {cur} };
      c_len:                                     \* i := len(s.cancelFns) - 1
        i := len;
      c_loop:                                    \* for ; i >= stackIdx; i-- { s.cancelFns[i]() }
        while (i >= idx[cur]) {
          cancelled := cancelled \cup {arr[i]};
          if (EntryFlag) { own := own \cup {arr[i]} };
          i := i - 1;
        };
      c_trunc:                                   \* s.cancelFns = s.cancelFns[0:stackIdx]
        len := idx[cur] - 1;
        if (cur \in Range(live)) {
          live := SubSeq(live, 1, (CHOOSE j \in DOMAIN live : live[j] = cur) - 1);
        };
      c_own:                                     \* stackCtxCancel()
        cancelled := cancelled \cup {cur};
      c_unlock:
        if (Locked /\ mu = EV) { mu := 0 };
      } or {
        \* ------------------------------------------------ Stop()
        await ~stopped;
      s_lock:
        if (Locked) { await mu = 0; mu := EV };
      s_len:
        i := len;
      s_loop:
        while (i >= 1) {
          cancelled := cancelled \cup {arr[i]};
          i := i - 1;
        };
      s_close:                                   \* close(s.stopCh)
        stopped := TRUE;
      s_unlock:
        if (Locked) { mu := 0 };
      } or {
        await stopped;
        evdone := TRUE;
      }
    }
  }

  fair process (trig = TR)
    variables l1 = 0, l2 = 0, f = 0;
  {
  t_wait:                                        \* triggerCh(stopCh) returns ...
    while (TRUE) {
      either { await intr < MaxIntr; intr := intr + 1 }   \* ... on an interrupt
      or     { await stopped };                           \* ... or because stopCh was closed
    t_sel:                                       \* select { case <-stopCh: break; default: }
      if (stopped) { goto t_exit };
    t_lock:
      if (Locked) { await mu = 0; mu := TR };
    t_len:                                       \* if len(s.cancelFns) > 0
      l1 := len;
      if (l1 = 0) { goto t_unlock };
    t_len2:                                      \* len(s.cancelFns) - 1
      l2 := len;
      if (AtomicIndex) {
        if (len < 1) { crashed := TRUE; goto t_exit } else { f := arr[len]; goto t_call };
      };
    t_idx:                                       \* s.cancelFns[...]: load header, bounds check
      if (l2 < 1 \/ l2 > len) { crashed := TRUE; goto t_exit };
    t_elem:                                      \* load element
      f := arr[l2];
    t_call:                                      \* call it
      cancelled := cancelled \cup {f};
    t_unlock:
      if (Locked) { mu := 0 };
    };
  t_exit:
    skip;
  }
}*)
\* BEGIN TRANSLATION
VARIABLES pc, arr, len, mu, stopped, cancelled, n, idx, own, called, live, 
          intr, crashed, cur, i, sidx, evdone, l1, l2, f

vars == << pc, arr, len, mu, stopped, cancelled, n, idx, own, called, live, 
           intr, crashed, cur, i, sidx, evdone, l1, l2, f >>

ProcSet == {EV} \cup {TR}

Init == (* Global variables *)
        /\ arr = <<>>
        /\ len = 0
        /\ mu = 0
        /\ stopped = FALSE
        /\ cancelled = {}
        /\ n = 0
        /\ idx = <<>>
        /\ own = {}
        /\ called = <<>>
        /\ live = <<>>
        /\ intr = 0
        /\ crashed = FALSE
        (* Process ev *)
        /\ cur = 0
        /\ i = 0
        /\ sidx = 0
        /\ evdone = FALSE
        (* Process trig *)
        /\ l1 = 0
        /\ l2 = 0
        /\ f = 0
        /\ pc = [self \in ProcSet |-> CASE self = EV -> "ev_loop"
                                        [] self = TR -> "t_wait"]

ev_loop == /\ pc[EV] = "ev_loop"
           /\ IF ~evdone
                 THEN /\ \/ /\ ~stopped /\ n < MaxPush /\ Len(live) < MaxDepth
                            /\ n' = n + 1
                            /\ called' = Append(called, 0)
                            /\ pc' = [pc EXCEPT ![EV] = "p_lock"]
                            /\ UNCHANGED <<cur, evdone>>
                         \/ /\ \E k \in {k \in 1 .. n : called[k] < MaxCalls}:
                                 /\ cur' = k
                                 /\ called' = [called EXCEPT ![k] = called[k] + 1]
                            /\ pc' = [pc EXCEPT ![EV] = "c_lock"]
                            /\ UNCHANGED <<n, evdone>>
                         \/ /\ ~stopped
                            /\ pc' = [pc EXCEPT ![EV] = "s_lock"]
                            /\ UNCHANGED <<n, called, cur, evdone>>
                         \/ /\ stopped
                            /\ evdone' = TRUE
                            /\ pc' = [pc EXCEPT ![EV] = "ev_loop"]
                            /\ UNCHANGED <<n, called, cur>>
                 ELSE /\ pc' = [pc EXCEPT ![EV] = "Done"]
                      /\ UNCHANGED << n, called, cur, evdone >>
           /\ UNCHANGED << arr, len, mu, stopped, cancelled, idx, own, live, 
                           intr, crashed, i, sidx, l1, l2, f >>

p_lock == /\ pc[EV] = "p_lock"
          /\ IF Locked
                THEN /\ mu = 0
                     /\ mu' = EV
                ELSE /\ TRUE
                     /\ mu' = mu
          /\ pc' = [pc EXCEPT ![EV] = "p_len"]
          /\ UNCHANGED << arr, len, stopped, cancelled, n, idx, own, called, 
                          live, intr, crashed, cur, i, sidx, evdone, l1, l2, f >>

p_len == /\ pc[EV] = "p_len"
         /\ sidx' = len + 1
         /\ idx' = Append(idx, sidx')
         /\ pc' = [pc EXCEPT ![EV] = "p_elem"]
         /\ UNCHANGED << arr, len, mu, stopped, cancelled, n, own, called, 
                         live, intr, crashed, cur, i, evdone, l1, l2, f >>

p_elem == /\ pc[EV] = "p_elem"
          /\ arr' = (IF len + 1 <= Len(arr) THEN [arr EXCEPT ![len + 1] = n] ELSE Append(arr, n))
          /\ pc' = [pc EXCEPT ![EV] = "p_hdr"]
          /\ UNCHANGED << len, mu, stopped, cancelled, n, idx, own, called, 
                          live, intr, crashed, cur, i, sidx, evdone, l1, l2, f >>

p_hdr == /\ pc[EV] = "p_hdr"
         /\ len' = len + 1
         /\ live' = Append(live, n)
         /\ pc' = [pc EXCEPT ![EV] = "p_unlock"]
         /\ UNCHANGED << arr, mu, stopped, cancelled, n, idx, own, called, 
                         intr, crashed, cur, i, sidx, evdone, l1, l2, f >>

p_unlock == /\ pc[EV] = "p_unlock"
            /\ IF Locked
                  THEN /\ mu' = 0
                  ELSE /\ TRUE
                       /\ mu' = mu
            /\ pc' = [pc EXCEPT ![EV] = "ev_loop"]
            /\ UNCHANGED << arr, len, stopped, cancelled, n, idx, own, called, 
                            live, intr, crashed, cur, i, sidx, evdone, l1, l2, 
                            f >>

c_lock == /\ pc[EV] = "c_lock"
          /\ IF Locked
                THEN /\ mu = 0
                     /\ mu' = EV
                ELSE /\ TRUE
                     /\ mu' = mu
          /\ pc' = [pc EXCEPT ![EV] = "c_flag"]
          /\ UNCHANGED << arr, len, stopped, cancelled, n, idx, own, called, 
                          live, intr, crashed, cur, i, sidx, evdone, l1, l2, f >>

c_flag == /\ pc[EV] = "c_flag"
          /\ IF cur \in own
                THEN /\ pc' = [pc EXCEPT ![EV] = "c_unlock"]
                     /\ own' = own
                ELSE /\ own' = (own \cup {cur})
                     /\ pc' = [pc EXCEPT ![EV] = "c_len"]
          /\ UNCHANGED << arr, len, mu, stopped, cancelled, n, idx, called, 
                          live, intr, crashed, cur, i, sidx, evdone, l1, l2, f >>

c_len == /\ pc[EV] = "c_len"
         /\ i' = len
         /\ pc' = [pc EXCEPT ![EV] = "c_loop"]
         /\ UNCHANGED << arr, len, mu, stopped, cancelled, n, idx, own, called, 
                         live, intr, crashed, cur, sidx, evdone, l1, l2, f >>

c_loop == /\ pc[EV] = "c_loop"
          /\ IF i >= idx[cur]
                THEN /\ cancelled' = (cancelled \cup {arr[i]})
                     /\ IF EntryFlag
                           THEN /\ own' = (own \cup {arr[i]})
                           ELSE /\ TRUE
                                /\ own' = own
                     /\ i' = i - 1
                     /\ pc' = [pc EXCEPT ![EV] = "c_loop"]
                ELSE /\ pc' = [pc EXCEPT ![EV] = "c_trunc"]
                     /\ UNCHANGED << cancelled, own, i >>
          /\ UNCHANGED << arr, len, mu, stopped, n, idx, called, live, intr, 
                          crashed, cur, sidx, evdone, l1, l2, f >>

c_trunc == /\ pc[EV] = "c_trunc"
           /\ len' = idx[cur] - 1
           /\ IF cur \in Range(live)
                 THEN /\ live' = SubSeq(live, 1, (CHOOSE j \in DOMAIN live : live[j] = cur) - 1)
                 ELSE /\ TRUE
                      /\ live' = live
           /\ pc' = [pc EXCEPT ![EV] = "c_own"]
           /\ UNCHANGED << arr, mu, stopped, cancelled, n, idx, own, called, 
                           intr, crashed, cur, i, sidx, evdone, l1, l2, f >>

c_own == /\ pc[EV] = "c_own"
         /\ cancelled' = (cancelled \cup {cur})
         /\ pc' = [pc EXCEPT ![EV] = "c_unlock"]
         /\ UNCHANGED << arr, len, mu, stopped, n, idx, own, called, live, 
                         intr, crashed, cur, i, sidx, evdone, l1, l2, f >>

c_unlock == /\ pc[EV] = "c_unlock"
            /\ IF Locked /\ mu = EV
                  THEN /\ mu' = 0
                  ELSE /\ TRUE
                       /\ mu' = mu
            /\ pc' = [pc EXCEPT ![EV] = "ev_loop"]
            /\ UNCHANGED << arr, len, stopped, cancelled, n, idx, own, called, 
                            live, intr, crashed, cur, i, sidx, evdone, l1, l2, 
                            f >>

s_lock == /\ pc[EV] = "s_lock"
          /\ IF Locked
                THEN /\ mu = 0
                     /\ mu' = EV
                ELSE /\ TRUE
                     /\ mu' = mu
          /\ pc' = [pc EXCEPT ![EV] = "s_len"]
          /\ UNCHANGED << arr, len, stopped, cancelled, n, idx, own, called, 
                          live, intr, crashed, cur, i, sidx, evdone, l1, l2, f >>

s_len == /\ pc[EV] = "s_len"
         /\ i' = len
         /\ pc' = [pc EXCEPT ![EV] = "s_loop"]
         /\ UNCHANGED << arr, len, mu, stopped, cancelled, n, idx, own, called, 
                         live, intr, crashed, cur, sidx, evdone, l1, l2, f >>

s_loop == /\ pc[EV] = "s_loop"
          /\ IF i >= 1
                THEN /\ cancelled' = (cancelled \cup {arr[i]})
                     /\ i' = i - 1
                     /\ pc' = [pc EXCEPT ![EV] = "s_loop"]
                ELSE /\ pc' = [pc EXCEPT ![EV] = "s_close"]
                     /\ UNCHANGED << cancelled, i >>
          /\ UNCHANGED << arr, len, mu, stopped, n, idx, own, called, live, 
                          intr, crashed, cur, sidx, evdone, l1, l2, f >>

s_close == /\ pc[EV] = "s_close"
           /\ stopped' = TRUE
           /\ pc' = [pc EXCEPT ![EV] = "s_unlock"]
           /\ UNCHANGED << arr, len, mu, cancelled, n, idx, own, called, live, 
                           intr, crashed, cur, i, sidx, evdone, l1, l2, f >>

s_unlock == /\ pc[EV] = "s_unlock"
            /\ IF Locked
                  THEN /\ mu' = 0
                  ELSE /\ TRUE
                       /\ mu' = mu
            /\ pc' = [pc EXCEPT ![EV] = "ev_loop"]
            /\ UNCHANGED << arr, len, stopped, cancelled, n, idx, own, called, 
                            live, intr, crashed, cur, i, sidx, evdone, l1, l2, 
                            f >>

ev == ev_loop \/ p_lock \/ p_len \/ p_elem \/ p_hdr \/ p_unlock \/ c_lock
         \/ c_flag \/ c_len \/ c_loop \/ c_trunc \/ c_own \/ c_unlock
         \/ s_lock \/ s_len \/ s_loop \/ s_close \/ s_unlock

t_wait == /\ pc[TR] = "t_wait"
          /\ \/ /\ intr < MaxIntr
                /\ intr' = intr + 1
             \/ /\ stopped
                /\ intr' = intr
          /\ pc' = [pc EXCEPT ![TR] = "t_sel"]
          /\ UNCHANGED << arr, len, mu, stopped, cancelled, n, idx, own, 
                          called, live, crashed, cur, i, sidx, evdone, l1, l2, 
                          f >>

t_sel == /\ pc[TR] = "t_sel"
         /\ IF stopped
               THEN /\ pc' = [pc EXCEPT ![TR] = "t_exit"]
               ELSE /\ pc' = [pc EXCEPT ![TR] = "t_lock"]
         /\ UNCHANGED << arr, len, mu, stopped, cancelled, n, idx, own, called, 
                         live, intr, crashed, cur, i, sidx, evdone, l1, l2, f >>

t_lock == /\ pc[TR] = "t_lock"
          /\ IF Locked
                THEN /\ mu = 0
                     /\ mu' = TR
                ELSE /\ TRUE
                     /\ mu' = mu
          /\ pc' = [pc EXCEPT ![TR] = "t_len"]
          /\ UNCHANGED << arr, len, stopped, cancelled, n, idx, own, called, 
                          live, intr, crashed, cur, i, sidx, evdone, l1, l2, f >>

t_len == /\ pc[TR] = "t_len"
         /\ l1' = len
         /\ IF l1' = 0
               THEN /\ pc' = [pc EXCEPT ![TR] = "t_unlock"]
               ELSE /\ pc' = [pc EXCEPT ![TR] = "t_len2"]
         /\ UNCHANGED << arr, len, mu, stopped, cancelled, n, idx, own, called, 
                         live, intr, crashed, cur, i, sidx, evdone, l2, f >>

t_len2 == /\ pc[TR] = "t_len2"
          /\ l2' = len
          /\ IF AtomicIndex
                THEN /\ IF len < 1
                           THEN /\ crashed' = TRUE
                                /\ pc' = [pc EXCEPT ![TR] = "t_exit"]
                                /\ f' = f
                           ELSE /\ f' = arr[len]
                                /\ pc' = [pc EXCEPT ![TR] = "t_call"]
                                /\ UNCHANGED crashed
                ELSE /\ pc' = [pc EXCEPT ![TR] = "t_idx"]
                     /\ UNCHANGED << crashed, f >>
          /\ UNCHANGED << arr, len, mu, stopped, cancelled, n, idx, own, 
                          called, live, intr, cur, i, sidx, evdone, l1 >>

t_idx == /\ pc[TR] = "t_idx"
         /\ IF l2 < 1 \/ l2 > len
               THEN /\ crashed' = TRUE
                    /\ pc' = [pc EXCEPT ![TR] = "t_exit"]
               ELSE /\ pc' = [pc EXCEPT ![TR] = "t_elem"]
                    /\ UNCHANGED crashed
         /\ UNCHANGED << arr, len, mu, stopped, cancelled, n, idx, own, called, 
                         live, intr, cur, i, sidx, evdone, l1, l2, f >>

t_elem == /\ pc[TR] = "t_elem"
          /\ f' = arr[l2]
          /\ pc' = [pc EXCEPT ![TR] = "t_call"]
          /\ UNCHANGED << arr, len, mu, stopped, cancelled, n, idx, own, 
                          called, live, intr, crashed, cur, i, sidx, evdone, 
                          l1, l2 >>

t_call == /\ pc[TR] = "t_call"
          /\ cancelled' = (cancelled \cup {f})
          /\ pc' = [pc EXCEPT ![TR] = "t_unlock"]
          /\ UNCHANGED << arr, len, mu, stopped, n, idx, own, called, live, 
                          intr, crashed, cur, i, sidx, evdone, l1, l2, f >>

t_unlock == /\ pc[TR] = "t_unlock"
            /\ IF Locked
                  THEN /\ mu' = 0
                  ELSE /\ TRUE
                       /\ mu' = mu
            /\ pc' = [pc EXCEPT ![TR] = "t_wait"]
            /\ UNCHANGED << arr, len, stopped, cancelled, n, idx, own, called, 
                            live, intr, crashed, cur, i, sidx, evdone, l1, l2, 
                            f >>

t_exit == /\ pc[TR] = "t_exit"
          /\ TRUE
          /\ pc' = [pc EXCEPT ![TR] = "Done"]
          /\ UNCHANGED << arr, len, mu, stopped, cancelled, n, idx, own, 
                          called, live, intr, crashed, cur, i, sidx, evdone, 
                          l1, l2, f >>

trig == t_wait \/ t_sel \/ t_lock \/ t_len \/ t_len2 \/ t_idx \/ t_elem
           \/ t_call \/ t_unlock \/ t_exit

(* Allow infinite stuttering to prevent deadlock on termination. *)
Terminating == /\ \A self \in ProcSet: pc[self] = "Done"
               /\ UNCHANGED vars

Next == ev \/ trig
           \/ Terminating

Spec == /\ Init /\ [][Next]_vars
        /\ WF_vars(ev)
        /\ WF_vars(trig)

Termination == <>(\A self \in ProcSet: pc[self] = "Done")

\* END TRANSLATION

(******************************* properties ********************************)
Top(s) == s[Len(s)]
TrigCalls == pc[TR] = "t_call" /\ pc'[TR] # "t_call"      \* the step in which the interrupt cancels something

\* an Interrupt step cancels exactly the innermost evaluation in progress
Innermost == [][TrigCalls => cancelled' = cancelled \cup (IF Len(live) > 0 THEN {Top(live)} ELSE {})]_vars
\* enclosing evaluations keep their contexts
Enclosing == [][TrigCalls => \A j \in 1 .. (Len(live) - 1) : live[j] \in cancelled' => live[j] \in cancelled]_vars
\* finished evaluations are unaffected by an interrupt, and are cancelled once their finish returned
Finished  == [][TrigCalls => \A k \in 1 .. n : k \notin Range(live) => ((k \in cancelled') <=> (k \in cancelled))]_vars
FinishedCancelled == pc[EV] = "ev_loop" => \A k \in 1 .. n : k \notin Range(live) => k \in cancelled
\* after Stop every pushed context is cancelled
StopAll == stopped => \A k \in 1 .. n : k \in cancelled
\* the index used by the trigger goroutine is inside the slice it indexes
NoCrash == ~crashed

\* memory accesses a process performs in its next step: <<location, isWrite>>
Hdr == <<"hdr", 0>>
Elem(j) == <<"elem", j>>
AccEV == CASE pc[EV] = "p_len"   -> {<<Hdr, FALSE>>}
           [] pc[EV] = "p_elem"  -> {<<Hdr, FALSE>>, <<Elem(len + 1), TRUE>>}
           [] pc[EV] = "p_hdr"   -> {<<Hdr, TRUE>>}
           [] pc[EV] = "c_len"   -> {<<Hdr, FALSE>>}
           [] pc[EV] = "c_loop"  -> IF i >= idx[cur] THEN {<<Hdr, FALSE>>, <<Elem(i), FALSE>>} ELSE {}
           [] pc[EV] = "c_trunc" -> {<<Hdr, TRUE>>}
           [] pc[EV] = "s_len"   -> {<<Hdr, FALSE>>}
           [] pc[EV] = "s_loop"  -> IF i >= 1 THEN {<<Hdr, FALSE>>, <<Elem(i), FALSE>>} ELSE {}
           [] OTHER -> {}
AccTR == CASE pc[TR] = "t_len"   -> {<<Hdr, FALSE>>}
           [] pc[TR] = "t_len2"  -> IF AtomicIndex THEN {<<Hdr, FALSE>>, <<Elem(len), FALSE>>} ELSE {<<Hdr, FALSE>>}
           [] pc[TR] = "t_idx"   -> {<<Hdr, FALSE>>}
           [] pc[TR] = "t_elem"  -> {<<Elem(l2), FALSE>>}
           [] OTHER -> {}
\* data race: both goroutines are about to access the same location, one of them writing, and
\* nothing orders the two accesses (no lock is held by either: with the mutex both cannot be here)
Race == \E a \in AccEV, b \in AccTR : a[1] = b[1] /\ (a[2] \/ b[2])
NoRace == ~Race

\* with both repairs the slice and the as-required stack coincide whenever the lock is free
Consistent == (Locked /\ EntryFlag /\ mu = 0) => (len = Len(live) /\ \A j \in 1 .. len : arr[j] = live[j])
\* No deadlock: TLC's deadlock check (the translation's Terminating disjunct excuses only the state in which
\* both processes are Done) plus the translation's `Termination` under the weak fairness of `Spec`.
=============================================================================
