----------------------------- MODULE TraceGaps -----------------------------
(* TV mode: every event is one real call ranges.Gaps(total, ranges) = gaps.   *)
(* Events are independent, so a rejected event is reported and skipped.       *)
EXTENDS Integers, Sequences, TLC, Json
CONSTANTS Slack
Trace == ndJsonDeserialize("trace.ndjson")
G == INSTANCE Gaps WITH L <- 0, MaxN <- 0, Slack <- Slack
VARIABLE l
ToR(p) == [s |-> p[1], l |-> p[2]]
SeqR(ps) == [i \in DOMAIN ps |-> ToR(ps[i])]
Accept(e) == G!AsRequired(e.total, SeqR(e.ranges), SeqR(e.gaps))
Drift(e)  == SeqR(e.gaps) # G!GapsAsBuilt(e.total, SeqR(e.ranges))
TInit == l = 1
TNext == /\ l <= Len(Trace)
         /\ LET e == Trace[l] IN
              /\ IF Accept(e) THEN TRUE ELSE PrintT(<<"REJECT", l, G!SlackSig(e.total, SeqR(e.ranges), SeqR(e.gaps), G!GapsAsBuilt(e.total, SeqR(e.ranges)))>>)
              /\ IF Drift(e) THEN PrintT(<<"DRIFT", l>>) ELSE TRUE
         /\ l' = l + 1
TSpec == TInit /\ [][TNext]_l
Consumed == TLCGet("stats").diameter - 1 = Len(Trace)
=============================================================================
