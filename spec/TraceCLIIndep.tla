--------------------------- MODULE TraceCLIIndep ---------------------------
(* C17, independence clause on binary inputs: one event per command line `fq PROG file...`.               *)
(* inputs: kinds G P J (decodable), U (undecodable under probe), M (missing). equal: the standard output   *)
(* is the concatenation, in argument order, of the outputs of the decodable inputs each run alone.         *)
EXTENDS Integers, Sequences, TLC, Json
Trace == ndJsonDeserialize("trace.ndjson")
VARIABLE l
Has(e, k) == \E i \in DOMAIN e.inputs : e.inputs[i] = k
\* 2 (file error) over 4 (undecodable) over 0
ExitOf(e) == IF Has(e, "M") THEN 2 ELSE IF Has(e, "U") THEN 4 ELSE 0
Sig(e) == IF ~e.equal THEN "indep.output_differs_from_solo"
          ELSE IF e.exit # ExitOf(e) THEN "indep.exit_status"
          ELSE "ok"
TInit == l = 1
TNext == /\ l <= Len(Trace)
         /\ IF Sig(Trace[l]) = "ok" THEN TRUE ELSE PrintT(<<"REJECT", l, Sig(Trace[l])>>)
         /\ l' = l + 1
TSpec == TInit /\ [][TNext]_l
Consumed == TLCGet("stats").diameter - 1 = Len(Trace)
=============================================================================
