\* quick constants; thorough: MaxPush = 4, MaxDepth = 4, MaxIntr = 3 (checks/c20.py generates the cfg text it runs)
SPECIFICATION Spec
CONSTANTS Locked = TRUE
 EntryFlag = TRUE
 AtomicIndex = FALSE
 MaxPush = 3
 MaxDepth = 3
 MaxIntr = 2
 MaxCalls = 2
INVARIANT NoCrash NoRace StopAll FinishedCancelled Consistent
PROPERTY Innermost Enclosing Finished Termination
