---------------------------- MODULE TraceScalar ----------------------------
(* TV mode for C02: every event is one real call of a scalar reader of      *)
(* pkg/decode, recorded by harness/c02 (`rand`): reader family k, width w,  *)
(* parameter f, endian le, alignment al, the bits `avail` from the position *)
(* to the end of the buffer, the method called (m, form) and what came      *)
(* back: err / crash / pos / fld / v.  Scalar!Expect decides every event.   *)
(* Events are independent: a rejected event is reported and skipped.        *)
EXTENDS Scalar, Json
Trace == ndJsonDeserialize("trace.ndjson")
VARIABLE l
Obs(e) == [err |-> e.err, crash |-> e.crash, pos |-> e.pos, fld |-> e.fld, v |-> e.v]
TInit == l = 1
TNext == /\ l <= Len(Trace)
         /\ LET e == Trace[l]
                x == Expect(e.k, e.w, e.f, e.le, e.avail)
                j == Judge(e.k, x, Obs(e))
            IN IF j = "" THEN TRUE ELSE PrintT(<<"REJECT", l, Sig(e.k, x, j, e.form)>>)
         /\ l' = l + 1
TSpec == TInit /\ [][TNext]_l
Consumed == TLCGet("stats").diameter - 1 = Len(Trace)
=============================================================================
