----------------------------- MODULE TraceTree -----------------------------
(***************************************************************************)
(* TV mode for C03 / C04 (tree arm) / C05 (decode-API level).  Every event *)
(* is one REAL decode tree as a flat node table (harness/treelib Flatten),  *)
(* optionally with the decoder program that produced it.  Events are        *)
(* independent: every rejected aspect is printed, the trace is consumed.    *)
(*   tree.*  structure (C03)   gaps.*  coverage / overlap (C04)             *)
(*   bits.*  content of raw leaves and gaps = buffer bits of the range      *)
(*   prog.*  ranges are exactly what the program read (C03, second clause)  *)
(***************************************************************************)
EXTENDS Integers, Sequences, FiniteSets, TLC, Json

Trace == ndJsonDeserialize("trace.ndjson")

Req == INSTANCE DecodeTree WITH ZeroQuirk <- FALSE, PPOnAbort <- TRUE, Slack <- 0
\* the tree as it is built today; switches follow the state of /repo (see known_findings.txt: D8, D17 fixed; D3 known)
CONSTANTS BuiltZeroQuirk, BuiltPPOnAbort, BuiltSlack
Blt == INSTANCE DecodeTree WITH ZeroQuirk <- BuiltZeroQuirk, PPOnAbort <- BuiltPPOnAbort, Slack <- BuiltSlack

VARIABLE l

Blen(T) == [id \in DOMAIN T |-> T[id].blen]
Filled(T) == [id \in DOMAIN T |-> T[id].fill]

\* canonical form of a (sub)tree, independent of node numbering
RECURSIVE Canon(_, _)
Canon(T, id) == <<T[id].name, T[id].kind, T[id].start, T[id].len, T[id].idx, T[id].root, T[id].err,
                  [i \in DOMAIN T[id].kids |-> Canon(T, T[id].kids[i])]>>

(* gaps: classification of a coverage failure *)
NonCompoundIn(T, r) == {id \in Req!InBufferOf(T, r) : ~Req!Compound(T[id].kind)}
SlackShaped(T, r, U) ==
    \A b \in U : /\ \E x \in NonCompoundIn(T, r) : T[x].start = b + 1
                 /\ ((b - 1) \in U \/ \E x \in NonCompoundIn(T, r) : T[x].start + T[x].len = b)
GapSig(T) ==
    LET bl == Blen(T)
        badCover == {r \in Req!AllIds(T, 1) : T[r].root /\ T[r].fill /\ ~Req!CoveredRoot(T, bl, r)}
        badGap == {g \in Req!AllIds(T, 1) : T[g].kind = "gap" /\ ~Req!GapDisjoint(T, g)}
    IN IF badGap # {} THEN "gaps.gap_overlaps_field"
       ELSE IF badCover = {} THEN "ok"
       ELSE IF \A r \in badCover : SlackShaped(T, r, Req!UncoveredBits(T, bl, r)) THEN "gaps.merge_slack_hole"
       ELSE "gaps.bits_uncovered"

(* bits: a raw leaf / gap value holds exactly the buffer bits of its range *)
BitsOK(e, T, id) ==
    LET r == Req!RootOf(T, id)
        k == ToString(r)
    IN (T[id].hasb /\ ~T[id].root /\ k \in DOMAIN e.bufs /\ Req!InBufOK(T, Blen(T), id)) =>
          T[id].bits = SubSeq(e.bufs[k], T[id].start + 1, T[id].start + T[id].len)
BitsSig(e, T) == IF \A id \in Req!AllIds(T, 1) : T[id].kind # "gap" => BitsOK(e, T, id) THEN "ok" ELSE "bits.value_bits_differ_from_buffer_range"
GapBitsSig(e, T) == IF \A id \in Req!AllIds(T, 1) : T[id].kind = "gap" => BitsOK(e, T, id) THEN "ok" ELSE "gaps.gap_bits_differ_from_buffer_range"

(* prog: the tree against the as-required run of its program *)
ProgSig(e, T) ==
    IF ~e.hasprog THEN "ok"
    ELSE LET rq == Req!Run(e.len, e.force, e.prog)
             bt == Blt!Run(e.len, e.force, e.prog)
             same == Req!LeafBag(T) = Req!LeafBag(rq.nodes) /\ T[1].err = rq.nodes[1].err
         IN IF same THEN "ok"
            ELSE IF rq.d17 /\ Req!LeafBag(T) = Req!LeafBag(bt.nodes) THEN "prog.zero_range_decodes_whole_buffer"
            ELSE IF T[1].err # rq.nodes[1].err THEN "prog.abort_differs"
            ELSE "prog.leaf_ranges_differ_from_bits_read"
TreeSig(e, T) ==
    LET w == Req!Why(T, Blen(T)) IN
    IF w = "ok" \/ ~e.hasprog THEN w
    ELSE LET bt == Blt!Run(e.len, e.force, e.prog) IN
         IF bt.d8 /\ Canon(T, 1) = Canon(bt.nodes, 1) THEN w \o ":aborted_rootbitbuffn" ELSE w
Drift(e, T) == e.hasprog /\ Canon(T, 1) # Canon(Blt!Run(e.len, e.force, e.prog).nodes, 1)

Report(asp, sig) == IF sig = "ok" THEN TRUE ELSE PrintT(<<"REJECT", l, sig>>)

TInit == l = 1
TNext == /\ l <= Len(Trace)
         /\ LET e == Trace[l]
                T == e.nodes
            IN IF Len(T) = 0 THEN TRUE
               ELSE /\ Report("tree", TreeSig(e, T))
                    /\ Report("gaps", GapSig(T))
                    /\ Report("bits", BitsSig(e, T))
                    /\ Report("gaps", GapBitsSig(e, T))
                    /\ Report("prog", ProgSig(e, T))
                    /\ IF Drift(e, T) THEN PrintT(<<"DRIFT", l>>) ELSE TRUE
         /\ l' = l + 1
TSpec == TInit /\ [][TNext]_l
Consumed == TLCGet("stats").diameter - 1 = Len(Trace)
=============================================================================
