----------------------------- MODULE TraceQuery -----------------------------
(***************************************************************************)
(* C11 trace validation.  One event per program, recorded from the real    *)
(* code by harness/c11 (trees as JSON in the parser's shape):              *)
(*   a        the tree (TLC-emitted, or text | _query_fromstring)          *)
(*   s1, a1   a | _query_tostring and that text | _query_fromstring        *)
(*   b1, b2   fully parenthesised text | _query_fromstring, and            *)
(*            b1 | _query_tostring | _query_fromstring                     *)
(*   rw[m]    text and tree of  s1 | _eval_query_rewrite(options of m)     *)
(*   real[m]  (sampled) the text the real command line / REPL evaluated    *)
(*   f4       outcome sequences: real command line path vs bare engine     *)
(* TLC re-derives Norm and the expected rewrite from Query.tla.  Events    *)
(* are independent: a rejected one is reported and skipped.                *)
(***************************************************************************)
EXTENDS Query, JsonVal, Json
Trace == ndJsonDeserialize("trace.ndjson")
VARIABLE l

IsErr(x) == "__err" \in DOMAIN x
Modes == <<"null_input", "inputs", "slurp", "repl", "prelude">>

F1(e, na) == ~IsErr(e.a1) /\ Norm(e.a1) = na
F2(e, na) == ~IsErr(e.b1) /\ ~IsErr(e.b2) /\ e.b1 = e.b2 /\ Norm(e.b1) = na
F3m(e, m) ==
    LET o == OptsOf(m)
        r == e.rw[m].ast IN
    /\ ~IsErr(r)
    /\ IF SlurpName(NoDirectives(e.a), o) = ""
       THEN Norm(r) = Norm(Rewrite(e.a, o))
       ELSE SlurpOK(NoDirectives(r), e.a, o) /\ Directives(r) = Directives(e.a)
F3real(e) == "real" \in DOMAIN e => \A i \in 1 .. Len(Modes) : e.real[Modes[i]] = e.rw[Modes[i]].text
F4(e) == ("f4" \in DOMAIN e /\ "runs" \in DOMAIN e.f4) =>
            /\ "cli_failed" \notin DOMAIN e.f4
            /\ \A i \in 1 .. Len(e.f4.runs) : SameOutcomes(e.f4.runs[i].fq, e.f4.runs[i].gj)

Sig(e) == IF IsErr(e.a) \/ "s1" \notin DOMAIN e THEN "q.tree_rejected"
          ELSE LET na == Norm(e.a)
                   bad3 == {i \in 1 .. Len(Modes) : ~F3m(e, Modes[i])} IN
          IF ~F1(e, na) THEN "q.f1_print_parse"
          ELSE IF ~F2(e, na) THEN "q.f2_fullparen_fixpoint"
          ELSE IF bad3 # {} THEN "q.f3_rewrite." \o Modes[CHOOSE i \in bad3 : \A j \in bad3 : i <= j]
          ELSE IF ~F3real(e) THEN "q.f3_real_options"
          ELSE IF ~F4(e) THEN "q.f4_outputs"
          ELSE "ok"
(* as-built transcription of the printer: differences are drift, not violations (TLC-emitted trees only) *)
Drift(e) == e.id[1] # "go" /\ e.id[1] # "sim" /\ "s1" \in DOMAIN e /\ e.s1 # PrintQ(e.a)

TInit == l = 1
TNext == /\ l <= Len(Trace)
         /\ LET e == Trace[l] s == Sig(e) IN
              /\ IF s = "ok" THEN TRUE ELSE PrintT(<<"REJECT", l, s>>)
              /\ IF s = "ok" /\ Drift(e) THEN PrintT(<<"DRIFT", l>>) ELSE TRUE
         /\ l' = l + 1
TSpec == TInit /\ [][TNext]_l
Consumed == TLCGet("stats").diameter - 1 = Len(Trace)
=============================================================================
