SPECIFICATION Spec
CONSTANTS MaxLen = 3
 MaxLenFull = 2
 Alphabet = "raw"
INVARIANT LawsHold
CHECK_DEADLOCK FALSE
