---------------------------- MODULE ContainerGen ----------------------------
(* C15 GEN mode: TLC enumerates the whole scenario space of Container.tla and prints every valid      *)
(* scenario with its expectation (must a flip be detected, how many checksums must show "valid",      *)
(* the payload class of each member).                                                                 *)
EXTENDS Container, Json
CONSTANT KindSet          \* the kinds to enumerate in this run
VARIABLE c
GInit == \E kind \in KindSet : \E n \in Counts(kind), p \in 1 .. Len(PayloadClasses), method \in Methods(kind), name \in Names(kind),
                                  opt \in Options(kind), region \in RegionsOf(kind), pos \in PosClasses, target \in 1 .. 3 :
            /\ c = Scenario(kind, n, p, method, name, opt, region, pos, target)
            /\ ValidScenario(c)
GNext == FALSE /\ c' = c
Emit == PrintT(ToJson([s |-> c, e_must_detect |-> MustDetect(c), e_min_checksums |-> MinChecksums(c),
                       e_payloads |-> [i \in 1 .. c.n |-> PayloadOf(c.p, i)]]))
GSpec == GInit /\ [][GNext]_c
=============================================================================
