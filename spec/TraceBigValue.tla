--------------------------- MODULE TraceBigValue ---------------------------
(* TV mode for C05 at a size the tree arm does not reach: one raw field of 32 KiB .. 70 KiB that starts and ends off a byte       *)
(* boundary, observed through every real output path of fq (harness/jqtree bigvalue).  The file travels packed 24 bits per      *)
(* integer (TLC integers are 32 bit); ExpByte computes byte j of what the property requires of tobytes - the bits of the value's *)
(* range, left padded with zero bits up to a byte boundary - and the whole raw output is compared with it; every textual        *)
(* rendering must encode the same bits (md5: the digest of the bytes of the `string` rendering, computed by the harness).          *)
EXTENDS Integers, Sequences, TLC, Json
Trace == ndJsonDeserialize("trace.ndjson")
VARIABLE l

P2 == <<1, 2, 4, 8, 16, 32, 64, 128, 256, 512, 1024, 2048, 4096, 8192, 16384, 32768, 65536, 131072, 262144, 524288, 1048576,
        2097152, 4194304, 8388608>>
FBit(w, i) == (w[(i \div 24) + 1] \div P2[24 - (i % 24)]) % 2                  \* bit i (from 0) of the file
Pad(n) == (8 - (n % 8)) % 8
ExpBit(e, q) == IF q < Pad(e.n) THEN 0 ELSE FBit(e.fw, e.pre + q - Pad(e.n))   \* bit q of tobytes of the value
ExpByte(e, j) == LET b(k) == ExpBit(e, 8 * j + k)
                 IN 128 * b(0) + 64 * b(1) + 32 * b(2) + 16 * b(3) + 8 * b(4) + 4 * b(5) + 2 * b(6) + b(7)
(* the textual renderings encode the same bits from the first one on, the last byte zero padded on the right (as TraceJqTree) *)
RndBit(e, q) == IF q < e.n THEN FBit(e.fw, e.pre + q) ELSE 0
RndByte(e, j) == LET b(k) == RndBit(e, 8 * j + k)
                 IN 128 * b(0) + 64 * b(1) + 32 * b(2) + 16 * b(3) + 8 * b(4) + 4 * b(5) + 2 * b(6) + b(7)
NBytes(e) == (e.n + 7) \div 8

RangeOK(e) == e.s = e.pre /\ e.e = e.pre + e.n /\ e.pre + e.n <= e.fbits
RawOK(e)   == Len(e.raw) = NBytes(e) /\ \A j \in 0 .. NBytes(e) - 1 : e.raw[j + 1] = ExpByte(e, j)
HexOK(e)   == Len(e.hex) = NBytes(e) /\ \A j \in 0 .. NBytes(e) - 1 : e.hex[j + 1] = RndByte(e, j)
Why(e) ==
  IF e.err # "" THEN "bits.big.observation_failed"
  ELSE IF ~RangeOK(e) THEN "bits.big.range_differs_from_decoder"
  ELSE IF ~RawOK(e) THEN "bits.raw_stdout.big_value"
  ELSE IF e.bitssz # e.n THEN "bits.tobits.big_value_size"
  ELSE IF e.expl # e.raw THEN "bits.tobytes.big_value_explode"
  ELSE IF ~HexOK(e) THEN "bits.bits_format.hex.big_value"
  ELSE IF e.b64 # e.hex THEN "bits.bits_format.base64.big_value"
  ELSE IF e.str # e.hex THEN "bits.bits_format.string.big_value"
  ELSE IF e.md5of # e.md5str THEN "bits.bits_format.md5.big_value"
  ELSE "ok"
TInit == l = 1
TNext == /\ l <= Len(Trace)
         /\ LET w == Why(Trace[l]) IN IF w = "ok" THEN TRUE ELSE PrintT(<<"REJECT", l, w>>)
         /\ l' = l + 1
TSpec == TInit /\ [][TNext]_l
Consumed == TLCGet("stats").diameter - 1 = Len(Trace)
=============================================================================
