------------------------------ MODULE WireSim ------------------------------
(***************************************************************************)
(* C16 SIM mode: values deeper than the GEN universe.  A behaviour starts  *)
(* from a scalar with one of its encodings and repeatedly wraps the        *)
(* current (value, encoding) pair into an array, a map (or a cbor tag)     *)
(* with optional scalar siblings, choosing any container form.  The        *)
(* composition uses the SAME constructors Enc is defined with (ArrOf,      *)
(* MapOf, TagOf, ListOf, DictOf, DocOf/ElemOf), so every emitted encoding  *)
(* is an element of Enc(value); StepInEnc states it and is checked by TLC  *)
(* as an invariant in a bounded MC run (depth <= 2) on every check run.    *)
(* Run with `-simulate num=N -depth D`; every visited state is emitted.     *)
(***************************************************************************)
EXTENDS WireBytes, Json
CONSTANTS Format, MaxDepth,
          Chunks,    \* cbor: max chunks of indefinite strings (0 = definite only)
          Bounded    \* TRUE: tiny atom sets, for the exhaustive StepInEnc run

MP == INSTANCE Wire_msgpack
CB == INSTANCE Wire_cbor WITH MaxChunks <- Chunks, EmptyChunks <- FALSE
BC == INSTANCE Wire_bencode
BS == INSTANCE Wire_bson

VARIABLES v,    \* the value
          e,    \* one encoding of it (bson: the element payload)
          ty,   \* bson: element type byte of the payload (0 otherwise)
          d     \* number of wraps
vars == <<v, e, ty, d>>

F(n) == [i \in 1..n |-> 255]
One == IntV(FALSE, <<1>>)
Atoms ==
    IF Bounded THEN (IF Format = "bencode" THEN {One, Str(<<97>>)} ELSE {Null, One}) ELSE
    CASE Format = "msgpack" -> {Null, Bool(TRUE), IntV(FALSE, <<>>), One, IntV(FALSE, <<128>>), IntV(TRUE, <<33>>), IntV(FALSE, F(8)),
                                IntV(TRUE, <<128>> \o Zeros(7)), Str(<<>>), Str(<<97>>), Str(<<195, 169>>), Str(Rep(40, 120)),
                                Bin(<<104, 105>>), F64(<<63, 248, 0, 0, 0, 0, 0, 0>>), F64(<<63, 185, 153, 153, 153, 153, 153, 154>>)}
      [] Format = "cbor"    -> {Null, Bool(FALSE), IntV(FALSE, <<>>), One, IntV(FALSE, <<24>>), IntV(TRUE, <<1>>), IntV(TRUE, <<1, 0>>),
                                IntV(FALSE, F(8)), IntV(TRUE, <<1>> \o Zeros(8)), Str(<<>>), Str(<<97>>), Str(<<195, 169>>), Str(Rep(40, 120)),
                                Bin(<<104, 105>>), F64(<<63, 248, 0, 0, 0, 0, 0, 0>>), F64(<<63, 185, 153, 153, 153, 153, 153, 154>>)}
      [] Format = "bencode" -> {IntV(FALSE, <<>>), One, IntV(TRUE, <<1>>), IntV(FALSE, <<127>> \o F(7)), IntV(TRUE, <<128>> \o Zeros(7)),
                                Str(<<>>), Str(<<97>>), Str(<<195, 169>>), Str(Rep(40, 120)), Str(<<49, 58, 97>>)}
      [] Format = "bson"    -> {Null, Bool(TRUE), Bool(FALSE), IntV(FALSE, <<>>), One, IntV(TRUE, <<1>>), IntV(FALSE, <<128, 0, 0, 0>>),
                                IntV(TRUE, <<128>> \o Zeros(7)), Str(<<>>), Str(<<97>>), Str(<<195, 169>>), Str(Rep(40, 120)),
                                F64(<<63, 248, 0, 0, 0, 0, 0, 0>>), F64(<<128>> \o Zeros(7))}
SibAtoms == IF Bounded THEN (IF Format = "bencode" THEN {One} ELSE {Null})
            ELSE IF Format = "bencode" THEN {One, Str(<<97>>)} ELSE {Null, One, Str(<<97>>)}

\* (value, encoding) pairs of scalars; bson: (value, type byte, payload)
PairsOf(S) ==
    CASE Format = "msgpack" -> UNION {{[val |-> a, enc |-> x, ty |-> 0] : x \in MP!Enc(a)} : a \in S}
      [] Format = "cbor"    -> UNION {{[val |-> a, enc |-> x, ty |-> 0] : x \in CB!Enc(a)} : a \in S}
      [] Format = "bencode" -> UNION {{[val |-> a, enc |-> x, ty |-> 0] : x \in BC!Enc(a)} : a \in S}
      [] Format = "bson"    -> UNION {{[val |-> a, enc |-> p.pl, ty |-> p.ty] : p \in BS!Payloads(a)} : a \in S}
AtomPairs == PairsOf(Atoms)
SibPairs  == PairsOf(SibAtoms)
\* zero or one sibling in front / behind
Sibs == {<<>>} \cup {<<p>> : p \in SibPairs}

KMain == <<107>>   \* "k"
KPre  == <<97>>    \* "a"  (sorts before "k": bencode wants sorted keys)
KPost == <<122>>   \* "z"
KeyEnc(k) == CASE Format = "msgpack" -> MP!Enc(Str(k))
               [] Format = "cbor"    -> CB!Enc(Str(k))
               [] Format = "bencode" -> BC!Enc(Str(k))
               [] Format = "bson"    -> {k}

\* exhaustive in the bounded MC run, one random element per step in SIM mode (TLC would otherwise
\* enumerate every successor of every visited state)
Pick(S) == IF Bounded THEN S ELSE {RandomElement(S)}

Init == \E p \in AtomPairs : v = p.val /\ e = p.enc /\ ty = p.ty /\ d = 0

\* --- arrays: pre ++ <<v>> ++ post
ItemEnc(p, i) == IF Format = "bson" THEN BS!ElemOf(BS!Idx(i), [ty |-> p.ty, pl |-> p.enc]) ELSE p.enc
WrapArr ==
    \E pre \in Pick(Sibs), post \in Pick(Sibs) :
      LET me    == [val |-> v, enc |-> e, ty |-> ty]
          items == pre \o <<me>> \o post
          n     == Len(items)
          body  == Flat([i \in 1..n |-> ItemEnc(items[i], i - 1)])
          outs  == CASE Format = "msgpack" -> MP!ArrOf(n, body)
                     [] Format = "cbor"    -> CB!ArrOf(n, body)
                     [] Format = "bencode" -> {BC!ListOf(body)}
                     [] Format = "bson"    -> {BS!DocOf(body)}
      IN \E x \in Pick(outs) :
           /\ v' = Arr([i \in 1..n |-> items[i].val])
           /\ e' = x
           /\ ty' = IF Format = "bson" THEN 4 ELSE 0

\* --- maps: optional ("a", sibling), ("k", v), optional ("z", sibling); a sibling carries its key encoding
MSibs(k) == {<<>>} \cup {<<[val |-> p.val, enc |-> p.enc, ty |-> p.ty, k |-> k, ke |-> ke]>> : p \in SibPairs, ke \in KeyEnc(k)}
PairEnc(p) == IF Format = "bson" THEN BS!ElemOf(p.k, [ty |-> p.ty, pl |-> p.enc]) ELSE p.ke \o p.enc
WrapMap ==
    \E pre \in Pick(MSibs(KPre)), post \in (IF Bounded THEN {<<>>} ELSE Pick(MSibs(KPost))), kk \in Pick(KeyEnc(KMain)) :
      LET me   == [val |-> v, enc |-> e, ty |-> ty, k |-> KMain, ke |-> kk]
          ps   == pre \o <<me>> \o post
          n    == Len(ps)
          body == Flat([i \in 1..n |-> PairEnc(ps[i])])
          outs == CASE Format = "msgpack" -> MP!MapOf(n, body)
                    [] Format = "cbor"    -> CB!MapOf(n, body)
                    [] Format = "bencode" -> {BC!DictOf(body)}
                    [] Format = "bson"    -> {BS!DocOf(body)}
      IN \E x \in Pick(outs) :
           /\ v' = Map([i \in 1..n |-> ps[i].k], [i \in 1..n |-> ps[i].val])
           /\ e' = x
           /\ ty' = IF Format = "bson" THEN 3 ELSE 0

WrapTag == /\ Format = "cbor"
           /\ \E m \in Pick({<<1>>, <<1, 0>>}) : \E x \in Pick(CB!TagOf(m, e)) :
                v' = [t |-> "tag", tag |-> m, v |-> v] /\ e' = x /\ ty' = 0

Kinds == IF Format = "cbor" THEN {"arr", "map", "map", "arr", "tag"} ELSE {"arr", "map"}
Wrap == \E k \in Pick(Kinds) : CASE k = "arr" -> WrapArr [] k = "map" -> WrapMap [] k = "tag" -> WrapTag

EncOf(x) == CASE Format = "msgpack" -> MP!Enc(x) [] Format = "cbor" -> CB!Enc(x)
              [] Format = "bencode" -> BC!Enc(x) [] Format = "bson" -> {p.pl : p \in BS!Payloads(x)}
ReprOf(x) == CASE Format = "msgpack" -> MP!Repr(x) [] Format = "cbor" -> CB!Repr(x)
               [] Format = "bencode" -> BC!Repr(x) [] Format = "bson" -> BS!Repr(x)

\* the composed encoding is an encoding in the sense of the Wire module (bounded MC run only)
StepInEnc == e \in EncOf(v)

\* a bson case needs a document at the top
Emittable == Format # "bson" \/ v.t = "map"
Cuts(n) == IF n <= 40 THEN 0..(n - 1) ELSE (0..8) \cup {n \div 3, n \div 2, (2 * n) \div 3} \cup ((n - 4)..(n - 1))
EmitCur == IF Emittable /\ ~Bounded
           THEN PrintT(ToJson([f |-> Format, part |-> "sim", kind |-> "ok", val |-> v, bytes |-> e, depth |-> d,
                               repr |-> ReprOf(v), cuts |-> Cuts(RLen(e)), trails |-> {<<e[1]>>}]))
           ELSE TRUE
\* the visited state is emitted when its successors are computed (once per visited state)
Next == EmitCur /\ d < MaxDepth /\ d' = d + 1 /\ Wrap
Spec == Init /\ [][Next]_vars
=============================================================================
