------------------------------- MODULE Repl -------------------------------
(***************************************************************************)
(* The interactive read-eval-print loop of fq (pkg/interp/repl.jq, the      *)
(* `-i` branch of init.jq, _readline in interp.go) as a function from a     *)
(* REPL state and one answer of the line reader to the next state and what  *)
(* is printed.  Variable-free; ReplMC.tla explores it, TraceRepl.tla judges *)
(* recorded sessions of the real loop with it.                              *)
(*                                                                         *)
(* State                                                                    *)
(*   stack   the nested loops, outermost first; a level is                  *)
(*           [ins |-> its input values, d |-> its `depth` option or -1]     *)
(*           (one entry of fq's _options_stack per level; the `depth`       *)
(*           option stands for every option given to repl({...}))           *)
(*   slurp   the process-wide slurp "a": [def |-> BOOLEAN, v |-> values]    *)
(*                                                                         *)
(* What a line does (repl.jq, eval.jq _eval_query_rewrite):                 *)
(*   - a line is compiled once and evaluated as ONE evaluation              *)
(*       .[] | try (LINE) catch print-error | display                       *)
(*     over the level's inputs: every input is evaluated on its own, an     *)
(*     error ends that input only (printed), the next input goes on;        *)
(*   - `F | repl` / `F | repl({..})` collects the outputs of F over all     *)
(*     inputs (errors printed, per input) and starts a nested loop with     *)
(*     them as inputs; `F | slurp("a")` stores them instead;                *)
(*   - a blank line and ctrl-C at the prompt do nothing, ctrl-D leaves the  *)
(*     innermost loop (the outermost: fq ends with status 0);               *)
(*   - a line that does not compile prints one error line;                  *)
(*   - AN INTERRUPT WHILE A LINE IS EVALUATED ENDS THE INNERMOST EVALUATION IN     *)
(*     PROGRESS AND NOTHING ELSE (property C20).  For an ordinary line that   *)
(*     is the line's own evaluation: nothing more of it is printed, the level *)
(*     and every enclosing level stay as they were - the enclosing levels are *)
(*     themselves running inside the evaluation of the line that started      *)
(*     them, and those evaluations must not be cancelled.  For `F | repl` the *)
(*     outputs of F are collected by an evaluation NESTED in the line's       *)
(*     (repl.jq _repl_slurp_eval: [eval(F; on error: print)]), so that one is *)
(*     the innermost: the collection ends, its error is printed, and the      *)
(*     line's evaluation goes on - it enters the nested loop with what had    *)
(*     been collected until then;                                             *)
(*   - the prompt shows the nesting level and a summary of the inputs.      *)
(*                                                                         *)
(* Values: numbers, null and arrays (tagged records, see JsonVal.tla for    *)
(* the reason); an outcome sequence may end with the error marker Err.      *)
(***************************************************************************)
EXTENDS Integers, Sequences, TLC

N(k) == [t |-> "n", n |-> k]
A(s) == [t |-> "a", v |-> s]
Z    == [t |-> "z"]
Err  == [t |-> "e"]

RECURSIVE Txt(_), TxtSeq(_)
Txt(x) == CASE x.t = "n" -> ToString(x.n)
            [] x.t = "z" -> "null"
            [] x.t = "a" -> "[" \o TxtSeq(x.v) \o "]"
TxtSeq(s) == IF s = <<>> THEN ""
             ELSE IF Len(s) = 1 THEN Txt(s[1])
             ELSE Txt(s[1]) \o "," \o TxtSeq(Tail(s))

TypeName(x) == CASE x.t = "n" -> "number" [] x.t = "z" -> "null" [] x.t = "a" -> "array"

(***************************** the line vocabulary *************************)
Fns == {"id", "inc", "dup", "none", "err", "iter", "wrap", "mid", "odd", "dep", "spa", "first", "len"}

FnText(f) ==
  CASE f = "id"    -> "."
    [] f = "inc"   -> ".+1"
    [] f = "dup"   -> ".,."
    [] f = "none"  -> "empty"
    [] f = "err"   -> "error(\"x\")"
    [] f = "iter"  -> ".[]"
    [] f = "wrap"  -> "[.]"
    [] f = "mid"   -> "., error(\"x\"), ."
    [] f = "odd"   -> "if . == 1 then error(\"x\") else . end"
    [] f = "dep"   -> "options.depth"
    [] f = "spa"   -> "spew(\"a\")"
    [] f = "first" -> ".[0]"
    [] f = "len"   -> "length"

(* the outcomes of F on one input x; c = [depth |-> effective depth option, slurp |-> the slurp] *)
Apply(f, x, c) ==
  CASE f = "id"    -> <<x>>
    [] f = "inc"   -> IF x.t = "n" THEN <<N(x.n + 1)>> ELSE IF x.t = "z" THEN <<N(1)>> ELSE <<Err>>
    [] f = "dup"   -> <<x, x>>
    [] f = "none"  -> <<>>
    [] f = "err"   -> <<Err>>
    [] f = "iter"  -> IF x.t = "a" THEN x.v ELSE <<Err>>
    [] f = "wrap"  -> <<A(<<x>>)>>
    [] f = "mid"   -> <<x, Err>>
    [] f = "odd"   -> IF x.t = "n" /\ x.n = 1 THEN <<Err>> ELSE <<x>>
    [] f = "dep"   -> <<N(c.depth)>>
    [] f = "spa"   -> IF c.slurp.def THEN c.slurp.v ELSE <<Err>>
    [] f = "first" -> IF x.t = "a" THEN (IF x.v = <<>> THEN <<Z>> ELSE <<x.v[1]>>)
                      ELSE IF x.t = "z" THEN <<Z>> ELSE <<Err>>
    [] f = "len"   -> CASE x.t = "n" -> <<N(IF x.n < 0 THEN 0 - x.n ELSE x.n)>>
                        [] x.t = "z" -> <<N(0)>>
                        [] x.t = "a" -> <<N(Len(x.v))>>

RECURSIVE RunAll(_, _, _)
RunAll(f, ins, c) == IF ins = <<>> THEN <<>> ELSE Apply(f, Head(ins), c) \o RunAll(f, Tail(ins), c)

RECURSIVE Lines(_), ErrLines(_), Vals(_)
Lines(os)    == IF os = <<>> THEN <<>> ELSE <<IF Head(os).t = "e" THEN "ERR" ELSE Txt(Head(os))>> \o Lines(Tail(os))
ErrLines(os) == IF os = <<>> THEN <<>> ELSE (IF Head(os).t = "e" THEN <<"ERR">> ELSE <<>>) \o ErrLines(Tail(os))
Vals(os)     == IF os = <<>> THEN <<>> ELSE (IF Head(os).t = "e" THEN <<>> ELSE <<Head(os)>>) \o Vals(Tail(os))

Forever == "(range(1000000000)|select(.<0))"
RunText     == "\"go\", " \o Forever \o ", \"never\""
RunPushText == "(., (\"\\\"go\\\"\" | println), " \o Forever \o ") | repl"
(* lines that start (and are done with) a nested evaluation before they run for ever: the interrupt has to reach the LINE's evaluation *)
(*   runce  the nested evaluation does not compile and the error is caught                                                        *)
(*   runab  the nested evaluation is abandoned after its first output (first/1 = label + break: its iterator is never resumed)    *)
(*   runfin the nested evaluation ran to its end                                                                                   *)
RunCeText  == "(try eval(\"nosuchfn_verif\") catch \"caught\"), " \o RunText
RunAbText  == "first(eval(\"1, 2\")), " \o RunText
RunFinText == "[eval(\"1, 2\")], " \o RunText
RunKinds == {"run", "runce", "runab", "runfin"}
RunPre(k) == CASE k = "run" -> <<>> [] k = "runce" -> <<"\"caught\"">> [] k = "runab" -> <<"1">> [] k = "runfin" -> <<"[1,2]">>

(* an action = one answer of the line reader *)
Kinds == {"eval", "push", "slurp", "blank", "bad", "badopt", "mid", "sigint", "eof", "run", "runpush", "runce", "runab", "runfin"}
Text(a) ==
  CASE a.k = "eval"    -> FnText(a.f)
    [] a.k = "push"    -> FnText(a.f) \o " | repl" \o (IF a.o < 0 THEN "" ELSE "({depth: " \o ToString(a.o) \o "})")
    [] a.k = "slurp"   -> FnText(a.f) \o " | slurp(\"a\")"
    [] a.k = "blank"   -> "  "
    [] a.k = "bad"     -> "1 +"
    [] a.k = "badopt"  -> ". | repl(1)"
    [] a.k = "mid"     -> "repl | ."
    [] a.k = "run"     -> RunText
    [] a.k = "runce"   -> RunCeText
    [] a.k = "runab"   -> RunAbText
    [] a.k = "runfin"  -> RunFinText
    [] a.k = "runpush" -> RunPushText
    [] a.k \in {"sigint", "eof"} -> ""

(******************************** the prompt *******************************)
RECURSIVE Rep(_, _)
Rep(s, n) == IF n <= 0 THEN "" ELSE s \o Rep(s, n - 1)

Count(n) == "[0:" \o ToString(n) \o "]"
ValueSummary(x) ==
  IF x.t = "a"
  THEN "[" \o (IF x.v = <<>> THEN "" ELSE TypeName(x.v[1]) \o (IF Len(x.v) > 1 THEN ", ..." ELSE "")) \o "]"
           \o (IF Len(x.v) > 1 THEN Count(Len(x.v)) ELSE "")
  ELSE TypeName(x)
InputsSummary(ins) ==
  IF ins = <<>> THEN "empty"
  ELSE ValueSummary(ins[1]) \o (IF Len(ins) > 1 THEN ", ..." \o Count(Len(ins)) \o "[]" ELSE "")
Prompt(stack) ==
  (IF Len(stack) > 1 THEN Rep(">", Len(stack) - 1) \o " " ELSE "") \o InputsSummary(stack[Len(stack)].ins) \o "> "

(**************************** one step of the loop *************************)
RECURSIVE DepthOf(_)
DepthOf(stack) == IF stack = <<>> THEN 0
                  ELSE IF stack[Len(stack)].d >= 0 THEN stack[Len(stack)].d
                  ELSE DepthOf(SubSeq(stack, 1, Len(stack) - 1))

NoSlurp == [def |-> FALSE, v |-> <<>>]

(* Do(stack, slurp, a) = [stack, slurp, out (lines printed before the next prompt), intr (the line is still running when the   *)
(* marker is printed: the driver interrupts it), over (the outermost loop was left)]                                           *)
Do(stack, slurp, a) ==
  LET top == stack[Len(stack)]
      c   == [depth |-> DepthOf(stack), slurp |-> slurp]
      same(out, intr) == [stack |-> stack, slurp |-> slurp, out |-> out, intr |-> intr, over |-> FALSE]
  IN CASE a.k = "eval"  -> same(Lines(RunAll(a.f, top.ins, c)), FALSE)
       [] a.k = "push"  -> LET os == RunAll(a.f, top.ins, c)
                           IN [stack |-> Append(stack, [ins |-> Vals(os), d |-> a.o]), slurp |-> slurp,
                               out |-> ErrLines(os), intr |-> FALSE, over |-> FALSE]
       [] a.k = "slurp" -> LET os == RunAll(a.f, top.ins, c)
                           IN [stack |-> stack, slurp |-> [def |-> TRUE, v |-> Vals(os)],
                               out |-> ErrLines(os), intr |-> FALSE, over |-> FALSE]
       [] a.k \in {"blank", "sigint"} -> same(<<>>, FALSE)
       [] a.k \in {"bad", "badopt"}   -> same(<<"ERR">>, FALSE)               \* refused before anything is evaluated
       [] a.k = "mid"   -> same([i \in 1..Len(top.ins) |-> "ERR"], FALSE)     \* repl not last: a run-time error per input
       [] a.k \in RunKinds -> IF top.ins = <<>> THEN same(<<>>, FALSE) ELSE same(RunPre(a.k) \o <<"\"go\"">>, TRUE)
       [] a.k = "runpush" -> IF top.ins = <<>>
                             THEN [stack |-> Append(stack, [ins |-> <<>>, d |-> -1]), slurp |-> slurp,
                                   out |-> <<>>, intr |-> FALSE, over |-> FALSE]
                             ELSE \* interrupted while the nested evaluation collects: what it had output so far (the first input) is
                                  \* kept, its error is printed, the nested loop is entered
                                  [stack |-> Append(stack, [ins |-> <<top.ins[1]>>, d |-> -1]), slurp |-> slurp,
                                   out |-> <<"\"go\"", "ERR">>, intr |-> TRUE, over |-> FALSE]
       [] a.k = "eof"   -> [stack |-> SubSeq(stack, 1, Len(stack) - 1), slurp |-> slurp, out |-> <<>>, intr |-> FALSE,
                            over |-> Len(stack) = 1]

(* the initial inputs: `fq -i -n PROGRAM` starts the loop on the outputs of PROGRAM *)
Inits == {"two", "arr", "none", "one", "deep", "null"}
InitText(i) == CASE i = "two" -> "1,2" [] i = "arr" -> "[1,2]" [] i = "none" -> "empty" [] i = "one" -> "1"
                 [] i = "deep" -> "[[1,2],[3]]" [] i = "null" -> "null"
InitIns(i) == CASE i = "two" -> <<N(1), N(2)>> [] i = "arr" -> <<A(<<N(1), N(2)>>)>> [] i = "none" -> <<>>
                [] i = "one" -> <<N(1)>> [] i = "deep" -> <<A(<<A(<<N(1), N(2)>>), A(<<N(3)>>)>>)>> [] i = "null" -> <<Z>>
InitStack(i) == << [ins |-> InitIns(i), d |-> -1] >>
=============================================================================
