------------------------------ MODULE ReplMC ------------------------------
(* The REPL of Repl.tla as a state machine over the line vocabulary.                                            *)
(*  MC   : invariants and action properties of the loop inside the constants (MCSpec)                            *)
(*  GEN  : see ReplGen.tla                                                                                       *)
(*  SIM  : random longer sessions (MCSpec under -simulate, printed at their end by Emit)                          *)
EXTENDS Repl, Json
CONSTANTS MaxLen,     \* lines per session
          MaxStack,   \* nesting bound
          MaxIns      \* inputs of a level

VARIABLES init, stack, slurp, hist, over, last
vars == <<init, stack, slurp, hist, over, last>>

PushFns  == {"id", "dup", "none", "iter", "wrap", "mid", "odd", "spa", "first"}
SlurpFns == {"id", "iter", "mid", "none"}
Act(k, f, o) == [k |-> k, f |-> f, o |-> o]
Alphabet == {Act("eval", f, -1) : f \in Fns}
       \cup {Act("push", f, o) : f \in PushFns, o \in {-1, 1, 2}}
       \cup {Act("slurp", f, -1) : f \in SlurpFns}
       \cup {Act(k, "id", -1) : k \in {"blank", "bad", "badopt", "mid", "sigint", "eof", "run", "runpush", "runce", "runab", "runfin"}}

RECURSIVE Nest(_)
Nest(x) == IF x.t # "a" \/ x.v = <<>> THEN 0 ELSE 1 + Nest(x.v[1])
Small(st) == /\ Len(st) <= MaxStack
             /\ \A i \in 1 .. Len(st) : Len(st[i].ins) <= MaxIns /\ \A j \in 1 .. Len(st[i].ins) : Nest(st[i].ins[j]) <= 3

MCInit == /\ init \in Inits /\ stack = InitStack(init) /\ slurp = NoSlurp /\ hist = <<>> /\ over = FALSE
          /\ last = [a |-> Act("blank", "id", -1), out |-> <<>>, intr |-> FALSE]
MCNext == /\ ~over /\ Len(hist) < MaxLen
          /\ \E a \in Alphabet :
               LET r == Do(stack, slurp, a)
               IN /\ Small(r.stack) /\ Len(r.slurp.v) <= MaxIns
                  /\ stack' = r.stack /\ slurp' = r.slurp /\ over' = r.over
                  /\ hist' = Append(hist, a) /\ last' = [a |-> a, out |-> r.out, intr |-> r.intr]
                  /\ UNCHANGED init
MCSpec == MCInit /\ [][MCNext]_vars

(* ------------------------------------------------------------------ properties of the loop (design level) *)
(* C20 at the level of the loop: an interrupt - at the prompt or while an ordinary line runs - changes no level and no slurp;  *)
(* an interrupt while `F | repl` collects ends the collection only: the nested loop is entered, nothing else changes            *)
InterruptTouchesNothing ==
  [][(last'.a.k = "sigint" \/ (last'.intr /\ last'.a.k # "runpush")) => (stack' = stack /\ slurp' = slurp /\ ~over')]_vars
InterruptedCollectionStillEnters ==
  [][(last'.intr /\ last'.a.k = "runpush") =>
        (Len(stack') = Len(stack) + 1 /\ SubSeq(stack', 1, Len(stack)) = stack /\ slurp' = slurp /\ ~over')]_vars
(* only ctrl-D leaves a loop, and exactly the innermost one *)
OnlyEofLeaves ==
  [][Len(stack') < Len(stack) => (last'.a.k = "eof" /\ stack' = SubSeq(stack, 1, Len(stack) - 1))]_vars
(* enclosing levels are never changed by anything typed in a nested loop *)
EnclosingKept ==
  [][\A i \in 1 .. Len(stack) - 1 : i <= Len(stack') => stack'[i] = stack[i]]_vars
(* a level is entered only by a repl line, with the collected outputs as inputs; errors never become inputs *)
PushOnlyByRepl ==
  [][Len(stack') > Len(stack) => (last'.a.k \in {"push", "runpush"} /\ Len(stack') = Len(stack) + 1)]_vars
PromptOK == over \/ Prompt(stack) # ""
NeverDeeper == Len(stack) <= MaxStack

MCView == <<stack, slurp, over, Len(hist)>>
(* ------------------------------------------------------------------ emission *)
Line(a) == [k |-> a.k, f |-> a.f, o |-> a.o, t |-> Text(a)]
Emit == IF over \/ Len(hist) = MaxLen
        THEN PrintT(ToJson([init |-> init, prog |-> InitText(init), lines |-> [i \in 1 .. Len(hist) |-> Line(hist[i])]]))
        ELSE TRUE

=============================================================================
