------------------------- MODULE TraceDecodeOutcome -------------------------
(* TV for C06: one event per decode run; plus the coverage obligation over the whole trace:       *)
(* every (sample, mode, mutation class) of the obligations file has at least one recorded run.    *)
EXTENDS Integers, Sequences, FiniteSets, TLC, Json
D == INSTANCE DecodeOutcome WITH NF <- 1, i <- 0, errs <- 0, res <- "", exit <- 0
Trace == ndJsonDeserialize("trace.ndjson")
Oblig == ndJsonDeserialize("obligations.ndjson")
VARIABLE l
Sig(e) == IF e.cli THEN D!ExitSig(e) ELSE D!RunSig(e)
TInit == l = 1
TNext == /\ l <= Len(Trace)
         /\ IF Sig(Trace[l]) = "ok" THEN TRUE ELSE PrintT(<<"REJECT", l, Sig(Trace[l])>>)
         /\ l' = l + 1
TSpec == TInit /\ [][TNext]_l
Seen == {Trace[k].ob : k \in DOMAIN Trace}
Covered == \A k \in DOMAIN Oblig : Oblig[k].ob \in Seen
Consumed == /\ TLCGet("stats").diameter - 1 = Len(Trace)
            /\ IF Covered THEN TRUE ELSE PrintT(<<"UNCOVERED", Cardinality({k \in DOMAIN Oblig : Oblig[k].ob \notin Seen})>>) /\ FALSE
=============================================================================
