SPECIFICATION Spec
CONSTANTS L = 6
 MaxN = 3
 Slack = 1
INVARIANT RefinesOrKnownHole
CHECK_DEADLOCK FALSE
