\* quick-tier constants; checks/c13.py generates the cfg of each run (FullClasses / WantPairs depend on the tier)
SPECIFICATION TSpec
CONSTANTS FullClasses = {"go", "public", "cli"}
 WantPairs = FALSE
 MinGo = 40
 MinPublic = 120
 MinInternal = 120
 MinGenerated = 200
POSTCONDITION Covered
CHECK_DEADLOCK FALSE
