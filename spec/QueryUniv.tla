------------------------------ MODULE QueryUniv ------------------------------
(* C11: the construct inventory shared by QueryGen (MC/GEN) and QuerySim (SIM); variable-free. *)
EXTENDS Query
D1 == FieldQ("a")
D2 == NumQ("1")
D3 == Ident
D4 == StrQ("b")
D5 == NullQ
Dflt == <<D1, D2, D3, D4, D5>>

BinNames == <<"|", ",", "//", "=", "|=", "+=", "-=", "*=", "/=", "%=", "//=", "or", "and",
              "==", "!=", "<", "<=", ">", ">=", "+", "-", "*", "/", "%">>
OtherOuter == <<
  [n |-> "index", k |-> 1], [n |-> "index_str", k |-> 1], [n |-> "slice", k |-> 2], [n |-> "slice_from", k |-> 1], [n |-> "slice_to", k |-> 1],
  [n |-> "sfx_name", k |-> 1], [n |-> "sfx_str", k |-> 1], [n |-> "sfx_index", k |-> 2], [n |-> "sfx_slice", k |-> 3],
  [n |-> "sfx_iter", k |-> 1], [n |-> "sfx_opt", k |-> 1],
  [n |-> "bind", k |-> 2], [n |-> "bind_destr", k |-> 2], [n |-> "bind_alt", k |-> 2], [n |-> "bind_keyq", k |-> 3],
  [n |-> "func1", k |-> 1], [n |-> "func2", k |-> 2],
  [n |-> "obj_val", k |-> 1], [n |-> "obj_keyq", k |-> 2], [n |-> "obj_keystr", k |-> 1], [n |-> "obj2", k |-> 2],
  [n |-> "array", k |-> 1], [n |-> "neg", k |-> 1], [n |-> "pos", k |-> 1],
  [n |-> "format_str", k |-> 1], [n |-> "interp", k |-> 1],
  [n |-> "if2", k |-> 2], [n |-> "if3", k |-> 3], [n |-> "ifelif", k |-> 5],
  [n |-> "try", k |-> 1], [n |-> "trycatch", k |-> 2],
  [n |-> "reduce", k |-> 3], [n |-> "foreach2", k |-> 3], [n |-> "foreach3", k |-> 4],
  [n |-> "label", k |-> 1], [n |-> "label_break", k |-> 1], [n |-> "paren", k |-> 1],
  [n |-> "def0", k |-> 2], [n |-> "def2", k |-> 2] >>
Outers == [i \in 1 .. Len(BinNames) |-> [n |-> BinNames[i], k |-> 2]] \o OtherOuter
LeafNames == <<".", "..", "null", "true", "false", "num", "hex", "bin", "oct", "float", "exp", "str", "str_esc", "field", "field_kw", "fieldstr",
               "iter", "var", "format", "func0", "modfunc", "emptyobj", "emptyarr", "obj_short", "emptystr">>

IQ(parts) == [queries |-> parts]
MkO(n, k) ==
  CASE n \in AllOps -> Bin(n, k[1], k[2])
    [] n = "index" -> IndexQ(k[1])
    [] n = "index_str" -> TQ([type |-> "TermTypeIndex", index |-> [str |-> IQ(<<StrQ("a"), Paren(k[1])>>)]])
    [] n = "slice" -> SliceQ(k[1], k[2], TRUE, TRUE)
    [] n = "slice_from" -> SliceQ(k[1], k[1], TRUE, FALSE)
    [] n = "slice_to" -> SliceQ(k[1], k[1], FALSE, TRUE)
    [] n = "sfx_name" -> AddSuffix(AsTermQ(k[1]), SIndexName("b"))
    [] n = "sfx_str" -> AddSuffix(AsTermQ(k[1]), [index |-> [str |-> [str |-> "a b"]]])
    [] n = "sfx_index" -> AddSuffix(AsTermQ(k[1]), SIndexQ(k[2]))
    [] n = "sfx_slice" -> AddSuffix(AsTermQ(k[1]), [index |-> [start |-> k[2], end |-> k[3], is_slice |-> TRUE]])
    [] n = "sfx_iter" -> IterQ(k[1])
    [] n = "sfx_opt" -> OptQ(k[1])
    [] n = "bind" -> BindQ(k[1], <<PVar("$x")>>, k[2])
    [] n = "bind_destr" -> BindQ(k[1], <<PArr(<<PVar("$x"), PObj(<<[key |-> "a", val |-> PVar("$y")], [key |-> "$z"]>>)>>)>>, k[2])
    [] n = "bind_alt" -> BindQ(k[1], <<PArr(<<PVar("$x")>>), PVar("$x")>>, k[2])
    [] n = "bind_keyq" -> BindQ(k[1], <<PObj(<<[key_query |-> k[3], val |-> PVar("$x")], [key_string |-> [str |-> "b"], val |-> PVar("$y")]>>)>>, k[2])
    [] n = "func1" -> FuncQ("select", <<k[1]>>)
    [] n = "func2" -> FuncQ("limit", <<k[1], k[2]>>)
    [] n = "obj_val" -> ObjQ(<<KV("a", k[1])>>)
    [] n = "obj_keyq" -> ObjQ(<<KVQ(k[1], k[2])>>)
    [] n = "obj_keystr" -> ObjQ(<<[key_string |-> IQ(<<StrQ("a"), Paren(k[1])>>), val |-> D2]>>)
    [] n = "obj2" -> ObjQ(<<KV("if", k[1]), KVS("b c", k[2])>>)
    [] n = "array" -> ArrQ(k[1])
    [] n = "neg" -> NegQ(k[1])
    [] n = "pos" -> PosQ(k[1])
    [] n = "format_str" -> FormatStrQ("@base64", IQ(<<StrQ("a"), Paren(k[1])>>))
    [] n = "interp" -> InterpQ(<<StrQ("a"), Paren(k[1]), StrQ("b")>>)
    [] n = "if2" -> If2Q(k[1], k[2])
    [] n = "if3" -> IfQ(k[1], k[2], k[3])
    [] n = "ifelif" -> IfElifQ(k[1], k[2], k[3], k[4], k[5])
    [] n = "try" -> TryQ(k[1])
    [] n = "trycatch" -> TryCatchQ(k[1], k[2])
    [] n = "reduce" -> ReduceQ(k[1], PVar("$x"), k[2], k[3])
    [] n = "foreach2" -> ForeachQ(k[1], PArr(<<PVar("$x"), PVar("$y")>>), k[2], k[3])
    [] n = "foreach3" -> Foreach3Q(k[1], PVar("$x"), k[2], k[3], k[4])
    [] n = "label" -> LabelQ("$l", k[1])
    [] n = "label_break" -> LabelQ("$l", Comma(k[1], BreakQ("$l")))
    [] n = "paren" -> Paren(k[1])
    [] n = "def0" -> DefQ(FDef("f", <<>>, k[1]), k[2])
    [] n = "def2" -> DefQ(FDef("g", <<"h", "$a">>, k[1]), k[2])
    \* leaves
    [] n = "." -> Ident [] n = ".." -> RecurseQ [] n = "null" -> NullQ [] n = "true" -> TrueQ [] n = "false" -> FalseQ
    [] n = "num" -> NumQ("10") [] n = "hex" -> NumQ("0x10") [] n = "bin" -> NumQ("0b101") [] n = "oct" -> NumQ("0o17")
    [] n = "float" -> NumQ("1.5") [] n = "exp" -> NumQ("1e3")
    [] n = "str" -> StrQ("a b") [] n = "str_esc" -> StrQ("a\"b") [] n = "emptystr" -> StrQ("")
    [] n = "field" -> FieldQ("b") [] n = "field_kw" -> FieldQ("and") [] n = "fieldstr" -> FieldStrQ("a b")
    [] n = "iter" -> AddSuffix(Ident, SIter)
    [] n = "var" -> VarQ("$__loc__") [] n = "format" -> FormatQ("@base64") [] n = "func0" -> FuncQ("length", <<>>)
    [] n = "modfunc" -> FuncQ("m::f", <<>>)
    [] n = "emptyobj" -> ObjQ(<<>>) [] n = "emptyarr" -> EmptyArrQ
    [] n = "obj_short" -> ObjQ(<<[key |-> "a"], [key |-> "$__loc__"], [key_string |-> [str |-> "b"]]>>)

Arity0(n) == IF \E i \in 1 .. Len(Outers) : Outers[i].n = n THEN (CHOOSE i \in 1 .. Len(Outers) : Outers[i].n = n) ELSE 0
KidsOf(n) == IF Arity0(n) = 0 THEN <<>> ELSE SubSeq(Dflt, 1, Outers[Arity0(n)].k)
InnerNames == [i \in 1 .. Len(Outers) |-> Outers[i].n] \o LeafNames
Inner(n) == MkO(n, KidsOf(n))

Wrappers == <<"none", "neg", "opt", "bind_body", "bind_src", "def_body", "def_rest", "dirs", "defs_only", "tail_repl", "tail_help", "bind_tail_slurp">>
DirMeta == [keyvals |-> <<[key |-> "a", val |-> [number |-> "1"]], [key_string |-> "b c", val |-> [array |-> [elems |-> <<[true |-> TRUE], [str |-> "x"]>>]]]>>]
Wrap(w, a) ==
  CASE w = "none" -> a
    [] w = "neg" -> NegQ(a)
    [] w = "opt" -> OptQ(a)
    [] w = "bind_body" -> BindQ(D1, <<PVar("$v")>>, a)
    [] w = "bind_src" -> BindQ(a, <<PVar("$v")>>, D3)
    [] w = "def_body" -> DefQ(FDef("k", <<>>, a), FuncQ("k", <<>>))
    [] w = "def_rest" -> DefQ(FDef("k", <<"$b">>, D3), a)
    [] w = "dirs" -> a @@ [meta |-> DirMeta,
                           imports |-> <<[import_path |-> "m", import_alias |-> "m"],
                                         [import_path |-> "d", import_alias |-> "$d", meta |-> [keyvals |-> <<[key |-> "x", val |-> [null |-> TRUE]]>>]],
                                         [include_path |-> "i"]>>]
    [] w = "defs_only" -> [func_defs |-> <<FDef("k", <<>>, a)>>]
    \* programs ending in a function the command line / REPL treats specially ("slurp" variant of the rewrite)
    [] w = "tail_repl" -> Pipe(a, FuncQ("repl", <<>>))
    [] w = "tail_help" -> Pipe(a, FuncQ("help", <<D1, a>>))
    [] w = "bind_tail_slurp" -> BindQ(D1, <<PVar("$v")>>, Pipe(a, FuncQ("slurp", <<StrQ("a b")>>)))

Raw(o, p, i, w) == Wrap(w, MkO(Outers[o].n, [j \in 1 .. Outers[o].k |-> IF j = p THEN Inner(InnerNames[i]) ELSE Dflt[j]]))

=============================================================================
