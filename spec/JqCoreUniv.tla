----------------------------- MODULE JqCoreUniv -----------------------------
(* C07: construct inventory, default children and inputs shared by JqCoreGen (GEN) and JqCoreSim (SIM); variable-free. *)
EXTENDS JqCore
GenLit == StdLit
Sa == JStr(<<97>>)  Sab == JStr(<<97, 98>>)  S0 == JStr(<<>>)
O1(k, v) == JObjRaw(<<k>>, <<v>>)
Inputs == << JNull, JFalse, JTrue, JNum(0), JNum(1), JNum(-1), JNum(2), S0, Sa, Sab, JArr(<<>>), JEmptyObj,
             JArr(<<JNum(1)>>), JArr(<<JNum(0), JNum(1)>>), JArr(<<JNum(2), JNum(1), JNum(1)>>), JArr(<<Sa, Sab>>), JArr(<<JNull, JFalse>>),
             JArr(<<JArr(<<>>)>>), JArr(<<JNum(1), JArr(<<JNum(2)>>)>>), JArr(<<JArr(<<JNum(1)>>), JArr(<<JNum(0)>>)>>),
             JArr(<<O1(<<97>>, JNum(1)), O1(<<97>>, JNum(0))>>), JArr(<<JNum(-1), JNum(2)>>),
             O1(<<97>>, JNum(1)), O1(<<97>>, JNull), JObjRaw(<<<<97>>, <<98>>>>, <<JNum(1), JNum(2)>>), O1(<<97>>, JArr(<<JNum(1)>>)),
             O1(<<97>>, O1(<<98>>, JNum(0))), O1(<<98>>, Sa), JObjRaw(<<<<97>>, <<98>>>>, <<Sab, JArr(<<JNum(0), JNum(1)>>)>>),
             JArr(<<JObjRaw(<<K_key, K_value>>, <<Sa, JNum(1)>>)>>) >>      \* from_entries-shaped; the only input outside JsonVals(2, StdAtoms)
ASSUME \A i \in 1 .. (Len(Inputs) - 1) : InJsonVals(Inputs[i], 2, StdAtoms, 3, DefaultKeys) /\ WellFormed(Inputs[i])
InputList == <<JNum(1), Sa>>          \* what input / inputs read

N(s) == NumQ(s)
ST(s) == StrQ(s)
Fa == FieldQ("a")
X == VarQ("$x")
Plus1 == Bin("+", Ident, N("1"))
(* constructs: [n |-> name, k |-> number of child positions]; Mk builds the tree from children *)
Cons == <<
  [n |-> ".", k |-> 0], [n |-> "..", k |-> 0], [n |-> "null", k |-> 0], [n |-> "true", k |-> 0], [n |-> "false", k |-> 0],
  [n |-> "0", k |-> 0], [n |-> "1", k |-> 0], [n |-> "2", k |-> 0], [n |-> "-1", k |-> 0], [n |-> "\"\"", k |-> 0], [n |-> "\"a\"", k |-> 0], [n |-> "\"ab\"", k |-> 0],
  [n |-> "[]", k |-> 0], [n |-> "{}", k |-> 0], [n |-> ".a", k |-> 0], [n |-> ".b", k |-> 0], [n |-> ".a?", k |-> 0], [n |-> ".\"a\"", k |-> 0], [n |-> ".[0]", k |-> 0], [n |-> ".[-1]", k |-> 0],
  [n |-> ".[]", k |-> 0], [n |-> ".[]?", k |-> 0], [n |-> ".[1:]", k |-> 0], [n |-> ".[:1]", k |-> 0], [n |-> ".a.b", k |-> 0], [n |-> ".a[]", k |-> 0], [n |-> "{a}", k |-> 0],
  [n |-> "empty", k |-> 0], [n |-> "error", k |-> 0], [n |-> "not", k |-> 0], [n |-> "length", k |-> 0], [n |-> "keys", k |-> 0], [n |-> "type", k |-> 0], [n |-> "add", k |-> 0],
  [n |-> "tostring", k |-> 0], [n |-> "tojson", k |-> 0], [n |-> "fromjson", k |-> 0], [n |-> "explode", k |-> 0], [n |-> "implode", k |-> 0],
  [n |-> "to_entries", k |-> 0], [n |-> "from_entries", k |-> 0], [n |-> "sort", k |-> 0], [n |-> "unique", k |-> 0], [n |-> "min", k |-> 0], [n |-> "max", k |-> 0],
  [n |-> "first", k |-> 0], [n |-> "last", k |-> 0], [n |-> "paths", k |-> 0], [n |-> "input", k |-> 0], [n |-> "inputs", k |-> 0], [n |-> "debug", k |-> 0], [n |-> "stderr", k |-> 0],
  [n |-> "recurse", k |-> 0], [n |-> "values", k |-> 0], [n |-> "reverse", k |-> 0], [n |-> "any", k |-> 0], [n |-> "all", k |-> 0], [n |-> "@json", k |-> 0], [n |-> "@text", k |-> 0],
  \* one child
  [n |-> "neg", k |-> 1], [n |-> "opt", k |-> 1], [n |-> "arr", k |-> 1], [n |-> "obj_val", k |-> 1], [n |-> "obj_key", k |-> 1], [n |-> "index", k |-> 1], [n |-> "slice_from", k |-> 1], [n |-> "slice_to", k |-> 1],
  [n |-> "sfx_iter", k |-> 1], [n |-> "sfx_a", k |-> 1], [n |-> "sfx_0", k |-> 1], [n |-> "try", k |-> 1], [n |-> "paren", k |-> 1], [n |-> "interp", k |-> 1], [n |-> "json_interp", k |-> 1],
  [n |-> "path", k |-> 1], [n |-> "getpath", k |-> 1], [n |-> "has", k |-> 1], [n |-> "map", k |-> 1], [n |-> "select", k |-> 1], [n |-> "error1", k |-> 1], [n |-> "range1", k |-> 1],
  [n |-> "with_entries", k |-> 1], [n |-> "split", k |-> 1], [n |-> "ltrimstr", k |-> 1], [n |-> "rtrimstr", k |-> 1], [n |-> "startswith", k |-> 1], [n |-> "endswith", k |-> 1], [n |-> "join", k |-> 1],
  [n |-> "sort_by", k |-> 1], [n |-> "group_by", k |-> 1], [n |-> "unique_by", k |-> 1], [n |-> "min_by", k |-> 1], [n |-> "max_by", k |-> 1],
  [n |-> "first1", k |-> 1], [n |-> "last1", k |-> 1], [n |-> "recurse1", k |-> 1], [n |-> "debug1", k |-> 1], [n |-> "paths1", k |-> 1], [n |-> "add1", k |-> 1], [n |-> "any1", k |-> 1], [n |-> "all1", k |-> 1],
  [n |-> "isempty", k |-> 1], [n |-> "def0", k |-> 1], [n |-> "def_rec", k |-> 1], [n |-> "label", k |-> 1], [n |-> "label_break", k |-> 1], [n |-> "in", k |-> 1],
  \* two children
  [n |-> "|", k |-> 2], [n |-> ",", k |-> 2], [n |-> "+", k |-> 2], [n |-> "-", k |-> 2], [n |-> "*", k |-> 2], [n |-> "/", k |-> 2], [n |-> "%", k |-> 2],
  [n |-> "==", k |-> 2], [n |-> "!=", k |-> 2], [n |-> "<", k |-> 2], [n |-> "<=", k |-> 2], [n |-> ">", k |-> 2], [n |-> ">=", k |-> 2], [n |-> "and", k |-> 2], [n |-> "or", k |-> 2], [n |-> "//", k |-> 2],
  [n |-> "trycatch", k |-> 2], [n |-> "as", k |-> 2], [n |-> "as_arr", k |-> 2], [n |-> "as_obj", k |-> 2], [n |-> "as_alt", k |-> 2], [n |-> "obj2", k |-> 2], [n |-> "obj_kq", k |-> 2], [n |-> "arr2", k |-> 2],
  [n |-> "slice", k |-> 2], [n |-> "sfx_index", k |-> 2], [n |-> "range2", k |-> 2], [n |-> "limit", k |-> 2], [n |-> "until", k |-> 2], [n |-> "while", k |-> 2], [n |-> "if2", k |-> 2],
  [n |-> "reduce2", k |-> 2], [n |-> "foreach2", k |-> 2], [n |-> "def_f", k |-> 2], [n |-> "def_v", k |-> 2], [n |-> "recurse2", k |-> 2], [n |-> "any2", k |-> 2], [n |-> "all2", k |-> 2],
  \* three and more
  [n |-> "if3", k |-> 3], [n |-> "ifelif", k |-> 5], [n |-> "reduce", k |-> 3], [n |-> "foreach", k |-> 3], [n |-> "foreach3", k |-> 4], [n |-> "range3", k |-> 3], [n |-> "def_fg", k |-> 3]
>>
Idx(n) == CHOOSE i \in 1 .. Len(Cons) : Cons[i].n = n
TermSfx(q, s) == AddSuffix(AsTermQ(q), s)

Mk(n, k) ==
  CASE n = "." -> Ident [] n = ".." -> RecurseQ [] n = "null" -> NullQ [] n = "true" -> TrueQ [] n = "false" -> FalseQ
    [] n = "0" -> N("0") [] n = "1" -> N("1") [] n = "2" -> N("2") [] n = "-1" -> NegQ(N("1"))
    [] n = "\"\"" -> ST("") [] n = "\"a\"" -> ST("a") [] n = "\"ab\"" -> ST("ab") [] n = "[]" -> EmptyArrQ [] n = "{}" -> ObjQ(<<>>)
    [] n = ".a" -> Fa [] n = ".b" -> FieldQ("b") [] n = ".a?" -> OptQ(Fa) [] n = ".\"a\"" -> FieldStrQ("a")
    [] n = ".[0]" -> IndexQ(N("0")) [] n = ".[-1]" -> IndexQ(NegQ(N("1"))) [] n = ".[]" -> IterAll [] n = ".[]?" -> IterOptQ
    [] n = ".[1:]" -> SliceQ(N("1"), N("1"), TRUE, FALSE) [] n = ".[:1]" -> SliceQ(N("1"), N("1"), FALSE, TRUE)
    [] n = ".a.b" -> AddSuffix(Fa, SIndexName("b")) [] n = ".a[]" -> AddSuffix(Fa, SIter) [] n = "{a}" -> ObjQ(<<[key |-> "a"]>>)
    [] n = "error" -> F0("error") [] n = "@json" -> FormatQ("@json") [] n = "@text" -> FormatQ("@text")
    [] n \in {"empty", "not", "length", "keys", "type", "add", "tostring", "tojson", "fromjson", "explode", "implode", "to_entries", "from_entries",
              "sort", "unique", "min", "max", "first", "last", "paths", "input", "inputs", "debug", "stderr", "recurse", "values", "reverse", "any", "all"} -> F0(n)
    [] n = "neg" -> NegQ(k[1]) [] n = "opt" -> OptQ(k[1]) [] n = "arr" -> ArrQ(k[1])
    [] n = "obj_val" -> ObjQ(<<KV("a", k[1])>>) [] n = "obj_key" -> ObjQ(<<KVQ(k[1], N("1"))>>)
    [] n = "index" -> IndexQ(k[1]) [] n = "slice_from" -> SliceQ(k[1], k[1], TRUE, FALSE) [] n = "slice_to" -> SliceQ(k[1], k[1], FALSE, TRUE)
    [] n = "sfx_iter" -> TermSfx(k[1], SIter) [] n = "sfx_a" -> TermSfx(k[1], SIndexName("a")) [] n = "sfx_0" -> TermSfx(k[1], SIndexQ(N("0")))
    [] n = "try" -> TryQ(k[1]) [] n = "paren" -> Paren(k[1])
    [] n = "interp" -> InterpQ(<<ST("a"), Paren(k[1]), ST("b")>>)
    [] n = "json_interp" -> FormatStrQ("@json", [queries |-> <<ST("a"), Paren(k[1])>>])
    [] n = "path" -> F1("path", k[1]) [] n = "getpath" -> F1("getpath", k[1]) [] n = "has" -> F1("has", k[1]) [] n = "map" -> F1("map", k[1])
    [] n = "select" -> F1("select", k[1]) [] n = "error1" -> F1("error", k[1]) [] n = "range1" -> F1("range", k[1])
    [] n \in {"with_entries", "split", "ltrimstr", "rtrimstr", "startswith", "endswith", "join", "sort_by", "group_by", "unique_by", "min_by", "max_by", "isempty", "in"} -> F1(n, k[1])
    [] n = "first1" -> F1("first", k[1]) [] n = "last1" -> F1("last", k[1]) [] n = "recurse1" -> F1("recurse", k[1]) [] n = "debug1" -> F1("debug", k[1])
    [] n = "paths1" -> F1("paths", k[1]) [] n = "add1" -> F1("add", k[1]) [] n = "any1" -> F1("any", k[1]) [] n = "all1" -> F1("all", k[1])
    [] n = "def0" -> DefQ(FDef("f", <<>>, k[1]), Comma(F0("f"), Pipe(F0("f"), F0("f"))))
    [] n = "def_rec" -> DefQ(FDef("f", <<>>, IfQ(Bin("<", F0("length"), N("2")), Pipe(k[1], Pipe(ArrQ(Comma(Ident, Ident)), F0("f"))), Ident)), F0("f"))
    [] n = "label" -> LabelQ("$l", k[1]) [] n = "label_break" -> LabelQ("$l", Comma(k[1], Comma(BreakQ("$l"), N("2"))))
    [] n \in {"|", ",", "+", "-", "*", "/", "%", "==", "!=", "<", "<=", ">", ">=", "and", "or", "//"} -> Bin(n, k[1], k[2])
    [] n = "trycatch" -> TryCatchQ(k[1], k[2])
    [] n = "as" -> BindQ(k[1], <<PVar("$x")>>, k[2])
    [] n = "as_arr" -> BindQ(k[1], <<PArr(<<PVar("$x"), PVar("$y")>>)>>, k[2])
    [] n = "as_obj" -> BindQ(k[1], <<PObj(<<[key |-> "a", val |-> PVar("$x")], [key_string |-> [str |-> "b"], val |-> PArr(<<PVar("$y")>>)]>>)>>, k[2])
    [] n = "as_alt" -> BindQ(k[1], <<PArr(<<PVar("$x")>>), PVar("$x")>>, k[2])
    [] n = "obj2" -> ObjQ(<<KV("a", k[1]), KV("b", k[2])>>) [] n = "obj_kq" -> ObjQ(<<KVQ(k[1], k[2])>>) [] n = "arr2" -> ArrQ(Comma(k[1], k[2]))
    [] n = "slice" -> SliceQ(k[1], k[2], TRUE, TRUE) [] n = "sfx_index" -> TermSfx(k[1], SIndexQ(k[2]))
    [] n = "range2" -> F2("range", k[1], k[2]) [] n = "limit" -> F2("limit", k[1], k[2]) [] n = "until" -> F2("until", k[1], k[2]) [] n = "while" -> F2("while", k[1], k[2])
    [] n = "recurse2" -> F2("recurse", k[1], k[2]) [] n = "any2" -> F2("any", k[1], k[2]) [] n = "all2" -> F2("all", k[1], k[2])
    [] n = "if2" -> If2Q(k[1], k[2]) [] n = "if3" -> IfQ(k[1], k[2], k[3]) [] n = "ifelif" -> IfElifQ(k[1], k[2], k[3], k[4], k[5])
    [] n = "reduce2" -> ReduceQ(k[1], PVar("$x"), N("0"), k[2]) [] n = "foreach2" -> ForeachQ(k[1], PVar("$x"), N("0"), k[2])
    [] n = "reduce" -> ReduceQ(k[1], PVar("$x"), k[2], k[3]) [] n = "foreach" -> ForeachQ(k[1], PVar("$x"), k[2], k[3])
    [] n = "foreach3" -> Foreach3Q(k[1], PArr(<<PVar("$x")>>), k[2], k[3], k[4])
    [] n = "range3" -> FuncQ("range", <<k[1], k[2], k[3]>>)
    [] n = "def_f" -> DefQ(FDef("f", <<"g">>, k[1]), F1("f", k[2]))
    [] n = "def_v" -> DefQ(FDef("f", <<"$a">>, k[1]), F1("f", k[2]))
    [] n = "def_fg" -> DefQ(FDef("f", <<"g", "$a">>, k[1]), F2("f", k[2], k[3]))

(* default child for position i of construct n: small, closed, and chosen so that the construct is exercised *)
Dflt(n, i) ==
  CASE n \in {"has", "split", "ltrimstr", "rtrimstr", "startswith", "endswith", "error1", "in"} -> IF n = "in" THEN ObjQ(<<KV("a", N("1"))>>) ELSE ST("a")
    [] n = "join" -> ST(", ")
    [] n \in {"index", "slice_from", "slice_to"} -> N("1")
    [] n = "obj_key" -> ST("a") [] n = "obj_kq" -> IF i = 1 THEN ST("a") ELSE Fa
    [] n = "getpath" -> ArrQ(Comma(ST("a"), N("0")))
    [] n \in {"range1"} -> N("2") [] n = "range2" -> IF i = 1 THEN N("0") ELSE N("2") [] n = "range3" -> IF i = 1 THEN N("0") ELSE IF i = 2 THEN N("3") ELSE N("2")
    [] n = "limit" -> IF i = 1 THEN N("1") ELSE IterAll
    [] n = "until" -> IF i = 1 THEN Bin(">", Ident, N("1")) ELSE Plus1
    [] n = "while" -> IF i = 1 THEN Bin("<", Ident, N("2")) ELSE Plus1
    [] n \in {"recurse1"} -> IterOptQ [] n = "recurse2" -> IF i = 1 THEN IterOptQ ELSE Bin("!=", Ident, N("1"))
    [] n \in {"map", "with_entries"} -> IF n = "map" THEN Plus1 ELSE Ident
    [] n \in {"select", "any1", "all1"} -> Bin("==", Ident, N("1")) [] n \in {"any2", "all2"} -> IF i = 1 THEN IterAll ELSE Bin("==", Ident, N("1"))
    [] n \in {"sort_by", "group_by", "unique_by", "min_by", "max_by"} -> Fa
    [] n \in {"first1", "last1", "isempty", "add1", "path", "paths1"} -> IF n = "paths1" THEN Bin("==", F0("type"), ST("x")) ELSE IterAll
    [] n = "debug1" -> ST("x")
    [] n \in {"slice"} -> IF i = 1 THEN N("0") ELSE N("1") [] n = "sfx_index" -> IF i = 1 THEN Ident ELSE N("0")
    [] n \in {"as", "as_arr", "as_obj", "as_alt"} -> IF i = 1 THEN Ident ELSE ArrQ(Comma(X, Ident))
    [] n \in {"reduce2", "foreach2"} -> IF i = 1 THEN IterAll ELSE Bin("+", Ident, X)
    [] n \in {"reduce", "foreach"} -> IF i = 1 THEN IterAll ELSE IF i = 2 THEN N("0") ELSE Bin("+", Ident, X)
    [] n = "foreach3" -> IF i = 1 THEN IterAll ELSE IF i = 2 THEN N("0") ELSE IF i = 3 THEN Bin("+", Ident, N("1")) ELSE ArrQ(Comma(X, Ident))
    [] n = "def_f" -> IF i = 1 THEN ArrQ(Comma(F0("g"), Pipe(F0("g"), F0("g")))) ELSE Plus1
    [] n = "def_v" -> IF i = 1 THEN ArrQ(Comma(VarQ("$a"), Ident)) ELSE IterAll
    [] n = "def_fg" -> IF i = 1 THEN ArrQ(Comma(VarQ("$a"), F0("g"))) ELSE IF i = 2 THEN Plus1 ELSE N("2")
    [] n \in {"if2", "if3", "ifelif"} -> IF i = 1 THEN Ident ELSE IF i = 2 THEN N("1") ELSE IF i = 3 THEN (IF n = "if3" THEN N("2") ELSE Fa) ELSE IF i = 4 THEN N("2") ELSE N("3")
    [] n = "trycatch" -> IF i = 1 THEN F0("error") ELSE ST("ab")      \* (N2) a catch body that does not look at the message of a built-in error
    [] n \in {"and", "or", "//", ",", "==", "!=", "<", "<=", ">", ">="} -> IF i = 1 THEN Ident ELSE N("1")
    [] n \in {"+", "-", "*", "/", "%"} -> IF i = 1 THEN Ident ELSE IF n \in {"/", "%"} THEN N("2") ELSE N("1")
    [] n = "|" -> IF i = 1 THEN Ident ELSE Plus1
    [] n \in {"obj2", "arr2"} -> IF i = 1 THEN Ident ELSE N("1")
    [] n \in {"def_rec"} -> Plus1
    [] OTHER -> Ident
Kids(n) == [i \in 1 .. Cons[Idx(n)].k |-> Dflt(n, i)]
Base(n) == Mk(n, Kids(n))
Prog(o, p, i) == IF p = 0 THEN Base(Cons[o].n)
                 ELSE Mk(Cons[o].n, [j \in 1 .. Cons[o].k |-> IF j = p THEN Base(Cons[i].n) ELSE Dflt(Cons[o].n, j)])

=============================================================================
