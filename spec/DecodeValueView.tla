-------------------------- MODULE DecodeValueView --------------------------
(***************************************************************************)
(* C08 - a decode value is indistinguishable from its JSON value in        *)
(* read-only jq.                                                           *)
(*                                                                         *)
(* Variable-free operator module.                                          *)
(*  1. tagged JSON values (no shared JsonVal.tla existed when this was     *)
(*     written, so the records are defined here);                          *)
(*  2. the abstract decode value: struct with ORDERED fields, array, or    *)
(*     scalar [actual, sym, kind], and ToValue;                            *)
(*  3. the JQValue methods of the wrappers in pkg/interp/decode.go and     *)
(*     internal/gojqx/types.go as operators on abstract values;            *)
(*  4. the same methods on plain JSON (what gojq does natively);           *)
(*  5. the mutual-consistency invariants and the method-level LAW, which   *)
(*     DecodeValueViewMC.tla checks over all small values;                 *)
(*  6. the jq-level LAW:  Results(q, v) ~ Results(q, ToValue(v))  where ~  *)
(*     is equality after the four documented normalisations FieldOrder,    *)
(*     UnderscoreKeys, NullOnNonObject, RawBytes (named operators below),  *)
(*     used by TraceView.tla to judge recorded results of the real code.   *)
(*                                                                         *)
(* Built = FALSE is the as-required layer (what the property states).      *)
(* Built = TRUE transcribes four deviations of the code as it is today     *)
(* (gojqx.Number.JQValueLength returns the signed value, gojqx.String.     *)
(* JQValueIndex returns "" outside the string, gojqx.Null errors on        *)
(* has/index/slice); TLC then finds the counterexamples to the law.        *)
(***************************************************************************)
EXTENDS Integers, Sequences, FiniteSets, TLC

CONSTANT Built

(************************** 1. tagged JSON ********************************)
\* every record has the same four fields so that TLC never compares values of different shape
\*   t: null bool num str arr obj | none (no sym) | error | ext (some readable value) | unknown (not computed here)
\*   s: text of a scalar; a number keeps its MAGNITUDE in s and its sign in k (<<"-">>)
\*   k: object keys in the order given;  e: array elements / object member values
J(t, s)   == [t |-> t, s |-> s, k |-> <<>>, e |-> <<>>]
JNull     == J("null", "null")
JTrue     == J("bool", "true")
JFalse    == J("bool", "false")
JBool(b)  == IF b THEN JTrue ELSE JFalse
JNum(mag) == J("num", mag)
JNeg(mag) == [t |-> "num", s |-> mag, k |-> <<"-">>, e |-> <<>>]
JInt(i)   == IF i < 0 THEN JNeg(ToString(0 - i)) ELSE JNum(ToString(i))
JStr(s)   == J("str", s)
JArr(es)  == [t |-> "arr", s |-> "", k |-> <<>>, e |-> es]
JObj(ks, es) == [t |-> "obj", s |-> "", k |-> ks, e |-> es]
NoSym     == J("none", "")
Err       == J("error", "")
Readable  == J("ext", "")        \* an underscore key: some non-error value this module does not compute
Unknown   == J("unknown", "")    \* a value this module does not compute (characters of an arbitrary string)
Anything  == J("any", "")        \* value or error, not computed here (tonumber of an arbitrary string)
IsErr(x)  == x.t = "error"
IsNeg(j)  == j.t = "num" /\ j.k = <<"-">>
JAbs(j)   == JNum(j.s)

Range(f) == {f[i] : i \in DOMAIN f}
IndexOf(seq, x) == CHOOSE i \in DOMAIN seq : seq[i] = x

\* equality of JSON values with objects compared as maps (the model keeps struct fields in input order)
RECURSIVE JEq(_, _)
JEq(a, b) ==
    /\ a.t = b.t
    /\ CASE a.t = "arr" -> /\ Len(a.e) = Len(b.e)
                           /\ \A i \in DOMAIN a.e : JEq(a.e[i], b.e[i])
         [] a.t = "obj" -> /\ Len(a.k) = Len(b.k)
                           /\ \A i \in DOMAIN a.k : \E j \in DOMAIN b.k : b.k[j] = a.k[i] /\ JEq(a.e[i], b.e[j])
         [] OTHER       -> a.s = b.s /\ a.k = b.k
\* "fits": like JEq but Unknown / Readable on the model side match anything that is not an error
RECURSIVE Fits(_, _)
Fits(model, obs) ==
    IF model.t = "unknown" \/ model.t = "ext" THEN ~IsErr(obs)
    ELSE /\ model.t = obs.t
         /\ CASE model.t = "arr" -> /\ Len(model.e) = Len(obs.e)
                                    /\ \A i \in DOMAIN model.e : Fits(model.e[i], obs.e[i])
              [] model.t = "obj" -> /\ Len(model.k) = Len(obs.k)
                                    /\ \A i \in DOMAIN model.k : \E j \in DOMAIN obs.k : obs.k[j] = model.k[i] /\ Fits(model.e[i], obs.e[j])
              [] OTHER           -> model.s = obs.s /\ model.k = obs.k
SeqFits(ms, os) == Len(ms) = Len(os) /\ \A i \in DOMAIN ms : Fits(ms[i], os[i])

\* sequences as bags (TLC has no order on strings or records, so "sorted" is never computed)
Count(seq, x) == Cardinality({i \in DOMAIN seq : seq[i] = x})
BagEq(a, b) == Len(a) = Len(b) /\ \A x \in Range(a) \cup Range(b) : Count(a, x) = Count(b, x)

(********************* 2. the abstract decode value ***********************)
\* [t: struct|array|scalar, names (struct: field names in INPUT order), kids, kind, a (actual), sym, desc, gap, syn, bits, inv,
\*  nroot (the value is the root of a nested buffer, as gzip's uncompressed or an ogg packet)]
V(t, names, kids, kind, a, sym) ==
    [t |-> t, names |-> names, kids |-> kids, kind |-> kind, a |-> a, sym |-> sym,
     desc |-> "", gap |-> FALSE, syn |-> FALSE, bits |-> "", inv |-> FALSE, nroot |-> FALSE]
Sc(kind, a, sym) == V("scalar", <<>>, <<>>, kind, a, sym)
St(names, kids)  == V("struct", names, kids, "", NoSym, NoSym)
Ar(kids)         == V("array", <<>>, kids, "", NoSym, NoSym)
Kinds == {"uint", "sint", "big", "flt", "str", "bool", "null", "any", "raw"}

\* "the value of a scalar is its symbolic value if it has one and otherwise its actual value"
ScalarValue(v) == IF v.sym.t # "none" THEN v.sym ELSE v.a

RECURSIVE ToValue(_)
ToValue(v) ==
    CASE v.t = "scalar" -> ScalarValue(v)
      [] v.t = "array"  -> JArr([i \in DOMAIN v.kids |-> ToValue(v.kids[i])])
      [] v.t = "struct" -> JObj(v.names, [i \in DOMAIN v.kids |-> ToValue(v.kids[i])])
Views(v) == [i \in DOMAIN v.kids |-> ToValue(v.kids[i])]

RECURSIVE HasInvalidRaw(_)
HasInvalidRaw(v) == IF v.t = "scalar" THEN v.kind = "raw" /\ v.inv /\ v.sym.t = "none"
                    ELSE \E i \in DOMAIN v.kids : HasInvalidRaw(v.kids[i])
\* some struct with at least two fields is visible (at the top / anywhere): field order can show
TopOrder(v) == v.t = "struct" /\ Len(v.kids) >= 2
RECURSIVE DeepOrder(_)
DeepOrder(v) == TopOrder(v) \/ (v.t # "scalar" /\ \E i \in DOMAIN v.kids : DeepOrder(v.kids[i]))
\* a scalar of kind any whose value is an object with several keys (gojqx.Object iterates a Go map)
RECURSIVE HasAnyObj(_)
HasAnyObj(v) == IF v.t = "scalar" THEN ScalarValue(v).t = "obj" /\ Len(ScalarValue(v).k) >= 2
                ELSE \E i \in DOMAIN v.kids : HasAnyObj(v.kids[i])

(*************** 3. the JQValue methods, per wrapper **********************)
\* wrapper of v: StructDecodeValue, ArrayDecodeValue, or decodeValue{gojqx.Number|String|Boolean|Null|Array|Object|Lazy}
JType(j) == CASE j.t = "num" -> "number" [] j.t = "str" -> "string" [] j.t = "bool" -> "boolean"
              [] j.t = "null" -> "null" [] j.t = "arr" -> "array" [] j.t = "obj" -> "object" [] OTHER -> "?"
SV(v) == ScalarValue(v)
Type(v) == IF v.t = "struct" THEN "object" ELSE IF v.t = "array" THEN "array" ELSE JType(SV(v))

ExtKeys == {"_actual", "_bits", "_buffer_root", "_bytes", "_description", "_error", "_format_root", "_format", "_gap",
            "_index", "_len", "_name", "_out", "_parent", "_path", "_root", "_start", "_stop", "_sym"}

\* characters of the strings the generator uses (TLC cannot index a string)
CharTable == [s \in {"abc", "ab", "12", "five"} |->
                CASE s = "abc" -> <<"a", "b", "c">> [] s = "ab" -> <<"a", "b">> [] s = "12" -> <<"1", "2">>
                  [] s = "five" -> <<"f", "i", "v", "e">>]
CharAt(s, i) == IF s \in DOMAIN CharTable THEN JStr(CharTable[s][i]) ELSE Unknown
StrSlice(s, a, b) == IF a = b THEN JStr("") ELSE IF a = 0 /\ b = Len(s) THEN JStr(s)
                     ELSE IF b = a + 1 THEN CharAt(s, a + 1) ELSE Unknown

\* number of elements for slicing/indexing (JQValueSliceLen), -1 = error
SLen(v) ==
    IF v.t # "scalar" THEN Len(v.kids)         \* StructDecodeValue answers too; its Index/Slice then fail (gojqx.Base)
    ELSE CASE SV(v).t = "str"  -> Len(SV(v).s)
           [] SV(v).t = "arr"  -> Len(SV(v).e)
           [] SV(v).t = "null" -> IF Built THEN -1 ELSE 0
           [] OTHER            -> -1
SliceLen(v) == IF SLen(v) < 0 THEN Err ELSE JInt(SLen(v))

Length(v) ==
    IF v.t # "scalar" THEN JInt(Len(v.kids))
    ELSE CASE SV(v).t = "num"  -> IF Built THEN SV(v) ELSE JAbs(SV(v))
           [] SV(v).t = "str"  -> JInt(Len(SV(v).s))
           [] SV(v).t = "null" -> JInt(0)
           [] SV(v).t = "arr"  -> JInt(Len(SV(v).e))
           [] SV(v).t = "obj"  -> JInt(Len(SV(v).k))
           [] OTHER            -> Err            \* boolean

\* JQValueIndex(i): 0 <= i < SLen, or i < 0 meaning "outside"
Index(v, i) ==
    CASE v.t = "struct" -> Err
      [] v.t = "array"  -> IF i < 0 THEN JNull ELSE ToValue(v.kids[i + 1])
      [] OTHER -> CASE SV(v).t = "str"  -> IF i < 0 THEN (IF Built THEN JStr("") ELSE JNull) ELSE CharAt(SV(v).s, i + 1)
                    [] SV(v).t = "arr"  -> IF i < 0 THEN JNull ELSE SV(v).e[i + 1]
                    [] SV(v).t = "null" -> IF Built THEN Err ELSE JNull
                    [] OTHER            -> Err
\* JQValueSlice(a, b): 0 <= a <= b <= SLen
Slice(v, a, b) ==
    CASE v.t = "struct" -> Err
      [] v.t = "array"  -> JArr(SubSeq(Views(v), a + 1, b))
      [] OTHER -> CASE SV(v).t = "str"  -> StrSlice(SV(v).s, a, b)
                    [] SV(v).t = "arr"  -> JArr(SubSeq(SV(v).e, a + 1, b))
                    [] SV(v).t = "null" -> IF Built THEN Err ELSE JNull
                    [] OTHER            -> Err
\* JQValueEach / JQValueKeys: a JSON array, or Err
Each(v) ==
    IF v.t # "scalar" THEN JArr(Views(v))
    ELSE CASE SV(v).t = "arr" -> JArr(SV(v).e) [] SV(v).t = "obj" -> JArr(SV(v).e) [] OTHER -> Err
Keys(v) ==
    CASE v.t = "struct" -> JArr([i \in DOMAIN v.names |-> JStr(v.names[i])])
      [] v.t = "array"  -> JArr([i \in DOMAIN v.kids |-> JInt(i - 1)])
      [] OTHER -> CASE SV(v).t = "arr" -> JArr([i \in DOMAIN SV(v).e |-> JInt(i - 1)])
                    [] SV(v).t = "obj" -> JArr([i \in DOMAIN SV(v).k |-> JStr(SV(v).k[i])])
                    [] OTHER           -> Err
KeyNames(v) == IF v.t = "struct" THEN Range(v.names) ELSE IF v.t = "scalar" /\ SV(v).t = "obj" THEN Range(SV(v).k) ELSE {}
IsObjectLike(v) == v.t = "struct" \/ (v.t = "scalar" /\ SV(v).t = "obj")
IsArrayLike(v)  == v.t = "array" \/ (v.t = "scalar" /\ SV(v).t = "arr")
\* JQValueHas with a string / an integer key
HasStr(v, s) ==
    IF IsObjectLike(v) THEN JBool(s \in KeyNames(v) \cup ExtKeys)
    ELSE IF v.t = "scalar" /\ SV(v).t = "null" /\ ~Built THEN JFalse
    ELSE Err
HasInt(v, i) ==
    IF IsArrayLike(v) THEN JBool(0 <= i /\ i < SLen(v))
    ELSE IF v.t = "scalar" /\ SV(v).t = "null" /\ ~Built THEN JFalse
    ELSE Err
\* the underscore keys this module computes; the others are only known to be readable
ExtVal(v, s) ==
    CASE s = "_actual"      -> IF v.t = "scalar" THEN v.a ELSE JNull
      [] s = "_sym"         -> IF v.t = "scalar" /\ v.sym.t # "none" THEN v.sym ELSE JNull
      [] s = "_description" -> IF v.t = "scalar" /\ v.desc # "" THEN JStr(v.desc) ELSE IF v.t = "scalar" THEN JNull ELSE Readable
      [] s = "_gap"         -> JBool(v.t = "scalar" /\ v.gap)
      [] OTHER              -> Readable
\* JQValueKey(name): never an error on a decode value
Key(v, s) ==
    IF s \in KeyNames(v)
    THEN IF v.t = "struct" THEN ToValue(v.kids[IndexOf(v.names, s)]) ELSE SV(v).e[IndexOf(SV(v).k, s)]
    ELSE IF s \in ExtKeys THEN ExtVal(v, s) ELSE JNull
ToNumber(v) == IF v.t = "scalar" /\ SV(v).t = "num" THEN SV(v)
               ELSE IF v.t = "scalar" /\ SV(v).t = "str" THEN (IF SV(v).s = "12" THEN JNum("12") ELSE Anything) ELSE Err
ToStringM(v) == IF v.t = "scalar" /\ SV(v).t = "str" THEN SV(v) ELSE Unknown
ToGoJQ(v)   == ToValue(v)

\* what jq's `.[i]` and `.[a:b]` make of the methods (gojq funcIndex2 / sliceJQValue)
Clamp(i, lo, hi) == LET j == IF i < 0 THEN i + hi ELSE i IN IF j < lo THEN lo ELSE IF j > hi THEN hi ELSE j
JqIndex(v, i) ==
    IF SLen(v) < 0 THEN Err
    ELSE LET n == SLen(v)
             j == IF i < 0 THEN i + n ELSE i
         IN IF j < 0 \/ j >= n THEN Index(v, -1) ELSE Index(v, j)
\* hs / he: whether the bound is present
JqSlice(v, hs, s, he, e) ==
    IF SLen(v) < 0 THEN Err
    ELSE LET n == SLen(v)
             a == IF hs THEN Clamp(s, 0, n) ELSE 0
             b == IF he THEN Clamp(e, a, n) ELSE n
         IN Slice(v, a, b)

(****************** 4. the same on plain JSON (gojq natively) *************)
NType(j) == JType(j)
NLength(j) == CASE j.t = "num" -> JAbs(j) [] j.t = "str" -> JInt(Len(j.s)) [] j.t = "null" -> JInt(0)
                [] j.t = "arr" -> JInt(Len(j.e)) [] j.t = "obj" -> JInt(Len(j.k)) [] OTHER -> Err
NKeysBag(j) == CASE j.t = "arr" -> JArr([i \in DOMAIN j.e |-> JInt(i - 1)])
                 [] j.t = "obj" -> JArr([i \in DOMAIN j.k |-> JStr(j.k[i])])     \* gojq sorts; compared as a bag
                 [] OTHER -> Err
NEachBag(j) == IF j.t = "arr" \/ j.t = "obj" THEN JArr(j.e) ELSE Err
NHasStr(j, s) == CASE j.t = "obj" -> JBool(s \in Range(j.k)) [] j.t = "null" -> JFalse [] OTHER -> Err
NHasInt(j, i) == CASE j.t = "arr" -> JBool(0 <= i /\ i < Len(j.e)) [] j.t = "null" -> JFalse [] OTHER -> Err
NKey(j, s) == CASE j.t = "obj" -> IF s \in Range(j.k) THEN j.e[IndexOf(j.k, s)] ELSE JNull
                [] j.t = "null" -> JNull [] OTHER -> Err
NIndex(j, i) ==
    CASE j.t = "null" -> JNull
      [] j.t = "arr" -> LET n == Len(j.e) k == IF i < 0 THEN i + n ELSE i IN IF k < 0 \/ k >= n THEN JNull ELSE j.e[k + 1]
      [] j.t = "str" -> LET n == Len(j.s) k == IF i < 0 THEN i + n ELSE i IN IF k < 0 \/ k >= n THEN JNull ELSE CharAt(j.s, k + 1)
      [] OTHER -> Err
NSlice(j, hs, s, he, e) ==
    CASE j.t = "null" -> JNull
      [] j.t = "arr" -> LET n == Len(j.e) a == IF hs THEN Clamp(s, 0, n) ELSE 0 b == IF he THEN Clamp(e, a, n) ELSE n
                        IN JArr(SubSeq(j.e, a + 1, b))
      [] j.t = "str" -> LET n == Len(j.s) a == IF hs THEN Clamp(s, 0, n) ELSE 0 b == IF he THEN Clamp(e, a, n) ELSE n
                        IN StrSlice(j.s, a, b)
      [] OTHER -> Err

(******* 5. mutual consistency of the methods, and the method-level law ***)
TestKeys == {"a", "b", "zz", "_name", "_actual", "gap0"}
TestInts == -3 .. 3
ArrBagEq(x, y) == (IsErr(x) /\ IsErr(y)) \/ (~IsErr(x) /\ ~IsErr(y) /\ BagEq(x.e, y.e))

Consistent(v) ==
    /\ v.t = "struct" =>                                  \* Keys = names in order
          Keys(v) = JArr([i \in DOMAIN v.names |-> JStr(v.names[i])])
    /\ IsObjectLike(v) => \A s \in TestKeys :             \* Has(k) <=> k \in Keys \cup ExtKeys
          (HasStr(v, s) = JTrue) <=> (s \in KeyNames(v) \cup ExtKeys)
    /\ v.t # "scalar" => Length(v) = JInt(Len(Each(v).e)) \* Length = Len(Each)
    /\ v.t = "struct" =>                                  \* ToGoJQ = [k \in Keys |-> ToValue(Key(k))], Each in Keys order
          /\ JEq(ToGoJQ(v), JObj(v.names, [i \in DOMAIN v.names |-> Key(v, v.names[i])]))
          /\ \A i \in DOMAIN v.names : Each(v).e[i] = Key(v, v.names[i])
    /\ v.t = "array" =>
          /\ \A i \in 0 .. (Len(v.kids) - 1) : Index(v, i) = Each(v).e[i + 1]     \* Index(i) = Each[i+1]
          /\ ToGoJQ(v) = Each(v)
          /\ \A i \in TestInts : (HasInt(v, i) = JTrue) <=> (JInt(i) \in Range(Keys(v).e))
          /\ \A a \in 0 .. Len(v.kids) : \A b \in a .. Len(v.kids) : Slice(v, a, b) = JArr(SubSeq(Each(v).e, a + 1, b))
          /\ SliceLen(v) = Length(v)
    /\ Type(v) = JType(ToValue(v))
    /\ \A s \in ExtKeys : ~IsErr(Key(v, s))               \* underscore keys are readable on every decode value
    /\ (IsObjectLike(v) /\ KeyNames(v) \cap ExtKeys = {}) => \A s \in ExtKeys : JStr(s) \notin Range(Keys(v).e)   \* and hidden from keys

\* the four documented differences, at the level of single methods
MethodLaw(v) ==
    LET j == ToValue(v) IN
    /\ Type(v) = NType(j)
    /\ Length(v) = NLength(j)
    /\ ArrBagEq(Keys(v), NKeysBag(j))                                   \* FieldOrder
    /\ ArrBagEq(Each(v), NEachBag(j))                                   \* FieldOrder
    /\ \A s \in TestKeys : IF s \in ExtKeys THEN IsErr(HasStr(v, s)) => IsErr(NHasStr(j, s))     \* UnderscoreKeys
                           ELSE HasStr(v, s) = NHasStr(j, s)
    /\ \A i \in TestInts : HasInt(v, i) = NHasInt(j, i)
    /\ \A i \in TestInts : JqIndex(v, i) = NIndex(j, i)
    /\ \A s \in {-1, 0, 1, 2} : \A e \in {-1, 0, 1, 5} : \A hs \in BOOLEAN : \A he \in BOOLEAN :
          JqSlice(v, hs, s, he, e) = NSlice(j, hs, s, he, e)
    /\ \A s \in TestKeys : IF s \in ExtKeys THEN ~IsErr(Key(v, s))                              \* UnderscoreKeys
                           ELSE IF IsErr(NKey(j, s)) THEN Key(v, s) = JNull                     \* NullOnNonObject
                           ELSE Key(v, s) = NKey(j, s)

(******************* 6. the jq-level law and its normalisations ***********)
\* A recorded result:  [err |-> an error was raised, out |-> outputs before it]
\* A query (DecodeValueViewQ.tla):
\*   [id, text, shape (the family member the query belongs to; names the finding signature),
\*    ord   : "none" | "stream" (outputs follow iteration order) | "array" (the elements of each output array do)
\*            | "derived" (the result is computed from the iteration order in some other way: first, join, tostream),
\*    deep  : iteration order of nested structs shows too,
\*    key   : <<>> or the string-key path looked up,  nk: the result when that lookup yields null,  opt: `?` form,
\*    ext   : reads underscore keys,  bytes: exposes bytes / JSON text of strings,
\*    m, ia, ib, sa : the method this query is a direct view of, with its arguments (model layer)]

\* NullOnNonObject applies when walking the key path reaches a decode value that is neither an object nor null
RECURSIVE NonObjectOnPath(_, _)
NonObjectOnPath(v, path) ==
    IF Len(path) = 0 THEN FALSE
    ELSE IF IsObjectLike(v)
         THEN IF v.t = "struct" /\ path[1] \in Range(v.names)
              THEN NonObjectOnPath(v.kids[IndexOf(v.names, path[1])], Tail(path))
              ELSE FALSE         \* a missing key yields null (or a plain JSON value of an any-object): nothing of a decode value left
         ELSE ~(v.t = "scalar" /\ SV(v).t = "null")

\* which documented difference may show for (q, v); "eq" = none, results must be identical
Rel(q, v) ==
    IF q.ext THEN "ext"
    ELSE IF Len(q.key) > 0 /\ NonObjectOnPath(v, q.key) THEN "nullkey"
    ELSE IF q.bytes /\ HasInvalidRaw(v) THEN "bytes"
    ELSE IF q.ord # "none" /\ (IF q.deep THEN DeepOrder(v) ELSE TopOrder(v)) THEN q.ord
    ELSE "eq"

Same(a, b) == a.err = b.err /\ a.out = b.out

\* FieldOrder: struct fields iterate in input order rather than sorted -> compare as permutations
FieldOrder(q, a, b) ==
    /\ a.err = b.err
    /\ CASE q.ord = "stream"  -> BagEq(a.out, b.out)
         [] q.ord = "array"   -> /\ Len(a.out) = Len(b.out)
                                 /\ \A i \in DOMAIN a.out :
                                       IF a.out[i].t = "arr" /\ b.out[i].t = "arr" THEN BagEq(a.out[i].e, b.out[i].e)
                                       ELSE a.out[i] = b.out[i]
         [] q.ord = "derived" -> Len(a.out) = Len(b.out)
\* UnderscoreKeys: underscore-prefixed extra keys are readable on v (whatever the JSON side says)
\* (reading one never fails; `has` with such a key still fails where `has` itself does not apply, as on a number)
\* (reading one from the decode value itself never fails; `has` with such a key still fails where `has` does not apply,
\*  as on a number, and the elements of a scalar holding a JSON array are plain JSON values)
UnderscoreKeys(q, a, b) == IF q.m = "key" \/ q.id \in {"ext_parent_name", "ext_root_type"} THEN ~a.err ELSE ~a.err \/ Same(a, b)
\* NullOnNonObject: string-key lookup on a non-object yields null on v, an error on the JSON side
NullOnNonObject(q, a, b) ==
    /\ ~a.err /\ a.out = <<q.nk>>
    /\ IF q.opt THEN ~b.err /\ b.out = <<>> ELSE b.err /\ b.out = <<>>
\* RawBytes: raw-bit fields keep bytes that are not valid UTF-8 (the JSON text / byte view of such a string differs)
RawBytes(q, a, b) == a.err = b.err /\ Len(a.out) = Len(b.out) /\ \A i \in DOMAIN a.out : a.out[i].t = b.out[i].t

Documented(q, v, a, b) ==
    LET r == Rel(q, v) IN
    CASE r = "eq"      -> Same(a, b)
      [] r = "ext"     -> UnderscoreKeys(q, a, b)
      [] r = "nullkey" -> NullOnNonObject(q, a, b)
      [] r = "bytes"   -> RawBytes(q, a, b) \/ Same(a, b)
      [] OTHER         -> FieldOrder(q, a, b)

\* the part of the property that no comparison of the two sides can see:
\*  - tovalue is sym-else-actual, structs as objects, arrays as arrays
\*  - struct fields iterate in INPUT order on the decode value
ToValueOK(q, v, b) == (q.m = "identity") => (~b.err /\ Len(b.out) = 1 /\ JEq(ToValue(v), b.out[1]))
InputOrderOK(q, v, a) ==
    v.t = "struct" =>
      CASE q.m = "keys"       -> ~a.err /\ a.out = <<Keys(v)>>
        [] q.m = "each"       -> ~a.err /\ SeqFits(Views(v), a.out)
        [] q.m = "eacharr"    -> ~a.err /\ Len(a.out) = 1 /\ Fits(JArr(Views(v)), a.out[1])
        [] q.m = "to_entries" -> ~a.err /\ Len(a.out) = 1 /\ a.out[1].t = "arr" /\ Len(a.out[1].e) = Len(v.kids)
                                 /\ \A i \in DOMAIN v.kids :
                                       Fits(JObj(<<"key", "value">>, <<JStr(v.names[i]), ToValue(v.kids[i])>>), a.out[1].e[i])
        [] q.m = "first"      -> IF Len(v.kids) = 0 THEN ~a.err /\ a.out = <<>> ELSE ~a.err /\ SeqFits(<<ToValue(v.kids[1])>>, a.out)
        [] OTHER              -> TRUE

\*  - "there can be keys hidden from keys and []" (doc/usage.md): on an object-like decode value the underscore keys exist
\*    (has answers true) although keys does not list them
ExtHasOK(q, v, a) == (q.m = "has_s" /\ q.sa \in ExtKeys /\ IsObjectLike(v)) => (~a.err /\ a.out = <<JTrue>>)

Accept(q, v, a, b) == Documented(q, v, a, b) /\ ToValueOK(q, v, b) /\ InputOrderOK(q, v, a) /\ ExtHasOK(q, v, a)

\* classification of a rejected observation: query shape, difference class, value class
VClass(v) ==
    CASE v.t = "struct" -> "struct" [] v.t = "array" -> "array"
      [] OTHER -> LET j == SV(v) IN
                  CASE j.t = "num"  -> IF IsNeg(j) THEN (IF j.s = "9223372036854775808" THEN "minint64" ELSE "negnum") ELSE "num"
                    [] j.t = "str"  -> IF v.kind = "raw" /\ v.sym.t = "none" THEN "raw" ELSE "str"
                    [] j.t = "bool" -> "bool" [] j.t = "null" -> "null"
                    [] j.t = "arr"  -> "anyarr" [] j.t = "obj" -> "anyobj" [] OTHER -> "other"
Flat(r) == [err |-> r.err, out |-> r.out]
DiffClass(q, v, a, b) ==
    IF ~ToValueOK(q, v, b) THEN "tovalue"
    ELSE IF Documented(q, v, a, b) THEN (IF InputOrderOK(q, v, a) THEN "underscore_key_missing" ELSE "input_order")
    ELSE IF Rel(q, v) = "nullkey" THEN "null_on_non_object"
    ELSE IF Rel(q, v) = "ext" THEN (IF v.nroot /\ q.sa \in {"_bits", "_bytes"} THEN "nested_root_bits" ELSE "underscore_key_unreadable")
    ELSE IF HasAnyObj(v) /\ q.ord # "none" /\ a.err = b.err THEN "order_anyobj"     \* gojqx.Object walks a Go map
    ELSE IF a.err /\ ~b.err THEN "dv_error"
    ELSE IF b.err /\ ~a.err THEN "jv_error"
    ELSE IF Len(a.out) # Len(b.out) THEN "count"
    ELSE IF FieldOrder([ord |-> "stream"], a, b) \/ FieldOrder([ord |-> "array"], a, b)
         THEN (IF HasAnyObj(v) THEN "order_anyobj" ELSE "order")
    ELSE "value"
\* signature = query shape . difference class . value class (one root cause keeps one signature across spellings)
RejectSig(q, v, a, b) ==
    LET c == DiffClass(q, v, a, b) IN
    IF c = "order_anyobj" THEN "view.any_object_iteration_order"
    ELSE IF c = "nested_root_bits" THEN "view.underscore_bits_of_nested_root"
    ELSE "view." \o q.shape \o "." \o c \o "." \o VClass(v)

\* model layer (as built, drift only): the dv-side result of a query that is a direct view of one method
Model(q, v) ==
    CASE q.m = "type"     -> <<JStr(Type(v))>>
      [] q.m = "length"   -> <<Length(v)>>
      [] q.m = "keys"     -> <<Keys(v)>>
      [] q.m = "has_s"    -> <<HasStr(v, q.sa)>>
      [] q.m = "has_i"    -> <<HasInt(v, q.ia)>>
      [] q.m = "index"    -> <<JqIndex(v, q.ia)>>
      [] q.m = "slice_ab" -> <<JqSlice(v, TRUE, q.ia, TRUE, q.ib)>>
      [] q.m = "slice_a"  -> <<JqSlice(v, TRUE, q.ia, FALSE, 0)>>
      [] q.m = "slice_b"  -> <<JqSlice(v, FALSE, 0, TRUE, q.ib)>>
      [] q.m = "key"      -> <<Key(v, q.sa)>>
      [] q.m = "tonumber" -> <<ToNumber(v)>>
      [] q.m = "tostring" -> <<ToStringM(v)>>
      [] q.m = "identity" -> <<ToGoJQ(v)>>
      [] OTHER            -> <<>>
HasModel(q) == q.m \in {"type", "length", "keys", "has_s", "has_i", "index", "slice_ab", "slice_a", "slice_b", "key",
                        "tonumber", "tostring", "identity"}
\* TLC's Len is only trusted on the ASCII strings of the generator (it does not count code points of other strings)
KnownAscii == {"", "abc", "ab", "12", "five", "neg", "big", "half", "yes", "nil", "sym", "a`", "x"}
Modelable(q, v) == ~(/\ v.t = "scalar" /\ SV(v).t = "str" /\ SV(v).s \notin KnownAscii
                     /\ q.m \in {"length", "index", "slice_a", "slice_b", "slice_ab"})
\* the model result is one value or Err; the observation is one output or an error
ModelFits(q, v, a) ==
    LET m == Model(q, v)[1] IN
    IF ~Modelable(q, v) \/ m.t = "any" THEN TRUE
    ELSE IF IsErr(m) THEN a.err ELSE ~a.err /\ Len(a.out) = 1 /\ Fits(m, a.out[1])
=============================================================================
