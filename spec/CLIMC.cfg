SPECIFICATION Spec
CONSTANTS MaxInputs = 4
 MaxInputsEach = 4
 Kinds = {"A", "B", "U", "M", "D"}
 ProgSet = {"id", "failB", "nocompile", "collect", "haltB"}
 Modes = {"each", "slurp", "raw", "rawslurp"}
INVARIANT ExitOK
INVARIANT OutOK
INVARIANT Independence
INVARIANT Deterministic
INVARIANT SameAsFunction
PROPERTY MemoryMonotone
