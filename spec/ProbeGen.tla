------------------------------ MODULE ProbeGen ------------------------------
(* GEN: every scenario of 1..MaxN formats with the result the as-built definitions of Probe.tla predict *)
EXTENDS Probe, Json
Emit == PrintT(ToJson([s |-> s, want |-> Expect(s)]))
=============================================================================
