---------------------------- MODULE ReadWrite64 ----------------------------
(***************************************************************************)
(* C01, as built: pkg/bitio Read64 / Write64, one action per loop          *)
(* iteration, one disjunct per branch of the code.  Bits are SYMBOLIC:     *)
(* bit i of the buffer is the integer i (Read64), bit j of the value v is  *)
(* the integer -(j) counted from its most significant written bit, so one  *)
(* run proves the bit movement for every content.  The accumulator n of    *)
(* Read64 is the sequence of bit ids shifted in so far (a uint64 holds the *)
(* low 64 of them).                                                        *)
(* Required: Read64(buf, fb, nb) = bits fb .. fb+nb-1 of buf, in order;    *)
(* Write64 puts the nb low bits of v at fb .. fb+nb-1 and leaves every     *)
(* other bit of buf unchanged.                                             *)
(***************************************************************************)
EXTENDS Integers, Sequences, TLC

CONSTANTS MaxFirst,     \* first bit 0 .. MaxFirst
          MaxBits       \* nBits 0 .. MaxBits (64)

VARIABLES op, fb, nb, bitPos, bitsLeft, n, buf, pc
vars == <<op, fb, nb, bitPos, bitsLeft, n, buf, pc>>

BufBits == 8 * ((MaxFirst + MaxBits) \div 8 + 2)
Byte(p) == [i \in 1 .. 8 |-> 8 * p + i - 1]                 \* symbolic bits of byte p of the original buffer
Low(s, k) == SubSeq(s, Len(s) - k + 1, Len(s))              \* x & ((1<<k)-1) on a bit sequence
High(s, k) == SubSeq(s, 1, k)                               \* x >> (Len-k)
Low64(s) == IF Len(s) > 64 THEN Low(s, 64) ELSE s

Init == /\ op \in {"read", "write"}
        /\ fb \in 0 .. MaxFirst /\ nb \in 0 .. MaxBits
        /\ bitPos = fb /\ bitsLeft = nb /\ n = <<>> /\ pc = "loop"
        /\ buf = [i \in 1 .. BufBits |-> i - 1]             \* old content: bit i holds id i (>= 0)

\* value bits of v still to be written: ids -1 (most significant of the nb low bits) .. -nb
VBit(j) == 0 - j
VSlice(from, k) == [i \in 1 .. k |-> VBit(from + i - 1)]    \* k bits of v starting at its from-th written bit (1-based)
Put(b, at, bits) == [i \in 1 .. Len(b) |-> IF i >= at + 1 /\ i <= at + Len(bits) THEN bits[i - at] ELSE b[i]]   \* at: 0-based bit index

bytePos == bitPos \div 8
byteBitPos == bitPos % 8
written == nb - bitsLeft                                     \* bits of v already placed

(* ---- Read64 ---- *)
RAlignedWhole ==       \* byteBitPos == 0 && bitsLeft&7 == 0: the eight switch arms are one concatenation of whole bytes
    /\ op = "read" /\ pc = "loop" /\ bitsLeft > 0 /\ byteBitPos = 0 /\ bitsLeft % 8 = 0
    /\ n' = IF bitsLeft = 64 THEN [i \in 1 .. 64 |-> bitPos + i - 1]        \* case 7: n = be.Uint64(nBuf)
            ELSE Low64(n \o [i \in 1 .. bitsLeft |-> bitPos + i - 1])     \* n<<8k | bytes
    /\ pc' = "done" /\ UNCHANGED <<op, fb, nb, bitPos, bitsLeft, buf>>
RAlignedByte ==        \* aligned, bitsLeft >= 8 (not a multiple of 8)
    /\ op = "read" /\ pc = "loop" /\ bitsLeft > 0 /\ byteBitPos = 0 /\ bitsLeft % 8 # 0 /\ bitsLeft >= 8
    /\ n' = Low64(n \o Byte(bytePos)) /\ bitPos' = bitPos + 8 /\ bitsLeft' = bitsLeft - 8
    /\ UNCHANGED <<op, fb, nb, buf, pc>>
RAlignedTail ==        \* aligned, bitsLeft < 8: n<<bitsLeft | b>>(8-bitsLeft)
    /\ op = "read" /\ pc = "loop" /\ bitsLeft > 0 /\ byteBitPos = 0 /\ bitsLeft < 8
    /\ n' = Low64(n \o High(Byte(bytePos), bitsLeft))
    /\ pc' = "done" /\ UNCHANGED <<op, fb, nb, bitPos, bitsLeft, buf>>
RUnalignedHead ==      \* unaligned, reaches the end of the byte: n<<k | b&((1<<k)-1)
    /\ op = "read" /\ pc = "loop" /\ bitsLeft > 0 /\ byteBitPos # 0
    /\ LET k == (8 - byteBitPos) % 8 IN
       /\ bitsLeft >= k
       /\ n' = Low64(n \o Low(Byte(bytePos), k)) /\ bitPos' = bitPos + k /\ bitsLeft' = bitsLeft - k
    /\ UNCHANGED <<op, fb, nb, buf, pc>>
RUnalignedInside ==    \* unaligned, ends inside the byte: n<<bitsLeft | (b&((1<<k)-1))>>(k-bitsLeft)
    /\ op = "read" /\ pc = "loop" /\ bitsLeft > 0 /\ byteBitPos # 0
    /\ LET k == (8 - byteBitPos) % 8 IN
       /\ bitsLeft < k
       /\ n' = Low64(n \o High(Low(Byte(bytePos), k), bitsLeft))
    /\ pc' = "done" /\ UNCHANGED <<op, fb, nb, bitPos, bitsLeft, buf>>

(* ---- Write64 ---- *)
WAlignedWhole ==       \* whole bytes: the eight arms write v's low bitsLeft bits, most significant first
    /\ op = "write" /\ pc = "loop" /\ bitsLeft > 0 /\ byteBitPos = 0 /\ bitsLeft % 8 = 0
    /\ buf' = Put(buf, bitPos, VSlice(written + 1, bitsLeft))
    /\ pc' = "done" /\ UNCHANGED <<op, fb, nb, bitPos, bitsLeft, n>>
WAlignedByte ==        \* buf[bytePos] = byte(v >> (bitsLeft-8))
    /\ op = "write" /\ pc = "loop" /\ bitsLeft > 0 /\ byteBitPos = 0 /\ bitsLeft % 8 # 0 /\ bitsLeft >= 8
    /\ buf' = Put(buf, bitPos, VSlice(written + 1, 8)) /\ bitPos' = bitPos + 8 /\ bitsLeft' = bitsLeft - 8
    /\ UNCHANGED <<op, fb, nb, n, pc>>
WAlignedTail ==        \* byte(v)<<extra | b&((1<<extra)-1): low bitsLeft bits of v on top, old low bits kept
    /\ op = "write" /\ pc = "loop" /\ bitsLeft > 0 /\ byteBitPos = 0 /\ bitsLeft < 8
    /\ buf' = Put(buf, bitPos, VSlice(written + 1, bitsLeft))
    /\ pc' = "done" /\ UNCHANGED <<op, fb, nb, bitPos, bitsLeft, n>>
WUnalignedHead ==      \* b&bMask | byte(v>>(bitsLeft-k)): old high byteBitPos bits kept, k bits of v below
    /\ op = "write" /\ pc = "loop" /\ bitsLeft > 0 /\ byteBitPos # 0
    /\ LET k == (8 - byteBitPos) % 8 IN
       /\ bitsLeft >= k
       /\ buf' = Put(buf, bitPos, VSlice(written + 1, k)) /\ bitPos' = bitPos + k /\ bitsLeft' = bitsLeft - k
    /\ UNCHANGED <<op, fb, nb, n, pc>>
WUnalignedInside ==    \* b&bMask | byte(v)<<extra with bMask keeping the bits on both sides
    /\ op = "write" /\ pc = "loop" /\ bitsLeft > 0 /\ byteBitPos # 0
    /\ LET k == (8 - byteBitPos) % 8 IN
       /\ bitsLeft < k
       /\ buf' = Put(buf, bitPos, VSlice(written + 1, bitsLeft))
    /\ pc' = "done" /\ UNCHANGED <<op, fb, nb, bitPos, bitsLeft, n>>

Exit == pc = "loop" /\ bitsLeft = 0 /\ pc' = "done" /\ UNCHANGED <<op, fb, nb, bitPos, bitsLeft, n, buf>>
Next == RAlignedWhole \/ RAlignedByte \/ RAlignedTail \/ RUnalignedHead \/ RUnalignedInside
        \/ WAlignedWhole \/ WAlignedByte \/ WAlignedTail \/ WUnalignedHead \/ WUnalignedInside \/ Exit
Spec == Init /\ [][Next]_vars

ReadRight == (pc = "done" /\ op = "read") => n = [i \in 1 .. nb |-> fb + i - 1]
WriteRight == (pc = "done" /\ op = "write") =>
                 buf = [i \in 1 .. BufBits |-> IF i - 1 >= fb /\ i - 1 < fb + nb THEN VBit(i - fb) ELSE i - 1]
\* the loop always makes progress (no stuck state before done)
Progress == pc = "loop" => ENABLED Next
=============================================================================
