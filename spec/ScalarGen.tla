------------------------------ MODULE ScalarGen ------------------------------
(***************************************************************************)
(* GEN mode for C02: TLC enumerates the exhaustive boundary family of each *)
(* reader family and prints every case WITH the value and position that    *)
(* Scalar!Expect requires.  harness/c02 replays each case on the real      *)
(* readers (every name variant, every plain/Try/Field/FieldScalar form).   *)
(*                                                                         *)
(* A case: bits placed at bit offset `al` of a buffer whose other bits are *)
(* random: `al` random bits before, `tail` random bits after (tail = 0 for *)
(* the cases that must fail because the buffer ends).                      *)
(***************************************************************************)
EXTENDS Scalar, Json
CONSTANTS Fam,     \* "int" | "int2" | "int3" | "big" | "float" | "f16all" | "fp" | "leb" | "bits" | "text" | "err"
          Thorough \* BOOLEAN
VARIABLE c

Case(k, w, f, le, al, bits, tail) == [k |-> k, w |-> w, f |-> f, le |-> le, al |-> al, bits |-> bits, tail |-> tail, cps |-> <<>>]
Endians(w) == IF w % 8 = 0 THEN BOOLEAN ELSE {FALSE}
TailN == 16

(******************************** integers *********************************)
\* (initial-state predicates instead of sets: TLC enumerates nested \E without building and normalising a big set)
IntInit  == \E w \in 1 .. 64, k \in {"U", "S"}, al \in 0 .. 7 : \E le \in Endians(w), p \in Patterns(w) : c = Case(k, w, 0, le, al, p, TailN)
\* thorough: every pattern with two ones (two alignments), and every pattern of the widths up to 10
Int2Init == \E w \in 2 .. 64, k \in {"U", "S"}, al \in {1, 6} : \E le \in Endians(w), p \in TwoOnes(w) \ Patterns(w) : c = Case(k, w, 0, le, al, p, TailN)
Int3Init == \E w \in 1 .. 10, k \in {"U", "S"}, al \in 0 .. 7 : \E le \in Endians(w), p \in AllBits(w) : c = Case(k, w, 0, le, al, p, TailN)

BigWidths == IF Thorough THEN {1, 7, 8, 9, 63, 64, 65, 127, 128, 129, 255, 256, 511, 512}
             ELSE {1, 7, 8, 9, 63, 64, 65, 127, 128, 129, 255, 256}
BigAligns == IF Thorough THEN 0 .. 7 ELSE {0, 1, 4, 7}
BigInit == \E w \in BigWidths, k \in {"UBigInt", "SBigInt"}, al \in BigAligns : \E le \in Endians(w), p \in Patterns(w) : c = Case(k, w, 0, le, al, p, TailN)

(********************************* floats **********************************)
FlAligns == IF Thorough THEN 0 .. 7 ELSE {0, 5}
MantPats(mb) == Patterns(mb) \cup {Ones(mb - 1) \o <<0>>}
ExpFields(eb) == LET bias == 2 ^ (eb - 1) - 1  emax == 2 ^ eb - 1 IN {0, 1, 2, bias - 1, bias, bias + 1, emax - 2, emax - 1, emax}
FloatBits(eb, mb) == {<<sg>> \o FromNat(e, eb) \o m : sg \in Bit, e \in ExpFields(eb), m \in MantPats(mb)}
\* 80-bit: exponent fields around every float64 range boundary, and the two D24 examples (0x4e30, 0x7005)
Exp80 == {0, 1, 2, 16383 - 1076, 16383 - 1075, 16383 - 1074, 16383 - 1023, 16383 - 1022, 16382, 16383, 16384,
          16383 + 1023, 16383 + 1024, 20016, 28677, 32766, 32767}
\* 64-bit significands: explicit integer bit; rounding boundary at bit 53 | half | rest(10)
Round80(z) == {hd \o <<l, h>> \o r : hd \in {<<1>> \o Zeros(51), Ones(52)}, l \in Bit, h \in Bit, r \in {Zeros(10), Zeros(9) \o <<1>>, Ones(10)}}
Mant80(z) == Patterns(64) \cup {<<1>> \o p : p \in Patterns(63)} \cup Round80(0)
\* exponent field 0: every significand (zero, subnormal, pseudo-denormal); otherwise the valid ones (integer bit set)
\* plus two invalid encodings (unnormal / pseudo-infinity), which are only required not to crash
F80Bits(z) == {<<sg>> \o FromNat(0, 15) \o m : sg \in Bit, m \in Mant80(0)}
              \cup {<<sg>> \o FromNat(e, 15) \o m : sg \in Bit, e \in Exp80 \ {0},
                                                    m \in {x \in Mant80(0) : x[1] = 1} \cup {Zeros(64), <<0>> \o Ones(63)}}
FloatPats(z) == FloatBits(5, 10) \cup FloatBits(8, 23) \cup FloatBits(11, 52) \cup F80Bits(0)
FloatInit == \E b \in FloatPats(0), le \in BOOLEAN, al \in FlAligns : c = Case("F", Len(b), 0, le, al, IF le THEN SwapBytes(b) ELSE b, TailN)
\* every 16-bit pattern (thorough)
F16AllCases(z) == {Case("F", 16, 0, FALSE, 0, b, TailN) : b \in AllBits(16)}

(******************************* fixed point *******************************)
Round64(z) == {hd \o <<l, h>> \o r : hd \in {<<1>> \o Zeros(51), Ones(52), Zeros(20) \o Ones(32)}, l \in Bit, h \in Bit, r \in {Zeros(10), Zeros(9) \o <<1>>, Ones(10)}}
FPShapes == {<<16, 8>>, <<32, 16>>, <<64, 32>>,                        \* FP16 / FP32 / FP64
             <<1, 0>>, <<1, 1>>, <<8, 7>>, <<13, 5>>, <<24, 12>>, <<53, 52>>, <<54, 1>>, <<63, 63>>, <<64, 0>>, <<64, 63>>}
FPPats(w) == Patterns(w) \cup (IF w = 64 THEN Round64(0) ELSE {})
FPCases(z) == UNION {{Case("FP", sh[1], sh[2], le, al, p, TailN) : le \in Endians(sh[1]), al \in FlAligns, p \in FPPats(sh[1])} : sh \in FPShapes}

(********************************** LEB128 *********************************)
G7 == {Zeros(7), Ones(7), Alt(7, 0), Alt(7, 1), Zeros(6) \o <<1>>, <<1>> \o Zeros(6)}
Last7 == {Zeros(7), Zeros(6) \o <<1>>, Zeros(5) \o <<1, 0>>, Zeros(5) \o <<1, 1>>, <<0>> \o Ones(6), <<1>> \o Zeros(6), Ones(6) \o <<0>>, Ones(7)}
\* payload (7n bits, FIRST byte's group first) -> encoded bytes with continuation bits
LEBBytes(pay, n) == FlatCat([i \in 1 .. n |-> <<IF i < n THEN 1 ELSE 0>> \o SubSeq(pay, 7 * (i - 1) + 1, 7 * i)])
RECURSIVE Rep(_, _)
Rep(g, n) == IF n = 0 THEN <<>> ELSE g \o Rep(g, n - 1)
LEBPay(n) == {Rep(g, n - 1) \o l : g \in G7, l \in Last7}
             \cup {SingleOne(7 * n, i) : i \in 1 .. 7 * n}
             \cup {Inv(SingleOne(7 * n, i)) : i \in 1 .. 7 * n}
LEBAligns == IF Thorough THEN 0 .. 7 ELSE {0, 3, 7}
LEBInit == \/ \E n \in 1 .. 10, k \in {"ULEB128", "SLEB128"}, al \in LEBAligns : \E p \in LEBPay(n) : c = Case(k, 0, 0, FALSE, al, LEBBytes(p, n), TailN)
           \/ \E k \in {"ULEB128", "SLEB128"}, al \in {0, 3}, g \in G7, g10 \in Last7, l \in Last7 :      \* 11 bytes: overflow / over-long
                  c = Case(k, 0, 0, FALSE, al, LEBBytes(Rep(g, 9) \o g10 \o l, 11), TailN)

(****************************** unary and bool *****************************)
Counts == {0, 1, 2, 6, 7, 8, 9, 15, 16, 17, 31, 32, 33, 63, 64, 65, 100}
BitsCases(z) == {Case("Unary", 0, ov, FALSE, al, [i \in 1 .. n |-> ov] \o <<1 - ov>>, TailN) : ov \in Bit, n \in Counts, al \in 0 .. 7}
             \cup {Case("Bool", 0, 0, FALSE, al, <<b>>, TailN) : b \in Bit, al \in 0 .. 7}

(*********************************** text **********************************)
\* 1-, 2-, 3-, 4-byte UTF-8 classes and their boundaries; BMP below/above the surrogate block; supplementary planes
Pool == {65, 127, 128, 233, 2047, 2048, 8364, 55295, 57344, 65533, 65535, 65536, 128512, 1114111}
Texts(z) == {<<>>} \cup {<<a>> : a \in Pool} \cup {<<a, b>> : a \in Pool, b \in Pool}
TxAligns == IF Thorough THEN 0 .. 7 ELSE {0, 5}
TCase(k, w, al, bytes, cps) == [Case(k, w, 0, FALSE, al, BitsOfBytes(bytes), TailN) EXCEPT !.cps = cps]
Junk == <<170, 85, 195>>       \* bytes after a terminator inside fixed-length forms (never decoded)
TextCasesFor(t) ==
    LET u8 == UTF8(t)  le == UTF16(t, TRUE)  be == UTF16(t, FALSE) IN
    UNION {{TCase("UTF8", Len(u8), al, u8, t),
            TCase("UTF8", Len(u8) + 3, al, BOM8 \o u8, t),
            TCase("UTF16LE", Len(le), al, le, t),
            TCase("UTF16BE", Len(be), al, be, t),
            TCase("UTF16", Len(le), al, le, t),
            TCase("UTF16", Len(le) + 2, al, BOM16LE \o le, t),
            TCase("UTF16", Len(be) + 2, al, BOM16BE \o be, t),
            TCase("UTF8Null", 0, al, u8 \o <<0>>, t),
            TCase("UTF16LENull", 0, al, le \o <<0, 0>>, t),
            TCase("UTF16BENull", 0, al, be \o <<0, 0>>, t),
            TCase("UTF16Null", 0, al, le \o <<0, 0>>, t),
            TCase("UTF8ShortString", 0, al, <<Len(u8)>> \o u8, t),
            TCase("UTF8ShortStringFixedLen", 1 + Len(u8), al, <<Len(u8)>> \o u8, t),
            TCase("UTF8ShortStringFixedLen", 4 + Len(u8), al, <<Len(u8)>> \o u8 \o Junk, t),
            TCase("UTF8ShortStringFixedLen", 1 + Len(u8), al, <<200>> \o u8, t),      \* length byte beyond the fixed size: clamped
            TCase("UTF8NullFixedLen", Len(u8), al, u8, t),
            TCase("UTF8NullFixedLen", Len(u8) + 1, al, u8 \o <<0>>, t),
            TCase("UTF8NullFixedLen", Len(u8) + 4, al, u8 \o <<0>> \o Junk, t)} : al \in TxAligns}
TextInit == \E t \in Texts(0) : c \in TextCasesFor(t)

(************************* reads that must fail ****************************)
\* the buffer ends one bit (text: one byte, or has no terminator) before the read can be satisfied
Cut(b) == SubSeq(b, 1, Len(b) - 1)
ECase(k, w, f, le, al, bits) == Case(k, w, f, le, al, bits, 0)
Fill(n, g) == FlatCat([i \in 1 .. n |-> <<1>> \o g])        \* n LEB128 continuation bytes
ErrTexts == {<<65>>, <<65, 8364>>, <<128512>>}
ErrCases(z) ==
    UNION {{ECase(k, w, 0, FALSE, al, Cut(p)) : k \in {"U", "S"}, al \in {0, 3}, p \in {Zeros(w), Ones(w)}} : w \in 1 .. 64}
    \cup {ECase(k, w, 0, TRUE, 5, Cut(Ones(w))) : k \in {"U", "S"}, w \in {8, 16, 24, 32, 40, 48, 56, 64}}
    \cup {ECase(k, w, 0, FALSE, al, Cut(Ones(w))) : k \in {"UBigInt", "SBigInt"}, w \in BigWidths, al \in {0, 3}}
    \cup {ECase("F", w, 0, le, al, Cut(Ones(w))) : w \in {16, 32, 64, 80}, le \in BOOLEAN, al \in {0, 3}}
    \cup {ECase("FP", sh[1], sh[2], le, al, Cut(Ones(sh[1]))) : sh \in {<<16, 8>>, <<32, 16>>, <<64, 32>>}, le \in BOOLEAN, al \in {0, 3}}
    \cup {ECase("Bool", 0, 0, FALSE, al, <<>>) : al \in {0, 3}}
    \cup {ECase("Unary", 0, ov, FALSE, al, [i \in 1 .. n |-> ov]) : ov \in Bit, n \in {0, 1, 8, 33}, al \in {0, 3}}
    \cup {ECase(k, 0, 0, FALSE, al, Fill(n, g) \o part) : k \in {"ULEB128", "SLEB128"}, n \in 0 .. 11, g \in {Zeros(7), Ones(7)},
                                                         part \in {<<>>, Ones(7), Zeros(7)}, al \in {0, 3}}
    \cup UNION {{ECase("UTF8", Len(UTF8(t)), 0, FALSE, al, Cut(BitsOfBytes(UTF8(t)))),
                 ECase("UTF16LE", Len(UTF16(t, TRUE)), 0, FALSE, al, Cut(BitsOfBytes(UTF16(t, TRUE)))),
                 ECase("UTF16BE", Len(UTF16(t, FALSE)), 0, FALSE, al, Cut(BitsOfBytes(UTF16(t, FALSE)))),
                 ECase("UTF16", Len(UTF16(t, TRUE)), 0, FALSE, al, Cut(BitsOfBytes(UTF16(t, TRUE)))),
                 ECase("UTF8Null", 0, 0, FALSE, al, BitsOfBytes(UTF8(t))),
                 ECase("UTF8Null", 0, 0, FALSE, al, Cut(BitsOfBytes(UTF8(t) \o <<0>>))),
                 ECase("UTF16LENull", 0, 0, FALSE, al, BitsOfBytes(UTF16(t, TRUE) \o <<0>>)),
                 ECase("UTF16BENull", 0, 0, FALSE, al, BitsOfBytes(UTF16(t, FALSE))),
                 ECase("UTF16Null", 0, 0, FALSE, al, Cut(BitsOfBytes(UTF16(t, TRUE) \o <<0, 0>>))),
                 ECase("UTF8ShortString", 0, 0, FALSE, al, Cut(BitsOfBytes(<<Len(UTF8(t))>> \o UTF8(t)))),
                 ECase("UTF8ShortString", 0, 0, FALSE, al, <<>>),
                 ECase("UTF8ShortStringFixedLen", 2 + Len(UTF8(t)), 0, FALSE, al, BitsOfBytes(<<Len(UTF8(t))>> \o UTF8(t))),
                 ECase("UTF8NullFixedLen", 1 + Len(UTF8(t)), 0, FALSE, al, BitsOfBytes(UTF8(t)))} : t \in ErrTexts, al \in {0, 3}}

(********************************* emission ********************************)
Cases == CASE Fam = "f16all" -> F16AllCases(0) [] Fam = "fp" -> FPCases(0) [] Fam = "bits" -> BitsCases(0) [] Fam = "err" -> ErrCases(0)
Out(cc) ==
    LET x == Expect(cc.k, cc.w, cc.f, cc.le, cc.bits)
        isText == cc.k \in TextKinds IN
    [k |-> cc.k, w |-> cc.w, f |-> cc.f, le |-> cc.le, al |-> cc.al, bits |-> cc.bits, tail |-> cc.tail,
     err |-> x.err, lax |-> x.lax, n |-> x.n, tag |-> x.tag,
     want |-> IF isText /\ ~x.err THEN TextV(cc.cps) ELSE x.want,
     \* self-consistency of the text part: the framing of Expect and the encoder relation agree on the generated case
     selfok |-> (isText /\ ~x.err) => Decodes(cc.k, x.body, cc.cps)]
Init == CASE Fam = "int" -> IntInit [] Fam = "int2" -> Int2Init [] Fam = "int3" -> Int3Init [] Fam = "big" -> BigInit [] Fam = "float" -> FloatInit [] Fam = "leb" -> LEBInit
          [] Fam = "text" -> TextInit [] OTHER -> c \in Cases
Next == FALSE /\ c' = c
Emit == PrintT(ToJson(Out(c)))
GSpec == Init /\ [][Next]_c
=============================================================================
