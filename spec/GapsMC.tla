------------------------------- MODULE GapsMC -------------------------------
(* MC mode: every sorted input inside the constants; one Compute step each. *)
EXTENDS Gaps
VARIABLES inp, out, pc
vars == <<inp, out, pc>>

Init == inp \in {rs \in Inputs : SortedByStart(rs)} /\ out = <<>> /\ pc = "start"
Compute == pc = "start" /\ out' = GapsOfSorted(L, inp) /\ pc' = "done" /\ UNCHANGED inp
Next == Compute
Spec == Init /\ [][Next]_vars

\* refinement: with Slack = 0 the algorithm satisfies the requirement outright
Refines == pc = "done" => AsRequired(L, inp, out)
\* as built (Slack = 1): every rejection has exactly the known single-bit-hole shape
RefinesOrKnownHole == pc = "done" => (AsRequired(L, inp, out) \/ SlackSig(L, inp, out, GapsOfSorted(L, inp)) = "gaps.merge_slack_hole")
\* the known shape is really reached as built (anti-vacuity for the classification)
HoleNeverHappens == pc = "done" => AsRequired(L, inp, out)
=============================================================================
