SPECIFICATION Spec
CONSTANTS
 ZeroQuirk = FALSE
 PPOnAbort = TRUE
 Slack = 0
 L = 8
 MaxOps = 3
 MaxDepth = 2
 Names = {"a","b"}
 Widths = {1,8}
 SeekTo = {0,5}
 FrameLens = {0,4}
 BufLens = {8}
 Force = FALSE
 AllowedWhy = {"ok","tree.range_stretched_by_empty_value_past_end"}
 Kinds = {"leaf","synth","struct","array","framed","limited","seek","seekfn","fmtrest","fmtlen","fmtrange","bitbuf","rootstruct","rootarray","fail","errorf"}
VIEW View
INVARIANT TreeOK
INVARIANT InputCovered
INVARIANT GapsDisjoint
CHECK_DEADLOCK FALSE
