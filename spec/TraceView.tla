----------------------------- MODULE TraceView -----------------------------
(* TV mode for C08. Every event is one recorded metamorphic pair from the real fq interpreter:                       *)
(*   [v  |-> the abstract description of a REAL decode value (built by the harness format, or a corpus node),        *)
(*    q  |-> query id (DecodeValueViewQ), dv |-> results of  v | q,  jv |-> results of  v | tovalue | q]            *)
(* Events are independent: a rejected event is reported with its signature and the trace position still advances.   *)
(* Verdicts come from R (as required); B is the transcription of the code as it is today and only reports DRIFT.     *)
EXTENDS Integers, Sequences, TLC, Json
CONSTANT AsBuilt            \* TRUE while internal/gojqx/types.go has the four deviations (see DecodeValueView.tla)
Trace == ndJsonDeserialize("trace.ndjson")
R == INSTANCE DecodeValueViewQ WITH Built <- FALSE
B == INSTANCE DecodeValueViewQ WITH Built <- AsBuilt
\* constant-level tables (TLC evaluates these once; an instantiated R!Queries would be rebuilt at every use)
Qs   == R!Queries
QMap == [id \in {Qs[i].id : i \in DOMAIN Qs} |-> Qs[CHOOSE i \in DOMAIN Qs : Qs[i].id = id]]
VARIABLE l
TInit == l = 1
TNext == /\ l <= Len(Trace)
         /\ LET e == Trace[l]
                q == QMap[e.q]
                a == [err |-> e.dv.err, out |-> e.dv.out]
                b == [err |-> e.jv.err, out |-> e.jv.out]
            IN /\ IF R!Accept(q, e.v, a, b) THEN TRUE ELSE PrintT(<<"REJECT", l, R!RejectSig(q, e.v, a, b)>>)
               /\ IF B!HasModel(q) /\ ~B!ModelFits(q, e.v, a) THEN PrintT(<<"DRIFT", l>>) ELSE TRUE
         /\ l' = l + 1
TSpec == TInit /\ [][TNext]_l
Consumed == TLCGet("stats").diameter - 1 = Len(Trace)
=============================================================================
