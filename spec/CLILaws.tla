------------------------------ MODULE CLILaws ------------------------------
(***************************************************************************)
(* MC mode for part (a) of CLI.tla.  A state is an argument vector; Next   *)
(* appends one token, so all vectors of length <= MaxLenFull over the full *)
(* alphabet and of length <= MaxLen over the reduced alphabet are visited  *)
(* and the invariants are evaluated on each by all workers.                *)
(*   Alphabet = "raw":    tokens are symbol sequences, including shapes    *)
(*                        outside the documented grammar; invariant Laws   *)
(*   Alphabet = "tagged": tagged tokens of documented shape; invariant     *)
(*                        Refines (transcription implements the grammar)   *)
(***************************************************************************)
EXTENDS CLI
CONSTANTS MaxLen, MaxLenFull, Alphabet
VARIABLE vec

S(str) == <<str>>
RawTokensFull == {
    <<"-", "n">>, <<"-", "r">>, <<"-", "c">>, <<"-", "-", "null-input">>, <<"-", "-", "raw-output0">>,
    <<"-", "n", "r">>, <<"-", "n", "d">>, <<"-", "d", "n">>, <<"-", "n", "X">>, <<"-", "n", "-">>, <<"-", "r", "c", "n">>,
    <<"-", "n", "=", "x">>, <<"-", "-", "slurp", "=", "x">>, <<"-", "n", "r", "=", "x">>,
    <<"-", "d">>, <<"-", "-", "decode">>, <<"-", "d", "=", "json">>, <<"-", "-", "decode", "=", "json">>, <<"-", "n", "d", "=", "json">>,
    <<"-", "L">>, <<"-", "L", "=", "p">>, <<"-", "o">>, <<"-", "o", "=", "k", "=", "v">>,
    <<"-", "h">>,
    <<"-", "-", "arg">>, <<"-", "-", "raw-file">>, <<"-", "-", "rawfile">>,
    <<"-", "-">>, <<"-", "X">>, <<"-", "-", "nope">>, <<"-", "5">>, <<"-", "0", ".", "1">>, <<"-">>,
    S("."), S("json"), <<"k", "=", "v">>, S("x") }
RawTokensReduced == {
    <<"-", "n">>, <<"-", "r">>, <<"-", "-", "null-input">>,
    <<"-", "n", "r">>, <<"-", "n", "d">>, <<"-", "d", "n">>, <<"-", "n", "X">>,
    <<"-", "n", "=", "x">>,
    <<"-", "d">>, <<"-", "d", "=", "json">>, <<"-", "-", "decode", "=", "json">>, <<"-", "n", "d", "=", "json">>,
    <<"-", "o">>, <<"-", "L", "=", "p">>, <<"-", "h">>,
    <<"-", "-", "arg">>,
    <<"-", "-">>, <<"-", "X">>, <<"-", "5">>,
    S("."), S("json"), <<"k", "=", "v">> }

\* tagged tokens of documented shape
FlagS(names) == LET t == Tok("flag", names, "short", "", FALSE, <<>>, "", <<>>) IN [t EXCEPT !.sym = RenderFlag(t)]
FlagSI(names, val) == LET t == Tok("flag", names, "short", "", TRUE, val, "", <<>>) IN [t EXCEPT !.sym = RenderFlag(t)]
FlagL(name, spell) == LET t == Tok("flag", <<name>>, "long", spell, FALSE, <<>>, "", <<>>) IN [t EXCEPT !.sym = RenderFlag(t)]
FlagLI(name, spell, val) == LET t == Tok("flag", <<name>>, "long", spell, TRUE, val, "", <<>>) IN [t EXCEPT !.sym = RenderFlag(t)]
Val(sym) == Tok("val", <<>>, "", "", FALSE, <<>>, "", sym)
Pos(sym) == Tok("pos", <<>>, "", "", FALSE, <<>>, "", sym)
DD == Tok("dd", <<>>, "", "", FALSE, <<>>, "", <<"-", "-">>)
Bad(cls, sym) == Tok("bad", <<>>, "", "", FALSE, <<>>, cls, sym)
TaggedTokensFull == {
    FlagS(<<"null_input">>), FlagS(<<"raw_string">>), FlagS(<<"compact">>), FlagS(<<"slurp">>),
    FlagL("null_input", "null-input"), FlagL("null_output", "raw-output0"), FlagL("null_output", "nul-output"),
    FlagS(<<"null_input", "raw_string">>), FlagS(<<"raw_string", "null_input">>), FlagS(<<"slurp", "compact", "string_input">>),
    FlagS(<<"decode_group">>), FlagL("decode_group", "decode"), FlagSI(<<"decode_group">>, S("json")),
    FlagLI("decode_group", "decode", S("json")), FlagS(<<"null_input", "decode_group">>), FlagSI(<<"null_input", "decode_group">>, S("json")),
    FlagS(<<"include_path">>), FlagSI(<<"include_path">>, S("p")), FlagS(<<"option">>), FlagSI(<<"option">>, <<"compact", "=", "true">>),
    FlagLI("option", "option", <<"compact", "=", "false">>), FlagS(<<"expr_file">>),
    FlagL("arg", "arg"), FlagL("argjson", "argjson"), FlagL("raw_file", "raw-file"), FlagL("raw_file", "rawfile"),
    Val(S("json")), Val(S("x")), Val(<<"compact", "=", "true">>), Val(S("id.jq")),
    Pos(S(".")), Pos(S("a.json")), Pos(<<"-", "5">>), Pos(<<"-", "0", ".", "1">>), Pos(<<"-", "n">>),
    DD,
    Bad("unknown", <<"-", "X">>), Bad("unknown", <<"-", "-", "nope">>), Bad("unknown", <<"-", "n", "X">>),
    Bad("boolval", <<"-", "n", "=", "1">>), Bad("boolval", <<"-", "-", "slurp", "=", "x">>), Bad("boolval", <<"-", "n", "r", "=", "x">>) }
TaggedTokensReduced == {
    FlagS(<<"null_input">>), FlagS(<<"raw_string">>), FlagL("null_output", "raw-output0"),
    FlagS(<<"null_input", "raw_string">>),
    FlagS(<<"decode_group">>), FlagLI("decode_group", "decode", S("json")), FlagS(<<"null_input", "decode_group">>),
    FlagSI(<<"option">>, <<"compact", "=", "true">>), FlagS(<<"include_path">>),
    FlagL("arg", "arg"), FlagL("raw_file", "rawfile"),
    Val(S("json")), Val(S("x")),
    Pos(S(".")), Pos(<<"-", "5">>), Pos(<<"-", "n">>),
    DD,
    Bad("unknown", <<"-", "n", "X">>), Bad("boolval", <<"-", "n", "=", "1">>) }

Red == IF Alphabet = "raw" THEN RawTokensReduced ELSE TaggedTokensReduced
Full == (IF Alphabet = "raw" THEN RawTokensFull ELSE TaggedTokensFull) \cup Red
Init == vec = <<>>
Next == \E t \in Full :
            /\ \/ Len(vec) < MaxLenFull
               \/ Len(vec) < MaxLen /\ t \in Red /\ \A i \in 1 .. Len(vec) : vec[i] \in Red
            /\ vec' = Append(vec, t)
Spec == Init /\ [][Next]_vec

\* ---- invariants over raw vectors --------------------------------------------
LawsHold == Laws(vec)
L1 == LawCombine(vec)
L2 == LawInline(vec)
L3 == LawPermute(vec)
L4 == LawDashDash(vec)
L5 == LawNegNum(vec)
L6 == LawErrors(vec)
\* ---- invariants over tagged vectors -----------------------------------------
TagsOK == \A i \in 1 .. Len(vec) : WellTaggedTok(vec[i])
\* the transcription implements the documented grammar, except for the one known hole: jq's --rawfile spelling
Refines == RefinesIntent(vec)
RefinesOrKnownSpelling == RefinesIntent(vec) \/ UsesJqSpelling(vec)
\* anti-vacuity probes, expected VIOLATED
NeverOkIntent == Intent(vec).st # "ok" \/ Len(vec) < MaxLenFull
NeverArgErr == Intent(vec).st # "argerr" \/ Len(vec) < MaxLenFull
NeverJqSpellingHole == RefinesIntent(vec)
=============================================================================
