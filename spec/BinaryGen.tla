----------------------------- MODULE BinaryGen -----------------------------
(* GEN / SIM mode for C09: emit expression trees with jq text and the value *)
(* Binary.tla predicts.  A behaviour grows one tree: it starts at a literal *)
(* (or literal array) and every step wraps the tree in one operation or in  *)
(* an array.  GEN = exhaustive search of this graph (every tree of at most  *)
(* Depth operation layers is a state, Emit prints it); SIM = random walks   *)
(* through the same graph with richer pools and larger Depth.               *)
EXTENDS Binary, Json, FiniteSets

CONSTANTS Depth,      \* number of operation layers above the leaves
          BoundsPos,  \* index / slice bounds >= 0
          BoundsNeg,  \* magnitudes of the negative index / slice bounds (cfg files cannot hold negative numbers)
          Pads,       \* tobits(n) / tobytes(n) arguments
          ArrLen,     \* max length of literal arrays of atoms
          Rich,       \* TRUE: larger literal pools
          ArrAt       \* arrays are built around computed values of at most this many operation layers

Bounds == BoundsPos \cup {0 - k : k \in BoundsNeg}

(******************************* literal pools *****************************)
StrLits == {Lit(VStr(<<>>), "\"\""), Lit(VStr(<<97>>), "\"a\""), Lit(VStr(<<97, 98>>), "\"ab\"")}
         \cup (IF Rich THEN {Lit(VStr(<<195, 169, 122>>), "\"\\u00e9z\"")} ELSE {})
IntLits == {Lit(VNat(k), ToString(k)) : k \in {0, 1, 5, 255, 256}}
BigLits == {Lit(VNum(<<1>> \o Zeros(32)), "4294967296"),
            Lit(VNum(<<1>> \o Zeros(63) \o <<1>>), "18446744073709551617")}
BadLits == {Lit(VNeg(<<1>>), "-1"), Lit(VNum(<<1>>), "1.9"), Lit(VNum(<<0>>), "-0.5"),
            Lit(VNull, "null"), Lit(VObj, "{}")}
         \cup (IF Rich THEN {Lit(VBool, "true"), Lit(VNum(NatBits(255)), "255.9"), Lit(VNum(NatBits(256)), "256.5"),
                             Lit(VNeg(<<1>>), "-1.5")} ELSE {})
\* numbers that reach the conversion as big integers (everything read out of a binary is one) after arithmetic: the byte-range boundary
\* from both sides, negative ones included (an int literal takes another path through the member check than a big integer does)
ByteOfA == "(\"a\"|tobytes|.[0])"                                        \* 97 as a big integer
ComputedLits == {Lit(VNat(2), "(" \o ByteOfA \o " - 95)"), Lit(VNat(255), "(" \o ByteOfA \o " + 158)"), Lit(VNat(256), "(" \o ByteOfA \o " + 159)"),
                 Lit(VNeg(<<1, 1>>), "(" \o ByteOfA \o " - 100)"), Lit(VNeg(NatBits(255)), "(" \o ByteOfA \o " - 352)"),
                 Lit(VNeg(NatBits(256)), "(" \o ByteOfA \o " - 353)")}
Atoms   == StrLits \cup IntLits \cup BigLits \cup BadLits \cup ComputedLits
\* members of literal arrays: the byte-range boundary, strings, one value of each rejected kind
Members == StrLits \cup IntLits \cup BadLits \cup ComputedLits \cup (IF Rich THEN BigLits ELSE {})
ArrLits == UNION {{ArrE(s) : s \in [1 .. n -> Members]} : n \in 0 .. ArrLen}
         \cup {ArrE(<<ArrE(<<Lit(VNat(1), "1"), Lit(VStr(<<97>>), "\"a\"")>>), Lit(VNat(5), "5")>>),
               ArrE(<<ArrE(<<>>), ArrE(<<ArrE(<<Lit(VNat(255), "255")>>)>>)>>),
               ArrE(<<ArrE(<<Lit(VNat(256), "256")>>)>>)}
Leaves  == Atoms \cup ArrLits

(******************************** operations *******************************)
ConvOpSet == {Op0("tobits"), Op0("tobytes"), Op0("tobitsrange"), Op0("tobytesrange"), Op0("to_hex")}
           \cup {Op1("tobitsn", p) : p \in Pads} \cup {Op1("tobytesn", p) : p \in Pads}
SliceOps  == {Op("slice", a, b, TRUE, TRUE) : a \in Bounds, b \in Bounds}
           \cup {Op("slice", a, 0, TRUE, FALSE) : a \in Bounds}
           \cup {Op("slice", 0, b, FALSE, TRUE) : b \in Bounds}
BinOpSet  == SliceOps \cup {Op1("index", i) : i \in Bounds}
           \cup {Op0(o) : o \in {"bits", "bytes", "tonumber", "tostring", "explode", "size", "start", "stop", "unit", "length"}}

Good(x)   == EvalB(x).t \notin {"err", "skip"}
Side      == {Lit(VNat(5), "5"), Lit(VStr(<<97>>), "\"a\""), Lit(VNat(256), "256")}

RECURSIVE Height(_)
RECURSIVE MaxH(_, _)
Max2(a, b)  == IF a > b THEN a ELSE b
MaxH(es, i) == IF i > Len(es) THEN 0 ELSE Max2(Height(es[i]), MaxH(es, i + 1))
Height(x)   == CASE x.k = "lit" -> 0 [] x.k = "arr" -> MaxH(x.es, 1) [] x.k = "op" -> 1 + Height(x.e)

VARIABLE e
Init == e \in Leaves
\* type-directed wrapping: operations defined only on binaries are applied only to binaries (elsewhere the
\* property is silent), conversions to every value that is not already an error; a computed value can be put
\* into an array alone, before / after a literal member, or twice
Next == /\ Height(e) < Depth
        /\ Good(e)
        /\ \/ \E o \in ConvOpSet : e' = OpE(o, e)
           \/ EvalB(e).t = "bin" /\ \E o \in BinOpSet : e' = OpE(o, e)
           \/ e.k = "op" /\ Height(e) <= ArrAt /\ \E s \in Side : e' \in {ArrE(<<e>>), ArrE(<<e, s>>), ArrE(<<s, e>>), ArrE(<<e, e>>)}
Spec == Init /\ [][Next]_e

Case(x) == [txt |-> Txt(x), pred |-> EvalB(x)]
Emit    == IF EvalB(e).t = "skip" THEN TRUE ELSE PrintT(ToJson(Case(e)))
\* SIM: TLC evaluates a CONSTRAINT on every candidate successor, so the walk prints from its next-state action
\* instead (once per state actually visited); only the deeper trees, the shallow ones are covered by GEN
EmitSim == IF Height(e) < 2 \/ EvalB(e).t = "skip" THEN TRUE ELSE PrintT(ToJson(Case(e)))
\* successors are picked uniformly, so the 600+ slices would crowd out everything else: a walk sees three random
\* slices and two random indices per state (RandomElement draws from TLC's seeded generator)
RB == RandomElement(Bounds)
SimBinOps == {Op("slice", RB, RB, TRUE, TRUE), Op("slice", RB, 0, TRUE, FALSE), Op("slice", 0, RB, FALSE, TRUE),
              Op1("index", RB), Op1("index", RB)}
             \cup {Op0(o) : o \in {"bits", "bytes", "tonumber", "tostring", "explode", "size", "start", "stop", "unit", "length"}}
SimNext == /\ EmitSim
           /\ Height(e) < Depth
           /\ Good(e)
           /\ \/ \E o \in ConvOpSet : e' = OpE(o, e)
              \/ EvalB(e).t = "bin" /\ \E o \in SimBinOps : e' = OpE(o, e)
              \/ e.k = "op" /\ Height(e) <= ArrAt /\ \E s \in Side : e' \in {ArrE(<<e>>), ArrE(<<e, s>>), ArrE(<<s, e>>), ArrE(<<e, e>>)}
SimSpec == Init /\ [][SimNext]_e
=============================================================================
