\* quick: MaxLen = 7 (19 587 sequences); thorough: MaxLen = 8 (105 201 sequences)
SPECIFICATION GSpec
CONSTANTS MaxPush = 4
 MaxLen = 7
 Parents = "top"
CONSTRAINT Emit
CHECK_DEADLOCK FALSE
