------------------------------- MODULE Binary -------------------------------
(***************************************************************************)
(* C09 - the reference bit-string model of fq binaries.                    *)
(*                                                                         *)
(* A binary is  [bits, unit, start]:  the bits of its range (MSB first),   *)
(* its unit (1 = bits, 8 = bytes) and the bit offset of the range inside   *)
(* the buffer it was sliced from (only .start/.stop can see it).           *)
(* Everything else a jq program can observe is derived from these three.   *)
(*                                                                         *)
(* Values are tagged records (TLC cannot compare an int with a string):    *)
(*   [t|->"bin", bits, unit, start]   [t|->"num", neg, bits]               *)
(*   [t|->"str", bytes]   [t|->"arr", v]   [t|->"null"] "obj" "bool"       *)
(*   [t|->"err"]   the expression raises a jq error                        *)
(*   [t|->"skip"]  the property says nothing (e.g. .[1] of a jq string)    *)
(* Numbers are sign + normalised magnitude bits (<<0>> is zero), so values *)
(* beyond 2^31 never touch TLC integers.  A float is represented by its    *)
(* truncation toward zero (that is the only thing a binary can see of it). *)
(* The module is variable-free; BinaryMC / BinaryGen / TraceBinary use it. *)
(***************************************************************************)
EXTENDS Integers, Sequences, TLC

(****************************** bit sequences ******************************)
Zeros(n)     == [i \in 1 .. n |-> 0]
Sub(s, a, n) == [i \in 1 .. n |-> s[a + i]]           \* n bits from 0-based offset a
Pow2(n)      == CASE n = 0 -> 1 [] n = 1 -> 2 [] n = 2 -> 4 [] n = 3 -> 8 [] n = 4 -> 16
                  [] n = 5 -> 32 [] n = 6 -> 64 [] n = 7 -> 128 [] n = 8 -> 256
ByteBit(b, j)   == (b \div Pow2(7 - j)) % 2            \* bit j (0 = MSB) of byte b
BytesToBits(bs) == [i \in 1 .. 8 * Len(bs) |-> ByteBit(bs[((i - 1) \div 8) + 1], (i - 1) % 8)]
Byte8(s, a)     == (s[a + 1] * 128) + (s[a + 2] * 64) + (s[a + 3] * 32) + (s[a + 4] * 16)
                   + (s[a + 5] * 8) + (s[a + 6] * 4) + (s[a + 7] * 2) + s[a + 8]
PadRight8(s)    == s \o Zeros((8 - (Len(s) % 8)) % 8)
BitsToBytes(s)  == [i \in 1 .. Len(s) \div 8 |-> Byte8(s, 8 * (i - 1))]   \* Len(s) multiple of 8
\* index of the first 1 (Len+1 if none); recursion instead of CHOOSE keeps it linear
RECURSIVE Lead(_, _)
Lead(s, i) == IF i > Len(s) THEN i ELSE IF s[i] = 1 THEN i ELSE Lead(s, i + 1)
Norm(s)    == LET k == Lead(s, 1) IN IF k > Len(s) THEN <<0>> ELSE Sub(s, k - 1, Len(s) - k + 1)
RECURSIVE NatBits(_)
NatBits(k) == IF k < 2 THEN <<k>> ELSE Append(NatBits(k \div 2), k % 2)
HexDigit(n) == IF n < 10 THEN 48 + n ELSE 87 + n       \* ascii of lower-case hex digit
CeilDiv(a, b) == (a + b - 1) \div b

(********************************* values **********************************)
VBin(bits, unit, start) == [t |-> "bin", bits |-> bits, unit |-> unit, start |-> start]
VNum(bits)   == [t |-> "num", neg |-> FALSE, bits |-> bits]
VNeg(bits)   == [t |-> "num", neg |-> TRUE, bits |-> bits]
VNat(k)      == VNum(NatBits(k))
VStr(bytes)  == [t |-> "str", bytes |-> bytes]
VArr(v)      == [t |-> "arr", v |-> v]
VNull        == [t |-> "null"]
VObj         == [t |-> "obj"]
VBool        == [t |-> "bool"]
VErr         == [t |-> "err"]
VSkip        == [t |-> "skip"]
IsBin(v)     == v.t = "bin"
Units(b)     == Len(b.bits) \div b.unit                 \* length in the binary's own unit (floor)

(*********************** conversion to a bit string ************************)
\* result: [ok |-> TRUE, bits] or [ok |-> FALSE, v |-> VErr / VSkip]
Ok(bits) == [ok |-> TRUE, bits |-> bits]
No(v)    == [ok |-> FALSE, v |-> v]
RECURSIVE BitsOf(_, _)
RECURSIVE CatRange(_, _, _)
\* concatenation of the (successful) member results rs[lo..hi]; divide and conquer keeps long arrays cheap
CatRange(rs, lo, hi) ==
    IF lo > hi THEN <<>>
    ELSE IF lo = hi THEN rs[lo].bits
    ELSE LET mid == (lo + hi) \div 2 IN CatRange(rs, lo, mid) \o CatRange(rs, mid + 1, hi)
CatMembers(vs) ==
    LET rs == [i \in 1 .. Len(vs) |-> BitsOf(vs[i], TRUE)] IN
    IF \E i \in 1 .. Len(rs) : ~rs[i].ok THEN No(VErr)                \* any bad member fails the whole array
    ELSE Ok(CatRange(rs, 1, Len(rs)))
BitsOf(v, inArr) ==
    CASE v.t = "bin" -> Ok(v.bits)                                   \* binary as is (pad and unit are not part of it)
      [] v.t = "str" -> Ok(BytesToBits(v.bytes))                     \* UTF-8 bytes
      [] v.t = "num" ->
           IF inArr THEN                                             \* array member: one byte, 0..255 only
                IF (v.neg /\ v.bits # <<0>>) \/ Len(v.bits) > 8 THEN No(VErr)
                ELSE Ok(Zeros(8 - Len(v.bits)) \o v.bits)
           ELSE IF v.neg THEN No(VSkip)                              \* property: non-negative integers only
           ELSE Ok(v.bits)                                           \* minimal bits; 0 is one zero bit
      [] v.t = "arr" -> CatMembers(v.v)
      [] OTHER -> No(VErr)                                           \* null, object, boolean: not convertible

(******************************* operations ********************************)
\* An operation is a record [op, a, b, ha, hb] (a,b integers; ha,hb say whether a slice bound is present).
Op(op, a, b, ha, hb) == [op |-> op, a |-> a, b |-> b, ha |-> ha, hb |-> hb]
Op0(op)     == Op(op, 0, 0, FALSE, FALSE)
Op1(op, a)  == Op(op, a, 0, TRUE, FALSE)

\* tobits / tobytes family: unit, keep the source range?, pad to a multiple of `padUnits` units
Conv(v, unit, keep, padUnits) ==
    LET r == BitsOf(v, FALSE) IN
    IF ~r.ok THEN r.v
    ELSE IF keep THEN VBin(r.bits, unit, IF IsBin(v) THEN v.start ELSE 0)
    ELSE LET m == IF unit * padUnits = 0 THEN unit ELSE unit * padUnits
             p == (m - (Len(r.bits) % m)) % m
         IN VBin(Zeros(p) \o r.bits, unit, 0)                        \* zero padding in FRONT (most significant)

\* jq index clamping (gojq clampIndex)
Clamp(i, lo, hi) == LET j == IF i < 0 THEN i + hi ELSE i IN IF j < lo THEN lo ELSE IF j < hi THEN j ELSE hi

UnitAt(b, j) == VNum(Norm(Sub(b.bits, j * b.unit, b.unit)))          \* j-th unit as an unsigned number

Index(b, i) == LET n == Units(b)
                   j == IF i < 0 THEN i + n ELSE i
               IN IF j < 0 \/ j >= n THEN VNull ELSE UnitAt(b, j)

Slice(b, o) == LET n == Units(b)
                   s == IF o.ha THEN Clamp(o.a, 0, n) ELSE 0
                   e == IF o.hb THEN Clamp(o.b, s, n) ELSE n
               IN VBin(Sub(b.bits, s * b.unit, (e - s) * b.unit), b.unit, b.start + s * b.unit)

ToHex(v) == LET r == BitsOf(v, FALSE) IN
            IF ~r.ok THEN r.v
            ELSE LET by == BitsToBytes(PadRight8(r.bits)) IN              \* zero padding at the END
                 VStr([i \in 1 .. 2 * Len(by) |->
                        LET x == by[(i + 1) \div 2] IN HexDigit(IF (i % 2) = 1 THEN x \div 16 ELSE x % 16)])

ConvOps == {"tobits", "tobytes", "tobitsrange", "tobytesrange", "tobitsn", "tobytesn", "to_hex"}
BinOps  == {"index", "slice", "bits", "bytes", "tonumber", "tostring", "explode",
            "size", "start", "stop", "unit", "length"}

Apply(o, v) ==
    IF v.t \in {"err", "skip"} THEN v
    ELSE CASE o.op = "tobits"       -> Conv(v, 1, FALSE, 0)
      [] o.op = "tobytes"      -> Conv(v, 8, FALSE, 0)
      [] o.op = "tobitsrange"  -> Conv(v, 1, TRUE, 0)
      [] o.op = "tobytesrange" -> Conv(v, 8, TRUE, 0)
      [] o.op = "tobitsn"      -> IF o.a < 0 THEN VSkip ELSE Conv(v, 1, FALSE, o.a)
      [] o.op = "tobytesn"     -> IF o.a < 0 THEN VSkip ELSE Conv(v, 8, FALSE, o.a)
      [] o.op = "to_hex"       -> ToHex(v)
      [] o.op \in BinOps /\ ~IsBin(v) -> VSkip                        \* plain jq semantics, not this property
      [] o.op = "index"    -> Index(v, o.a)
      [] o.op = "slice"    -> Slice(v, o)
      [] o.op = "bits"     -> VBin(v.bits, 1, v.start)
      [] o.op = "bytes"    -> VBin(v.bits, 8, v.start)
      [] o.op = "tonumber" -> VNum(Norm(v.bits))                      \* bits as unsigned big-endian
      [] o.op = "tostring" -> VStr(BitsToBytes(PadRight8(v.bits)))    \* byte view: zero padding at the END
      [] o.op = "explode"  -> VArr([j \in 1 .. Units(v) |-> UnitAt(v, j - 1)])
      [] o.op = "size"     -> VNat(Units(v))                          \* floor
      [] o.op = "length"   -> VNat(Units(v))
      [] o.op = "start"    -> VNat(v.start \div v.unit)               \* floor
      [] o.op = "stop"     -> VNat(CeilDiv(v.start + Len(v.bits), v.unit))   \* rounds up
      [] o.op = "unit"     -> VNat(v.unit)

(**************************** expression trees *****************************)
\* [k|->"lit", v, txt]   [k|->"arr", es]   [k|->"op", o, e]
Lit(v, txt) == [k |-> "lit", v |-> v, txt |-> txt]
ArrE(es)    == [k |-> "arr", es |-> es]
OpE(o, e)   == [k |-> "op", o |-> o, e |-> e]

RECURSIVE EvalB(_)
EvalB(e) ==
    CASE e.k = "lit" -> e.v
      [] e.k = "arr" ->
           LET vs == [i \in 1 .. Len(e.es) |-> EvalB(e.es[i])] IN
           IF \E i \in 1 .. Len(vs) : vs[i].t = "skip" THEN VSkip
           ELSE IF \E i \in 1 .. Len(vs) : vs[i].t = "err" THEN VErr
           ELSE VArr(vs)
      [] e.k = "op" -> Apply(e.o, EvalB(e.e))

(* jq program text of an expression *)
OpTxt(o) ==
    CASE o.op = "tobitsn"  -> "tobits(" \o ToString(o.a) \o ")"
      [] o.op = "tobytesn" -> "tobytes(" \o ToString(o.a) \o ")"
      [] o.op = "index"    -> ".[" \o ToString(o.a) \o "]"
      [] o.op = "slice"    -> ".[" \o (IF o.ha THEN ToString(o.a) ELSE "") \o ":" \o (IF o.hb THEN ToString(o.b) ELSE "") \o "]"
      [] o.op \in {"bits", "bytes", "size", "start", "stop", "unit"} -> "." \o o.op
      [] OTHER -> o.op
RECURSIVE Txt(_)
RECURSIVE JoinTxt(_, _)
JoinTxt(es, i) == IF i > Len(es) THEN "" ELSE (IF i > 1 THEN "," ELSE "") \o Txt(es[i]) \o JoinTxt(es, i + 1)
Txt(e) ==
    CASE e.k = "lit" -> e.txt
      [] e.k = "arr" -> "[" \o JoinTxt(e.es, 1) \o "]"
      [] e.k = "op"  -> "(" \o Txt(e.e) \o "|" \o OpTxt(e.o) \o ")"       \* `|` binds weaker than `,`

(* well-formedness of a model value; every value EvalB builds satisfies it (checked by BinaryMC) *)
IsBits(s)   == \A i \in 1 .. Len(s) : s[i] \in {0, 1}
IsNormal(s) == Len(s) >= 1 /\ IsBits(s) /\ (s[1] = 1 \/ Len(s) = 1)
RECURSIVE WF(_)
WF(v) == CASE v.t = "bin" -> IsBits(v.bits) /\ v.unit \in {1, 8} /\ v.start >= 0
           [] v.t = "num" -> IsNormal(v.bits)
           [] v.t = "str" -> \A i \in 1 .. Len(v.bytes) : v.bytes[i] \in 0 .. 255
           [] v.t = "arr" -> \A i \in 1 .. Len(v.v) : WF(v.v[i])
           [] OTHER -> TRUE
=============================================================================
