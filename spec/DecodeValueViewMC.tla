------------------------- MODULE DecodeValueViewMC -------------------------
(* MC:  every small abstract decode value satisfies the mutual-consistency invariants of the JQValue methods, the *)
(*      method-level law, and the jq-level law for the queries that are direct views of one method (model side).  *)
(* GEN: emits (value description, query text, expected relation) for every value of GenValues x every query.     *)
EXTENDS DecodeValueViewQ, Json

(***************************** scalar atoms *******************************)
Syn(x)            == [x EXCEPT !.syn = TRUE]
Raw(text, bits)   == [Sc("raw", JStr(text), NoSym) EXCEPT !.bits = bits]
BitsABC           == "011000010110001001100011"
U5                == Sc("uint", JNum("5"), NoSym)
U5five            == Sc("uint", JNum("5"), JStr("five"))
SAbc              == Sc("str", JStr("abc"), NoSym)

\* every scalar kind, with and without a symbolic value (sym of every JSON scalar type)
Atoms == <<
    U5, U5five,
    Sc("uint", JNum("7"), JNum("3")), Sc("uint", JNum("0"), NoSym), Sc("uint", JNum("7"), JFalse), Sc("uint", JNum("7"), JNum("1.5")),
    Sc("sint", JNeg("5"), NoSym), Sc("sint", JNeg("5"), JStr("neg")), Sc("sint", JNum("7"), JNeg("2")),
    Sc("big", JNum("18446744073709551616"), NoSym), Sc("big", JNum("18446744073709551616"), JStr("big")),
    Sc("big", JNeg("18446744073709551616"), NoSym), Sc("big", JNum("5"), NoSym),
    Sc("flt", JNum("1.5"), NoSym), Sc("flt", JNeg("0.5"), JStr("half")), Sc("flt", JNum("3"), NoSym),
    SAbc, Sc("str", JStr("abc"), JStr("ab")), Sc("str", JStr(""), NoSym), Sc("str", JStr("12"), NoSym), Sc("str", JStr("12"), JNum("12")),
    Sc("bool", JTrue, NoSym), Sc("bool", JFalse, NoSym), Sc("bool", JTrue, JStr("yes")), Sc("bool", JFalse, JNum("0")),
    Syn(Sc("null", JNull, NoSym)), Syn(Sc("null", JNull, JStr("nil"))),
    Syn(Sc("any", JArr(<<JNum("1"), JStr("a")>>), NoSym)), Syn(Sc("any", JObj(<<"a">>, <<JNum("1")>>), NoSym)),
    Syn(Sc("any", JObj(<<"a", "b">>, <<JStr("x"), JNum("1")>>), NoSym)),
    \* members that are present but null / false / empty: presence is not truth
    Syn(Sc("any", JObj(<<"a", "b">>, <<JNull, JNum("1")>>), NoSym)), Syn(Sc("any", JObj(<<"a", "b">>, <<JFalse, JStr("")>>), NoSym)),
    Syn(Sc("any", JArr(<<JNull, JNum("0")>>), NoSym)),
    Raw("abc", BitsABC), [Raw("abc", BitsABC) EXCEPT !.sym = JStr("sym")], Raw("a`", "011000010110"),
    Syn(U5), Syn(Sc("str", JStr("five"), NoSym)), [U5 EXCEPT !.desc = "five things"], [U5five EXCEPT !.desc = "five things"]
>>
NA == Len(Atoms)
RawGap == [Raw("abc", BitsABC) EXCEPT !.gap = TRUE]
NR(val) == [val EXCEPT !.nroot = TRUE]          \* the value as the root of a nested buffer

(************************ GEN: values of depth <= 2 ***********************)
Depth1 ==
    [i \in 1 .. NA |-> St(<<"b", "a">>, <<Atoms[i], U5>>)] \o         \* fields in an order that is not the sorted one
    [i \in 1 .. NA |-> St(<<"a", "b">>, <<Atoms[i], U5>>)] \o
    [i \in 1 .. NA |-> Ar(<<Atoms[i], U5>>)] \o
    << St(<<>>, <<>>), Ar(<<>>), St(<<"a">>, <<U5>>), Ar(<<U5>>), Ar(<<U5, U5five, SAbc>>),
       St(<<"b", "zz", "a">>, <<SAbc, U5, U5five>>),
       St(<<"b", "gap0", "a">>, <<U5, RawGap, U5five>>),              \* gap fields (these are decoded as the root)
       St(<<"a", "gap0">>, <<SAbc, RawGap>>),
       St(<<"gap0", "b", "gap1">>, <<RawGap, U5, RawGap>>),
       St(<<"u", "n">>, <<U5, NR(St(<<"b", "a">>, <<U5five, SAbc>>))>>),          \* nested buffers
       St(<<"n", "u">>, <<NR(Ar(<<U5, SAbc>>)), U5>>),
       Ar(<<NR(Raw("abc", BitsABC)), U5>>),
       NR(St(<<"b", "a">>, <<U5five, SAbc>>)), NR(Ar(<<U5, SAbc>>)), NR(Raw("abc", BitsABC)) >>
\* one atom per kind with a sym where possible
Pick2 == <<2, 8, 11, 15, 18, 24, 27, 30, 31, 32>>
Depth2 ==
    [i \in DOMAIN Pick2 |-> St(<<"s", "r">>, <<St(<<"b", "a">>, <<Atoms[Pick2[i]], U5>>), Ar(<<Atoms[Pick2[i]], SAbc>>)>>)] \o
    [i \in DOMAIN Pick2 |-> Ar(<<St(<<"b", "a">>, <<Atoms[Pick2[i]], U5>>), Ar(<<Atoms[Pick2[i]]>>)>>)] \o
    [i \in DOMAIN Pick2 |-> St(<<"a">>, <<St(<<"b">>, <<Atoms[Pick2[i]]>>)>>)] \o
    [i \in DOMAIN Pick2 |-> St(<<"a", "b">>, <<Ar(<<Atoms[Pick2[i]]>>), St(<<"a">>, <<Atoms[Pick2[i]]>>)>>)]
GenValues == Atoms \o Depth1 \o Depth2

\* one pair of variables serves both modes: GEN  cur = index into GenValues, qi = index into Queries
\*                                           MC   cur = an abstract value,      qi = 0
VARIABLES cur, qi
GInit == cur \in DOMAIN GenValues /\ qi \in DOMAIN Queries
GNext == FALSE /\ cur' = cur /\ qi' = qi
Emit ==
    LET q == Queries[qi] gv == GenValues[cur] IN
    PrintT(ToJson([vi |-> cur, q |-> q.id, text |-> q.text, rel |-> Rel(q, gv), model |-> HasModel(q),
                   v |-> IF qi = 1 THEN <<gv>> ELSE <<>>]))
GSpec == GInit /\ [][GNext]_<<cur, qi>>

(************************ MC: all small values ****************************)
Names2 == {<<"a", "b">>, <<"b", "a">>}
Comp(S) ==
    {St(<<>>, <<>>), Ar(<<>>)} \cup {Ar(<<x>>) : x \in S} \cup {St(<<n>>, <<x>>) : n \in {"a", "b"}, x \in S}
    \cup {Ar(<<x, y>>) : x \in S, y \in S} \cup {St(ns, <<x, y>>) : ns \in Names2, x \in S, y \in S}
AtomSet == Range(Atoms)
Kids2 == {Atoms[i] : i \in {2, 7, 17, 26, 30, 31}} \cup
         {St(<<"b", "a">>, <<U5five, SAbc>>), Ar(<<U5, SAbc>>), St(<<>>, <<>>), Ar(<<>>), St(<<"a">>, <<Atoms[26]>>), Ar(<<Atoms[7]>>)}
MCValues == AtomSet \cup Comp(AtomSet) \cup Comp(Kids2) \cup
            {St(<<"b", "gap0", "a">>, <<U5, RawGap, U5five>>), St(<<"b", "zz", "a">>, <<SAbc, U5, U5five>>), Ar(<<U5, U5five, SAbc>>)}

v == cur
MInit == cur \in MCValues /\ qi = 0
MNext == FALSE /\ cur' = cur /\ qi' = qi
MSpec == MInit /\ [][MNext]_<<cur, qi>>

ConsistentInv == Consistent(v)
LawInv == MethodLaw(v)

\* the jq-level law, model against model: the dv-side model of a method query against gojq's native result on ToValue(v)
Res(x) == IF IsErr(x) THEN [err |-> TRUE, out |-> <<>>] ELSE [err |-> FALSE, out |-> <<x>>]
NModel(q, j) ==
    CASE q.m = "type"     -> JStr(NType(j))
      [] q.m = "length"   -> NLength(j)
      [] q.m = "keys"     -> NKeysBag(j)
      [] q.m = "has_s"    -> NHasStr(j, q.sa)
      [] q.m = "has_i"    -> NHasInt(j, q.ia)
      [] q.m = "index"    -> NIndex(j, q.ia)
      [] q.m = "slice_ab" -> NSlice(j, TRUE, q.ia, TRUE, q.ib)
      [] q.m = "slice_a"  -> NSlice(j, TRUE, q.ia, FALSE, 0)
      [] q.m = "slice_b"  -> NSlice(j, FALSE, 0, TRUE, q.ib)
      [] q.m = "key"      -> NKey(j, q.sa)
      [] q.m = "identity" -> j
NModelled == {"type", "length", "keys", "has_s", "has_i", "index", "slice_ab", "slice_a", "slice_b", "key", "identity"}
JqLawInv ==
    \A i \in DOMAIN Queries :
        LET q == Queries[i] IN
        q.m \in NModelled =>
            LET a == Res(Model(q, v)[1])
                b == Res(NModel(q, ToValue(v)))
            IN /\ Documented(q, v, a, b)
               /\ (q.m = "identity" => JEq(ToValue(v), b.out[1]))
\* every query gets a relation for every value, and every relation is reachable (anti-vacuity witnesses below)
RelInv == \A i \in DOMAIN Queries : Rel(Queries[i], v) \in {"eq", "ext", "nullkey", "bytes", "stream", "array", "derived"}
NoNullKey == \A i \in DOMAIN Queries : Rel(Queries[i], v) # "nullkey"
NoOrder   == \A i \in DOMAIN Queries : Rel(Queries[i], v) \notin {"stream", "array", "derived"}
NoExt     == \A i \in DOMAIN Queries : Rel(Queries[i], v) # "ext"
=============================================================================
