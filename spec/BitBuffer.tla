------------------------------ MODULE BitBuffer ------------------------------
(***************************************************************************)
(* C01, as built: bitio.Buffer (buffer.go), the bit queue inside every     *)
(* byte view (IOReader/IOReadSeeker), bitiox.CopyBits and IOBitWriter,     *)
(* transcribed over SYMBOLIC bits (the k-th written bit is the integer k,  *)
(* a zero-filled bit is 0, a never written bit is -2) and judged call by  *)
(* call by the first-in first-out requirement BufOpWhy of BitIO.tla, the   *)
(* same operator that judges recorded histories of the real Buffer.        *)
(* BitsBug = TRUE keeps Bits() as it was before the repair (it reported    *)
(* the number of bits ever written, not the unread ones) as a witness.     *)
(***************************************************************************)
EXTENDS BitIO
CONSTANTS MaxWritten,       \* bound on the bits written in one behaviour
          WriteNs, ReadNs,  \* request sizes
          BitsBug

VARIABLES q,                     \* as required: the unread bits
          buf, bufBits, bitsOff, \* as built: buf is the byte slice as a sequence of bits (8 per byte)
          nw,                    \* bits written so far (names the next symbolic bit)
          why                    \* verdict of BufOpWhy on the last call
vars == <<q, buf, bufBits, bitsOff, nw, why>>

Init == q = <<>> /\ buf = <<>> /\ bufBits = 0 /\ bitsOff = 0 /\ nw = 0 /\ why = "ok"

Ceil8(n) == (n + 7) \div 8
\* copyBufBits(dst, dstStart, src, 0, n, zero = TRUE) into a dst that is long enough
CopyInto(dst, start, bits) ==
    LET n == Len(bits)
        e == start + n
        fill == IF e % 8 # 0 THEN 8 - (e % 8) ELSE 0
    IN [i \in 1 .. Len(dst) |-> IF i > start /\ i <= e THEN bits[i - start]
                                ELSE IF i > e /\ i <= e + fill THEN 0
                                ELSE dst[i]]

Write(n) ==
    /\ nw + n <= MaxWritten
    /\ LET bits   == [i \in 1 .. n |-> nw + i]
           tBytes == Ceil8(bufBits + n)
           grown  == IF 8 * tBytes > Len(buf) THEN buf \o [i \in 1 .. (8 * tBytes - Len(buf)) |-> 0 - 2] ELSE buf
           ev     == [op |-> "write", bits |-> bits, k |-> n, err |-> FALSE]
       IN /\ buf' = CopyInto(grown, bufBits, bits)
          /\ bufBits' = bufBits + n /\ nw' = nw + n /\ UNCHANGED bitsOff
          /\ why' = BufOpWhy(q, ev) /\ q' = BufNext(q, ev)

Read(n) ==
    IF bufBits <= bitsOff
    THEN LET ev == [op |-> "read", n |-> n, k |-> 0, out |-> <<>>, eof |-> (n # 0), err |-> FALSE] IN
         /\ bufBits' = 0 /\ bitsOff' = 0 /\ UNCHANGED <<buf, nw>>                 \* b.Reset()
         /\ why' = BufOpWhy(q, ev) /\ q' = BufNext(q, ev)
    ELSE LET c  == Min2(n, bufBits - bitsOff)
             ev == [op |-> "read", n |-> n, k |-> c, out |-> SubSeq(buf, bitsOff + 1, bitsOff + c), eof |-> FALSE, err |-> FALSE]
         IN /\ bitsOff' = bitsOff + c /\ UNCHANGED <<buf, bufBits, nw>>
            /\ why' = BufOpWhy(q, ev) /\ q' = BufNext(q, ev)

LenCall ==
    LET ev == [op |-> "len", res |-> bufBits - bitsOff] IN
    why' = BufOpWhy(q, ev) /\ UNCHANGED <<q, buf, bufBits, bitsOff, nw>>

BitsCall ==
    LET l   == bufBits - bitsOff
        out == CopyInto([i \in 1 .. 8 * Ceil8(l) |-> 0], 0, SubSeq(buf, bitsOff + 1, bitsOff + l))   \* make() is zeroed
        ev  == [op |-> "bits", out |-> out, res |-> IF BitsBug THEN bufBits ELSE l]
    IN why' = BufOpWhy(q, ev) /\ UNCHANGED <<q, buf, bufBits, bitsOff, nw>>

ResetCall ==
    /\ bufBits' = 0 /\ bitsOff' = 0 /\ UNCHANGED <<buf, nw>>
    /\ why' = "ok" /\ q' = <<>>

Next == (\E n \in WriteNs : Write(n)) \/ (\E n \in ReadNs : Read(n)) \/ LenCall \/ BitsCall \/ ResetCall
Spec == Init /\ [][Next]_vars

View == <<q, buf, bufBits, bitsOff, nw>>
CallsOK == why = "ok"
\* the unread part of the byte slice is the queue, and nothing unwritten is ever inside it
Refines == /\ q = SubSeq(buf, bitsOff + 1, bufBits)
           /\ \A i \in 1 .. Len(q) : q[i] > 0
           /\ bitsOff <= bufBits /\ bufBits <= Len(buf)
=============================================================================
