------------------------------ MODULE ReplGen ------------------------------
(* GEN mode: every script of exactly GenLen lines over the line vocabulary of ReplMC, from every initial input list,  *)
(* printed for execution by the real loop (every prefix is judged step by step by TraceRepl).                          *)
EXTENDS Repl, Json
CONSTANTS GenLen, Shard, NShards
PushFns  == {"id", "dup", "none", "iter", "wrap", "mid", "odd", "spa", "first"}
SlurpFns == {"id", "iter", "mid", "none"}
Act(k, f, o) == [k |-> k, f |-> f, o |-> o]
Alphabet == {Act("eval", f, -1) : f \in Fns}
       \cup {Act("push", f, o) : f \in PushFns, o \in {-1, 1, 2}}
       \cup {Act("slurp", f, -1) : f \in SlurpFns}
       \cup {Act(k, "id", -1) : k \in {"blank", "bad", "badopt", "mid", "sigint", "eof", "run", "runpush", "runce", "runab", "runfin"}}
Line(a) == [k |-> a.k, f |-> a.f, o |-> a.o, t |-> Text(a)]
VARIABLES gi, gs
gvars == <<gi, gs>>
Scripts == [1 .. GenLen -> Alphabet]
GInit == gi \in Inits /\ gs \in Scripts
GNext == FALSE /\ UNCHANGED gvars
GSpec == GInit /\ [][GNext]_gvars
GEmit == PrintT(ToJson([init |-> gi, prog |-> InitText(gi), lines |-> [i \in 1 .. GenLen |-> Line(gs[i])]]))
=============================================================================
