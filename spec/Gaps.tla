------------------------------- MODULE Gaps -------------------------------
(***************************************************************************)
(* C04, first half: the gap computation.                                   *)
(*                                                                         *)
(* As-required layer: what the property states about a set of gap ranges G *)
(* computed for a buffer [0,L) and a finite collection of field ranges R.  *)
(* As-built layer: a transcription of pkg/ranges.Gaps, with the slack of   *)
(* the merge test as a constant (code: 1; what the property needs: 0).     *)
(***************************************************************************)
EXTENDS Integers, Sequences, FiniteSets, TLC

CONSTANTS L,        \* buffer length in bits (total = [0, L))
          MaxN,     \* max number of input ranges
          Slack     \* merge slack: `m.Stop()+Slack >= r.Start`

Rng(s, l) == [s |-> s, l |-> l]
Stop(r) == r.s + r.l
BitsOf(r) == {b \in r.s .. (r.s + r.l - 1) : TRUE}
UnionBits(rs) == UNION {BitsOf(rs[i]) : i \in DOMAIN rs}
Buf(len) == 0 .. (len - 1)

(***************************** as required ********************************)
InBuf(len, g)  == g.l >= 0 /\ g.s >= 0 /\ g.s + g.l <= len
Covered(len, R, G)  == \A b \in Buf(len) : b \in UnionBits(R) \/ b \in UnionBits(G)
Disjoint(len, R, G) == \A i \in DOMAIN G : InBuf(len, G[i]) /\ BitsOf(G[i]) \cap UnionBits(R) = {}
AsRequired(len, R, G) == Covered(len, R, G) /\ Disjoint(len, R, G)

\* classification of a rejected observation (used for finding signatures)
Uncovered(len, R, G) == {b \in Buf(len) : b \notin UnionBits(R) /\ b \notin UnionBits(G)}
\* a hole of exactly one bit that directly follows the stop of some range
\* (possibly an empty one) -- the shape produced by the `+1` in the merge test
IsSingleBitHole(len, R, G, b) ==
    /\ b \in Uncovered(len, R, G)
    /\ (b - 1) \notin Uncovered(len, R, G)
    /\ (b + 1) \notin Uncovered(len, R, G)
    /\ \E i \in DOMAIN R : Stop(R[i]) = b
    /\ \E i \in DOMAIN R : R[i].s = b + 1
RejectSig(len, R, G) ==
    IF ~Disjoint(len, R, G) THEN
        IF \E i \in DOMAIN G : ~InBuf(len, G[i]) THEN "gaps.gap_outside_buffer" ELSE "gaps.gap_overlaps_field"
    ELSE IF \A b \in Uncovered(len, R, G) : IsSingleBitHole(len, R, G, b) THEN "gaps.single_bit_hole"
    ELSE "gaps.bits_uncovered"

(******************************* as built *********************************)
RECURSIVE Inner(_, _, _)
Inner(rs, j, m) ==
    IF j > Len(rs) THEN [j |-> j, m |-> m]
    ELSE IF m.s <= rs[j].s /\ Stop(m) + Slack >= rs[j].s
         THEN Inner(rs, j + 1, IF Stop(rs[j]) > Stop(m) THEN Rng(m.s, Stop(rs[j]) - m.s) ELSE m)
         ELSE [j |-> j, m |-> m]

RECURSIVE Outer(_, _, _)
Outer(rs, i, merged) ==
    IF i > Len(rs) THEN merged                       \* left by the loop condition: madded is TRUE
    ELSE IF rs[i].l = 0 THEN Outer(rs, i + 1, merged)  \* skip empty head
    ELSE LET r == Inner(rs, i + 1, rs[i]) IN
         IF r.j > Len(rs) THEN Append(merged, r.m)   \* break; !madded => append
         ELSE Outer(rs, r.j, Append(merged, r.m))

\* rs must be sorted by start (the code sorts first)
GapsOfSorted(len, rs) ==
    IF Len(rs) = 0 THEN <<Rng(0, len)>>
    ELSE LET mg == Outer(rs, 1, <<>>) IN
         IF Len(mg) = 0 THEN <<Rng(0, len)>>
         ELSE LET first == IF mg[1].s # 0 THEN <<Rng(0, mg[1].s)>> ELSE <<>>
                  mid   == [i \in 1 .. (Len(mg) - 1) |-> Rng(Stop(mg[i]), mg[i + 1].s - Stop(mg[i]))]
                  lst   == mg[Len(mg)]
                  last  == IF Stop(lst) < len THEN <<Rng(Stop(lst), len - Stop(lst))>> ELSE <<>>   \* `<`: a merged range can reach beyond the buffer (repaired D30, was `#`)
              IN first \o mid \o last

SortedByStart(rs) == \A i \in 1 .. (Len(rs) - 1) : rs[i].s <= rs[i + 1].s

\* stable insertion sort by start (what slices.SortFunc does for n <= 12)
RECURSIVE InsertSorted(_, _)
InsertSorted(rs, r) ==
    IF Len(rs) = 0 THEN <<r>>
    ELSE IF rs[Len(rs)].s <= r.s THEN Append(rs, r)
    ELSE Append(InsertSorted(SubSeq(rs, 1, Len(rs) - 1), r), rs[Len(rs)])
RECURSIVE StableSort(_)
StableSort(rs) == IF Len(rs) = 0 THEN <<>> ELSE InsertSorted(StableSort(SubSeq(rs, 1, Len(rs) - 1)), rs[Len(rs)])

GapsAsBuilt(len, rs) == GapsOfSorted(len, StableSort(rs))

(* input universe for MC / GEN *)
InRanges == {Rng(s, l) : s \in 0 .. L, l \in 0 .. L} \cap {r \in [s : 0 .. L, l : 0 .. L] : r.s + r.l <= L}
Inputs == UNION {[1 .. n -> InRanges] : n \in 0 .. MaxN}


\* the known defect D3: output is exactly what the Slack=1 algorithm yields, gaps are clean, only coverage fails
SlackSig(len, R, G, built) ==
    IF Disjoint(len, R, G) /\ G = built THEN "gaps.merge_slack_hole" ELSE RejectSig(len, R, G)
=============================================================================
