------------------------------ MODULE Wire_bson ------------------------------
(***************************************************************************)
(* C16: BSON 1.1, from https://bsonspec.org/spec.html.  The top level is a *)
(* document; Enc(v) is defined for maps.  All integers little-endian.      *)
(* An integer in int32 range may be written as int32 (0x10) or int64       *)
(* (0x12).  Element types without a JSON counterpart that fq maps are      *)
(* extra values [t |-> "bson", ty, ...]:                                    *)
(*   datetime(i)  timestamp(i)  oid(x:12 bytes)  binary(sub, x)  regex(s,o)*)
(*   js(s)  dec128(x:16 bytes)  undef  minkey  maxkey                      *)
(* Keys are cstrings (no NUL byte).                                        *)
(***************************************************************************)
EXTENDS WireBytes

CStr(k) == k \o <<0>>
Idx(i)  == Decimal(MagOf(i))       \* array element names "0", "1", ...
LenStr(s) == LE(RLen(s) + 1, 4) \o s \o <<0>>

\* an element is type byte, name, payload; Payloads(v) is the set of [ty, pl] alternatives of a value
DocOf(body) == LE(RLen(body) + 5, 4) \o body \o <<0>>
ElemOf(name, p) == <<p.ty>> \o CStr(name) \o p.pl
P(ty, pl) == [ty |-> ty, pl |-> pl]
RECURSIVE Doc(_), Payloads(_)
Payloads(v) ==
    CASE v.t = "f64"  -> {P(1, Rev(v.bits))}
      [] v.t = "str"  -> {P(2, LenStr(v.s))}
      [] v.t = "map"  -> {P(3, d) : d \in Doc(v)}
      [] v.t = "arr"  -> {P(4, d) : d \in Doc(Map([i \in 1..Len(v.a) |-> Idx(i - 1)], v.a))}
      [] v.t = "bool" -> {P(8, <<IF v.b THEN 1 ELSE 0>>)}
      [] v.t = "null" -> {P(10, <<>>)}
      [] v.t = "int"  -> (IF SFits(v, 4) THEN {P(16, Rev(SEnc(v, 4)))} ELSE {})
                    \cup (IF SFits(v, 8) THEN {P(18, Rev(SEnc(v, 8)))} ELSE {})
      [] v.t = "bson" ->
          (CASE v.ty = "datetime"  -> {P(9, Rev(SEnc(v.i, 8)))}
             [] v.ty = "timestamp" -> {P(17, Rev(UExt(v.i.mag, 8)))}
             [] v.ty = "oid"       -> {P(7, v.x)}
             [] v.ty = "binary"    -> {P(5, LE(RLen(v.x), 4) \o <<v.sub>> \o v.x)}
             [] v.ty = "regex"     -> {P(11, CStr(v.s) \o CStr(v.o))}
             [] v.ty = "js"        -> {P(13, LenStr(v.s))}
             [] v.ty = "dec128"    -> {P(19, v.x)}
             [] v.ty = "undef"     -> {P(6, <<>>)}
             [] v.ty = "minkey"    -> {P(255, <<>>)}
             [] v.ty = "maxkey"    -> {P(127, <<>>)})
Elem(name, v) == {ElemOf(name, p) : p \in Payloads(v)}
Doc(m) == {DocOf(body) : body \in CatAll([i \in 1..Len(m.k) |-> Elem(m.k[i], m.v[i])])}

Enc(v) == IF v.t = "map" THEN Doc(v) ELSE {}

RECURSIVE Repr(_)
Repr(v) ==
    CASE v.t = "arr"  -> Arr([i \in 1..Len(v.a) |-> Repr(v.a[i])])
      [] v.t = "map"  -> Map(v.k, [i \in 1..Len(v.v) |-> Repr(v.v[i])])
      [] v.t = "bson" ->
          (CASE v.ty \in {"datetime", "timestamp"} -> v.i
             [] v.ty \in {"oid", "binary", "dec128"} -> Str(v.x)
             [] v.ty \in {"regex", "js"} -> Str(v.s)
             [] OTHER -> Null)
      [] OTHER -> v
=============================================================================
