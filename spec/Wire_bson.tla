------------------------------ MODULE Wire_bson ------------------------------
(***************************************************************************)
(* C16: BSON 1.1, from https://bsonspec.org/spec.html.  The top level is a *)
(* document; Enc(v) is defined for maps.  All integers little-endian.      *)
(* An integer in int32 range may be written as int32 (0x10) or int64       *)
(* (0x12).  Element types without a JSON counterpart that fq maps are      *)
(* extra values [t |-> "bson", ty, ...]:                                    *)
(*   datetime(i)  timestamp(i)  oid(x:12 bytes)  binary(sub, x)  regex(s,o)*)
(*   js(s)  dec128(x:16 bytes)  undef  minkey  maxkey                      *)
(* Keys are cstrings (no NUL byte).                                        *)
(***************************************************************************)
EXTENDS WireBytes

CStr(k) == k \o <<0>>
Idx(i)  == Decimal(MagOf(i))       \* array element names "0", "1", ...
LenStr(s) == LE(RLen(s) + 1, 4) \o s \o <<0>>

RECURSIVE Doc(_), Elem(_, _)
Elem(name, v) ==
    LET n == CStr(name) IN
    CASE v.t = "f64"  -> {<<1>> \o n \o Rev(v.bits)}
      [] v.t = "str"  -> {<<2>> \o n \o LenStr(v.s)}
      [] v.t = "map"  -> {<<3>> \o n \o d : d \in Doc(v)}
      [] v.t = "arr"  -> {<<4>> \o n \o d : d \in Doc(Map([i \in 1..Len(v.a) |-> Idx(i - 1)], v.a))}
      [] v.t = "bool" -> {<<8>> \o n \o <<IF v.b THEN 1 ELSE 0>>}
      [] v.t = "null" -> {<<10>> \o n}
      [] v.t = "int"  -> (IF SFits(v, 4) THEN {<<16>> \o n \o Rev(SEnc(v, 4))} ELSE {})
                    \cup (IF SFits(v, 8) THEN {<<18>> \o n \o Rev(SEnc(v, 8))} ELSE {})
      [] v.t = "bson" ->
          (CASE v.ty = "datetime"  -> {<<9>> \o n \o Rev(SEnc(v.i, 8))}
             [] v.ty = "timestamp" -> {<<17>> \o n \o Rev(UExt(v.i.mag, 8))}
             [] v.ty = "oid"       -> {<<7>> \o n \o v.x}
             [] v.ty = "binary"    -> {<<5>> \o n \o LE(RLen(v.x), 4) \o <<v.sub>> \o v.x}
             [] v.ty = "regex"     -> {<<11>> \o n \o CStr(v.s) \o CStr(v.o)}
             [] v.ty = "js"        -> {<<13>> \o n \o LenStr(v.s)}
             [] v.ty = "dec128"    -> {<<19>> \o n \o v.x}
             [] v.ty = "undef"     -> {<<6>> \o n}
             [] v.ty = "minkey"    -> {<<255>> \o n}
             [] v.ty = "maxkey"    -> {<<127>> \o n})
Doc(m) == {LE(RLen(body) + 5, 4) \o body \o <<0>> :
              body \in CatAll([i \in 1..Len(m.k) |-> Elem(m.k[i], m.v[i])])}

Enc(v) == IF v.t = "map" THEN Doc(v) ELSE {}

RECURSIVE Repr(_)
Repr(v) ==
    CASE v.t = "arr"  -> Arr([i \in 1..Len(v.a) |-> Repr(v.a[i])])
      [] v.t = "map"  -> Map(v.k, [i \in 1..Len(v.v) |-> Repr(v.v[i])])
      [] v.t = "bson" ->
          (CASE v.ty \in {"datetime", "timestamp"} -> v.i
             [] v.ty \in {"oid", "binary", "dec128"} -> Str(v.x)
             [] v.ty \in {"regex", "js"} -> Str(v.s)
             [] OTHER -> Null)
      [] OTHER -> v
=============================================================================
