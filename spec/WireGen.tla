------------------------------ MODULE WireGen ------------------------------
(***************************************************************************)
(* C16 GEN/SIM model: the value universe and the emission of one case per  *)
(* (format, value, encoding).  A case carries the value (tagged records),  *)
(* one element of Enc(value), the truncation points to try and the         *)
(* trailing byte strings to append.  The expected torepr is NOT taken from *)
(* here by the runner: TraceWire recomputes Repr(value) when it judges the *)
(* recorded observation.                                                   *)
(*                                                                         *)
(* Format : "msgpack" | "cbor" | "bencode" | "bson" | "asn1_ber"           *)
(* Part   : "all" = both of: "atoms"  every boundary scalar, all encodings (cbor: up to 2   *)
(*                   chunks for indefinite strings, + empty chunks if Wide)*)
(*          "nested" containers of depth 1 and 2 over a small atom set,    *)
(*                   all encodings of every part (cbor: strings inside are *)
(*                   definite length except in the IndefNested values)     *)
(* Wide   : TRUE adds more atoms inside containers and the 2^16 element    *)
(*          count boundary (torepr of 65536 elements takes fq ~20 s)       *)
(***************************************************************************)
EXTENDS WireBytes, Json
CONSTANTS Format, Part, Wide

MP  == INSTANCE Wire_msgpack
CBa == INSTANCE Wire_cbor WITH MaxChunks <- 2, EmptyChunks <- Wide
CBn == INSTANCE Wire_cbor WITH MaxChunks <- 0, EmptyChunks <- FALSE
BC  == INSTANCE Wire_bencode
BS  == INSTANCE Wire_bson
BRa == INSTANCE Wire_ber WITH MaxSegs <- 2
BRn == INSTANCE Wire_ber WITH MaxSegs <- 0

(****************************** scalars ***********************************)
F(n) == [i \in 1..n |-> 255]
PosMags == { <<>>, <<1>>, <<23>>, <<24>>, <<31>>, <<32>>, <<127>>, <<128>>, <<255>>, <<1, 0>>,
             <<127, 255>>, <<128, 0>>, <<255, 255>>, <<1, 0, 0>>,
             <<127, 255, 255, 255>>, <<128, 0, 0, 0>>, <<128, 0, 0, 1>>, F(4), <<1, 0, 0, 0, 0>>, <<1, 0, 0, 0, 1>>,
             <<127>> \o F(7), <<128>> \o Zeros(7), F(8) }
NegMags == { <<1>>, <<23>>, <<24>>, <<25>>, <<32>>, <<33>>, <<127>>, <<128>>, <<129>>, <<255>>, <<1, 0>>, <<1, 1>>,
             <<128, 0>>, <<128, 1>>, <<1, 0, 0>>, <<1, 0, 1>>,
             <<127, 255, 255, 255>>, <<128, 0, 0, 0>>, <<128, 0, 0, 1>>, F(4), <<1, 0, 0, 0, 0>>, <<1, 0, 0, 0, 1>>,
             <<127>> \o F(7), <<128>> \o Zeros(7),
             <<128>> \o Zeros(6) \o <<1>>, F(8), <<1>> \o Zeros(8) }      \* the last three: cbor only (below -2^63)
IntsAll == {IntV(FALSE, m) : m \in PosMags} \cup {IntV(TRUE, m) : m \in NegMags}
InMsgpack(v) == (~v.neg /\ Len(v.mag) <= 8) \/ SFits(v, 8)
InCbor(v)    == IF v.neg THEN Len(Strip(Dec(v.mag))) <= 8 ELSE Len(v.mag) <= 8

X == 120   \* 'x'
StrLens == {0, 1, 2, 7, 8, 15, 16, 23, 24, 31, 32, 255, 256, 65535, 65536}
Strs == {Str(Rep(n, X)) : n \in StrLens}
        \cup {Str(<<97>>), Str(<<97, 98>>), Str(<<195, 169, 240, 159, 152, 128>>), Str(<<49, 58, 97>>)}
Bins == {Bin(Rep(n, 65)) : n \in {0, 1, 23, 24, 255, 256, 65535, 65536}}
        \cup {Bin(<<0, 1, 127>>), Bin(<<104, 105>>)}

F64s == { Zeros(8), <<128>> \o Zeros(7),                       \* +0, -0
          <<63, 248, 0, 0, 0, 0, 0, 0>>, <<192, 2, 0, 0, 0, 0, 0, 0>>,     \* 1.5, -2.25
          <<63, 185, 153, 153, 153, 153, 153, 154>>,             \* 0.1 (binary64 only)
          <<0, 0, 0, 0, 0, 0, 0, 1>>, <<0, 16, 0, 0, 0, 0, 0, 0>>,   \* min subnormal, min normal
          <<127, 239>> \o F(6),                                  \* max finite
          <<126, 55, 228, 60, 136, 0, 117, 156>>,                \* ~1e300
          <<127, 240>> \o Zeros(6), <<255, 240>> \o Zeros(6),    \* +inf, -inf
          <<71, 239, 255, 255, 224, 0, 0, 1>>,                   \* just above max single: not narrowable
          <<63, 240, 0, 0, 0, 0, 0, 0>>, <<65, 224, 0, 0, 0, 32, 0, 0>> }   \* 1.0, 2^31+1 (integral)
Singles == { <<0, 0, 0, 1>>, <<0, 128, 0, 0>>, <<127, 127, 255, 255>>, <<128, 0, 0, 1>>, <<63, 192, 0, 1>> }
Halves  == { <<0, 1>>, <<4, 0>>, <<123, 255>>, <<131, 255>>, <<62, 0>>, <<60, 1>> }
Floats == {F64(b) : b \in F64s} \cup {F64(WidenSingle(b)) : b \in Singles} \cup {F64(WidenHalf(b)) : b \in Halves}

\* the float operators are inverse to each other on the patterns used
ASSUME \A b \in Singles : NarrowSingle(WidenSingle(b)) = b
ASSUME \A b \in Halves : NarrowHalf(WidenHalf(b)) = b /\ NarrowSingle(WidenHalf(b)) # <<>>
ASSUME NarrowSingle(<<63, 185, 153, 153, 153, 153, 153, 154>>) = <<>>
ASSUME WidenHalf(<<62, 0>>) = <<63, 248, 0, 0, 0, 0, 0, 0>> /\ WidenSingle(<<63, 192, 0, 0>>) = <<63, 248, 0, 0, 0, 0, 0, 0>>
ASSUME WidenHalf(<<0, 1>>) = <<62, 112, 0, 0, 0, 0, 0, 0>>           \* 2^-24
ASSUME F64OfInt(IntV(FALSE, <<1>>)) = <<63, 240, 0, 0, 0, 0, 0, 0>> /\ F64OfInt(IntV(TRUE, <<128, 0, 0, 1>>)) = <<193, 224, 0, 0, 0, 32, 0, 0>>
ASSUME Decimal(F(8)) = <<49, 56, 52, 52, 54, 55, 52, 52, 48, 55, 51, 55, 48, 57, 53, 53, 49, 54, 49, 53>>   \* "18446744073709551615"

Exts == {[t |-> "ext", ty |-> ty, x |-> Rep(n, 66)] : ty \in {1, 255}, n \in {0, 1, 2, 3, 4, 8, 16, 17, 255, 256, 65536}}

Scalars == {Null, Bool(TRUE), Bool(FALSE)}

(***************************** containers *********************************)
One == IntV(FALSE, <<1>>)
Small  == IF Wide THEN {Null, Bool(TRUE), One, IntV(TRUE, <<1>>), Str(<<97>>)}
                  ELSE {Null, One, Str(<<97>>)}
KA == <<97>>
KB == <<98>>
KE == <<195, 169>>
Seqs(S, n) == [1..n -> S]
D1(S) == {Arr(a) : a \in Seqs(S, 0) \cup Seqs(S, 1) \cup Seqs(S, 2)}
         \cup {Map(<<KA>>, v) : v \in Seqs(S, 1)} \cup {Map(<<>>, <<>>)}
D1x   == {Map(<<KA, KB>>, <<One, Null>>), Map(<<KE>>, <<Str(<<>>)>>), Map(<<<<>>>>, <<Null>>)}
         \cup (IF Wide THEN {Arr(a) : a \in Seqs({Null, One}, 3)} \cup {Map(<<KA, KB>>, <<One, One>>), Map(<<KA, KB>>, <<Null, One>>),
                                                                      Map(<<KB, KA>>, <<Null, Bool(FALSE)>>)} ELSE {})
Inner == {Arr(<<>>), Map(<<>>, <<>>), Arr(<<Null>>), Arr(<<One>>), Map(<<KA>>, <<Null>>)}
         \cup (IF Wide THEN {Arr(<<Str(<<97>>)>>), Arr(<<Null, One>>), Map(<<KA>>, <<One>>)} ELSE {})
Inner2 == IF Wide THEN Inner ELSE {Arr(<<>>), Map(<<>>, <<>>), Arr(<<One>>)}
D2 == {Arr(<<x>>) : x \in Inner} \cup {Map(<<KA>>, <<x>>) : x \in Inner2 \cup {Map(<<KA>>, <<Null>>)}}
      \cup {Arr(<<x, Null>>) : x \in Inner2} \cup {Arr(<<Bool(TRUE), x>>) : x \in Inner2}
      \cup {Arr(<<Arr(<<x>>)>>) : x \in {Arr(<<>>)} \cup (IF Wide THEN {Map(<<KA>>, <<Null>>)} ELSE {})}
      \cup (IF Wide THEN {Map(<<KA, KB>>, <<Arr(<<>>), Map(<<>>, <<>>)>>), Arr(<<One, Map(<<KA>>, <<One>>)>>)} ELSE {})
IndefNested == {Arr(<<Str(<<97, 98>>)>>), Map(<<KB>>, <<Bool(FALSE)>>), Arr(<<Bin(<<104, 105>>), Null>>)}
Letters(n) == [i \in 1..n |-> <<96 + i>>]
Counts(ns) == {Nulls(n) : n \in ns}
\* containers at the count boundaries of the short header forms: header alternatives only (EncOuter)
BigVals(ns) == {Arr([i \in 1..n |-> Null]) : n \in {n \in ns : n < RunMin}}
               \cup {Map(Letters(n), [i \in 1..n |-> IF i % 2 = 0 THEN Null ELSE IntV(FALSE, <<i>>)]) : n \in ns}

(************************* per-format universes ****************************)
Tag(m, v) == [t |-> "tag", tag |-> m, v |-> v]
Undef == [t |-> "undef"]
Bx(ty) == [t |-> "bson", ty |-> ty]
BsonSpecials ==
    { [t |-> "bson", ty |-> "datetime", i |-> IntV(TRUE, <<1>>)], [t |-> "bson", ty |-> "datetime", i |-> IntV(FALSE, <<127>> \o F(7))],
      [t |-> "bson", ty |-> "timestamp", i |-> IntV(FALSE, F(8))], [t |-> "bson", ty |-> "timestamp", i |-> IntV(FALSE, <<1>>)],
      [t |-> "bson", ty |-> "oid", x |-> [i \in 1..12 |-> 64 + i]],
      [t |-> "bson", ty |-> "binary", sub |-> 0, x |-> <<>>], [t |-> "bson", ty |-> "binary", sub |-> 128, x |-> <<104, 105>>],
      [t |-> "bson", ty |-> "regex", s |-> <<97, 46, 42>>, o |-> <<105>>], [t |-> "bson", ty |-> "regex", s |-> <<>>, o |-> <<>>],
      [t |-> "bson", ty |-> "js", s |-> <<120, 61, 49>>],
      [t |-> "bson", ty |-> "dec128", x |-> [i \in 1..16 |-> 47 + i]],
      Bx("undef"), Bx("minkey"), Bx("maxkey") }
InBsonStr(v) == RLen(v.s) <= 65536
Doc1(v) == Map(<<KA>>, <<v>>)

D1S(S) == {Arr(a) : a \in Seqs(S, 0) \cup Seqs(S, 1) \cup Seqs(S, 2)}
Ber(ty) == [t |-> "ber", ty |-> ty]
BerStr(tag, s) == [t |-> "ber", ty |-> "str", tag |-> tag, s |-> s]
BerSet(a) == [t |-> "ber", ty |-> "set", a |-> a]
BerCtx(tag, a) == [t |-> "ber", ty |-> "ctx", tag |-> tag, a |-> a]
BerOid(arcs) == [t |-> "ber", ty |-> "oid", arcs |-> arcs]
BerReal(neg, n, base, f, e) == [t |-> "ber", ty |-> "real", neg |-> neg, n |-> n, base |-> base, f |-> f, e |-> e]
\* every base x every scaling factor x exponents of every octet count x a few mantissas; all values exact in binary64 and not integers
\* where a small exponent allows (an integral float would come back as an integer, which compares equal anyway)
RealInRange(v) == LET x == Len(SigBits(BE(v.n, 4))) - 1 + BRn!RealShift(v) + 1023 IN x >= 1 /\ x <= 2046      \* a normal binary64
BerReals == {v \in {BerReal(neg, n, b, f, e) : neg \in BOOLEAN, n \in {1, 5, 1023}, b \in {2, 8, 16}, f \in 0 .. 3,
                                        e \in {IntV(TRUE, <<3>>), IntV(FALSE, <<>>), IntV(FALSE, <<2>>), IntV(TRUE, <<130>>), IntV(TRUE, <<1, 4>>)}} : RealInRange(v)}
BerUniverse(P) ==
    IF P = "atoms" THEN Scalars \cup {v \in IntsAll : ~v.neg \/ SFits(v, 8)}
                        \cup {Str(Rep(n, X)) : n \in {0, 1, 2, 127, 128, 255, 256, 65535, 65536}} \cup {Str(<<97, 98>>), Str(<<195, 169, 240, 159, 152, 128>>)}
                        \cup {Bin(Rep(n, 65)) : n \in {0, 1, 127, 128, 256}} \cup {Bin(<<104, 105>>), Bin(<<0, 1, 127>>)}
                        \cup {BerStr(19, <<97, 32, 98>>), BerStr(22, <<97, 64, 98>>), BerStr(22, <<>>)}
                        \cup {BerOid(<<1, 2, 840, 113549>>), BerOid(<<2, 5, 4, 3>>), BerOid(<<0, 39>>), BerOid(<<1, 3, 6, 1, 4, 1, 311, 21, 20>>)}
                        \cup BerReals
    ELSE D1S(IF Wide THEN {Null, One, Str(<<97>>)} ELSE {Null, One}) \cup {Arr(<<Str(<<97>>)>>), Arr(<<Str(<<97>>), One>>)}
         \cup {Arr(<<x>>) : x \in {Arr(<<>>), Arr(<<One>>)}} \cup {Arr(<<Arr(<<>>), Str(<<>>)>>)}
         \cup {BerSet(<<>>), BerSet(<<One, Null>>), BerCtx(0, <<One>>), BerCtx(3, <<>>), BerCtx(31, <<Null>>), BerCtx(200, <<One, Str(<<97>>)>>),
               Arr(<<BerCtx(0, <<>>), BerSet(<<>>)>>), Arr(<<Arr(<<Arr(<<>>)>>)>>), Arr(<<Str(Rep(200, X))>>)}
         \cup (IF Wide THEN {Arr(<<Bin(<<104, 105>>)>>), Arr(<<Arr(<<One>>), Bool(TRUE)>>), Arr(<<Arr(<<One, One>>)>>),
                             Arr(<<BerOid(<<2, 5, 4, 3>>), BerStr(19, <<97>>)>>), Arr(<<BerCtx(0, <<>>), BerSet(<<One>>)>>)} ELSE {})

Universe(P) ==
    CASE Format = "msgpack" ->
           IF P = "atoms" THEN Scalars \cup {v \in IntsAll : InMsgpack(v)} \cup Strs \cup Bins \cup Floats \cup Exts
                                  \cup Counts({8, 16, 255, 256} \cup (IF Wide THEN {65535, 65536} ELSE {}))
           ELSE D1(Small) \cup D1x \cup D2 \cup {Arr(<<Bin(<<104, 105>>), F64(<<63, 248, 0, 0, 0, 0, 0, 0>>)>>)}
      [] Format = "cbor" ->
           IF P = "atoms" THEN Scalars \cup {Undef} \cup {v \in IntsAll : InCbor(v)} \cup Strs \cup Bins \cup Floats
                                  \cup {Tag(<<1>>, IntV(FALSE, <<1>>)), Tag(<<217, 247>>, Str(<<97>>)), Tag(<<24>>, Bin(<<1>>)),
                                        Tag(F(8), Null), Tag(<<1>>, Tag(<<2>>, Null))}
           ELSE D1(Small) \cup D1x \cup D2 \cup IndefNested \cup Counts({8, 23, 24, 255, 256} \cup (IF Wide THEN {65535, 65536} ELSE {}))
                \cup {Arr(<<Bin(<<104, 105>>), F64(<<63, 248, 0, 0, 0, 0, 0, 0>>)>>), Arr(<<Tag(<<1>>, IntV(FALSE, <<1>>)), Null>>),
                      Tag(<<1>>, Arr(<<IntV(FALSE, <<1>>)>>)), Map(<<KA>>, <<Tag(<<1>>, Null)>>)}
      [] Format = "bencode" ->
           IF P = "atoms" THEN {v \in IntsAll : BC!InDomain(v)} \cup Strs
           ELSE D1({IntV(FALSE, <<1>>), IntV(TRUE, <<1>>), Str(<<97>>), Str(<<>>)})
                \cup {Map(<<KA, KB>>, v) : v \in Seqs({IntV(FALSE, <<1>>), Str(<<97>>)}, 2)}
                \cup {Map(<<KE>>, <<Str(<<>>)>>), Map(<<<<>>>>, <<Arr(<<>>)>>)}
                \cup {Arr(<<x>>) : x \in D1({IntV(FALSE, <<1>>), Str(<<97>>)})}
                \cup {Map(<<KA>>, <<x>>) : x \in D1({IntV(FALSE, <<1>>), Str(<<97>>)})}
                \cup {Arr(<<x, y>>) : x, y \in {Arr(<<>>), Map(<<>>, <<>>), Arr(<<IntV(FALSE, <<>>)>>), Map(<<KA>>, <<Str(<<97>>)>>)}}
                \cup {Arr(<<Arr(<<Arr(<<>>)>>)>>), Arr([i \in 1..17 |-> IntV(FALSE, <<i>>)])}
      [] Format = "bson" ->
           IF P = "atoms" THEN {Doc1(v) : v \in Scalars \cup {v \in IntsAll : SFits(v, 8)} \cup {s \in Strs : InBsonStr(s)}
                                                    \cup {F64(b) : b \in F64s} \cup BsonSpecials}
                                  \cup {Map(<<>>, <<>>), Map(<<KE>>, <<Null>>), Map(<<Rep(300, X)>>, <<Bool(TRUE)>>)}
           ELSE {Doc1(x) : x \in D1(Small)} \cup {Doc1(x) : x \in (IF Wide THEN D2 ELSE {Arr(<<y>>) : y \in Inner} \cup {Map(<<KA>>, <<y>>) : y \in Inner})}
                \cup {Map(<<KA, KB>>, v) : v \in Seqs(Small, 2)}
                \cup {Map(<<KA, KB>>, <<x, y>>) : x, y \in {Arr(<<>>), Map(<<>>, <<>>), Arr(<<IntV(FALSE, <<1>>)>>)}}
                \cup {Doc1(Arr([i \in 1..11 |-> IntV(FALSE, <<i>>)])), Doc1(Arr(<<Bx("undef"), Bx("minkey")>>)),
                      Doc1(Map(<<KA>>, <<[t |-> "bson", ty |-> "binary", sub |-> 0, x |-> <<104, 105>>]>>))}
      [] Format = "asn1_ber" -> BerUniverse(P)

EncOf(P, v) ==
    CASE Format = "msgpack" -> MP!Enc(v)
      [] Format = "cbor"    -> IF P = "atoms" \/ v \in IndefNested THEN CBa!Enc(v) ELSE CBn!Enc(v)
      [] Format = "bencode" -> BC!Enc(v)
      [] Format = "bson"    -> BS!Enc(v)
      [] Format = "asn1_ber" -> IF P = "atoms" \/ v = Arr(<<Bin(<<104, 105>>)>>) THEN BRa!Enc(v) ELSE BRn!Enc(v)
ReprOf(v) ==
    CASE Format = "msgpack" -> MP!Repr(v)
      [] Format = "cbor"    -> CBn!Repr(v)
      [] Format = "bencode" -> BC!Repr(v)
      [] Format = "bson"    -> BS!Repr(v)
      [] Format = "asn1_ber" -> BRn!Repr(v)

Big(P) == CASE Format = "msgpack" /\ P = "atoms" -> BigVals({7, 15, 16})
            [] Format = "cbor" /\ P = "atoms" -> BigVals({7, 23, 24})
            [] OTHER -> {}
EncOuterOf(v) == IF Format = "msgpack" THEN MP!EncOuter(v) ELSE CBa!EncOuter(v)
\* EncOuter is a subset of Enc (checked where Enc is enumerable)
ASSUME \A v \in D1({Null, One}) : MP!EncOuter(v) \subseteq MP!Enc(v) /\ CBn!EncOuter(v) \subseteq CBn!Enc(v)

\* inputs that are outside fq's domain and must be REPORTED, not mis-decoded
Rejects(P) == IF Format = "bencode" /\ P = "atoms"
           THEN UNION {{[val |-> v, bytes |-> e] : e \in BC!Enc(v)} :
                          v \in {IntV(FALSE, <<128>> \o Zeros(7)), IntV(FALSE, F(8)), IntV(TRUE, <<128>> \o Zeros(6) \o <<1>>)}}
           ELSE {}

\* truncation points (lengths of the proper prefixes to try) and trailing data
\* every proper prefix up to a length bound (quick tier: 16 for the nested part), beyond it the ends and the middle
CutsB(n, b) == IF n <= b THEN 0..(n - 1) ELSE (0..8) \cup {n \div 2} \cup ((n - 4)..(n - 1))
Cuts(P, n) == CutsB(n, IF P = "atoms" \/ Wide THEN 48 ELSE 16)
Trails(P, v, e) == IF P = "atoms" /\ v.t # "nulls" THEN {<<0>>, <<255, 255>>, <<e[1]>>} ELSE {<<e[1]>>}

Parts == IF Part = "all" THEN {"atoms", "nested"} ELSE {Part}
VARIABLE c
Init == \E P \in Parts :
        \/ \E v \in Universe(P) : \E e \in EncOf(P, v) : c = [part |-> P, kind |-> "ok", val |-> v, bytes |-> e]
        \/ \E v \in Big(P) : \E e \in EncOuterOf(v) : c = [part |-> P, kind |-> "ok", val |-> v, bytes |-> e]
        \/ \E r \in Rejects(P) : c = [part |-> P, kind |-> "reject", val |-> r.val, bytes |-> r.bytes]
Next == FALSE /\ c' = c
Spec == Init /\ [][Next]_c
Emit == PrintT(ToJson([f |-> Format, part |-> c.part, kind |-> c.kind, val |-> c.val, bytes |-> c.bytes,
                       repr |-> ReprOf(c.val), cuts |-> Cuts(c.part, RLen(c.bytes)), trails |-> Trails(c.part, c.val, c.bytes)]))
=============================================================================
