----------------------------- MODULE AheadCache -----------------------------
(***************************************************************************)
(* C01, as built: internal/aheadreadseeker (the read-ahead cache fq puts    *)
(* under every opened file), one action per call, transcribed branch by     *)
(* branch.  File bytes are SYMBOLIC: byte i of the file is the integer i,   *)
(* so one run checks the algorithm for every content.                       *)
(* DropOnSeekEnd = FALSE is the code before the repair of D1 (seek from the *)
(* end into the cached block leaves the underlying reader mispositioned).   *)
(***************************************************************************)
EXTENDS Integers, Sequences, TLC
CONSTANTS F,            \* file length in bytes
          M,            \* minRead
          MaxRead,      \* largest request
          DropOnSeekEnd

VARIABLES offset, cacheOffset, cache, underPos, lastOff, lastOut, lastEOF
vars == <<offset, cacheOffset, cache, underPos, lastOff, lastOut, lastEOF>>
cacheUsed == Len(cache)
Min2(a, b) == IF a < b THEN a ELSE b
Max2(a, b) == IF a > b THEN a ELSE b

Init == offset = 0 /\ cacheOffset = 0 /\ cache = <<>> /\ underPos = 0 /\ lastOff = 0 /\ lastOut = <<>> /\ lastEOF = FALSE

Hit == offset >= cacheOffset /\ offset < cacheOffset + cacheUsed

\* io.ReadFull(rs, cache[0:want]) from underPos: symbolic bytes underPos .. underPos+got-1
Got(want) == IF underPos >= F THEN 0 ELSE Min2(want, F - underPos)

Read(n) ==
    /\ lastOff' = offset
    /\ IF Hit
       THEN LET d == offset - cacheOffset
                c == Min2(cacheUsed - d, n)
            IN /\ lastOut' = SubSeq(cache, d + 1, d + c) /\ lastEOF' = FALSE
               /\ offset' = offset + c
               /\ UNCHANGED <<cacheOffset, cache, underPos>>
       ELSE LET want == Max2(n, M)
                got == Got(want)
                filled == [i \in 1 .. got |-> underPos + i - 1]
            IN /\ cacheOffset' = offset
               /\ cache' = filled
               /\ underPos' = underPos + got
               /\ IF got = 0
                  THEN lastOut' = <<>> /\ lastEOF' = TRUE /\ offset' = offset
                  ELSE \* loop once more: now a hit at d = 0
                       LET c == Min2(got, n) IN
                       lastOut' = SubSeq(filled, 1, c) /\ lastEOF' = FALSE /\ offset' = offset + c

Seek(off, wh) ==
    LET absOff == CASE wh = 0 -> off [] wh = 1 -> offset + off [] OTHER -> F + off IN
    /\ absOff >= 0                       \* a negative target is refused by the underlying reader / bytes.Reader
    /\ absOff <= F + 2                   \* bound of the model (positions beyond the end behave alike)
    /\ UNCHANGED <<lastOff, lastOut, lastEOF>>
    /\ IF wh = 2 /\ DropOnSeekEnd
       THEN offset' = absOff /\ cacheOffset' = 0 /\ cache' = <<>> /\ underPos' = absOff
       ELSE LET up == IF wh = 2 THEN absOff ELSE underPos IN      \* SeekEnd moves the underlying reader first
            IF absOff >= cacheOffset /\ absOff < cacheOffset + cacheUsed
            THEN offset' = absOff /\ underPos' = up /\ UNCHANGED <<cacheOffset, cache>>
            ELSE offset' = absOff /\ underPos' = absOff /\ cacheOffset' = 0 /\ cache' = <<>>

Next == (\E n \in 0 .. MaxRead : Read(n)) \/ (\E off \in (0 - F - 1) .. (F + 1), wh \in 0 .. 2 : Seek(off, wh))
Spec == Init /\ [][Next]_vars

\* as required: the bytes returned are the file bytes at the position before the call, end of data only at the end
ReadsTrue == /\ \A i \in DOMAIN lastOut : lastOut[i] = lastOff + i - 1
             /\ lastEOF => lastOff >= F
\* the representation invariant the code relies on
CacheTrue == /\ \A i \in DOMAIN cache : cache[i] = cacheOffset + i - 1
             /\ (cacheUsed > 0 => underPos = cacheOffset + cacheUsed)
             /\ (cacheUsed = 0 => underPos = offset)
=============================================================================
