------------------------------ MODULE TraceJobs ------------------------------
(* TV mode: logs of the randomised concurrent drivers (harness/c18, mode drive) are validated as          *)
(* behaviours of Jobs.tla.  One event per line, in the order of a per-run atomic counter:                 *)
(*   {"op":"reset"}                     a new process (fresh registry, nothing running)                   *)
(*   {"op":"solo",  kind, hash}         the lone result of a job kind, measured by another process        *)
(*   {"op":"start", j, kind, fmt, opt, seq}        job j = (input+level kind, format, options) starts     *)
(*   {"op":"end",   j, kind, seq, hash, solo}      job j completed with these result bytes (hash)         *)
(* start = Start(j); end = the remaining internal steps of j (they commute in the as-built model) and     *)
(* Complete(j, r), which Jobs.tla enables only for the lone result: r is the result of the lone run in    *)
(* the model and its bytes are the ones recorded for that kind.  Overlapping jobs may end in any order;   *)
(* at most Threads jobs overlap.  Stateful: the first event that is not a step of the model ends the      *)
(* validation of that log (POSTCONDITION reports the matched prefix).                                     *)
EXTENDS Jobs, Json
CONSTANT Threads
Trace == ndJsonDeserialize("trace.ndjson")
VARIABLES l, st, tab, last
tvars == <<l, st, tab, last>>

OutTV(d, seen) == <<d.input, d.format, d.opt, seen>>
FailsTV(i, a) == FALSE       \* which inputs fail is part of the recorded lone result, not of the model

TInit == l = 1 /\ st = Init0 /\ tab = <<>> /\ last = 0
TNext ==
    /\ l <= Len(Trace)
    /\ l' = l + 1
    /\ LET e == Trace[l] IN
       CASE e.op = "reset" -> st' = Init0 /\ tab' = <<>> /\ last' = 0
         [] e.op = "solo"  -> /\ e.kind \notin DOMAIN tab
                              /\ tab' = (e.kind :> e.hash) @@ tab /\ UNCHANGED <<st, last>>
         [] e.op = "start" -> /\ e.seq > last /\ last' = e.seq
                              /\ e.kind \in DOMAIN tab
                              /\ LET d == Desc(e.kind, e.fmt, e.opt, e.j) IN
                                   CanStart(st, e.j, d, Threads) /\ st' = Start(st, e.j, d)
                              /\ UNCHANGED tab
         [] e.op = "end"   -> /\ e.seq > last /\ last' = e.seq
                              /\ e.j \in Running(st) /\ st.jobs[e.j].d.input = e.kind
                              /\ LET t == RunToDone(st, e.j) IN
                                   /\ CanComplete(t, e.j)
                                   /\ ResultOf(t, e.j) = Solo(st.jobs[e.j].d)      \* Complete(j, r) only with the lone result ..
                                   /\ e.hash = tab[e.kind] /\ e.solo = tab[e.kind] \* .. whose bytes are the recorded ones
                                   /\ st' = Complete(t, e.j)
                              /\ UNCHANGED tab
         [] OTHER -> FALSE
TSpec == TInit /\ [][TNext]_tvars
Consumed == IF TLCGet("stats").diameter - 1 = Len(Trace) THEN TRUE
            ELSE PrintT(<<"PREFIX", TLCGet("stats").diameter - 1>>) /\ FALSE
=============================================================================
