--------------------------- MODULE TraceContainer ---------------------------
(***************************************************************************)
(* C15 TV mode.  Every event is one scenario instantiated by an independent *)
(* writer and decoded by real fq (harness/c15):                            *)
(*   s        the scenario (Container.tla)                                 *)
(*   written  members as written: name (code points), size, sha, small, h   *)
(*   hdr      archive-level header fields as written ("key=value" strings)  *)
(*   intact   fq's report of the unmodified file: err, members, hdr, marks  *)
(*   flips    one record per flipped byte of the scenario's region:         *)
(*            err, ninvalid (checksum marks "invalid"), same (report equal  *)
(*            to the intact report)                                        *)
(* Events are independent: a rejected event is printed with its signature.  *)
(***************************************************************************)
EXTENDS Container, Json
Trace == ndJsonDeserialize("trace.ndjson")
VARIABLE l

SetOf(q) == {q[i] : i \in 1 .. Len(q)}
Scn(e) == [e.s EXCEPT !.opt = SetOf(e.s.opt)]
Sig(e) ==
    LET s == Scn(e) IN
    IF e.skipped # "" THEN ""
    ELSE IF ~ValidScenario(s) THEN "invalid_scenario"
    ELSE IF ~IntactOK(s, e.written, e.hdr, e.intact) THEN IntactSig(s, e.written, e.hdr, e.intact)
    ELSE IF s.region # "none" /\ MustDetect(s) /\ Len(e.flips) = 0 THEN "no_flip_performed"
    ELSE IF \E i \in 1 .. Len(e.flips) : ~FlipOK(s, e.flips[i]) THEN FlipSig(s)
    ELSE ""
\* for the two formats whose checksums fq never computes the intact rejection hides the flips: judge them too
FlipSigAlso(e) ==
    LET s == Scn(e) IN
    IF e.skipped = "" /\ ValidScenario(s) /\ \E i \in 1 .. Len(e.flips) : ~FlipOK(s, e.flips[i]) THEN FlipSig(s) ELSE ""

TInit == l = 1 /\ TLCSet(1, 0)
TNext == /\ l <= Len(Trace)
         /\ LET e == Trace[l] s == Sig(e) f == FlipSigAlso(e) IN
              /\ IF s = "" THEN TRUE ELSE PrintT(<<"REJECT", l, s>>)
              /\ IF f = "" \/ f = s THEN TRUE ELSE PrintT(<<"REJECT", l, f>>)
              /\ IF e.skipped = "" /\ MustDetect(Scn(e)) THEN TLCSet(1, TLCGet(1) + Len(e.flips)) ELSE TRUE
         /\ l' = l + 1
TSpec == TInit /\ [][TNext]_l
Consumed == PrintT(<<"FLIPSJUDGED", TLCGet(1)>>) /\ TLCGet("stats").diameter - 1 = Len(Trace)
=============================================================================
