SPECIFICATION GSpec
CONSTANTS MaxLen = 1
 MaxLenFull = 1
 Alphabet = "raw"
 What = "e2e"
 MaxInputs = 3
CONSTRAINT Emit
CHECK_DEADLOCK FALSE
