------------------------------- MODULE Query -------------------------------
(***************************************************************************)
(* C11 (and the AST shared with JqCore.tla): the syntax tree of the        *)
(* embedded jq parser, as TLA+ records in EXACTLY the JSON shape of the    *)
(* parser's Query/Term structs (the shape fq's _query_fromstring returns   *)
(* and _query_tostring accepts; absent fields are absent, as omitempty):   *)
(*                                                                         *)
(*   Query   [meta?, imports?, func_defs?, term] or [.., left, op, right]  *)
(*   Term    [type, index? func? object? array? number? unary? format?     *)
(*            str? if? try? reduce? foreach? label? break? query?,         *)
(*            suffix_list?]                                                *)
(*   Suffix  [index] | [iter |-> TRUE] | [optional |-> TRUE] | [bind]      *)
(*                                                                         *)
(* An `as` binding is a SUFFIX whose body is the rest of the pipeline.     *)
(* The printer of the parser (transcribed as Print) inserts no parentheses *)
(* of its own: parentheses are TermTypeQuery nodes.  So "which trees print *)
(* to text that parses back to the same tree" is a property of where       *)
(* TermTypeQuery nodes sit, captured by Fits (precedence / associativity / *)
(* right-open constructs), and:                                            *)
(*   Min(a)   inserts exactly the parentheses Fits demands,                *)
(*   Full(a)  parenthesises every sub-query,                               *)
(*   Norm(a)  drops every TermTypeQuery wrapper Fits does not demand,      *)
(*   Reparse  re-brackets the printed token skeleton by the table          *)
(*            (precedence climbing; no reference to Fits).                 *)
(* Variable-free.                                                          *)
(***************************************************************************)
EXTENDS Integers, Sequences, FiniteSets, TLC

HasF(r, f) == f \in DOMAIN r

(****************************** constructors *******************************)
TQ(t) == [term |-> t]
Ty(ty) == [type |-> ty]
Ident   == TQ(Ty("TermTypeIdentity"))
RecurseQ == TQ(Ty("TermTypeRecurse"))
NullQ   == TQ(Ty("TermTypeNull"))
TrueQ   == TQ(Ty("TermTypeTrue"))
FalseQ  == TQ(Ty("TermTypeFalse"))
NumQ(s) == TQ([type |-> "TermTypeNumber", number |-> s])
StrRec(s) == IF s = "" THEN <<>> ELSE [str |-> s]          \* String struct; "" is omitted (omitempty)
StrQ(s) == TQ([type |-> "TermTypeString", str |-> StrRec(s)])
InterpQ(parts) == TQ([type |-> "TermTypeString", str |-> [queries |-> parts]])
FieldQ(n) == TQ([type |-> "TermTypeIndex", index |-> [name |-> n]])
FieldStrQ(s) == TQ([type |-> "TermTypeIndex", index |-> [str |-> StrRec(s)]])
IndexQ(q) == TQ([type |-> "TermTypeIndex", index |-> [start |-> q]])
SliceQ(a, b, ha, hb) ==
    TQ([type |-> "TermTypeIndex",
        index |-> (IF ha THEN [start |-> a] ELSE <<>>) @@ (IF hb THEN [end |-> b] ELSE <<>>) @@ [is_slice |-> TRUE]])
FuncQ(n, args) == TQ([type |-> "TermTypeFunc", func |-> IF args = <<>> THEN [name |-> n] ELSE [name |-> n, args |-> args]])
VarQ(n) == FuncQ(n, <<>>)
ArrQ(q) == TQ([type |-> "TermTypeArray", array |-> [query |-> q]])
EmptyArrQ == TQ([type |-> "TermTypeArray", array |-> <<>>])
ObjQ(kvs) == TQ([type |-> "TermTypeObject", object |-> IF kvs = <<>> THEN <<>> ELSE [key_vals |-> kvs]])
KV(k, v) == [key |-> k, val |-> v]
KVS(s, v) == [key_string |-> StrRec(s), val |-> v]
KVQ(kq, v) == [key_query |-> kq, val |-> v]
Paren(q) == TQ([type |-> "TermTypeQuery", query |-> q])
UnaryT(op, t) == [type |-> "TermTypeUnary", unary |-> [op |-> op, term |-> t]]
FormatQ(f) == TQ([type |-> "TermTypeFormat", format |-> f])
FormatStrQ(f, strrec) == TQ([type |-> "TermTypeFormat", format |-> f, str |-> strrec])
IfQ(c, t, e) == TQ([type |-> "TermTypeIf", if |-> [cond |-> c, then |-> t, else |-> e]])
If2Q(c, t) == TQ([type |-> "TermTypeIf", if |-> [cond |-> c, then |-> t]])
IfElifQ(c, t, c2, t2, e) == TQ([type |-> "TermTypeIf", if |-> [cond |-> c, then |-> t, elif |-> <<[cond |-> c2, then |-> t2]>>, else |-> e]])
TryQ(b) == TQ([type |-> "TermTypeTry", try |-> [body |-> b]])
TryCatchQ(b, c) == TQ([type |-> "TermTypeTry", try |-> [body |-> b, catch |-> c]])
PVar(n) == [name |-> n]
PArr(ps) == [array |-> ps]
PObj(kvs) == [object |-> kvs]
ReduceQ(src, pat, st, up) == TQ([type |-> "TermTypeReduce", reduce |-> [query |-> src, pattern |-> pat, start |-> st, update |-> up]])
ForeachQ(src, pat, st, up) == TQ([type |-> "TermTypeForeach", foreach |-> [query |-> src, pattern |-> pat, start |-> st, update |-> up]])
Foreach3Q(src, pat, st, up, ex) == TQ([type |-> "TermTypeForeach", foreach |-> [query |-> src, pattern |-> pat, start |-> st, update |-> up, extract |-> ex]])
LabelQ(id, b) == TQ([type |-> "TermTypeLabel", label |-> [ident |-> id, body |-> b]])
BreakQ(id) == TQ([type |-> "TermTypeBreak", break |-> id])
Bin(op, l, r) == [left |-> l, op |-> op, right |-> r]
Pipe(l, r) == Bin("|", l, r)
Comma(l, r) == Bin(",", l, r)
SuffixesOf(t) == IF HasF(t, "suffix_list") THEN t.suffix_list ELSE <<>>
WithSuffixes(t, ss) == IF ss = <<>> THEN [f \in DOMAIN t \ {"suffix_list"} |-> t[f]]
                       ELSE [f \in DOMAIN t \ {"suffix_list"} |-> t[f]] @@ [suffix_list |-> ss]
AddSuffix(q, s) == [q EXCEPT !.term = WithSuffixes(q.term, Append(SuffixesOf(q.term), s))]
SIter == [iter |-> TRUE]
SOpt  == [optional |-> TRUE]
SIndexName(n) == [index |-> [name |-> n]]
SIndexQ(q) == [index |-> [start |-> q]]
SBind(pats, body) == [bind |-> [patterns |-> pats, body |-> body]]
(* A term that can stand where the grammar wants a `term`: not a def-prefixed query, an operator, a binding or a label.  *)
(* As the base of a suffix (`t.a`, `t[]`, `t?`, `t as ..`) it must not be a unary or try term either: the printed suffix *)
(* would attach to their operand.  Anything else is parenthesised.                                                     *)
TermOnly(q) == HasF(q, "term") /\ ~HasF(q, "func_defs")
PlainTerm(q) == TermOnly(q) /\ q.term.type # "TermTypeLabel"
                /\ ~(SuffixesOf(q.term) # <<>> /\ HasF(q.term.suffix_list[Len(q.term.suffix_list)], "bind"))
AsOperandQ(q) == IF PlainTerm(q) THEN q ELSE Paren(q)
AsTermQ(q) == IF PlainTerm(q) /\ q.term.type \notin {"TermTypeUnary", "TermTypeTry"} THEN q ELSE Paren(q)
NegQ(q) == TQ(UnaryT("-", AsOperandQ(q).term))
PosQ(q) == TQ(UnaryT("+", AsOperandQ(q).term))
BindQ(src, pats, body) == AddSuffix(AsTermQ(src), SBind(pats, body))
OptQ(q) == AddSuffix(AsTermQ(q), SOpt)
IterQ(q) == AddSuffix(AsTermQ(q), SIter)
FDef(n, params, body) == IF params = <<>> THEN [name |-> n, body |-> body] ELSE [name |-> n, args |-> params, body |-> body]
DefsOf(q) == IF HasF(q, "func_defs") THEN q.func_defs ELSE <<>>
NoDefs(q) == [f \in DOMAIN q \ {"func_defs"} |-> q[f]]
WithDefs(ds, q) == IF ds = <<>> THEN NoDefs(q) ELSE NoDefs(q) @@ [func_defs |-> ds]
DefQ(d, q) == WithDefs(<<d>> \o DefsOf(q), q)            \* `def ..; q` prepends, as the parser does

(************************* operators and precedence ************************)
UpdateOps == {"=", "|=", "+=", "-=", "*=", "/=", "%=", "//="}
CompareOps == {"==", "!=", "<", "<=", ">", ">="}
AllOps == {"|", ",", "//", "or", "and", "+", "-", "*", "/", "%"} \cup UpdateOps \cup CompareOps   \* 24
Prec(op) == CASE op = "|" -> 1 [] op = "," -> 2 [] op = "//" -> 3 [] op \in UpdateOps -> 4
              [] op = "or" -> 5 [] op = "and" -> 6 [] op \in CompareOps -> 7
              [] op \in {"+", "-"} -> 8 [] op \in {"*", "/", "%"} -> 9
Assoc(op) == CASE op \in {"|", "//"} -> "r" [] op \in UpdateOps \cup CompareOps -> "n" [] OTHER -> "l"
TermTypes == {"TermTypeIdentity", "TermTypeRecurse", "TermTypeNull", "TermTypeTrue", "TermTypeFalse", "TermTypeIndex",
              "TermTypeFunc", "TermTypeObject", "TermTypeArray", "TermTypeNumber", "TermTypeUnary", "TermTypeFormat",
              "TermTypeString", "TermTypeIf", "TermTypeTry", "TermTypeReduce", "TermTypeForeach", "TermTypeLabel",
              "TermTypeBreak", "TermTypeQuery"}

(***************************** syntactic classes ***************************)
LastSuffixIsBind(t) == SuffixesOf(t) # <<>> /\ HasF(t.suffix_list[Len(t.suffix_list)], "bind")
(* "open": extends as far to the right as possible (def-prefix, `as`-binding, label) *)
Class(q) == IF HasF(q, "func_defs") THEN "open"
            ELSE IF HasF(q, "term") THEN (IF q.term.type = "TermTypeLabel" \/ LastSuffixIsBind(q.term) THEN "open" ELSE "term")
            ELSE IF ~HasF(q, "op") THEN "open"                 \* definitions only
            ELSE IF q.op = "|" THEN "pipe" ELSE IF q.op = "," THEN "comma" ELSE "bin"

(* A position: lvl = widest nonterminal accepted (Q query, OV object value, E expr, T postfix term);     *)
(* op/side = enclosing binary operator ("" none); tail = nothing follows to the right inside the region. *)
Ctx(lvl, op, side, tail) == [lvl |-> lvl, op |-> op, side |-> side, tail |-> tail]
Top  == Ctx("Q", "", "", TRUE)
OVal == Ctx("OV", "", "", TRUE)
ExprC == Ctx("E", "", "", TRUE)
TermC == Ctx("T", "", "", TRUE)
TermCatchC == Ctx("TC", "", "", TRUE)     \* a postfix term followed by `catch`: a catch-less try at its right end would take that catch
LeftOf(op, c)  == Ctx(c.lvl, op, "l", FALSE)
RightOf(op, c) == Ctx(c.lvl, op, "r", c.tail)

RECURSIVE EndsOpenTry(_)
EndsOpenTry(t) == IF HasF(t, "suffix_list") THEN FALSE
                  ELSE IF t.type = "TermTypeTry" THEN (IF HasF(t.try, "catch") THEN TermOnly(t.try.catch) /\ EndsOpenTry(t.try.catch.term) ELSE TRUE)
                  ELSE IF t.type = "TermTypeUnary" THEN EndsOpenTry(t.unary.term)
                  ELSE FALSE
Fits(q, c) ==
    LET cl == Class(q) IN
    CASE cl = "term" -> c.lvl # "TC" \/ ~EndsOpenTry(q.term)
      [] c.lvl \in {"T", "TC"} -> FALSE
      [] cl = "open" -> c.lvl = "Q" /\ c.tail /\ (c.op = "" \/ (c.op \in {"|", ","} /\ c.side = "r"))
      [] cl = "pipe" -> c.lvl \in {"Q", "OV"} /\ (c.op = "" \/ (c.op = "|" /\ c.side = "r"))
      [] cl = "comma" -> c.lvl = "Q" /\ (c.op \in {"", "|"} \/ (c.op = "," /\ c.side = "l"))
      [] cl = "bin" -> \/ c.op \in {"", "|", ","}
                       \/ Prec(q.op) > Prec(c.op)
                       \/ (Prec(q.op) = Prec(c.op) /\ Assoc(c.op) = c.side)

IsBareParen(q) == TermOnly(q) /\ q.term.type = "TermTypeQuery" /\ ~HasF(q.term, "suffix_list")

(*************** re-bracketing the printed skeleton by the table ***********)
(* Flat(q): the token skeleton the printer writes for q, looking through   *)
(* everything that prints WITHOUT brackets around it.                      *)
RECURSIVE Flat(_)
Flat(q) ==
    (IF HasF(q, "func_defs") THEN <<[k |-> "defs", d |-> q.func_defs]>> ELSE <<>>)
    \o (IF HasF(q, "term") THEN
            (IF LastSuffixIsBind(q.term)
             THEN LET n == Len(q.term.suffix_list) IN
                  <<[k |-> "bind", t |-> WithSuffixes(q.term, SubSeq(q.term.suffix_list, 1, n - 1)),
                     p |-> q.term.suffix_list[n].bind.patterns]>> \o Flat(q.term.suffix_list[n].bind.body)
             ELSE IF q.term.type = "TermTypeLabel" /\ ~HasF(q.term, "suffix_list")
             THEN <<[k |-> "label", id |-> q.term.label.ident]>> \o Flat(q.term.label.body)
             ELSE <<[k |-> "t", t |-> q.term]>>)
        ELSE IF HasF(q, "op") THEN Flat(q.left) \o <<[k |-> "op", op |-> q.op]>> \o Flat(q.right)
        ELSE <<>>)

(* Precedence climbing over the skeleton.  minp: lowest operator precedence *)
(* that may be consumed; open constructs are only legal where a `query`    *)
(* nonterminal is expected (top, operand of | or ,) and then swallow the   *)
(* rest.  ops: operators legal in this region.  Result [ok, q, rest].      *)
SyntaxError == [error |-> "syntax"]
Bad == [ok |-> FALSE, q |-> <<>>, rest |-> <<>>]
RECURSIVE PQuery(_, _, _), PLoop(_, _, _, _)
PQuery(ts, minp, ops) ==
    IF ts = <<>> THEN Bad
    ELSE LET h == Head(ts) qlevel == minp <= 3 /\ "," \in ops IN
    CASE h.k = "defs" -> IF ~qlevel THEN Bad ELSE
            LET r == PQuery(Tail(ts), 1, ops) IN IF ~r.ok THEN Bad ELSE [r EXCEPT !.q = WithDefs(h.d \o DefsOf(r.q), r.q)]
      [] h.k = "label" -> IF ~qlevel THEN Bad ELSE
            LET r == PQuery(Tail(ts), 1, ops) IN IF ~r.ok THEN Bad ELSE [r EXCEPT !.q = LabelQ(h.id, r.q)]
      [] h.k = "bind" -> IF ~qlevel THEN Bad ELSE
            LET r == PQuery(Tail(ts), 1, ops) IN IF ~r.ok THEN Bad
            ELSE [r EXCEPT !.q = TQ(WithSuffixes(h.t, Append(SuffixesOf(h.t), SBind(h.p, r.q))))]
      [] h.k = "t" -> PLoop(TQ(h.t), Tail(ts), minp, ops)
      [] OTHER -> Bad
PLoop(lhs, ts, minp, ops) ==
    IF ts = <<>> \/ Head(ts).k # "op" THEN [ok |-> ts = <<>>, q |-> lhs, rest |-> ts]
    ELSE LET op == Head(ts).op p == Prec(op) IN
         IF op \notin ops THEN Bad
         ELSE IF p < minp THEN [ok |-> TRUE, q |-> lhs, rest |-> ts]
         ELSE LET r == PQuery(Tail(ts), IF Assoc(op) = "r" THEN p ELSE p + 1, ops) IN
              IF ~r.ok THEN Bad
              ELSE IF Assoc(op) = "n" /\ r.rest # <<>> /\ Head(r.rest).k = "op" /\ Prec(Head(r.rest).op) = p THEN Bad
              ELSE PLoop(Bin(op, lhs, r.q), r.rest, minp, ops)
ParseLvl(ts, lvl) ==
    CASE lvl = "Q" -> PQuery(ts, 1, AllOps)
      [] lvl = "OV" -> PQuery(ts, 1, AllOps \ {","})
      [] lvl = "E" -> PQuery(ts, 3, AllOps \ {"|", ","})
      [] lvl = "T" -> IF Len(ts) = 1 /\ ts[1].k = "t" THEN [ok |-> TRUE, q |-> TQ(ts[1].t), rest |-> <<>>] ELSE Bad
      [] lvl = "TC" -> IF Len(ts) = 1 /\ ts[1].k = "t" /\ ~EndsOpenTry(ts[1].t) THEN [ok |-> TRUE, q |-> TQ(ts[1].t), rest |-> <<>>] ELSE Bad
(* PLoop stops with ok=TRUE and a non-empty rest when a lower-precedence operator follows; at region level that rest must be empty *)
Reparse(q, lvl) == LET r == ParseLvl(Flat(q), lvl) IN IF r.ok /\ r.rest = <<>> THEN r.q ELSE SyntaxError
ReparseOK(q, lvl) == Reparse(q, lvl) = q

(***************** Min / Full / Norm: one traversal, four modes ***********)
RECURSIVE Re(_, _, _), ReTerm(_, _), Place(_, _, _), ReStr(_, _), RePat(_, _), ReIndex(_, _), ReSuffix(_, _)

Place(x, c, mode) ==
    CASE mode = "full" -> Paren(Re(x, Top, mode))
      [] mode = "min" -> LET y == Re(x, c, mode) IN IF Fits(y, c) THEN y ELSE Paren(Re(x, Top, mode))
      [] mode = "norm" ->
            IF IsBareParen(x) THEN LET y == Place(x.term.query, c, mode) IN
                                   IF Fits(y, c) THEN y ELSE Paren(Place(x.term.query, Top, mode))
            ELSE Re(x, c, mode)
      [] mode = "reparse" ->      \* every bracketed region replaced by the re-bracketing of its printed skeleton
            LET y == Re(x, c, mode) IN IF c.op = "" THEN Reparse(y, c.lvl) ELSE y

Re(q, c, mode) ==
    LET ds == [i \in 1 .. Len(DefsOf(q)) |-> [q.func_defs[i] EXCEPT !.body = Place(q.func_defs[i].body, Top, mode)]]
        body == IF HasF(q, "term") THEN [term |-> ReTerm(q.term, mode)]
                ELSE IF HasF(q, "op") THEN [left |-> Place(q.left, LeftOf(q.op, c), mode), op |-> q.op,
                                            right |-> Place(q.right, RightOf(q.op, c), mode)]
                ELSE <<>>
        dirs == [f \in DOMAIN q \cap {"meta", "imports"} |-> q[f]]
    IN (IF ds = <<>> THEN body ELSE body @@ [func_defs |-> ds]) @@ dirs

ReStr(s, mode) ==       \* String struct: interpolated queries are mandatory TermTypeQuery wrappers
    IF ~HasF(s, "queries") THEN s
    ELSE [s EXCEPT !.queries = [i \in 1 .. Len(s.queries) |->
             IF s.queries[i].term.type = "TermTypeQuery"
             THEN [term |-> [type |-> "TermTypeQuery", query |-> Place(s.queries[i].term.query, Top, mode)]]
             ELSE s.queries[i]]]
RePat(p, mode) ==
    IF HasF(p, "array") THEN [p EXCEPT !.array = [i \in 1 .. Len(p.array) |-> RePat(p.array[i], mode)]]
    ELSE IF HasF(p, "object") THEN
        [p EXCEPT !.object = [i \in 1 .. Len(p.object) |->
            LET o == p.object[i]
                o1 == IF HasF(o, "key_query") THEN [o EXCEPT !.key_query = Place(o.key_query, Top, mode)] ELSE o
                o2 == IF HasF(o1, "key_string") THEN [o1 EXCEPT !.key_string = ReStr(o1.key_string, mode)] ELSE o1
            IN IF HasF(o2, "val") THEN [o2 EXCEPT !.val = RePat(o2.val, mode)] ELSE o2]]
    ELSE p
ReIndex(x, mode) ==
    LET x1 == IF HasF(x, "start") THEN [x EXCEPT !.start = Place(x.start, Top, mode)] ELSE x
        x2 == IF HasF(x1, "end") THEN [x1 EXCEPT !.end = Place(x1.end, Top, mode)] ELSE x1
    IN IF HasF(x2, "str") THEN [x2 EXCEPT !.str = ReStr(x2.str, mode)] ELSE x2
ReSuffix(s, mode) ==
    IF HasF(s, "index") THEN [index |-> ReIndex(s.index, mode)]
    ELSE IF HasF(s, "bind") THEN [bind |-> [patterns |-> [i \in 1 .. Len(s.bind.patterns) |-> RePat(s.bind.patterns[i], mode)],
                                            body |-> Place(s.bind.body, Top, mode)]]
    ELSE s

ReTerm(t, mode) ==
    LET ty == t.type
        core ==
          CASE ty = "TermTypeIndex" -> [t EXCEPT !.index = ReIndex(t.index, mode)]
            [] ty = "TermTypeFunc" -> IF HasF(t.func, "args")
                   THEN [t EXCEPT !.func.args = [i \in 1 .. Len(t.func.args) |-> Place(t.func.args[i], Top, mode)]] ELSE t
            [] ty = "TermTypeObject" -> IF HasF(t.object, "key_vals")
                   THEN [t EXCEPT !.object.key_vals = [i \in 1 .. Len(t.object.key_vals) |->
                        LET kv == t.object.key_vals[i]
                            k1 == IF HasF(kv, "key_query") THEN [kv EXCEPT !.key_query = Place(kv.key_query, Top, mode)] ELSE kv
                            k2 == IF HasF(k1, "key_string") THEN [k1 EXCEPT !.key_string = ReStr(k1.key_string, mode)] ELSE k1
                        IN IF HasF(k2, "val") THEN [k2 EXCEPT !.val = Place(k2.val, OVal, mode)] ELSE k2]]
                   ELSE t
            [] ty = "TermTypeArray" -> IF HasF(t.array, "query") THEN [t EXCEPT !.array.query = Place(t.array.query, Top, mode)] ELSE t
            [] ty = "TermTypeUnary" ->
                   LET u == ReTerm(t.unary.term, mode)
                       u2 == CASE mode = "full" -> [type |-> "TermTypeQuery", query |-> TQ(u)]
                               [] mode = "norm" /\ u.type = "TermTypeQuery" /\ ~HasF(u, "suffix_list")
                                     /\ Class(u.query) = "term" /\ ~HasF(u.query, "func_defs") -> u.query.term
                               [] OTHER -> u
                   IN [t EXCEPT !.unary.term = u2]
            [] ty = "TermTypeFormat" -> IF HasF(t, "str") THEN [t EXCEPT !.str = ReStr(t.str, mode)] ELSE t
            [] ty = "TermTypeString" -> [t EXCEPT !.str = ReStr(t.str, mode)]
            [] ty = "TermTypeIf" ->
                   LET i1 == [t.if EXCEPT !.cond = Place(t.if.cond, Top, mode), !.then = Place(t.if.then, Top, mode)]
                       i2 == IF HasF(i1, "elif") THEN [i1 EXCEPT !.elif = [i \in 1 .. Len(i1.elif) |->
                                   [cond |-> Place(i1.elif[i].cond, Top, mode), then |-> Place(i1.elif[i].then, Top, mode)]]] ELSE i1
                       i3 == IF HasF(i2, "else") THEN [i2 EXCEPT !.else = Place(i2.else, Top, mode)] ELSE i2
                   IN [t EXCEPT !.if = i3]
            [] ty = "TermTypeTry" ->
                   LET b == [t.try EXCEPT !.body = Place(t.try.body, IF HasF(t.try, "catch") THEN TermCatchC ELSE TermC, mode)]
                   IN [t EXCEPT !.try = IF HasF(b, "catch") THEN [b EXCEPT !.catch = Place(b.catch, TermC, mode)] ELSE b]
            [] ty = "TermTypeReduce" ->
                   [t EXCEPT !.reduce = [query |-> Place(t.reduce.query, ExprC, mode), pattern |-> RePat(t.reduce.pattern, mode),
                                         start |-> Place(t.reduce.start, Top, mode), update |-> Place(t.reduce.update, Top, mode)]]
            [] ty = "TermTypeForeach" ->
                   LET f == [query |-> Place(t.foreach.query, ExprC, mode), pattern |-> RePat(t.foreach.pattern, mode),
                             start |-> Place(t.foreach.start, Top, mode), update |-> Place(t.foreach.update, Top, mode)]
                   IN [t EXCEPT !.foreach = IF HasF(t.foreach, "extract") THEN f @@ [extract |-> Place(t.foreach.extract, Top, mode)] ELSE f]
            [] ty = "TermTypeLabel" -> [t EXCEPT !.label.body = Place(t.label.body, Top, mode)]
            [] ty = "TermTypeQuery" -> [t EXCEPT !.query = Place(t.query, Top, mode)]
            [] OTHER -> t
        done == IF HasF(t, "suffix_list")
                THEN [core EXCEPT !.suffix_list = [i \in 1 .. Len(t.suffix_list) |-> ReSuffix(t.suffix_list[i], mode)]]
                ELSE core
    IN \* `.` followed by a bracket index prints as `.[..]`, which the parser reads as an index TERM: same thing, one spelling
       IF mode = "norm" /\ ty = "TermTypeIdentity" /\ HasF(done, "suffix_list") /\ HasF(done.suffix_list[1], "index")
          /\ ~HasF(done.suffix_list[1].index, "name") /\ ~HasF(done.suffix_list[1].index, "str")
       THEN WithSuffixes([type |-> "TermTypeIndex", index |-> done.suffix_list[1].index], Tail(done.suffix_list))
       ELSE done

Min(a)  == Re(a, Top, "min")
Full(a) == Re(a, Top, "full")
Norm(a) == Place(a, Top, "norm")
(* a definitions-only program is legal only as a whole program *)
DeepReparse(a) == IF HasF(a, "term") \/ HasF(a, "op") THEN Place(a, Top, "reparse") ELSE Re(a, Top, "reparse")

(******************************** printer **********************************)
(* Transcription of the parser's writeTo methods (no parentheses of its    *)
(* own).  Strings in the AST are from a finite vocabulary; Esc gives the   *)
(* JSON-escaped body for those that need escaping, DigitEnd the names that *)
(* end in a digit (the printer puts a space between a digit or '.' and a   *)
(* following `.name`).                                                     *)
Esc(s) == CASE s = "a\"b" -> "a\\\"b" [] s = "a\\b" -> "a\\\\b" [] s = "a\nb" -> "a\\nb" [] s = "\t" -> "\\t" [] OTHER -> s
DigitEnd == {"0", "1", "2", "3", "10", "100", "0x10", "0b101", "0o17", "1.5", "1e3", "@base64", "@base32", "f1", "$x1", "$__loc0"}

RECURSIVE PrintQ(_), PrintTerm(_), PrintStr(_), PrintPat(_), PrintIndexBody(_), PrintSuffixes(_, _), PrintDefs(_), JoinQ(_, _), PrintConst(_), PrintConstObj(_)
JoinStr(ss, sep) == LET RECURSIVE J(_) J(i) == IF i > Len(ss) THEN "" ELSE (IF i > 1 THEN sep ELSE "") \o ss[i] \o J(i + 1) IN J(1)
JoinQ(qs, sep) == JoinStr([i \in 1 .. Len(qs) |-> PrintQ(qs[i])], sep)
PrintStr(s) ==
    IF ~HasF(s, "queries") THEN "\"" \o Esc(IF HasF(s, "str") THEN s.str ELSE "") \o "\""
    ELSE "\"" \o JoinStr([i \in 1 .. Len(s.queries) |->
                 IF HasF(s.queries[i].term, "str") THEN Esc(IF HasF(s.queries[i].term.str, "str") THEN s.queries[i].term.str.str ELSE "")
                 ELSE "\\" \o PrintQ(s.queries[i])], "") \o "\""
PrintPat(p) ==
    IF HasF(p, "name") THEN p.name
    ELSE IF HasF(p, "array") THEN "[" \o JoinStr([i \in 1 .. Len(p.array) |-> PrintPat(p.array[i])], ", ") \o "]"
    ELSE "{" \o JoinStr([i \in 1 .. Len(p.object) |->
             LET o == p.object[i] IN
             (IF HasF(o, "key") THEN o.key ELSE IF HasF(o, "key_string") THEN PrintStr(o.key_string) ELSE "(" \o PrintQ(o.key_query) \o ")")
             \o (IF HasF(o, "val") THEN ": " \o PrintPat(o.val) ELSE "")], ", ") \o "}"
PrintIndexBody(x) ==      \* writeSuffixTo
    IF HasF(x, "name") THEN x.name
    ELSE IF HasF(x, "str") THEN PrintStr(x.str)
    ELSE "[" \o (IF HasF(x, "is_slice")
                 THEN (IF HasF(x, "start") THEN PrintQ(x.start) ELSE "") \o ":" \o (IF HasF(x, "end") THEN PrintQ(x.end) ELSE "")
                 ELSE PrintQ(x.start)) \o "]"
PrintDefs(ds) == JoinStr([i \in 1 .. Len(ds) |->
                    "def " \o ds[i].name \o (IF HasF(ds[i], "args") THEN "(" \o JoinStr(ds[i].args, "; ") \o ")" ELSE "")
                    \o ": " \o PrintQ(ds[i].body) \o "; "], "")
PrintConst(c) ==
    IF HasF(c, "object") THEN PrintConstObj(c.object)
    ELSE IF HasF(c, "array") THEN "[" \o (IF HasF(c.array, "elems") THEN JoinStr([i \in 1 .. Len(c.array.elems) |-> PrintConst(c.array.elems[i])], ", ") ELSE "") \o "]"
    ELSE IF HasF(c, "number") THEN c.number
    ELSE IF HasF(c, "null") THEN "null" ELSE IF HasF(c, "true") THEN "true" ELSE IF HasF(c, "false") THEN "false"
    ELSE "\"" \o Esc(IF HasF(c, "str") THEN c.str ELSE "") \o "\""
PrintConstObj(o) ==
    IF ~HasF(o, "keyvals") THEN "{}"
    ELSE "{ " \o JoinStr([i \in 1 .. Len(o.keyvals) |->
             (IF HasF(o.keyvals[i], "key") THEN o.keyvals[i].key ELSE "\"" \o Esc(o.keyvals[i].key_string) \o "\"")
             \o ": " \o PrintConst(o.keyvals[i].val)], ", ") \o " }"
PrintImports(ims) == JoinStr([i \in 1 .. Len(ims) |->
        (IF HasF(ims[i], "import_path") THEN "import \"" \o Esc(ims[i].import_path) \o "\" as " \o ims[i].import_alias
         ELSE "include \"" \o Esc(ims[i].include_path) \o "\"")
        \o (IF HasF(ims[i], "meta") THEN " " \o PrintConstObj(ims[i].meta) ELSE "") \o ";\n"], "")

(* does the text of the term printed so far end in '.' or a digit? *)
EndsDD(t, nsuf) ==
    IF nsuf = 0 THEN
        CASE t.type \in {"TermTypeIdentity", "TermTypeRecurse"} -> TRUE
          [] t.type = "TermTypeNumber" -> t.number \in DigitEnd
          [] t.type = "TermTypeIndex" -> HasF(t.index, "name") /\ t.index.name \in DigitEnd
          [] t.type = "TermTypeFunc" -> ~HasF(t.func, "args") /\ t.func.name \in DigitEnd
          [] t.type = "TermTypeFormat" -> ~HasF(t, "str") /\ t.format \in DigitEnd
          [] t.type = "TermTypeBreak" -> t.break \in DigitEnd
          [] OTHER -> FALSE
    ELSE LET s == t.suffix_list[nsuf] IN HasF(s, "index") /\ HasF(s.index, "name") /\ s.index.name \in DigitEnd
PrintSuffixes(t, i) ==
    IF i > Len(SuffixesOf(t)) THEN ""
    ELSE LET s == t.suffix_list[i] IN
         (IF HasF(s, "index") THEN
              (IF HasF(s.index, "name") \/ HasF(s.index, "str")
               THEN (IF EndsDD(t, i - 1) THEN " ." ELSE ".") \o PrintIndexBody(s.index)
               ELSE PrintIndexBody(s.index))
          ELSE IF HasF(s, "iter") THEN "[]"
          ELSE IF HasF(s, "optional") THEN "?"
          ELSE " as " \o JoinStr([j \in 1 .. Len(s.bind.patterns) |-> PrintPat(s.bind.patterns[j]) \o " "], "?// ")
               \o "| " \o PrintQ(s.bind.body))
         \o PrintSuffixes(t, i + 1)
PrintTerm(t) ==
    LET ty == t.type IN
    (CASE ty = "TermTypeIdentity" -> "."
       [] ty = "TermTypeRecurse" -> ".."
       [] ty = "TermTypeNull" -> "null"
       [] ty = "TermTypeTrue" -> "true"
       [] ty = "TermTypeFalse" -> "false"
       [] ty = "TermTypeIndex" -> "." \o PrintIndexBody(t.index)
       [] ty = "TermTypeFunc" -> t.func.name \o (IF HasF(t.func, "args") THEN "(" \o JoinQ(t.func.args, "; ") \o ")" ELSE "")
       [] ty = "TermTypeObject" ->
            IF ~HasF(t.object, "key_vals") THEN "{}"
            ELSE "{ " \o JoinStr([i \in 1 .. Len(t.object.key_vals) |->
                     LET kv == t.object.key_vals[i] IN
                     (IF HasF(kv, "key") THEN kv.key ELSE IF HasF(kv, "key_string") THEN PrintStr(kv.key_string)
                      ELSE "(" \o PrintQ(kv.key_query) \o ")")
                     \o (IF HasF(kv, "val") THEN ": " \o PrintQ(kv.val) ELSE "")], ", ") \o " }"
       [] ty = "TermTypeArray" -> "[" \o (IF HasF(t.array, "query") THEN PrintQ(t.array.query) ELSE "") \o "]"
       [] ty = "TermTypeNumber" -> t.number
       [] ty = "TermTypeUnary" -> t.unary.op \o PrintTerm(t.unary.term)
       [] ty = "TermTypeFormat" -> t.format \o (IF HasF(t, "str") THEN " " \o PrintStr(t.str) ELSE "")
       [] ty = "TermTypeString" -> PrintStr(t.str)
       [] ty = "TermTypeIf" ->
            "if " \o PrintQ(t.if.cond) \o " then " \o PrintQ(t.if.then)
            \o (IF HasF(t.if, "elif") THEN JoinStr([i \in 1 .. Len(t.if.elif) |->
                    " elif " \o PrintQ(t.if.elif[i].cond) \o " then " \o PrintQ(t.if.elif[i].then)], "") ELSE "")
            \o (IF HasF(t.if, "else") THEN " else " \o PrintQ(t.if.else) ELSE "") \o " end"
       [] ty = "TermTypeTry" -> "try " \o PrintQ(t.try.body) \o (IF HasF(t.try, "catch") THEN " catch " \o PrintQ(t.try.catch) ELSE "")
       [] ty = "TermTypeReduce" ->
            "reduce " \o PrintQ(t.reduce.query) \o " as " \o PrintPat(t.reduce.pattern) \o " ("
            \o PrintQ(t.reduce.start) \o "; " \o PrintQ(t.reduce.update) \o ")"
       [] ty = "TermTypeForeach" ->
            "foreach " \o PrintQ(t.foreach.query) \o " as " \o PrintPat(t.foreach.pattern) \o " ("
            \o PrintQ(t.foreach.start) \o "; " \o PrintQ(t.foreach.update)
            \o (IF HasF(t.foreach, "extract") THEN "; " \o PrintQ(t.foreach.extract) ELSE "") \o ")"
       [] ty = "TermTypeLabel" -> "label " \o t.label.ident \o " | " \o PrintQ(t.label.body)
       [] ty = "TermTypeBreak" -> "break " \o t.break
       [] ty = "TermTypeQuery" -> "(" \o PrintQ(t.query) \o ")")
    \o PrintSuffixes(t, 1)
PrintQ(q) ==
    (IF HasF(q, "meta") THEN "module " \o PrintConstObj(q.meta) \o ";\n" ELSE "")
    \o (IF HasF(q, "imports") THEN PrintImports(q.imports) ELSE "")
    \o PrintDefs(DefsOf(q))
    \o (IF HasF(q, "term") THEN PrintTerm(q.term)
        ELSE IF HasF(q, "op") THEN PrintQ(q.left) \o (IF q.op = "," THEN ", " ELSE " " \o q.op \o " ") \o PrintQ(q.right)
        ELSE "")
PrintMin(a)  == PrintQ(Min(a))
PrintFull(a) == PrintQ(Full(a))

(************************** free names (capture) ***************************)
(* "$x" variables, "f/1" functions, "*l" labels *)
RECURSIVE PatVars(_), FreeQ(_, _), FreeT(_, _), FreeStr(_, _), FreePatKeys(_, _), FreeSeq(_, _), FreeDefs(_, _, _), FreeIdx(_, _)
Arity(n) == CASE n = 0 -> "/0" [] n = 1 -> "/1" [] n = 2 -> "/2" [] n = 3 -> "/3" [] OTHER -> "/n"
PatVars(p) == IF HasF(p, "name") THEN {p.name}
              ELSE IF HasF(p, "array") THEN UNION {PatVars(p.array[i]) : i \in 1 .. Len(p.array)}
              ELSE UNION {(IF HasF(p.object[i], "key") /\ p.object[i].key \in {"$x", "$y", "$z", "$v", "$a", "$b", "$__loc__", "$name"} THEN {p.object[i].key} ELSE {})
                          \cup (IF HasF(p.object[i], "val") THEN PatVars(p.object[i].val) ELSE {}) : i \in 1 .. Len(p.object)}
FreePatKeys(p, B) == IF HasF(p, "array") THEN UNION {FreePatKeys(p.array[i], B) : i \in 1 .. Len(p.array)}
                     ELSE IF HasF(p, "object") THEN UNION {
                            (IF HasF(p.object[i], "key_query") THEN FreeQ(p.object[i].key_query, B) ELSE {})
                            \cup (IF HasF(p.object[i], "key_string") THEN FreeStr(p.object[i].key_string, B) ELSE {})
                            \cup (IF HasF(p.object[i], "val") THEN FreePatKeys(p.object[i].val, B) ELSE {}) : i \in 1 .. Len(p.object)}
                     ELSE {}
FreeSeq(qs, B) == UNION {FreeQ(qs[i], B) : i \in 1 .. Len(qs)}
FreeStr(s, B) == IF HasF(s, "queries") THEN FreeSeq(s.queries, B) ELSE {}
FreeIdx(x, B) == (IF HasF(x, "start") THEN FreeQ(x.start, B) ELSE {}) \cup (IF HasF(x, "end") THEN FreeQ(x.end, B) ELSE {})
                 \cup (IF HasF(x, "str") THEN FreeStr(x.str, B) ELSE {})
ParamNames(d) == IF HasF(d, "args") THEN UNION {IF d.args[i] \in {"$a", "$b", "$x", "$y", "$n"} THEN {d.args[i]} ELSE {d.args[i] \o "/0"} : i \in 1 .. Len(d.args)} ELSE {}
DefName(d) == d.name \o Arity(IF HasF(d, "args") THEN Len(d.args) ELSE 0)
(* definitions in sequence: each sees the earlier ones and itself *)
FreeDefs(ds, i, B) == IF i > Len(ds) THEN [free |-> {}, B |-> B]
                      ELSE LET B1 == B \cup {DefName(ds[i])}
                               r == FreeDefs(ds, i + 1, B1) IN
                           [free |-> FreeQ(ds[i].body, B1 \cup ParamNames(ds[i])) \cup r.free, B |-> r.B]
FreeQ(q, B) ==
    LET d == FreeDefs(DefsOf(q), 1, B) IN
    d.free \cup (IF HasF(q, "term") THEN FreeT(q.term, d.B)
                 ELSE IF HasF(q, "op") THEN FreeQ(q.left, d.B) \cup FreeQ(q.right, d.B) ELSE {})
FreeT(t, B) ==
    LET ty == t.type
        ss == SuffixesOf(t)
        sufFree == UNION {IF HasF(ss[i], "index") THEN FreeIdx(ss[i].index, B)
                          ELSE IF HasF(ss[i], "bind")
                          THEN UNION {FreePatKeys(ss[i].bind.patterns[j], B) : j \in 1 .. Len(ss[i].bind.patterns)}
                               \cup FreeQ(ss[i].bind.body, B \cup UNION {PatVars(ss[i].bind.patterns[j]) : j \in 1 .. Len(ss[i].bind.patterns)})
                          ELSE {} : i \in 1 .. Len(ss)}
        core ==
          CASE ty = "TermTypeIndex" -> FreeIdx(t.index, B)
            [] ty = "TermTypeFunc" ->
                  LET n == t.func.name \o (IF HasF(t.func, "args") THEN Arity(Len(t.func.args)) ELSE "/0")
                      isvar == ~HasF(t.func, "args") /\ t.func.name \in B
                  IN (IF isvar \/ n \in B THEN {} ELSE {IF t.func.name \in {"$x", "$y", "$z", "$v", "$a", "$b", "$n", "$in", "$__loc__", "$ENV", "$name", "$_args"} THEN t.func.name ELSE n})
                     \cup (IF HasF(t.func, "args") THEN FreeSeq(t.func.args, B) ELSE {})
            [] ty = "TermTypeObject" ->
                  IF ~HasF(t.object, "key_vals") THEN {} ELSE UNION {
                     LET kv == t.object.key_vals[i] IN
                     (IF HasF(kv, "key") /\ kv.key \in {"$x", "$y", "$z", "$v", "$a", "$b", "$__loc__"} /\ kv.key \notin B THEN {kv.key} ELSE {})
                     \cup (IF HasF(kv, "key_query") THEN FreeQ(kv.key_query, B) ELSE {})
                     \cup (IF HasF(kv, "key_string") THEN FreeStr(kv.key_string, B) ELSE {})
                     \cup (IF HasF(kv, "val") THEN FreeQ(kv.val, B) ELSE {}) : i \in 1 .. Len(t.object.key_vals)}
            [] ty = "TermTypeArray" -> IF HasF(t.array, "query") THEN FreeQ(t.array.query, B) ELSE {}
            [] ty = "TermTypeUnary" -> FreeT(t.unary.term, B)
            [] ty \in {"TermTypeFormat", "TermTypeString"} -> IF HasF(t, "str") THEN FreeStr(t.str, B) ELSE {}
            [] ty = "TermTypeIf" ->
                  FreeQ(t.if.cond, B) \cup FreeQ(t.if.then, B) \cup (IF HasF(t.if, "else") THEN FreeQ(t.if.else, B) ELSE {})
                  \cup (IF HasF(t.if, "elif") THEN UNION {FreeQ(t.if.elif[i].cond, B) \cup FreeQ(t.if.elif[i].then, B) : i \in 1 .. Len(t.if.elif)} ELSE {})
            [] ty = "TermTypeTry" -> FreeQ(t.try.body, B) \cup (IF HasF(t.try, "catch") THEN FreeQ(t.try.catch, B) ELSE {})
            [] ty = "TermTypeReduce" ->
                  FreeQ(t.reduce.query, B) \cup FreeQ(t.reduce.start, B) \cup FreePatKeys(t.reduce.pattern, B)
                  \cup FreeQ(t.reduce.update, B \cup PatVars(t.reduce.pattern))
            [] ty = "TermTypeForeach" ->
                  FreeQ(t.foreach.query, B) \cup FreeQ(t.foreach.start, B) \cup FreePatKeys(t.foreach.pattern, B)
                  \cup FreeQ(t.foreach.update, B \cup PatVars(t.foreach.pattern))
                  \cup (IF HasF(t.foreach, "extract") THEN FreeQ(t.foreach.extract, B \cup PatVars(t.foreach.pattern)) ELSE {})
            [] ty = "TermTypeLabel" -> FreeQ(t.label.body, B \cup {"*" \o t.label.ident})
            [] ty = "TermTypeBreak" -> IF ("*" \o t.break) \in B THEN {} ELSE {"*" \o t.break}
            [] ty = "TermTypeQuery" -> FreeQ(t.query, B)
            [] OTHER -> {}
    IN core \cup sufFree
Free(q) == FreeQ(q, {})

(******************************* the rewrite *******************************)
(* Transcription of eval.jq _eval_query_rewrite on syntax trees (the text  *)
(* round trip is what C11 checks on the real code).  opts: record with     *)
(* optional input_query, output_query, catch_query and slurps (function    *)
(* name -> replacement name).                                              *)
RECURSIVE PipeLast(_), TransformPipeLast(_, _)
(* query.jq _query_pipe_last; returns a query, or <<>> when the walk ends on a non-bind suffix (the jq code then yields the suffix object, which is never a function term) *)
PipeLast(q) ==
    IF HasF(q, "term") /\ HasF(q.term, "suffix_list") THEN
        (IF LastSuffixIsBind(q.term) THEN PipeLast(q.term.suffix_list[Len(q.term.suffix_list)].bind.body) ELSE <<>>)
    ELSE IF HasF(q, "op") /\ q.op = "|" THEN PipeLast(q.right)
    ELSE q
TransformPipeLast(q, new) ==
    IF HasF(q, "term") /\ HasF(q.term, "suffix_list") THEN
        LET n == Len(q.term.suffix_list) IN
        IF LastSuffixIsBind(q.term)
        THEN [q EXCEPT !.term.suffix_list[n].bind.body = TransformPipeLast(q.term.suffix_list[n].bind.body, new)]
        ELSE [q EXCEPT !.term.suffix_list[n] = new]          \* as the jq code does (never reached for a slurp)
    ELSE IF HasF(q, "op") /\ q.op = "|" THEN [q EXCEPT !.right = TransformPipeLast(q.right, new)]
    ELSE new
IsFuncQ(q) == q # <<>> /\ HasF(q, "term") /\ q.term.type = "TermTypeFunc"
Directives(q) == [f \in DOMAIN q \cap {"meta", "imports"} |-> q[f]]
NoDirectives(q) == [f \in DOMAIN q \ {"meta", "imports"} |-> q[f]]

(* the stage the user program occupies after the rewrite, before slurp handling *)
WrapUser(u, opts) ==
    LET q0 == IF HasF(u, "term") \/ HasF(u, "op") THEN u ELSE u @@ Ident
        q2 == IF HasF(opts, "catch_query") THEN TryCatchQ(Paren(q0), opts.catch_query) ELSE u
    IN IF HasF(opts, "input_query") THEN Pipe(opts.input_query, q2) ELSE q2

SlurpName(u, opts) ==
    LET last == PipeLast(u) IN
    IF IsFuncQ(last) /\ HasF(opts, "slurps") /\ last.term.func.name \in DOMAIN opts.slurps THEN opts.slurps[last.term.func.name] ELSE ""

(* as built by the jq code (left-nested pipes); slurp variant: see SlurpParts *)
RewriteBuilt(u0, opts) ==
    LET u == NoDirectives(u0)
        q3 == WrapUser(u, opts)
    IN (IF HasF(opts, "output_query") THEN Pipe(q3, opts.output_query) ELSE q3) @@ Directives(u0)
(* the shape the printed text parses to: Pipe(input, Pipe(Try(Paren(u), catch), output)), each part only if the option is there *)
Rewrite(u0, opts) ==
    LET u == NoDirectives(u0)
        q0 == IF HasF(u, "term") \/ HasF(u, "op") THEN u ELSE u @@ Ident
        r1 == IF HasF(opts, "catch_query") THEN TryCatchQ(Paren(q0), opts.catch_query) ELSE u
        r2 == IF HasF(opts, "output_query") THEN Pipe(r1, opts.output_query) ELSE r1
        r3 == IF HasF(opts, "input_query") THEN Pipe(opts.input_query, r2) ELSE r2
    IN r3 @@ Directives(u0)
UserSubtree(r, opts) ==
    LET r2 == IF HasF(opts, "input_query") THEN r.right ELSE r
        r1 == IF HasF(opts, "output_query") THEN r2.left ELSE r2
    IN Norm(r1.term.try.body)

(* slurp variant: `... | repl` etc.  The call is  <slurp>({slurp: "<name>", slurp_args: [..], orig: .., rewrite: ..}) with the    *)
(* trees passed as object literals; SlurpParts gives the trees those literals denote.                                             *)
SlurpParts(u0, opts) ==
    LET u == NoDirectives(u0)
        last == PipeLast(u)
    IN [fn |-> SlurpName(u, opts),
        name |-> last.term.func.name,
        nargs |-> IF HasF(last.term.func, "args") THEN Len(last.term.func.args) ELSE 0,
        args |-> IF HasF(last.term.func, "args") THEN last.term.func.args ELSE <<>>,
        orig |-> u,
        rewrite |-> WrapUser(TransformPipeLast(u, Ident), opts)]

(* The value a constant object/array/string literal tree denotes (trees passed to a slurp function are written as literals). *)
RECURSIVE Denote(_), DenoteCommas(_)
DenoteCommas(q) == IF HasF(q, "op") /\ q.op = "," THEN DenoteCommas(q.left) \o <<Denote(q.right)>> ELSE <<Denote(q)>>
Denote(q) ==
    LET t == q.term IN
    CASE t.type = "TermTypeObject" ->
            IF ~HasF(t.object, "key_vals") THEN <<>>
            ELSE LET kvs == t.object.key_vals
                     keyOf(kv) == IF HasF(kv, "key") THEN kv.key ELSE IF HasF(kv.key_string, "str") THEN kv.key_string.str ELSE ""
                     live == {i \in 1 .. Len(kvs) : kvs[i].val.term.type # "TermTypeNull"}     \* a null field is an absent field
                 IN [k \in {keyOf(kvs[i]) : i \in live} |-> Denote(kvs[CHOOSE i \in live : keyOf(kvs[i]) = k].val)]
      [] t.type = "TermTypeArray" -> IF HasF(t.array, "query") THEN DenoteCommas(t.array.query) ELSE <<>>
      [] t.type = "TermTypeString" -> IF HasF(t.str, "str") THEN t.str.str ELSE ""
      [] t.type = "TermTypeTrue" -> TRUE
      [] t.type = "TermTypeFalse" -> FALSE
      [] OTHER -> [undenotable |-> t.type]
(* rw: the tree the real rewrite printed and the parser read back, for a program ending in a slurp function *)
SlurpOK(rw, u0, opts) ==
    LET sp == SlurpParts(u0, opts) IN
    /\ IsFuncQ(rw) /\ rw.term.func.name = sp.fn /\ HasF(rw.term.func, "args") /\ Len(rw.term.func.args) = 1
    /\ LET d == Denote(rw.term.func.args[1]) IN
       /\ DOMAIN d = {"slurp", "slurp_args", "orig", "rewrite"}
       /\ d.slurp = sp.name
       \* the rewritten program and the arguments are evaluated on their own by the slurp function: each carries the user's
       \* directives (module, import, include) - without them a function that comes from an include is not defined there
       /\ Len(d.slurp_args) = Len(sp.args)
       /\ \A i \in 1 .. Len(sp.args) : /\ Norm(NoDirectives(d.slurp_args[i])) = Norm(sp.args[i])
                                         /\ Directives(d.slurp_args[i]) = Directives(u0)
       /\ Norm(d.orig) = Norm(sp.orig)
       /\ Norm(NoDirectives(d.rewrite)) = Norm(sp.rewrite)
       /\ Directives(d.rewrite) = Directives(u0)

(* the option objects the real callers build (init.jq _cli_eval/_main, repl.jq _repl_eval) *)
CliSlurps == [help |-> "_help_slurp", repl |-> "_cli_repl_error", slurp |-> "_cli_slurp_error"]
ReplSlurps == [repl |-> "_repl_slurp", help |-> "_help_slurp", slurp |-> "_slurp"]
CliOpts(mode) ==
    [slurps |-> CliSlurps, catch_query |-> FuncQ("_cli_eval_on_expr_error", <<>>), output_query |-> FuncQ("_cli_display", <<>>),
     input_query |-> CASE mode = "null_input" -> NullQ
                       [] mode = "slurp" -> ArrQ(FuncQ("inputs", <<>>))
                       [] OTHER -> FuncQ("inputs", <<>>)]            \* "inputs", "string_input"
ReplOpts == [slurps |-> ReplSlurps, input_query |-> AddSuffix(Ident, SIter), catch_query |-> FuncQ("_repl_on_expr_error", <<>>),
             output_query |-> FuncQ("_repl_display", <<>>)]
(* `fq -i`: the command line expression is evaluated with neither input nor output query before the REPL starts *)
PreludeOpts == [slurps |-> CliSlurps, catch_query |-> FuncQ("_cli_eval_on_expr_error", <<>>)]
OptsOf(name) == IF name = "repl" THEN ReplOpts ELSE IF name = "prelude" THEN PreludeOpts ELSE CliOpts(name)
OptNames == {"null_input", "inputs", "slurp", "repl", "prelude"}

(* properties of the rewrite, stated for one user program u and one option object *)
UserProg(u0) == LET u == NoDirectives(u0) IN IF HasF(u, "term") \/ HasF(u, "op") THEN u ELSE u @@ Ident
(* m: a printable tree (m = Min(m)) *)
RewriteReparses(m, o) == Reparse(NoDirectives(RewriteBuilt(m, o)), "Q") = NoDirectives(Rewrite(m, o))
RewriteKeepsUser(m, o) == LET r == Rewrite(m, o) IN
                          /\ UserSubtree(r, o) = Norm(UserProg(m))
                          /\ Directives(r) = Directives(m)
                          /\ Directives(RewriteBuilt(m, o)) = Directives(m)
OptNamesFree(o) == UNION {Free(o[f]) : f \in DOMAIN o \cap {"input_query", "catch_query", "output_query"}}
NoCapture(m, o) == Free(NoDirectives(Rewrite(m, o))) = Free(NoDirectives(m)) \cup OptNamesFree(o)
=============================================================================
