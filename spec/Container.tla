----------------------------- MODULE Container -----------------------------
(***************************************************************************)
(* C15 - container decoders report what independent writers stored.        *)
(* VARIABLE-FREE.  An abstract archive and what must be reported about it.  *)
(* The spec knows nothing about bytes: independent writers (Go's           *)
(* compress/gzip, compress/zlib, archive/zip, archive/tar, image/png,      *)
(* image/gif, a hand-written RIFF/WAV writer, the bzip2 tool) turn a        *)
(* scenario into a file; this module supplies the scenario space and the   *)
(* expectation.                                                            *)
(*                                                                         *)
(* Scenario                                                                *)
(*   kind     container format                                             *)
(*   n        member count (0..3); member i carries payload class          *)
(*            PayloadOf(p, i): the classes rotate so that every count sees  *)
(*            every class in every position                                *)
(*   p        payload class of the first member                            *)
(*            empty | incompressible | compressible | big (> 64 KiB)       *)
(*   method   compression level / method / tar header format / colour mode *)
(*   name     name class: ascii | unicode | long (> 100 characters)        *)
(*   opt      header options (gzip: subset of name/comment/extra;          *)
(*            zip: data descriptor; png: zTXt chunk; wav: LIST chunk; ...)  *)
(*   region   none | payload | header | checksum | uncovered               *)
(*   pos      position class inside the region: first | middle | last      *)
(*   target   member (or chunk) the corruption goes to                     *)
(***************************************************************************)
EXTENDS Integers, Sequences, FiniteSets, TLC

Kinds == {"gzip", "zip", "tar", "png", "gif", "wav", "bzip2"}
PayloadClasses == <<"empty", "incompressible", "compressible", "big", "flat">>   \* flat: > 64 KiB of one byte, expands several hundred times
PayloadOf(p, i) == PayloadClasses[((p + i - 2) % Len(PayloadClasses)) + 1]          \* member i (1-based) of a scenario with base class index p
NameClasses == {"ascii", "unicode", "long"}
Regions == {"none", "payload", "header", "checksum", "uncovered"}
PosClasses == {"first", "middle", "last"}

Methods(kind) == CASE kind = "gzip"  -> {"store", "fast", "default", "best", "huffman"}
                   [] kind = "zip"   -> {"store", "deflate"}
                   [] kind = "tar"   -> {"ustar", "gnu", "pax"}
                   [] kind = "png"   -> {"gray", "gray16", "rgb", "rgba", "rgba64", "palette"}
                   [] kind = "gif"   -> {"pal2", "pal256"}
                   [] kind = "wav"   -> {"pcm8", "pcm16", "pcm24"}
                   [] kind = "bzip2" -> {"fast", "best"}
Options(kind) == CASE kind = "gzip"  -> SUBSET {"name", "comment", "extra"}
                   [] kind = "zip"   -> SUBSET {"datadesc", "comment"}
                   [] kind = "tar"   -> {{}}
                   [] kind = "png"   -> SUBSET {"ztxt", "best"}
                   [] kind = "gif"   -> {{}}
                   [] kind = "wav"   -> SUBSET {"list", "stereo"}
                   [] kind = "bzip2" -> {{}}
Counts(kind) == CASE kind \in {"zip", "tar"} -> 0 .. 3         \* archives may be empty
                  [] kind \in {"gzip", "gif"} -> 1 .. 3        \* gzip members / gif frames: at least one
                  [] OTHER -> {1}                               \* one image / one data chunk / one stream
Names(kind) == IF kind \in {"zip", "tar"} THEN NameClasses ELSE {"ascii"}

(* Which regions of a format are covered by a stored checksum. *)
HasChecksum(kind) == kind \in {"gzip", "zip", "tar", "png", "bzip2"}
Covered(kind, region) ==
    CASE kind = "gzip"  -> region = "payload"                 \* crc32 of the uncompressed data (no header crc is written)
      [] kind = "zip"   -> region = "payload"                 \* crc32 of the uncompressed data
      [] kind = "tar"   -> region = "header"                  \* chksum of the 512-byte header; member data is not covered
      [] kind = "png"   -> region \in {"payload", "header"}   \* every chunk: crc over type and data (IDAT / IHDR here)
      [] kind = "bzip2" -> region = "payload"
      [] OTHER          -> FALSE
RegionsOf(kind) == IF HasChecksum(kind) THEN Regions ELSE {"none", "uncovered"}

\* a tar header format can carry a name class (what the writer accepts)
NameFits(kind, method, name) ==
    kind = "tar" => \/ name = "ascii"
                    \/ (name = "long")                           \* ustar: prefix/name split; gnu: LongLink; pax: path record
                    \/ (name = "unicode" /\ method \in {"gnu", "pax"})

Scenario(kind, n, p, method, name, opt, region, pos, target) ==
    [kind |-> kind, n |-> n, p |-> p, method |-> method, name |-> name, opt |-> opt,
     region |-> region, pos |-> pos, target |-> target]

ValidScenario(s) ==
    /\ s.kind \in Kinds /\ s.n \in Counts(s.kind) /\ s.p \in 1 .. Len(PayloadClasses)
    /\ s.method \in Methods(s.kind) /\ s.name \in Names(s.kind) /\ s.opt \in Options(s.kind)
    /\ NameFits(s.kind, s.method, s.name)
    /\ s.region \in RegionsOf(s.kind)
    /\ IF s.region = "none" THEN s.pos = "first" /\ s.target = 1
       ELSE /\ s.n >= 1 /\ s.target \in 1 .. s.n /\ s.pos \in PosClasses
            \* payload / header regions exist where a checksum covers them; elsewhere the bytes are "uncovered"
            /\ s.region \in {"payload", "header"} => Covered(s.kind, s.region)
            \* an empty payload has no byte to corrupt
            /\ (s.region = "payload" /\ s.kind \in {"gzip", "zip", "tar", "bzip2"}) => PayloadOf(s.p, s.target) # "empty"
            \* one position class is enough for the 4-byte checksum fields and for uncovered bytes
            /\ s.region \in {"checksum", "uncovered"} => s.pos = "first"

(***************************************************************************)
(* Expectation.  `Clean` = no decode error anywhere and no checksum mark    *)
(* "invalid".                                                              *)
(*   intact file       : reported members = written members (names, sizes, *)
(*                       header fields, payload bytes), every stored       *)
(*                       checksum carries the mark "valid"                 *)
(*   covered byte flipped (payload/header region of a covering format, or  *)
(*   the stored checksum itself): an affected checksum shows "invalid" or  *)
(*   the decode reports an error - never a clean result.  A flip that does *)
(*   not reach a covered byte (slack bits of a deflate stream) leaves the  *)
(*   report exactly as for the intact file, which is also fine.            *)
(*   uncovered byte flipped: nothing is required                           *)
(***************************************************************************)
MustDetect(s) == s.region = "checksum" \/ (s.region \in {"payload", "header"} /\ Covered(s.kind, s.region))
\* how many stored checksums the report of an intact file must at least show as "valid"
MinChecksums(s) == CASE s.kind \in {"gzip", "zip", "tar"} -> s.n
                     [] s.kind = "png" -> 3 + (IF "ztxt" \in s.opt THEN 1 ELSE 0)      \* IHDR, IDAT.., IEND
                     [] s.kind = "bzip2" -> 2                                           \* block and stream crc
                     [] OTHER -> 0

(* One member as written / as reported: name (code points), size, digest of the payload, small payloads verbatim, *)
(* per-member header fields h ("key=value" strings)                                                                *)
SameMember(w, r) == w.name = r.name /\ w.size = r.size /\ w.sha = r.sha /\ w.small = r.small /\ w.h = r.h
SameMembers(W, R) == Len(W) = Len(R) /\ \A i \in 1 .. Len(W) : SameMember(W[i], R[i])
AllValid(marks) == \A i \in 1 .. Len(marks) : marks[i] = "valid"

IntactOK(s, written, hdrW, rep) ==
    /\ ~rep.err
    /\ SameMembers(written, rep.members)
    /\ rep.hdr = hdrW
    /\ Len(rep.marks) >= MinChecksums(s) /\ AllValid(rep.marks)
FlipOK(s, f) == MustDetect(s) => (f.err \/ f.ninvalid >= 1 \/ (f.same /\ s.region # "checksum"))

(* Signature of a rejected observation: the input shape decides. *)
IntactSig(s, written, hdrW, rep) ==
    IF s.kind = "gzip" /\ s.opt \notin {{}, {"name", "comment"}} /\ (rep.err \/ ~SameMembers(written, rep.members))
    THEN "container.gzip_header_flag_bits_reversed"
    ELSE IF rep.err THEN
        (IF s.kind = "tar" /\ s.n = 0 THEN "container.tar_empty_archive_rejected"
         ELSE IF s.kind = "bzip2" /\ PayloadOf(s.p, 1) = "empty" THEN "container.bzip2_empty_stream_rejected"
         ELSE "container." \o s.kind \o ".intact_file_decode_error")
    ELSE IF ~SameMembers(written, rep.members) THEN
        (IF s.kind = "tar" /\ s.method \in {"gnu", "pax"} /\ s.name \in {"long", "unicode"} THEN "container.tar_longname_pax_not_applied"
         ELSE IF s.kind = "zip" /\ s.method = "store" /\ "datadesc" \in s.opt /\ Len(written) = Len(rep.members)
                 /\ \A i \in 1 .. Len(written) : written[i].name = rep.members[i].name /\ written[i].size = rep.members[i].size
              THEN "container.zip_stored_data_descriptor_payload_lost"
         ELSE IF Len(written) # Len(rep.members) THEN "container." \o s.kind \o ".member_count"
         ELSE IF \E i \in 1 .. Len(written) : written[i].name # rep.members[i].name THEN "container." \o s.kind \o ".member_name"
         ELSE IF \E i \in 1 .. Len(written) : written[i].size # rep.members[i].size THEN "container." \o s.kind \o ".member_size"
         ELSE "container." \o s.kind \o ".member_payload")
    ELSE IF rep.hdr # hdrW THEN "container." \o s.kind \o ".header_fields"
    ELSE IF Len(rep.marks) < MinChecksums(s) \/ \E i \in 1 .. Len(rep.marks) : rep.marks[i] = "none" THEN
        (IF s.kind = "zip" THEN "container.zip_crc_not_validated"
         ELSE IF s.kind = "tar" THEN "container.tar_chksum_not_validated"
         ELSE "container." \o s.kind \o ".checksum_not_marked")
    ELSE "container." \o s.kind \o ".intact_checksum_marked_invalid"
FlipSig(s) ==
    IF s.kind = "zip" THEN "container.zip_crc_not_validated"
    ELSE IF s.kind = "tar" THEN "container.tar_chksum_not_validated"
    ELSE "container." \o s.kind \o "." \o s.region \o "_corruption_clean_result"
=============================================================================
