------------------------------- MODULE BitIO -------------------------------
(***************************************************************************)
(* C01, as required: what any composition of fq's bit and byte readers     *)
(* must return.  A reader is a TERM; Den(term) is the bit sequence it      *)
(* denotes; a handle has a cursor; every public call is an action whose    *)
(* OBSERVED result (count, bits, eof, error, reported position) is a       *)
(* parameter, so the nondeterminism the property permits (short reads) is  *)
(* explicit.  Byte-oriented views are bit views whose unit is 8 and whose  *)
(* denotation is zero-padded on the right to a whole byte.                 *)
(***************************************************************************)
EXTENDS Bits, TLC

Min2(a, b) == IF a < b THEN a ELSE b
Max2(a, b) == IF a > b THEN a ELSE b

\* terms (JSON objects): bit level  leaf(id) section(r,off,n) multi(rs) zero(n) frombytes(y)
\*                       byte level file(id) tobytes(r) ahead(y,m) progress(y) ctx(y)
RECURSIVE Den(_, _)
Den(tm, L) ==
    CASE tm.t = "leaf"      -> L[tm.id]
      [] tm.t = "file"      -> L[tm.id]
      [] tm.t = "section"   -> LET d == Den(tm.r, L) IN Slice(d, tm.off, Max2(0, Min2(tm.n, Len(d) - tm.off)))
      [] tm.t = "multi"     -> FlatCat([i \in DOMAIN tm.rs |-> Den(tm.rs[i], L)])
      [] tm.t = "zero"      -> Zeros(tm.n)
      [] tm.t = "frombytes" -> Den(tm.y, L)
      [] tm.t = "tobytes"   -> PadRight8(Den(tm.r, L))
      [] tm.t = "limit"     -> LET d == Den(tm.r, L) IN Slice(d, 0, Min2(tm.n, Len(d)))
      [] tm.t = "ioreader"  -> PadRight8(Den(tm.r, L))
      [] OTHER              -> Den(tm.y, L)          \* ahead, progress, ctx: identities

(***************************************************************************)
(* One observed call.  ev fields (all present in every event):             *)
(*  op  read | readat | readfull | seek | clone                            *)
(*  h   handle, h2 new handle (clone)                                      *)
(*  u   unit of the handle: 1 (bit view) or 8 (byte view)                  *)
(*  n   requested units, off offset units (readat, seek), wh 0|1|2         *)
(*  k   returned units, out returned BITS, eof, err (non-EOF error),       *)
(*  res position a seek returned, pa position reported after the call      *)
(*      (units; -1 when the handle cannot report one), hang                *)
(* pos is the cursor of the handle in BITS.  Each predicate returns "ok"   *)
(* or the name of the clause that fails.                                   *)
(***************************************************************************)
ReadWhy(den, pos, ev) ==
    LET n == ev.n * ev.u
        k == ev.k * ev.u
    IN IF ev.hang THEN "hang"
       ELSE IF ev.err THEN (IF pos > Len(den) /\ ev.k = 0 THEN "ok" ELSE "error_on_satisfiable_read")  \* cursor left beyond the end by a seek
       ELSE IF k < 0 \/ k > n \/ Len(ev.out) # k THEN "count"
       ELSE IF pos + k > Len(den) /\ k > 0 THEN "bits_beyond_end"
       ELSE IF k > 0 /\ ev.out # Slice(den, pos, k) THEN "wrong_bits"
       ELSE IF ev.eof /\ pos + k < Len(den) THEN "eof_before_end"
       ELSE IF k = 0 /\ n > 0 /\ ~ev.eof THEN "stall_without_eof"
       ELSE "ok"

\* ReadBitsAt: like read at an explicit offset; an offset outside the data may also be refused with an error
ReadAtWhy(den, ev) ==
    LET p == ev.off * ev.u IN
    IF p < 0 \/ p > Len(den) THEN (IF ev.k = 0 /\ ~ev.hang THEN "ok" ELSE "bits_outside_data")
    ELSE ReadWhy(den, p, ev)

ReadFullWhy(den, pos, ev) ==
    LET n == ev.n * ev.u
        can == pos + n <= Len(den)
        ok == ~ev.err /\ ~ev.eof
    IN IF ev.hang THEN "hang"
       ELSE IF n = 0 THEN "ok"
       ELSE IF ok # can THEN (IF ok THEN "full_read_beyond_end_succeeds" ELSE "full_read_inside_data_fails")
       ELSE IF ok /\ ev.out # Slice(den, pos, n) THEN "wrong_bits"
       ELSE "ok"

SeekTarget(den, pos, ev) == (CASE ev.wh = 0 -> 0 [] ev.wh = 1 -> pos [] OTHER -> Len(den)) + ev.off * ev.u
SeekWhy(den, pos, ev) ==
    LET t == SeekTarget(den, pos, ev) IN
    IF ev.hang THEN "hang"
    ELSE IF ev.err THEN (IF t < 0 \/ t > Len(den) THEN "ok" ELSE "seek_inside_data_fails")
    ELSE IF t < 0 THEN "negative_seek_succeeds"
    ELSE IF ev.res * ev.u # t THEN "seek_result"
    ELSE "ok"

\* cursor after the call (bits)
NextPos(den, pos, ev) ==
    CASE ev.op = "read"     -> pos + ev.k * ev.u
      [] ev.op = "readfull" -> IF ev.pa >= 0 THEN ev.pa * ev.u ELSE pos + ev.k * ev.u   \* the harness always asks after a failed full read
      [] ev.op = "seek"     -> IF ev.err THEN pos ELSE ev.res * ev.u
      [] OTHER              -> pos

\* the position the handle reports after the call must be the cursor (when it can report one)
PosWhy(den, pos, ev) ==
    IF ev.pa < 0 \/ ev.hang THEN "ok"
    ELSE IF ev.op = "readfull" THEN (IF ev.pa * ev.u >= pos /\ ev.pa * ev.u <= Max2(pos, Len(den)) THEN "ok" ELSE "position_after_failed_full_read")
    ELSE IF ev.pa * ev.u = NextPos(den, pos, ev) THEN "ok" ELSE "reported_position"

OpWhy(den, pos, ev) ==
    LET w == CASE ev.op = "read"     -> ReadWhy(den, pos, ev)
               [] ev.op = "readat"   -> ReadAtWhy(den, ev)
               [] ev.op = "readfull" -> ReadFullWhy(den, pos, ev)
               [] ev.op = "seek"     -> SeekWhy(den, pos, ev)
               [] OTHER              -> "ok"
    IN IF w # "ok" THEN w ELSE PosWhy(den, pos, ev)

\* fold over a history; cur: handle -> cursor (bits).  Returns <<index of first bad op or 0, clause>>
RECURSIVE Hist(_, _, _, _)
Hist(den, ops, i, cur) ==
    IF i > Len(ops) THEN <<0, "ok">>
    ELSE LET ev == ops[i]
             pos == cur[ev.h]
             w == OpWhy(den, pos, ev)
         IN IF w # "ok" THEN <<i, w>>
            ELSE IF ev.op = "clone" THEN Hist(den, ops, i + 1, [h \in DOMAIN cur \cup {ev.h2} |-> IF h = ev.h2 THEN 0 ELSE cur[h]])
            ELSE Hist(den, ops, i + 1, [cur EXCEPT ![ev.h] = NextPos(den, pos, ev)])
CheckHistory(term, leaves, ops) == Hist(Den(term, leaves), ops, 1, [h \in {0} |-> 0])

(* writers: the bytes a bit writer produced are the written bits, zero padded to a whole byte *)
WriterOK(chunks, outbits) == outbits = PadRight8(FlatCat(chunks))

(* bitio.Buffer, as required: a first-in first-out queue of bits.  q = the unread bits, oldest first.       *)
(* ev: write(bits) -> k, err; read(n) -> k, out, eof, err; len -> res; bits -> out (bytes as bits), res; reset *)
BufOpWhy(q, ev) ==
    CASE ev.op = "write" -> IF ev.err \/ ev.k # Len(ev.bits) THEN "buffer.write_count" ELSE "ok"
      [] ev.op = "read"  -> IF ev.err THEN "buffer.read_error"
                            ELSE IF Len(q) = 0 THEN (IF ev.k # 0 THEN "buffer.bits_from_empty_buffer"
                                                     ELSE IF ev.n > 0 /\ ~ev.eof THEN "buffer.empty_without_end_of_data" ELSE "ok")
                            ELSE IF ev.eof THEN "buffer.end_of_data_with_bits_left"
                            ELSE IF ev.k > Min2(ev.n, Len(q)) THEN "buffer.more_bits_than_asked_or_held"
                            ELSE IF ev.n > 0 /\ ev.k = 0 THEN "buffer.stall"
                            ELSE IF ev.out # SubSeq(q, 1, ev.k) THEN "buffer.wrong_bits" ELSE "ok"
      [] ev.op = "len"   -> IF ev.res # Len(q) THEN "buffer.len" ELSE "ok"
      [] ev.op = "bits"  -> IF ev.res # Len(q) THEN "buffer.bits_count"
                            ELSE IF ev.out # PadRight8(q) THEN "buffer.bits_not_padded_unread_bits" ELSE "ok"
      [] OTHER           -> "ok"
BufNext(q, ev) ==
    CASE ev.op = "write" -> q \o ev.bits
      [] ev.op = "read"  -> SubSeq(q, ev.k + 1, Len(q))
      [] ev.op = "reset" -> <<>>
      [] OTHER           -> q
RECURSIVE BufHist(_, _, _)
BufHist(ops, i, q) ==
    IF i > Len(ops) THEN <<0, "ok">>
    ELSE LET w == BufOpWhy(q, ops[i]) IN IF w # "ok" THEN <<i, w>> ELSE BufHist(ops, i + 1, BufNext(q, ops[i]))
CheckBuffer(ops) == BufHist(ops, 1, <<>>)
=============================================================================
