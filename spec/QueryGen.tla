------------------------------ MODULE QueryGen ------------------------------
(***************************************************************************)
(* C11 universe: every (outer construct, child position, inner construct)  *)
(* triple, each also under unary minus, `?`, an `as`-binding (as source    *)
(* and as body), a def-prefix (as body and as rest), with directives, and  *)
(* as a definitions-only program.                                          *)
(*   MC  : INVARIANT Props  -- the properties of Query.tla on every tree   *)
(*   GEN : CONSTRAINT Emit  -- one JSON line per tree (parser JSON shape)  *)
(*   SIM : SimSpec          -- random deeper trees (depth <= 4)            *)
(***************************************************************************)
EXTENDS QueryUniv, Json
CONSTANTS Shard, NShards, Div, NWrap, WrapSel       \* WrapSel: rotation (seed)
VARIABLE c
\* Div: 1 = every (outer, position, inner) triple; d > 1 = the 1/d sample of the triples chosen by WrapSel

\* NWrap: wrappers per triple (0 = all of them), chosen by rotation from WrapSel
WrapIdx(o, p, i) == IF NWrap = 0 THEN 1 .. Len(Wrappers)
                    ELSE {1 + ((o * 7 + p * 3 + i + WrapSel + k * 3) % Len(Wrappers)) : k \in 0 .. (NWrap - 1)}
Init == c \in {[o |-> o, p |-> p, i |-> i, w |-> w] :
                 o \in {x \in 1 .. Len(Outers) : x % NShards = Shard}, p \in 1 .. 5, i \in 1 .. Len(InnerNames), w \in 1 .. Len(Wrappers)}
        /\ c.p <= Outers[c.o].k /\ c.w \in WrapIdx(c.o, c.p, c.i)
        /\ (Div = 1 \/ (c.o * 131 + c.p * 31 + c.i) % Div = WrapSel % Div)
Next == FALSE /\ c' = c
Spec == Init /\ [][Next]_c

RawC == Raw(c.o, c.p, c.i, Wrappers[c.w])
Ast == Min(RawC)

(******************************* properties ********************************)
P_MinStable(a)   == Min(a) = a
P_NormStable(a)  == LET n == Norm(a) IN Norm(n) = n
P_SameTree(r, a, f) == Norm(f) = Norm(a)                     \* minimal and full parentheses denote the same tree
P_Reparse(a)     == LET u == NoDirectives(a) IN DeepReparse(u) = u      \* re-bracketing the print by the table gives the tree back
P_Rewrite(a)     == \A on \in OptNames : LET o == OptsOf(on) u == NoDirectives(a) IN
                    IF SlurpName(u, o) = ""
                    THEN RewriteReparses(a, o) /\ RewriteKeepsUser(a, o) /\ NoCapture(a, o)
                    ELSE LET sp == SlurpParts(a, o) IN
                         /\ sp.orig = u
                         /\ PipeLast(TransformPipeLast(u, Ident)) = Ident
                         /\ Free(sp.rewrite) \subseteq Free(u) \cup OptNamesFree(o)
Props == LET r == RawC a == Min(r) f == Full(r) IN
         P_MinStable(a) /\ P_NormStable(a) /\ P_SameTree(r, a, f) /\ P_Reparse(a) /\ P_Reparse(f) /\ P_Rewrite(a)

Name(x) == Outers[x.o].n
Emit == LET r == RawC a == Min(r) IN
        PrintT(ToJson([id |-> <<Outers[c.o].n, ToString(c.p), InnerNames[c.i], Wrappers[c.w]>>,
                       ast |-> a, min |-> PrintQ(a), full |-> PrintQ(Full(r))]))

=============================================================================
