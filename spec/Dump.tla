-------------------------------- MODULE Dump --------------------------------
(***************************************************************************)
(* C10 -- what fq displays is true.                                        *)
(*                                                                         *)
(* AS REQUIRED: predicates over a PARSED dump d (one displayed value):     *)
(*   d.rows   sequence of [a: address text, cells: <<[c, h]>>, asc: <<[c,  *)
(*            ch]>>, mark]  -- text exactly as printed, column by column   *)
(*   d.L line_bytes, d.ab / d.sb address / size base, d.start, d.len the   *)
(*   value's inner bit range, d.buf / d.boff / d.blen the buffer it lives  *)
(*   in (bytes from address boff on; bit length), d.trunc the `*` row,     *)
(*   d.vr / d.vs the verbose range and size text, d.show: the dump has to  *)
(*   show this value's bytes (non-empty scalar or collapsed compound).     *)
(* Numbers are read from the text here (ParseAddr, ParseByteBits), so the  *)
(* base, the prefix and every digit are judged by TLC.                     *)
(*                                                                         *)
(* AS BUILT: the arithmetic of pkg/interp/dump.go dumpEx / dump / hexdump  *)
(* and of the hex / ascii column writers, transcribed as operators, which  *)
(* produces a dump of the same shape (Built).  DumpMC checks               *)
(* AsRequired(Built(case)) for every case inside the constants, DumpGen    *)
(* emits the cases, TraceDump judges what real fq printed.                 *)
(*                                                                         *)
(* Last section: JSON output (JsonOK).                                     *)
(***************************************************************************)
EXTENDS Integers, Sequences, FiniteSets, TLC

Min(a, b) == IF a < b THEN a ELSE b
Max(a, b) == IF a > b THEN a ELSE b

(***************************** text <-> numbers *****************************)
Digits36 == << "0", "1", "2", "3", "4", "5", "6", "7", "8", "9", "a", "b", "c", "d", "e", "f", "g", "h",
               "i", "j", "k", "l", "m", "n", "o", "p", "q", "r", "s", "t", "u", "v", "w", "x", "y", "z" >>
DigitChars == {Digits36[i] : i \in 1 .. 36}
DigitMap == [ch \in DigitChars |-> (CHOOSE i \in 1 .. 36 : Digits36[i] = ch) - 1]
DigitVal(ch) == IF ch \in DigitChars THEN DigitMap[ch] ELSE -1

RECURSIVE PN(_, _, _, _)
PN(cs, i, base, acc) ==
    IF i > Len(cs) THEN acc
    ELSE LET dv == DigitVal(cs[i]) IN IF dv < 0 \/ dv >= base \/ acc > 5000000 THEN -1 ELSE PN(cs, i + 1, base, acc * base + dv)
\* value of a digit string in the base; -1 when empty, when a character is not a digit of the base, or when the number
\* is too large for TLC's 32-bit integers (every number up to 5e6 is read in every base; no buffer of the harness is
\* that long, so a longer text is false anyway)
ParseNat(cs, base) == IF Len(cs) = 0 THEN -1 ELSE PN(cs, 1, base, 0)

\* documented prefixes: 0b, 0o, 0x; none for the other bases
Prefix(base) == CASE base = 2 -> <<"0", "b">> [] base = 8 -> <<"0", "o">> [] base = 16 -> <<"0", "x">> [] OTHER -> <<>>
StripPrefix(cs, base) ==
    LET p == Prefix(base) IN
    IF Len(cs) >= Len(p) /\ SubSeq(cs, 1, Len(p)) = p THEN SubSeq(cs, Len(p) + 1, Len(cs)) ELSE <<"?">>
ParseAddr(cs, base) == ParseNat(StripPrefix(cs, base), base)

IndexOf(cs, ch) == IF \E i \in 1 .. Len(cs) : cs[i] = ch THEN CHOOSE i \in 1 .. Len(cs) : cs[i] = ch /\ \A j \in 1 .. (i - 1) : cs[j] # ch ELSE 0

\* "<prefix>bytes" or "<prefix>bytes.bits" (both in the base) -> bits; -1 when malformed
ParseByteBits(cs, base) ==
    LET body == StripPrefix(cs, base)
        dot  == IndexOf(body, ".")
        by   == IF dot = 0 THEN ParseNat(body, base) ELSE ParseNat(SubSeq(body, 1, dot - 1), base)
        bi   == IF dot = 0 THEN 0 ELSE ParseNat(SubSeq(body, dot + 1, Len(body)), base)
    IN IF by < 0 \/ bi < 0 \/ bi > 7 THEN -1 ELSE by * 8 + bi
\* "from-to" -> <<first bit, bit after the last>>
ParseRange(cs, base) ==
    LET k == IndexOf(cs, "-") IN
    IF k = 0 THEN <<-1, -1>> ELSE <<ParseByteBits(SubSeq(cs, 1, k - 1), base), ParseByteBits(SubSeq(cs, k + 1, Len(cs)), base)>>

Hex == <<"0", "1", "2", "3", "4", "5", "6", "7", "8", "9", "a", "b", "c", "d", "e", "f">>
HexPair(b) == IF b < 0 \/ b > 255 THEN "??" ELSE Hex[(b \div 16) + 1] \o Hex[(b % 16) + 1]
Printable == <<
    " ", "!", "\"", "#", "$", "%", "&", "'", "(", ")", "*", "+", ",", "-", ".", "/",
    "0", "1", "2", "3", "4", "5", "6", "7", "8", "9", ":", ";", "<", "=", ">", "?",
    "@", "A", "B", "C", "D", "E", "F", "G", "H", "I", "J", "K", "L", "M", "N", "O",
    "P", "Q", "R", "S", "T", "U", "V", "W", "X", "Y", "Z", "[", "\\", "]", "^", "_",
    "`", "a", "b", "c", "d", "e", "f", "g", "h", "i", "j", "k", "l", "m", "n", "o",
    "p", "q", "r", "s", "t", "u", "v", "w", "x", "y", "z", "{", "|", "}", "~" >>
\* the documented safe-character mapping: printable ASCII as itself, everything else "."
Safe(b) == IF b < 32 \/ b > 126 THEN "." ELSE Printable[b - 31]

(******************************* AS REQUIRED *******************************)
StartByte(d) == d.start \div 8
StopByte(d)  == (d.start + d.len - 1) \div 8
\* the input byte at an address (the last byte of a buffer that ends inside a byte is zero padded); -1 outside
ByteAt(d, a) == IF a >= d.boff /\ a - d.boff < Len(d.buf) /\ a * 8 < d.blen THEN d.buf[a - d.boff + 1] ELSE -1

Addrs(d) == [i \in DOMAIN d.rows |-> ParseAddr(d.rows[i].a, d.ab)]

RowTrue(d, r, a) ==
    /\ a >= 0 /\ a % d.L = 0
    /\ \A i \in DOMAIN r.cells : r.cells[i].c \in 0 .. (d.L - 1) /\ r.cells[i].h = HexPair(ByteAt(d, a + r.cells[i].c))
    /\ Len(r.asc) = Len(r.cells)
    /\ \A i \in DOMAIN r.asc : r.asc[i].c = r.cells[i].c /\ ByteAt(d, a + r.asc[i].c) >= 0 /\ r.asc[i].ch = Safe(ByteAt(d, a + r.asc[i].c))
\* True: every row address is a multiple of lineBytes, every shown hex pair / ascii character is the buffer byte at addr+col
TrueA(d, A) == \A i \in DOMAIN d.rows : RowTrue(d, d.rows[i], A[i])

RECURSIVE ShownFrom(_, _, _)
ShownFrom(d, A, i) == IF i > Len(d.rows) THEN <<>>
                      ELSE [k \in DOMAIN d.rows[i].cells |-> A[i] + d.rows[i].cells[k].c] \o ShownFrom(d, A, i + 1)
ShownA(d, A) == ShownFrom(d, A, 1)     \* byte addresses in the order shown

\* Once: the shown bytes are one duplicate-free run startByte .. lastShown inside the value; a value whose bytes
\* are shown by its children (expanded compound) or that has none shows nothing itself
OnceA(d, A) == LET s == ShownA(d, A) IN
    /\ \A i \in DOMAIN s : s[i] = StartByte(d) + i - 1
    /\ Len(s) > 0 => (d.show /\ s[Len(s)] <= StopByte(d))
\* Complete: not truncated => the run ends at the value's last byte
CompleteA(d, A) == LET s == ShownA(d, A) IN (d.show /\ ~d.trunc) => (Len(s) > 0 /\ s[Len(s)] = StopByte(d))
\* Verbose: printed range and size are the actual ones, in the requested bases
Verbose(d) == d.hasv => (ParseRange(d.vr, d.ab) = <<d.start, d.start + d.len>> /\ ParseByteBits(d.vs, d.sb) = d.len)
\* the `until` text under a truncated value (ufull: it is shorter than its column, so nothing of it was cut): last bit, end of buffer, size in bytes
Until(d) == d.ufull => /\ ParseByteBits(d.uaddr, d.ab) = d.start + d.len - 1
                       /\ ParseAddr(d.usize, d.sb) = (d.len + 7) \div 8
                       /\ d.uend = (d.start + d.len = d.blen)

AsRequiredA(d, A) == d.perr = "" /\ TrueA(d, A) /\ OnceA(d, A) /\ CompleteA(d, A) /\ Verbose(d) /\ Until(d)
AsRequired(d) == AsRequiredA(d, Addrs(d))

(******************************** AS BUILT *********************************)
\* Go integer division / remainder (truncate toward zero)
GoDiv(a, b) == IF a >= 0 THEN a \div b ELSE -((-a) \div b)
GoMod(a, b) == a - b * GoDiv(a, b)
ByteCount(bits) == (bits + 7) \div 8                                   \* bitio.BitsByteCount

RECURSIVE FormatNat(_, _)
FormatNat(n, base) == IF n < base THEN <<Digits36[n + 1]>> ELSE Append(FormatNat(n \div base, base), Digits36[(n % base) + 1])
Repeat(ch, n) == [i \in 1 .. Max(n, 0) |-> ch]
\* mathx.PadFormatInt(n, base, basePrefix, width)
PadFormat(n, base, prefix, width) ==
    LET s == FormatNat(n, base)
        p == IF prefix THEN Prefix(base) ELSE <<>>
    IN p \o Repeat("0", width - Len(s) - Len(p)) \o s
\* mathx.DigitsInBase(n, true, base); the code uses floating point logarithms, this is the exact count
DigitsInBase(n, base) == Len(Prefix(base)) + Len(FormatNat(n, base))
\* mathx.Bits(b).StringByteBits(base)
StringByteBits(b, base) ==
    IF b % 8 # 0 THEN Prefix(base) \o FormatNat(b \div 8, base) \o <<".">> \o FormatNat(b % 8, base)
    ELSE Prefix(base) \o FormatNat(b \div 8, base)
StringRange(start, len, base) == StringByteBits(start, base) \o <<"-">> \o StringByteBits(start + len, base)

Cut(s, w) == SubSeq(s, 1, Min(Len(s), w))                               \* columnwriter FlushLine: slice to the column width
RECURSIVE TrimLeft(_)
TrimLeft(s) == IF Len(s) > 0 /\ s[1] = " " THEN TrimLeft(Tail(s)) ELSE s
\* address column text of a line: rootIndent ++ PadFormatInt(addr, base, true, addrWidth), addrWidth = maxAddrIndentWidth - rootDepth
\* (dump(): `dumpEx(..., maxAddrIndentWidth-rootDepth)`), cut to the column width W = maxAddrIndentWidth; blanks trimmed as the parser does
BuiltAddrText(addr, base, W, rd) == TrimLeft(Cut(Repeat(" ", 2 * rd) \o PadFormat(addr, base, TRUE, W - rd), W))
\* what the same line would need: addrWidth = maxAddrIndentWidth - 2*rootDepth (the D4 repair)
FixedAddrText(addr, base, W, rd) == TrimLeft(Cut(Repeat(" ", 2 * rd) \o PadFormat(addr, base, TRUE, W - 2 * rd), W))
AddrText(addr, base, W, rd, fix) == IF fix THEN FixedAddrText(addr, base, W, rd) ELSE BuiltAddrText(addr, base, W, rd)

\* dumpEx: from `rootBitLen` to `lastDisplayLine`, names as in the code
Arith(start, len, blen, L, D) ==
    LET bufferLastBit == blen - 1
        startBit == start
        stopBit  == start + len - 1
        sizeBits == len
        lineBits == L * 8
        ldb == IF D > 0 /\ sizeBits > D * 8
               THEN LET x == startBit + (D * 8 - 1)
                        y == IF GoMod(x, lineBits) # 0 THEN x + lineBits - GoMod(x, lineBits) - 1 ELSE x
                    IN IF y > stopBit \/ stopBit - y <= lineBits THEN stopBit ELSE y
               ELSE stopBit
        bufferLastByte  == GoDiv(bufferLastBit, 8)
        startByte       == GoDiv(startBit, 8)
        stopByte        == GoDiv(stopBit, 8)
        lastDisplayByte == GoDiv(ldb, 8)
        dsb0   == (lastDisplayByte - startByte + 1) * 8
        maxDsb == bufferLastBit - startByte * 8 + 1
        dsb    == IF sizeBits = 0 THEN 0 ELSE Min(dsb0, maxDsb)
        startLine == GoDiv(startByte, L)
        lastDisplayLine == GoDiv(lastDisplayByte, L)
        addrLines == lastDisplayLine - startLine + 1
        startLineByte == startLine * L
        lastLineStopByte == startLineByte + addrLines * L - 1
    IN [ lastDisplayBit |-> ldb, startByte |-> startByte, stopByte |-> stopByte, lastDisplayByte |-> lastDisplayByte,
         displaySizeBits |-> dsb, startLine |-> startLine, startLineByteOffset |-> GoMod(startByte, L),
         startLineByte |-> startLineByte, addrLines |-> addrLines,
         endMarker |-> (lastDisplayByte = bufferLastByte /\ lastDisplayByte # lastLineStopByte),
         truncated |-> (stopByte # lastDisplayByte),
         isEnd |-> (stopBit = bufferLastBit) ]

\* hexpairwriter / asciiwriter: byte j (0-based) of the copied range lands at line (off+j) div L, column (off+j) mod L
\* (the `for h.offset < h.startLineOffset` padding loop, then one cell per byte, newline after column L-1)
BuiltRows(d, ar, W, fix) ==
    LET nbytes   == ByteCount(ar.displaySizeBits)                        \* bytes bitiox.CopyBitsBuffer hands to the writers
        off      == ar.startLineByteOffset
        hexLines == IF nbytes = 0 THEN 0 ELSE ((off + nbytes - 1) \div d.L) + 1
        nrows    == Max(ar.addrLines, hexLines)                           \* columnwriter.Flush aligns line i of every column
        lo(i) == Max(0, off - (i - 1) * d.L)                                \* first / last column of line i that holds a byte
        hi(i) == Min(d.L - 1, off + nbytes - 1 - (i - 1) * d.L)
        byteOf(i, c) == ByteAt(d, ar.startByte + (i - 1) * d.L + c - off)
    IN [i \in 1 .. nrows |->
          LET cs == [k \in 1 .. Max(0, hi(i) - lo(i) + 1) |-> lo(i) + k - 1] IN
          [ a     |-> IF i <= ar.addrLines THEN AddrText(ar.startLineByte + (i - 1) * d.L, d.ab, W, d.rd, fix) ELSE <<>>,
            cells |-> [k \in DOMAIN cs |-> [c |-> cs[k], h |-> HexPair(byteOf(i, cs[k]))]],
            asc   |-> [k \in DOMAIN cs |-> [c |-> cs[k], ch |-> Safe(byteOf(i, cs[k]))]],
            mark  |-> (ar.endMarker /\ i = hexLines) ]]

UntilText(d, ar) == <<"u", "n", "t", "i", "l", " ">> \o StringByteBits(d.start + d.len - 1, d.ab)
                    \o (IF ar.isEnd THEN <<" ", "(", "e", "n", "d", ")">> ELSE <<>>)
                    \o <<" ", "(">> \o PadFormat(ByteCount(d.len), d.sb, TRUE, 0) \o <<")">>

\* the dump fq is built to print for the value described by the ground-truth fields of d, address column W wide
\* (fix = TRUE: with the D4 repair)
Built(d, W, fix) ==
    LET ar == Arith(d.start, d.len, d.blen, d.L, d.D)
        tr == d.show /\ ar.truncated
        uf == tr /\ Len(UntilText(d, ar)) < 3 * d.L - 1                   \* shorter than the hex column: certainly not cut by it
    IN [d EXCEPT !.W = W, !.perr = "",
          !.rows  = IF d.show THEN BuiltRows(d, ar, W, fix) ELSE <<>>,
          !.trunc = tr, !.ufull = uf,
          !.uaddr = IF uf THEN StringByteBits(d.start + d.len - 1, d.ab) ELSE <<>>,
          !.uend  = uf /\ ar.isEnd,
          !.usize = IF uf THEN PadFormat(ByteCount(d.len), d.sb, TRUE, 0) ELSE <<>>,
          !.vr = IF d.hasv THEN StringRange(d.start, d.len, d.ab) ELSE <<>>,
          !.vs = IF d.hasv THEN StringByteBits(d.len, d.sb) ELSE <<>> ]

\* dump(): maxAddrIndentWidth over the values walked = max of 2*rootDepth + DigitsInBase(ByteCount(inner stop));
\* vals is a set of [rd, stop] records
MaxAddrIndentWidth(vals, base) == CHOOSE w \in {2 * v.rd + DigitsInBase(ByteCount(v.stop), base) : v \in vals} :
                                     \A v \in vals : w >= 2 * v.rd + DigitsInBase(ByteCount(v.stop), base)

(************************** classification of a rejection **************************)
\* the known defect D4: a value inside a nested root (rd > 0) whose address texts are exactly what the
\* `maxAddrIndentWidth - rootDepth` rule prints, and whose dump is right in every other respect
IntendedAddrs(d) == LET sl == (StartByte(d) \div d.L) * d.L IN [i \in DOMAIN d.rows |-> sl + (i - 1) * d.L]
D4Shape(d) == /\ d.rd > 0 /\ d.perr = ""
              /\ \A i \in DOMAIN d.rows : d.rows[i].a = BuiltAddrText(IntendedAddrs(d)[i], d.ab, d.W, d.rd)
              /\ AsRequiredA(d, IntendedAddrs(d))
Sig(d) ==                               \* of a dump that AsRequired rejects
    IF d.perr # "" THEN (IF d.rows = <<>> /\ d.start + d.len > d.blen /\ d.blen > 0 THEN "dump.value_outside_its_buffer_not_displayed"   \* consequence of C03's D28
                         ELSE "dump.unparseable")
    ELSE IF D4Shape(d) THEN "dump.nested_root_addr_width"   \* whichever predicate the cut addresses happen to break
    ELSE IF ~TrueA(d, Addrs(d)) THEN
         IF \E i \in DOMAIN d.rows : Addrs(d)[i] < 0 \/ Addrs(d)[i] % d.L # 0 THEN "dump.false_address"
         ELSE "dump.false_byte"
    ELSE IF ~OnceA(d, Addrs(d)) THEN "dump.bytes_not_one_run"
    ELSE IF ~CompleteA(d, Addrs(d)) THEN "dump.incomplete_without_truncation"
    ELSE IF ~Verbose(d) THEN "dump.verbose_range_or_size"
    ELSE "dump.until_text"

(******************************* JSON output *******************************)
(* A value is a tagged record [t, s, cp, e, k]: t in null bool num str arr  *)
(* obj; s the text of a bool / the canonical text of a number (an integer  *)
(* as its exact decimal digits of any length, otherwise the shortest text  *)
(* of the float64); cp the code points of a string; e the elements / the   *)
(* member values; k the member keys (code point sequences, sorted).        *)
(* e.valid: the output was accepted by a JSON parser, value for value.     *)
RECURSIVE JsonEq(_, _)
JsonEq(a, b) == /\ a.t = b.t /\ a.s = b.s /\ a.cp = b.cp /\ a.k = b.k
                /\ Len(a.e) = Len(b.e) /\ \A i \in DOMAIN a.e : JsonEq(a.e[i], b.e[i])
JsonOK(ev) == ev.valid /\ JsonEq(ev.val, ev.out)

RECURSIVE JsonDiff(_, _)
JsonDiff(a, b) ==                       \* what kind of node differs first
    IF a.t # b.t THEN "type"
    ELSE IF a.t = "num" /\ a.s # b.s THEN "number"
    ELSE IF a.t = "str" /\ a.cp # b.cp THEN "string"
    ELSE IF a.t = "bool" /\ a.s # b.s THEN "bool"
    ELSE IF a.k # b.k THEN "keys"
    ELSE IF Len(a.e) # Len(b.e) THEN "length"
    ELSE IF \E i \in DOMAIN a.e : ~JsonEq(a.e[i], b.e[i])
         THEN JsonDiff(a.e[CHOOSE i \in DOMAIN a.e : ~JsonEq(a.e[i], b.e[i])], b.e[CHOOSE i \in DOMAIN a.e : ~JsonEq(a.e[i], b.e[i])])
    ELSE "none"
JsonSig(ev) == IF ~ev.valid THEN "json.output_not_json" ELSE "json.value_differs." \o JsonDiff(ev.val, ev.out)
=============================================================================
