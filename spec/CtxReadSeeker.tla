---------------------------- MODULE CtxReadSeeker ----------------------------
(***************************************************************************)
(* C20 (and the "context wrapper" of C01): internal/ctxreadseeker, the     *)
(* reader under every opened file.  Calls are handed to a loop goroutine   *)
(* through an unbuffered channel so that a cancelled context can let the   *)
(* caller go while the underlying call is still in flight.                 *)
(*                                                                         *)
(* Three processes at the grain of channel operations and memory accesses: *)
(* the caller (a sequence of NCalls calls), the loop goroutine, and the    *)
(* canceller (cancels once, at any moment, or never).  A Go `select` with  *)
(* several ready cases takes any of them.  Happens-before is tracked with  *)
(* vector clocks (channel rendezvous, buffered send/receive, close, the    *)
(* context's Done), so that "data race" means what the Go memory model and *)
(* the race detector mean: two accesses to the call's result variables,    *)
(* one of them a write, unordered by happens-before.                       *)
(*                                                                         *)
(* Variant "built"    the code as it was: one shared unbuffered waitCh,    *)
(*                    results written straight into the caller's frame.    *)
(*                    TLC finds (1) the race when the context is cancelled *)
(*                    while the call is in flight and (2) the loop         *)
(*                    goroutine parked on `waitCh <-` for ever (the file   *)
(*                    is never closed).  Both reproduce on the real code.  *)
(* Variant "buffered" the tempting repair (waitCh with capacity 1, results *)
(*                    copied only after the wait): TLC finds a stale token *)
(*                    that lets the NEXT call return before its own        *)
(*                    underlying call has finished (a bogus result).       *)
(* Variant "percall"  the repair made in /repo: a done channel per call,   *)
(*                    closed by the loop after the call; results in locals *)
(*                    copied only on the done path.  All properties hold.  *)
(***************************************************************************)
EXTENDS Integers, Sequences, FiniteSets, TLC
CONSTANTS NCalls, Variant

Procs == {"C", "L", "X"}
Zero == [p \in Procs |-> 0]
Join(a, b) == [p \in Procs |-> IF a[p] > b[p] THEN a[p] ELSE b[p]]
Leq(a, b) == \A p \in Procs : a[p] <= b[p]
Tick(vc, p) == [vc EXCEPT ![p] = @ + 1]

VARIABLES
    cancelled, xvc,          \* the context: Done closed; clock carried by the close
    cpc, k, cret,            \* caller: pc, current call, class of every finished call ("ok" | "ctx")
    lpc, lk,                 \* loop goroutine: pc, the call whose function it holds
    vc,                      \* vector clocks of the three processes
    under,                   \* per call: underlying call "no" | "running" | "done"
    resw, wvc,               \* per call: result variables written by the function?  clock of that write
    cacc,                    \* per call: clock of the caller's own access to the result variables (or Zero if none)
    chacc,                   \* per call: did the caller access them
    tok, tokvc,              \* buffered variant: tokens in waitCh, clock carried
    done, donevc,            \* percall variant: done channel closed, clock carried
    race, stale              \* verdicts
vars == <<cancelled, xvc, cpc, k, cret, lpc, lk, vc, under, resw, wvc, cacc, chacc, tok, tokvc, done, donevc, race, stale>>

Calls == 1 .. NCalls
Init ==
    /\ cancelled = FALSE /\ xvc = Zero
    /\ cpc = "idle" /\ k = 1 /\ cret = <<>>
    /\ lpc = "sel" /\ lk = 0
    /\ vc = [p \in Procs |-> Zero]
    /\ under = [c \in Calls |-> "no"] /\ resw = [c \in Calls |-> FALSE] /\ wvc = [c \in Calls |-> Zero]
    /\ cacc = [c \in Calls |-> Zero] /\ chacc = [c \in Calls |-> FALSE]
    /\ tok = 0 /\ tokvc = Zero /\ done = [c \in Calls |-> FALSE] /\ donevc = [c \in Calls |-> Zero]
    /\ race = FALSE /\ stale = FALSE

(* ---------------- canceller ---------------- *)
Cancel ==
    /\ ~cancelled
    /\ cancelled' = TRUE /\ xvc' = Tick(vc["X"], "X") /\ vc' = [vc EXCEPT !["X"] = Tick(@, "X")]
    /\ UNCHANGED <<cpc, k, cret, lpc, lk, under, resw, wvc, cacc, chacc, tok, tokvc, done, donevc, race, stale>>

(* ---------------- caller ---------------- *)
\* the caller touches the result variables of call c at clock v (a write on the ctx path of "built", a read on the ok path)
CallerAccess(c, v) ==
    /\ cacc' = [cacc EXCEPT ![c] = v] /\ chacc' = [chacc EXCEPT ![c] = TRUE]
    /\ race' = (race \/ (resw[c] /\ ~Leq(wvc[c], v)))

Finish(cls) == /\ cret' = Append(cret, cls)
               /\ cpc' = IF k = NCalls THEN "fin" ELSE "idle"
               /\ k' = IF k = NCalls THEN k ELSE k + 1

StartCall ==
    /\ cpc = "idle"
    /\ cpc' = "sel1" /\ vc' = [vc EXCEPT !["C"] = Tick(@, "C")]
    /\ UNCHANGED <<cancelled, xvc, k, cret, lpc, lk, under, resw, wvc, cacc, chacc, tok, tokvc, done, donevc, race, stale>>

\* first select, case <-ctx.Done(): nothing was handed over
Sel1Ctx ==
    /\ cpc = "sel1" /\ cancelled
    /\ LET v == Tick(Join(vc["C"], xvc), "C") IN
       /\ vc' = [vc EXCEPT !["C"] = v]
       /\ IF Variant = "built" THEN CallerAccess(k, v)          \* `return 0, err` assigns the named results
          ELSE UNCHANGED <<cacc, chacc, race>>
    /\ Finish("ctx")
    /\ UNCHANGED <<cancelled, xvc, lpc, lk, under, resw, wvc, tok, tokvc, done, donevc, stale>>

\* first select, case fnCh <- fn: a rendezvous with the loop goroutine sitting in its select
Handover ==
    /\ cpc = "sel1" /\ lpc = "sel"
    /\ LET j == Join(vc["C"], vc["L"]) IN
       vc' = [vc EXCEPT !["C"] = Tick(j, "C"), !["L"] = Tick(j, "L")]
    /\ cpc' = "sel2" /\ lpc' = "run" /\ lk' = k
    /\ UNCHANGED <<cancelled, xvc, k, cret, under, resw, wvc, cacc, chacc, tok, tokvc, done, donevc, race, stale>>

\* second select, case <-ctx.Done(): the call is in flight (or finished and not yet reported)
Sel2Ctx ==
    /\ cpc = "sel2" /\ cancelled
    /\ LET v == Tick(Join(vc["C"], xvc), "C") IN
       /\ vc' = [vc EXCEPT !["C"] = v]
       /\ IF Variant = "built" THEN CallerAccess(k, v)
          ELSE UNCHANGED <<cacc, chacc, race>>
    /\ Finish("ctx")
    /\ UNCHANGED <<cancelled, xvc, lpc, lk, under, resw, wvc, tok, tokvc, done, donevc, stale>>

\* second select, the wait case: the caller reads the results
OkReturn(v) ==
    /\ CallerAccess(k, v)
    /\ stale' = (stale \/ ~resw[k])             \* an ok return whose function has not written its results yet
    /\ Finish("ok")

Sel2Tok ==      \* buffered: a token is in the channel
    /\ Variant = "buffered" /\ cpc = "sel2" /\ tok = 1
    /\ tok' = 0
    /\ vc' = [vc EXCEPT !["C"] = Tick(Join(vc["C"], tokvc), "C")]
    /\ OkReturn(Tick(Join(vc["C"], tokvc), "C"))
    /\ UNCHANGED <<cancelled, xvc, lpc, lk, under, resw, wvc, tokvc, done, donevc>>

Sel2Done ==     \* percall: this call's done channel is closed
    /\ Variant = "percall" /\ cpc = "sel2" /\ done[k]
    /\ vc' = [vc EXCEPT !["C"] = Tick(Join(vc["C"], donevc[k]), "C")]
    /\ OkReturn(Tick(Join(vc["C"], donevc[k]), "C"))
    /\ UNCHANGED <<cancelled, xvc, lpc, lk, under, resw, wvc, tok, tokvc, done, donevc>>

(* ---------------- loop goroutine ---------------- *)
LoopCtx ==      \* select, case <-ctx.Done(): close the source and leave
    /\ lpc = "sel" /\ cancelled
    /\ lpc' = "closed" /\ vc' = [vc EXCEPT !["L"] = Tick(Join(@, xvc), "L")]
    /\ UNCHANGED <<cancelled, xvc, cpc, k, cret, lk, under, resw, wvc, cacc, chacc, tok, tokvc, done, donevc, race, stale>>

UnderStart ==
    /\ lpc = "run" /\ lpc' = "under" /\ under' = [under EXCEPT ![lk] = "running"]
    /\ vc' = [vc EXCEPT !["L"] = Tick(@, "L")]
    /\ UNCHANGED <<cancelled, xvc, cpc, k, cret, lk, resw, wvc, cacc, chacc, tok, tokvc, done, donevc, race, stale>>

\* the underlying call returns and the function stores its results (in the caller's frame, or in locals only the done path reads)
UnderEnd ==
    /\ lpc = "under"
    /\ LET v == Tick(vc["L"], "L") IN
       /\ vc' = [vc EXCEPT !["L"] = v]
       /\ resw' = [resw EXCEPT ![lk] = TRUE] /\ wvc' = [wvc EXCEPT ![lk] = v]
       /\ race' = (race \/ (chacc[lk] /\ ~Leq(cacc[lk], v)))
    /\ under' = [under EXCEPT ![lk] = "done"] /\ lpc' = "post"
    /\ UNCHANGED <<cancelled, xvc, cpc, k, cret, lk, cacc, chacc, tok, tokvc, done, donevc, stale>>

\* built: `waitCh <- struct{}{}` on the shared unbuffered channel: needs a caller in its second select (whichever call that is)
PostBuilt ==
    /\ Variant = "built" /\ lpc = "post" /\ cpc = "sel2"
    /\ LET j == Join(vc["C"], vc["L"]) IN
       /\ lpc' = "sel"
       /\ OkReturn(Tick(j, "C"))
       /\ vc' = [vc EXCEPT !["C"] = Tick(j, "C"), !["L"] = Tick(j, "L")]
    /\ UNCHANGED <<cancelled, xvc, lk, under, resw, wvc, tok, tokvc, done, donevc>>
PostBuffered ==
    /\ Variant = "buffered" /\ lpc = "post" /\ tok = 0
    /\ tok' = 1 /\ tokvc' = vc["L"] /\ lpc' = "sel" /\ vc' = [vc EXCEPT !["L"] = Tick(@, "L")]
    /\ UNCHANGED <<cancelled, xvc, cpc, k, cret, lk, under, resw, wvc, cacc, chacc, done, donevc, race, stale>>
PostPerCall ==
    /\ Variant = "percall" /\ lpc = "post"
    /\ done' = [done EXCEPT ![lk] = TRUE] /\ donevc' = [donevc EXCEPT ![lk] = vc["L"]] /\ lpc' = "sel"
    /\ vc' = [vc EXCEPT !["L"] = Tick(@, "L")]
    /\ UNCHANGED <<cancelled, xvc, cpc, k, cret, lk, under, resw, wvc, cacc, chacc, tok, tokvc, race, stale>>

CallerStep == StartCall \/ Sel1Ctx \/ Sel2Ctx \/ Sel2Tok \/ Sel2Done
LoopStep == LoopCtx \/ UnderStart \/ UnderEnd \/ PostBuilt \/ PostBuffered \/ PostPerCall
Next == Cancel \/ CallerStep \/ Handover \/ LoopStep
Spec == Init /\ [][Next]_vars
FairSpec == Spec /\ WF_vars(CallerStep) /\ WF_vars(Handover) /\ WF_vars(LoopStep)

(* ---------------- properties ---------------- *)
TypeOK == /\ cpc \in {"idle", "sel1", "sel2", "fin"} /\ lpc \in {"sel", "run", "under", "post", "closed"}
          /\ k \in Calls /\ tok \in 0 .. 1 /\ Len(cret) <= NCalls
NoRace == ~race                                     \* no unordered conflicting accesses to a call's result variables
ResultsTrue == ~stale                               \* an ok return delivers what ITS underlying call returned
\* a call that returned ok had its underlying call finished before; a call refused before the hand-over never reaches the source
OkMeansDone == \A c \in 1 .. Len(cret) : cret[c] = "ok" => under[c] = "done"
\* once the context is cancelled the loop goroutine ends (and closes the source) instead of staying parked on a channel for ever
LoopEnds == cancelled ~> (lpc = "closed")
\* calls made after the loop ended are refused, never stuck: the caller always finishes
CallerEnds == <>(cpc = "fin")
Parked == cancelled /\ lpc = "post" /\ cpc # "sel2" /\ Variant = "built"     \* reachable in "built": the witness of the leak
NeverParked == ~Parked
=============================================================================
