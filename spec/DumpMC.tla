------------------------------- MODULE DumpMC -------------------------------
(* MC / GEN for C10: the machine is a function from a case (bit range, buffer end, options) to the   *)
(* dump fq is built to print (Dump!Built); invariants compare it with the as-required predicates.    *)
(* Two steps only so that TLC's workers share the cases: Init picks (start, length), Pick the rest.   *)
EXTENDS Dump, Json
CONSTANTS Starts, Lens, LineBytes, DSel, ABs, SBs, Tails, RDs, Outer, Fix, Spread
VARIABLE c
Bases == <<2, 8, 10, 16, 36>>
DOf(L, k) == <<0, 1, L - 1, L, L + 1, 2 * L + 1>>[k]
\* buffer end relative to the value: at its last bit / next byte boundary / well beyond the line / 5 bits further
BlenOf(s, n, L, t) == CASE t = 0 -> s + n [] t = 1 -> ((s + n + 7) \div 8) * 8 [] t = 2 -> s + n + 8 * L + 3 [] OTHER -> s + n + 5
\* Spread: bases and buffer end are a function of the other coordinates (GEN family), else the full product
CasesOf(s, n) ==
    IF Spread
    THEN {[s |-> s, n |-> n, L |-> L, k |-> k, ab |-> Bases[((s + n + L) % 5) + 1], sb |-> Bases[((s + 2 * n + k) % 5) + 1], t |-> (s + n + k) % 4, rd |-> 0] :
             L \in LineBytes, k \in DSel}
    ELSE [s : {s}, n : {n}, L : LineBytes, k : DSel, ab : ABs, sb : SBs, t : Tails, rd : RDs]
Blen(x) == BlenOf(x.s, x.n, x.L, x.t)
Base(x) == [kind |-> "dump", what |-> "", L |-> x.L, ab |-> x.ab, sb |-> x.sb, D |-> DOf(x.L, x.k), verbose |-> TRUE, rd |-> x.rd, W |-> 0,
            boff |-> 0, buf |-> [i \in 1 .. ByteCount(Blen(x)) |-> ((i - 1) * 37 + 11) % 256], blen |-> Blen(x),
            start |-> x.s, len |-> x.n, show |-> x.n > 0, rows |-> <<>>, trunc |-> FALSE, ufull |-> FALSE, uaddr |-> <<>>,
            uend |-> FALSE, usize |-> <<>>, hasv |-> TRUE, vr |-> <<>>, vs |-> <<>>, perr |-> ""]
\* values walked by dump(): a binary alone (Outer = 0: hexdump), else a top buffer of Outer bytes, the nested root, the value
Vals(x) == IF Outer = 0 /\ x.rd = 0 THEN {[rd |-> 0, stop |-> x.s + x.n]}
           ELSE IF x.rd = 0 THEN {[rd |-> 0, stop |-> Blen(x)], [rd |-> 0, stop |-> x.s + x.n]}
           ELSE {[rd |-> 0, stop |-> Outer * 8], [rd |-> x.rd, stop |-> Blen(x)], [rd |-> x.rd, stop |-> x.s + x.n]}
Out(x) == Built(Base(x), MaxAddrIndentWidth(Vals(x), x.ab), Fix)

NoCase == [s |-> 0, n |-> 0, L |-> 1, k |-> 1, ab |-> 16, sb |-> 16, t |-> 0, rd |-> 0]
Init == c \in {[pc |-> "seed", s |-> s, n |-> n, x |-> NoCase] : s \in Starts, n \in Lens}
Pick == c.pc = "seed" /\ c' \in {[pc |-> "case", s |-> c.s, n |-> c.n, x |-> x] : x \in CasesOf(c.s, c.n)}
Next == Pick
Spec == Init /\ [][Next]_c
IsCase == c.pc = "case"
O == Out(c.x)

Sane(o) == (o.D = 0 => ~o.trunc) /\ \A i \in DOMAIN o.rows : o.rows[i].a # <<>>
\* as built => as required; plus two as-built facts beyond the requirement: display_bytes 0 never truncates, every row has an address
Refines     == IsCase => LET o == O IN AsRequired(o) /\ Sane(o)
RefinesOrD4 == IsCase => LET o == O IN (AsRequired(o) \/ Sig(o) = "dump.nested_root_addr_width") /\ Sane(o)
\* NOT a fact (TLC: start 1, 34 bits, line_bytes 2, display_bytes 2): a truncated value may stop one byte into a line --
\* `lastDisplayBit % lineBits != 0` tests the first bit of a line, not the last; harmless for the property (see Witness)
\* anti-vacuity: a constraint that reports which branches of the arithmetic the cases reach (one line per branch and case)
Tag(b, t) == IF b THEN PrintT("WITNESS " \o t) ELSE TRUE
Witness == IsCase => LET o == O
                         ar == Arith(c.x.s, c.x.n, Blen(c.x), c.x.L, DOf(c.x.L, c.x.k)) IN
    /\ Tag(o.trunc, "truncated")
    /\ Tag(\E i \in DOMAIN o.rows : o.rows[i].mark, "end marker")
    /\ Tag(o.trunc /\ ~o.ufull, "until text cut by column")
    /\ Tag(ar.startLineByteOffset # 0, "start inside a line")
    /\ Tag(o.trunc /\ o.rows[Len(o.rows)].cells[Len(o.rows[Len(o.rows)].cells)].c # o.L - 1, "truncation one byte into a line")
    /\ Tag(ar.displaySizeBits % 8 # 0, "display size clipped at buffer end")
    /\ Tag(c.x.rd > 0 /\ ~AsRequired(o) /\ Sig(o) = "dump.nested_root_addr_width", "D4 nested root address cut")
    /\ Tag(c.x.rd > 0 /\ AsRequired(o), "nested root dump true (single line at 0)")

\* GEN
Emit == IsCase => PrintT(ToJson([s |-> c.x.s, n |-> c.x.n, L |-> c.x.L, D |-> DOf(c.x.L, c.x.k), ab |-> c.x.ab, sb |-> c.x.sb, bb |-> Blen(c.x)]))
=============================================================================
