----------------------------- MODULE TcpReasmMC -----------------------------
(***************************************************************************)
(* C19: the senders' view and the capture process (MC / GEN / SIM modes).  *)
(*                                                                         *)
(* Senders open connections (with or without a captured handshake), send  *)
(* their streams in any segmentation, retransmit, close; the capture       *)
(* process records the packets on `wire`, may miss one (Omit), record the  *)
(* last two in the other order (SwapAdjacent) and see a datagram as IPv4   *)
(* fragments in any order (Fragment).  History variables remember what was *)
(* sent and what never reached the capture.                                *)
(*                                                                         *)
(* MC: `Agree` - the expected observation, stated declaratively as a       *)
(* function of the history (sent, lost, fragmented), is what the abstract  *)
(* receiver Reassemble(wire) of TcpReasm.tla computes from the capture     *)
(* alone.  GEN/SIM: every reachable state is a history; `Emit` prints it.  *)
(***************************************************************************)
EXTENDS TcpReasm, Json

CONSTANTS MaxConn, MaxTok, MaxPkts,        \* sizes
          MaxDup, MaxSwap, MaxOmit, MaxFrag, \* capture/retransmission budgets
          HsChoices,                        \* subset of BOOLEAN: handshake captured or not
          IsnClasses,                       \* subset of {"low","wrap","half"} (only carried to the harness)
          MaxFin,                           \* FIN packets per history
          MinEmit                           \* Emit only histories with at least this many packets

VARIABLES conns,   \* sequence of [hs, isn]
          wire,    \* the capture so far
          sent,    \* sent[c] = <<n1, n2>> tokens sent so far by side 1 / side 2 (captured or not)
          lost,    \* lost[c] = <<S1, S2>> positions sent but in no captured packet
          st,      \* st[c] = [hsk (handshake packets sent, 3 = established), fin <<b,b>>, finack <<b,b>>, synswap]
          used,    \* [dup, swap, omit, frag, fin] budget counters
          ndg,     \* next datagram id
          hist     \* [omits (packets not captured), frags (fragmented datagram ids), swaps (wire index of swap)]
vars == <<conns, wire, sent, lost, st, used, ndg, hist>>

Pkt(c, dir, kind, from, to, dg, fi, fn) ==
    [c |-> c, dir |-> dir, kind |-> kind, from |-> from, to |-> to, dg |-> dg, fi |-> fi, fn |-> fn]
OnWire(c) == \E i \in DOMAIN wire : wire[i].c = c
Established(c) == st[c].hsk = 3
Set2(pair, dir, v) == IF dir = 1 THEN <<v, pair[2]>> ELSE <<pair[1], v>>

Init ==
    /\ conns = <<>> /\ wire = <<>> /\ sent = <<>> /\ lost = <<>> /\ st = <<>>
    /\ used = [dup |-> 0, swap |-> 0, omit |-> 0, frag |-> 0, fin |-> 0]
    /\ ndg = 1
    /\ hist = [omits |-> <<>>, frags |-> <<>>, swaps |-> <<>>]

\* a new connection appears once every earlier one has a packet in the capture (canonical numbering)
Open ==
    /\ Len(conns) < MaxConn
    /\ \A c \in DOMAIN conns : OnWire(c)
    /\ Len(wire) < MaxPkts
    /\ \E hs \in HsChoices, i1 \in IsnClasses, i2 \in IsnClasses :
         /\ conns' = Append(conns, [hs |-> hs, isn |-> <<i1, i2>>])
         /\ st' = Append(st, [hsk |-> IF hs THEN 0 ELSE 3, fin |-> <<FALSE, FALSE>>, finack |-> <<FALSE, FALSE>>, synswap |-> FALSE])
    /\ sent' = Append(sent, <<0, 0>>)
    /\ lost' = Append(lost, <<{}, {}>>)
    /\ UNCHANGED <<wire, used, ndg, hist>>

Handshake(c) ==
    /\ st[c].hsk < 3
    /\ Len(wire) < MaxPkts
    /\ wire' = Append(wire, CASE st[c].hsk = 0 -> Pkt(c, 1, "syn", 1, 0, ndg, 1, 1)
                              [] st[c].hsk = 1 -> Pkt(c, 2, "synack", 1, 0, ndg, 1, 1)
                              [] OTHER -> Pkt(c, 1, "ack", 1, 0, ndg, 1, 1))
    /\ st' = [st EXCEPT ![c].hsk = @ + 1]
    /\ ndg' = ndg + 1
    /\ UNCHANGED <<conns, sent, lost, used, hist>>

FragOrders(fn) == IF fn = 2 THEN {<<1, 2>>, <<2, 1>>} ELSE {<<1, 2, 3>>, <<2, 1, 3>>, <<3, 2, 1>>, <<2, 3, 1>>}

\* new data of direction dir: positions sent+1 .. to, captured whole, as fragments, or not at all
Segment(c, dir, to) ==
    LET from == sent[c][dir] + 1 IN
    /\ Established(c) /\ ~st[c].fin[dir]
    /\ to >= from /\ to <= MaxTok
    /\ sent' = [sent EXCEPT ![c] = Set2(@, dir, to)]
    /\ \/ /\ Len(wire) < MaxPkts                                           \* captured
          /\ wire' = Append(wire, Pkt(c, dir, "data", from, to, ndg, 1, 1))
          /\ ndg' = ndg + 1
          /\ UNCHANGED <<lost, used, hist>>
       \/ /\ used.frag < MaxFrag                                           \* captured as IPv4 fragments
          /\ \E fn \in 2 .. 3 : \E ord \in FragOrders(fn) :
               /\ Len(wire) + fn <= MaxPkts
               /\ wire' = wire \o [k \in 1 .. fn |-> Pkt(c, dir, "data", from, to, ndg, ord[k], fn)]
          /\ ndg' = ndg + 1
          /\ used' = [used EXCEPT !.frag = @ + 1]
          /\ hist' = [hist EXCEPT !.frags = Append(@, ndg)]
          /\ UNCHANGED lost
       \/ /\ used.omit < MaxOmit                                           \* missed by the capture
          /\ (conns[c].hs \/ from > 1)   \* without a captured SYN nobody can know that the stream started earlier
          /\ OnWire(c)
          /\ lost' = [lost EXCEPT ![c] = Set2(@, dir, @[dir] \cup (from .. to))]
          /\ used' = [used EXCEPT !.omit = @ + 1]
          /\ hist' = [hist EXCEPT !.omits = Append(@, Pkt(c, dir, "data", from, to, 0, 1, 1))]
          /\ UNCHANGED <<wire, ndg>>
    /\ UNCHANGED <<conns, st>>

\* retransmission of positions a..b: an exact duplicate, any overlap of old data, possibly running into new data
Retransmit(c, dir, a, b) ==
    /\ Established(c)
    /\ used.dup < MaxDup
    /\ Len(wire) < MaxPkts
    /\ a >= 1 /\ a <= sent[c][dir] /\ b >= a /\ b <= MaxTok
    /\ (b > sent[c][dir] => ~st[c].fin[dir])
    /\ wire' = Append(wire, Pkt(c, dir, "data", a, b, ndg, 1, 1))
    /\ ndg' = ndg + 1
    /\ sent' = [sent EXCEPT ![c] = Set2(@, dir, IF b > @[dir] THEN b ELSE @[dir])]
    /\ lost' = [lost EXCEPT ![c] = Set2(@, dir, @[dir] \ (a .. b))]
    /\ used' = [used EXCEPT !.dup = @ + 1]
    /\ UNCHANGED <<conns, st, hist>>

\* a retransmitted SYN (side 1) or SYN+ACK (side 2) recorded when the connection is established and that side has already sent
\* data: the copy carries nothing and starts nothing
RetransmitSyn(c, dir) ==
    /\ Established(c) /\ conns[c].hs
    /\ used.dup < MaxDup
    /\ Len(wire) < MaxPkts
    /\ sent[c][dir] >= 1
    /\ wire' = Append(wire, Pkt(c, dir, IF dir = 1 THEN "syn" ELSE "synack", 1, 0, ndg, 1, 1))
    /\ ndg' = ndg + 1
    /\ used' = [used EXCEPT !.dup = @ + 1]
    /\ UNCHANGED <<conns, sent, lost, st, hist>>

Fin(c, dir) ==
    /\ Established(c) /\ ~st[c].fin[dir]
    /\ used.fin < MaxFin
    /\ Len(wire) < MaxPkts
    /\ wire' = Append(wire, Pkt(c, dir, "fin", sent[c][dir] + 1, sent[c][dir], ndg, 1, 1))
    /\ ndg' = ndg + 1
    /\ st' = [st EXCEPT ![c].fin = Set2(@, dir, TRUE)]
    /\ used' = [used EXCEPT !.fin = @ + 1]
    /\ UNCHANGED <<conns, sent, lost, hist>>

\* the acknowledgement of a FIN (pure ACK, no data)
FinAck(c, dir) ==
    /\ st[c].fin[Other(dir)] /\ ~st[c].finack[dir]
    /\ Len(wire) < MaxPkts
    /\ wire' = Append(wire, Pkt(c, dir, "ack", 1, 0, ndg, 1, 1))
    /\ ndg' = ndg + 1
    /\ st' = [st EXCEPT ![c].finack = Set2(@, dir, TRUE)]
    /\ UNCHANGED <<conns, sent, lost, used, hist>>

\* the capture records the last two packets in the other order (every adjacent pair is "the last two" once)
SwapAdjacent ==
    /\ used.swap < MaxSwap
    /\ Len(wire) >= 2
    /\ LET n == Len(wire) a == wire[n - 1] b == wire[n] IN
         /\ [a EXCEPT !.dg = 0] # [b EXCEPT !.dg = 0]
         /\ wire' = [wire EXCEPT ![n - 1] = b, ![n] = a]
         /\ st' = IF a.kind = "syn" /\ b.c = a.c THEN [st EXCEPT ![a.c].synswap = TRUE] ELSE st
         /\ hist' = [hist EXCEPT !.swaps = Append(@, n - 1)]
    /\ used' = [used EXCEPT !.swap = @ + 1]
    /\ UNCHANGED <<conns, sent, lost, ndg>>

DoHandshake  == \E c \in DOMAIN conns : Handshake(c)
DoSegment    == \E c \in DOMAIN conns, dir \in 1 .. 2, to \in 1 .. MaxTok : Segment(c, dir, to)
DoRetransmit == \E c \in DOMAIN conns, dir \in 1 .. 2, a, b \in 1 .. MaxTok : Retransmit(c, dir, a, b)
DoRetransmitSyn == \E c \in DOMAIN conns, dir \in 1 .. 2 : RetransmitSyn(c, dir)
DoFin        == \E c \in DOMAIN conns, dir \in 1 .. 2 : Fin(c, dir)
DoFinAck     == \E c \in DOMAIN conns, dir \in 1 .. 2 : FinAck(c, dir)
Next == Open \/ DoHandshake \/ DoSegment \/ DoRetransmit \/ DoRetransmitSyn \/ DoFin \/ DoFinAck \/ SwapAdjacent

Spec == Init /\ [][Next]_vars

(********************* expected observation from the history ***************)
ExpStream(c, dir) == IF lost[c][dir] = {} THEN Toks(c, dir, 1, sent[c][dir])
                     ELSE Toks(c, dir, 1, Min(lost[c][dir]) - 1)
ExpGap(c, dir)  == lost[c][dir] # {} /\ \E p \in (Min(lost[c][dir]) + 1) .. sent[c][dir] : p \notin lost[c][dir]
ExpTail(c, dir) == lost[c][dir] # {} /\ ~ExpGap(c, dir) /\ st[c].fin[dir]

Agree ==
    LET R == Reassemble(wire) IN
    /\ {R.conns[i].c : i \in DOMAIN R.conns} = {c \in DOMAIN conns : OnWire(c)}      \* every connection ...
    /\ Len(R.conns) = Cardinality({c \in DOMAIN conns : OnWire(c)})                   \* ... once
    /\ \A i \in DOMAIN R.conns :
         LET r == R.conns[i] c == r.c IN
         /\ \A dir \in 1 .. 2 :
              /\ r.d[dir].out = ExpStream(c, dir)           \* all that was sent, or the prefix before the first missing byte
              /\ r.d[dir].gap = ExpGap(c, dir)              \* loss with later data captured
              /\ r.d[dir].tailgap = ExpTail(c, dir)
         /\ (conns[c].hs /\ ~st[c].synswap => r.cli = 1 /\ FirstKind(wire, c) = "syn")   \* the SYN sender is the client
    /\ SameBag(R.reasm, hist.frags)                           \* exactly the fragmented datagrams are reassembled
TypeOK ==
    /\ Len(wire) <= MaxPkts
    /\ \A c \in DOMAIN conns : \A dir \in 1 .. 2 : sent[c][dir] \in 0 .. MaxTok /\ lost[c][dir] \subseteq 1 .. sent[c][dir]

(************************ as built vs as required ***************************)
(* Inside the constants the FSM veto (B1) changes what the receiver        *)
(* delivers only in histories where a data segment is recorded behind a    *)
(* FIN of its connection; everywhere else the as-built layer refines the   *)
(* requirement.  FsmNeverMatters is expected to FAIL (anti-vacuity: the    *)
(* known shape is reached).                                                *)
Streams(R) == [i \in DOMAIN R.conns |-> [c |-> R.conns[i].c, o1 |-> R.conns[i].d[1].out, o2 |-> R.conns[i].d[2].out,
                                         g1 |-> R.conns[i].d[1].gap, g2 |-> R.conns[i].d[2].gap]]
DataBehindFin == \E i, j \in DOMAIN wire : i < j /\ wire[i].kind = "fin" /\ wire[j].kind = "data" /\ wire[i].c = wire[j].c
FsmNeverMatters == Streams(Reassemble(AsBuiltWire(wire, {}, TRUE, FALSE))) = Streams(Reassemble(wire))
FsmRefinesOrKnown == FsmNeverMatters \/ DataBehindFin

(********************************* GEN / SIM *******************************)
Case == [conns |-> conns, wire |-> wire, omits |-> hist.omits, swaps |-> hist.swaps,
         exp |-> LET R == Reassemble(wire) IN
                 [conns |-> [i \in DOMAIN R.conns |->
                               [c |-> R.conns[i].c, cli |-> R.conns[i].cli,
                                out |-> <<R.conns[i].d[1].out, R.conns[i].d[2].out>>,
                                gap |-> <<R.conns[i].d[1].gap, R.conns[i].d[2].gap>>,
                                tailgap |-> <<R.conns[i].d[1].tailgap, R.conns[i].d[2].tailgap>>]],
                  reasm |-> R.reasm]]
Emit == IF Len(wire) >= MinEmit /\ \A c \in DOMAIN conns : OnWire(c) THEN PrintT(ToJson(Case)) ELSE TRUE
=============================================================================
