------------------------------ MODULE Wire_cbor ------------------------------
(***************************************************************************)
(* C16: CBOR, from RFC 8949 section 3.  Enc(v) is the set of ALL encodings *)
(* of v: every head may use any of the five argument forms that can hold   *)
(* the argument (immediate 0..23, 1, 2, 4, 8 following bytes - preferred   *)
(* serialization is NOT required of a well-formed item), strings, arrays   *)
(* and maps may be definite or indefinite length, floats may use any of    *)
(* the three widths that represent the number exactly.                     *)
(* Extra values: [t |-> "tag", tag (magnitude), v] and [t |-> "undef"].     *)
(***************************************************************************)
EXTENDS WireBytes
CONSTANTS MaxChunks,     \* indefinite-length strings: at most this many non-empty chunks (0: definite strings only)
          EmptyChunks    \* TRUE: additionally one empty chunk in front or at the end

\* head of major type mj with argument given as a magnitude (<= 8 bytes)
Heads(mj, m) ==
       (IF Len(m) <= 1 /\ SmallOf(m) < 24 THEN {<<mj * 32 + SmallOf(m)>>} ELSE {})
    \cup {<<mj * 32 + (CASE w = 1 -> 24 [] w = 2 -> 25 [] w = 4 -> 26 [] w = 8 -> 27)>> \o UExt(m, w)
            : w \in {w \in {1, 2, 4, 8} : UFits(m, w)}}
HeadsN(mj, n) == Heads(mj, MagOf(n))

\* -1 - v for a negative v is |v| - 1
EncInt(v) == IF v.neg THEN Heads(1, Strip(Dec(v.mag))) ELSE Heads(0, v.mag)

EncFloat(v) == {<<251>> \o v.bits}
          \cup (IF NarrowSingle(v.bits) # <<>> THEN {<<250>> \o NarrowSingle(v.bits)} ELSE {})
          \cup (IF NarrowHalf(v.bits) # <<>> THEN {<<249>> \o NarrowHalf(v.bits)} ELSE {})

\* ways to cut a plain byte string into at most k non-empty chunks (text: only between characters)
HasRun(s) == \E i \in 1..Len(s) : s[i] < 0
RECURSIVE Chunkings(_, _, _)
Chunkings(s, text, k) ==
    IF Len(s) = 0 THEN {<<>>}
    ELSE IF k = 0 THEN {}
    ELSE UNION {{<<SubSeq(s, 1, i)>> \o r : r \in Chunkings(SubSeq(s, i + 1, Len(s)), text, k - 1)}
                  : i \in {i \in 1..Len(s) : ~text \/ i = Len(s) \/ ~IsCont(s[i + 1])}}
AllChunkings(s, text) ==
    IF HasRun(s) THEN {<<s>>}
    ELSE LET cs == Chunkings(s, text, MaxChunks) IN
         IF EmptyChunks THEN cs \cup {<<<<>>>> \o c : c \in cs} \cup {Append(c, <<>>) : c \in cs} ELSE cs
EncString(mj, s, text) ==
       {h \o s : h \in HeadsN(mj, RLen(s))}
    \cup {<<mj * 32 + 31>> \o b \o <<255>> :
            b \in IF MaxChunks = 0 THEN {} ELSE UNION {CatAll([i \in 1..Len(c) |-> {h \o c[i] : h \in HeadsN(mj, RLen(c[i]))}])
                           : c \in AllChunkings(s, text)}}

\* a container around the concatenated encodings of its n items / n pairs: definite or indefinite length
ArrOf(n, body) == {h \o body : h \in HeadsN(4, n)} \cup {<<159>> \o body \o <<255>>}
MapOf(n, body) == {h \o body : h \in HeadsN(5, n)} \cup {<<191>> \o body \o <<255>>}
TagOf(m, body) == {h \o body : h \in Heads(6, m)}

RECURSIVE Enc(_)
Enc(v) ==
    CASE v.t = "null"  -> {<<246>>}
      [] v.t = "undef" -> {<<247>>}
      [] v.t = "bool"  -> {<<IF v.b THEN 245 ELSE 244>>}
      [] v.t = "int"   -> EncInt(v)
      [] v.t = "f64"   -> EncFloat(v)
      [] v.t = "str"   -> EncString(3, v.s, TRUE)
      [] v.t = "bin"   -> EncString(2, v.x, FALSE)
      [] v.t = "tag"   -> UNION {TagOf(v.tag, b) : b \in Enc(v.v)}
      [] v.t = "nulls" -> ArrOf(v.n, Rep(v.n, 246))
      [] v.t = "arr"   -> UNION {ArrOf(Len(v.a), b) : b \in CatAll([i \in 1..Len(v.a) |-> Enc(v.a[i])])}
      [] v.t = "map"   -> UNION {MapOf(Len(v.k), b) :
                                    b \in CatAll([i \in 1..(2 * Len(v.k)) |->
                                           IF i % 2 = 1 THEN Enc(Str(v.k[(i + 1) \div 2])) ELSE Enc(v.v[i \div 2])])}

\* the shortest encoding, and the header alternatives of a large container around
\* shortest encodings of its parts (a subset of Enc(v) that stays enumerable)
EncMin(v) == CHOOSE e \in Enc(v) : \A o \in Enc(v) : RLen(e) <= RLen(o)
EncOuter(v) ==
    CASE v.t = "arr" -> ArrOf(Len(v.a), Flat([i \in 1..Len(v.a) |-> EncMin(v.a[i])]))
      [] v.t = "map" -> MapOf(Len(v.k), Flat([i \in 1..Len(v.k) |-> EncMin(Str(v.k[i])) \o EncMin(v.v[i])]))
      [] OTHER -> Enc(v)

\* torepr: byte strings come back as strings of the same bytes, a tag is transparent
\* (RFC 8949 6.1: "the tag content is represented"), undefined has no JSON value: null
RECURSIVE Repr(_)
Repr(v) ==
    CASE v.t = "bin"   -> Str(v.x)
      [] v.t = "tag"   -> Repr(v.v)
      [] v.t = "undef" -> Null
      [] v.t = "arr"   -> Arr([i \in 1..Len(v.a) |-> Repr(v.a[i])])
      [] v.t = "map"   -> Map(v.k, [i \in 1..Len(v.v) |-> Repr(v.v[i])])
      [] OTHER -> v
=============================================================================
