----------------------------- MODULE TraceRepl -----------------------------
(* TV mode: sessions of the REAL read-eval-print loop (harness/repl: `fq -i` on a virtual OS with a scripted line       *)
(* reader).  One event per answer of the line reader:                                                                   *)
(*   [op |-> "step", k, f, o,      the line as an action of Repl.tla                                                     *)
(*    t      the text that was handed to fq (must be the text Repl.tla gives the action: binds vocabulary to code)      *)
(*    prompt the prompt fq asked for BEFORE it read this line (fq's own projection of the loop state)                    *)
(*    out    the stdout lines written between this line and the next prompt ("ERR" for an error message line)            *)
(*    intr   an interrupt was delivered while the line ran]                                                              *)
(*   [op |-> "init", i]   starts a session (reset)                                                                      *)
(*   [op |-> "end", exit, tail, hang, at (kind of the line that was running when the session stopped moving), lost]  fq returned                                                   *)
(* The state is a function of the logged lines, so a rejected event is reported (<<"REJECT", line, signature>>) and the  *)
(* run goes on with the state the specification requires; the check reports the first rejection of a session.            *)
EXTENDS Repl, Json
Trace == ndJsonDeserialize("trace.ndjson")
VARIABLES l, stack, slurp, over
tvars == <<l, stack, slurp, over>>

TInit == l = 1 /\ stack = <<>> /\ slurp = NoSlurp /\ over = TRUE
Rej(sig) == PrintT(<<"REJECT", l, sig>>)
TNext ==
  /\ l <= Len(Trace)
  /\ l' = l + 1
  /\ LET e == Trace[l] IN
     CASE e.op = "init" ->
            /\ stack' = InitStack(e.i) /\ slurp' = NoSlurp /\ over' = FALSE
            /\ IF e.prog = InitText(e.i) THEN TRUE ELSE Rej("repl.trace_malformed")
       [] e.op = "step" ->
            IF over
            THEN Rej("repl.prompt_after_outermost_loop_was_left") /\ UNCHANGED <<stack, slurp, over>>
            ELSE LET a == [k |-> e.k, f |-> e.f, o |-> e.o]
                     r == Do(stack, slurp, a)
                 IN /\ stack' = r.stack /\ slurp' = r.slurp /\ over' = r.over
                    /\ IF e.t = Text(a) THEN TRUE ELSE Rej("repl.trace_malformed")
                    /\ IF e.prompt = Prompt(stack) THEN TRUE
                       ELSE Rej("repl.prompt_does_not_show_the_required_level_and_inputs")
                    /\ IF e.intr = r.intr THEN TRUE
                       ELSE Rej(IF r.intr THEN "repl.interrupt_not_deliverable_while_line_runs" ELSE "repl.trace_malformed")
                    /\ IF e.out = r.out THEN TRUE
                       ELSE Rej(IF r.intr \/ a.k = "sigint" THEN "repl.output_after_interrupt"
                                ELSE "repl.output_of_line." \o a.k)
       [] e.op = "end" ->
            /\ UNCHANGED <<stack, slurp, over>>
            /\ IF e.hang THEN Rej("repl.session_does_not_end.during_line." \o e.at) ELSE TRUE
            /\ IF e.lost THEN Rej("repl.interrupt_not_deliverable_while_line_runs") ELSE TRUE
            /\ IF ~e.hang /\ ~over THEN Rej("repl.fq_ended_with_loops_still_open") ELSE TRUE
            /\ IF ~e.hang /\ (e.exit # 0 \/ e.tail # <<>>) THEN Rej("repl.exit_status_or_output_at_end") ELSE TRUE
TSpec == TInit /\ [][TNext]_tvars
Consumed == TLCGet("stats").diameter - 1 = Len(Trace)
=============================================================================
