------------------------- MODULE TraceCtxStackConc -------------------------
(* TV mode, concurrent histories: linearisability of the real ctxstack.Stack against the as-required  *)
(* stack model.  Two threads write one totally ordered log:                                            *)
(*   evaluator    call(o, a, id) ... ret         one push / fin / stop, bracketed                      *)
(*                ocall ... oret(got)            one observation of ctx.Err() of every context pushed  *)
(*   interrupter  isend ... idone                one interrupt: logged before it is handed to the      *)
(*                                               trigger function and after the trigger goroutine has  *)
(*                                               come back to wait for the next one                    *)
(* An operation takes effect at one instant between its two events; which instant is not logged, so    *)
(* the spec composes the possible internal steps (Fire, Apply, Snap) in front of every event.          *)
(* Stateful: acceptance = whole trace consumed (POSTCONDITION), rejection reports the matched prefix.  *)
EXTENDS CtxStackSeq, TLC, Json
Trace == ndJsonDeserialize("trace.ndjson")
VARIABLES l, s
cvars == <<l, s>>

None == Op("none", 0)
\* m: stack model; ep: evaluator operation called but not yet applied; sn/sv: observation state and snapshot;
\* ip: an interrupt was sent and has not yet fired
SInit == [m |-> RInit, ep |-> None, sn |-> "none", sv |-> <<>>, ip |-> FALSE]

Fire(x)  == IF x.ip THEN {[x EXCEPT !.m = RIntr(x.m), !.ip = FALSE]} ELSE {}
Apply(x) == IF x.ep.op # "none" THEN {[x EXCEPT !.m = RApply(x.m, x.ep), !.ep = None]} ELSE {}
Snap(x)  == IF x.sn = "wait" THEN {[x EXCEPT !.sn = "have", !.sv = RVec(x.m)]} ELSE {}
Int1(X) == X \cup UNION {Fire(x) \cup Apply(x) \cup Snap(x) : x \in X}
Reach(x) == Int1(Int1(Int1({x})))          \* at most one pending step of each kind

Idle(x) == x.ep.op = "none" /\ x.sn = "none"
Ev(x, e, y) ==
    CASE e.op = "call"  -> Idle(x) /\ RLegal(x.m, Op(e.o, e.a)) /\ (e.o = "push" => e.id = x.m.n + 1)
                           /\ y = [x EXCEPT !.ep = Op(e.o, e.a)]
      [] e.op = "ret"   -> Idle(x) /\ y = x                        \* the operation has taken effect
      [] e.op = "ocall" -> Idle(x) /\ y = [x EXCEPT !.sn = "wait"]
      [] e.op = "oret"  -> x.sn = "have" /\ x.sv = e.got /\ y = [x EXCEPT !.sn = "none", !.sv = <<>>]
      [] e.op = "isend" -> ~x.ip /\ y = [x EXCEPT !.ip = TRUE]
      [] e.op = "idone" -> ~x.ip /\ y = x                          \* the interrupt has fired
      [] OTHER -> FALSE

CInit == l = 1 /\ s = SInit
CNext == /\ l <= Len(Trace)
         /\ l' = l + 1
         /\ IF Trace[l].op = "reset" THEN s' = SInit
            ELSE \E x \in Reach(s) : Ev(x, Trace[l], s')
CSpec == CInit /\ [][CNext]_cvars
Consumed == IF TLCGet("stats").diameter - 1 = Len(Trace) THEN TRUE
            ELSE PrintT(<<"PREFIX", TLCGet("stats").diameter - 1>>) /\ FALSE
=============================================================================
