------------------------------- MODULE Scalar -------------------------------
(***************************************************************************)
(* C02 - scalar readers return the mathematical value of the bits they     *)
(* consume.  VARIABLE-FREE: pure operators over bit sequences (Bits.tla).  *)
(*                                                                         *)
(* AS REQUIRED: for every reader family of pkg/decode (read.go) the value  *)
(* of the bits at the current position and the number of bits consumed,    *)
(* as a function of the bits AVAILABLE from the position to the end of the *)
(* buffer:  Expect(k, w, f, le, avail).  A read that cannot be satisfied   *)
(* (past the end, LEB128 overflow) is err = TRUE and carries no value.     *)
(* Values wider than 31 bits never touch TLC integers:                     *)
(*   integers    [neg, mag]  sign flag + normalised magnitude bits         *)
(*   floats      set of admissible float64 bit patterns (64-bit seqs),     *)
(*               derived from the decomposition [class, neg, exp, mant]    *)
(*   text        sequence of code points (<= 0x10FFFF, fits TLC ints)      *)
(*                                                                         *)
(* AS BUILT (last section): transcription of trySEndian's sign extension,  *)
(* bitio.ReverseBytes64's eight cases and tryBigIntEndianSign's shift;     *)
(* ScalarMC.tla lets TLC check them against S / SwapBytes for every width. *)
(***************************************************************************)
EXTENDS Bits, TLC

(****************************** value records ******************************)
\* one homogeneous record shape for every kind (TLC/JSON friendly)
NoVal == [neg |-> FALSE, mag |-> <<>>, nan |-> FALSE, f64 |-> <<>>, b |-> FALSE, cps |-> <<>>]
IntV(v)        == [NoVal EXCEPT !.neg = v.neg, !.mag = v.mag]
UIntV(m)       == [NoVal EXCEPT !.mag = m]
FltV(nan, ps)  == [NoVal EXCEPT !.nan = nan, !.f64 = ps]
BoolV(b)       == [NoVal EXCEPT !.b = b]
TextV(cps)     == [NoVal EXCEPT !.cps = cps]

(********************************* integers ********************************)
U(bits)  == UVal(bits)                       \* unsigned, big-endian, any width
S(bits)  == SVal(bits)                       \* two's complement, big-endian, any width
LE(bits) == SwapBytes(bits)                  \* little-endian: whole-byte widths only
Ordered(bits, le) == IF le THEN LE(bits) ELSE bits
UE(bits, le) == U(Ordered(bits, le))
SE(bits, le) == S(Ordered(bits, le))
BigU(bits, le) == UE(bits, le)               \* arbitrary width
BigS(bits, le) == SE(bits, le)
FitsS64(v) == IF v.neg THEN Len(v.mag) < 64 \/ v.mag = <<1>> \o Zeros(63) ELSE Len(v.mag) <= 63

(******************************* fixed point *******************************)
\* exact rational num / 2^shift
FP(bits, f, le) == [num |-> UE(bits, le), shift |-> f]

(********************************* floats **********************************)
\* decomposition; for finite non-zero classes the value is (-1)^neg * mant * 2^exp
\* (exp = weight of mant's last bit, mant a bit sequence)
FlDec(class, neg, exp, mant) == [class |-> class, neg |-> neg, exp |-> exp, mant |-> mant]
\* IEEE 754 interchange formats with implicit integer bit: 1 + eb + mb bits
IEEE(bits, eb, mb) ==
    LET neg  == bits[1] = 1
        e    == ToNat(SubSeq(bits, 2, 1 + eb))
        frac == SubSeq(bits, 2 + eb, 1 + eb + mb)
        bias == 2 ^ (eb - 1) - 1
        emax == 2 ^ eb - 1
    IN IF e = emax THEN FlDec(IF IsZero(frac) THEN "inf" ELSE "nan", neg, 0, <<>>)
       ELSE IF e = 0 THEN IF IsZero(frac) THEN FlDec("zero", neg, 0, <<>>)
                          ELSE FlDec("subnormal", neg, 1 - bias - mb, Norm(frac))
       ELSE FlDec("normal", neg, e - bias - mb, <<1>> \o frac)
\* x87 80-bit extended format: sign, 15-bit exponent, EXPLICIT integer bit, 63-bit fraction.
\* Encodings that the format itself declares invalid (unnormals, pseudo-infinity, pseudo-NaN) have no
\* mathematical value; class "invalid" is not judged.  Pseudo-denormals (e = 0, integer bit 1) have one.
IEEE80(bits) ==
    LET neg  == bits[1] = 1
        e    == ToNat(SubSeq(bits, 2, 16))
        m    == SubSeq(bits, 17, 80)
        frac == SubSeq(bits, 18, 80)
    IN IF e = 32767 THEN IF m[1] = 0 THEN FlDec("invalid", neg, 0, <<>>)
                         ELSE FlDec(IF IsZero(frac) THEN "inf" ELSE "nan", neg, 0, <<>>)
       ELSE IF e = 0 THEN IF IsZero(m) THEN FlDec("zero", neg, 0, <<>>)
                          ELSE FlDec("subnormal", neg, 1 - 16383 - 63, Norm(m))
       ELSE IF m[1] = 0 THEN FlDec("invalid", neg, 0, <<>>)
       ELSE FlDec("normal", neg, e - 16383 - 63, m)
Decompose(bits) == CASE Len(bits) = 16 -> IEEE(bits, 5, 10)
                     [] Len(bits) = 32 -> IEEE(bits, 8, 23)
                     [] Len(bits) = 64 -> IEEE(bits, 11, 52)
                     [] Len(bits) = 80 -> IEEE80(bits)

\* --- the float64 grid: every reader returns a Go float64; the harness reports math.Float64bits of it ---
Sgn(neg) == IF neg THEN 1 ELSE 0
F64Zero(neg) == <<Sgn(neg)>> \o Zeros(63)
F64Inf(neg)  == <<Sgn(neg)>> \o Ones(11) \o Zeros(52)
\* float64 pattern of t * 2^g, for t with at most 53 significant bits (or exactly 2^53) and g >= -1074
F64Enc(neg, t0, g) ==
    LET t == Norm(t0)  n == Len(t)  ev == g + n - 1 IN
    IF n = 0 THEN F64Zero(neg)
    ELSE IF ev > 1023 THEN F64Inf(neg)
    ELSE IF ev < -1022 THEN <<Sgn(neg)>> \o Zeros(11) \o PadLeft(t \o Zeros(g + 1074), 52)
    ELSE <<Sgn(neg)>> \o FromNat(ev + 1023, 11) \o SubSeq(t \o Zeros(53), 2, 53)
\* neighbours on the float64 grid of the exact value m * 2^e:
\*   lo = towards zero, hi = away from zero (lo = hi iff exactly representable), near = round-half-even
F64Cands(neg, m0, e) ==
    LET m == Norm(m0)  L == Len(m) IN
    IF L = 0 THEN [lo |-> F64Zero(neg), hi |-> F64Zero(neg), near |-> F64Zero(neg), exact |-> TRUE]
    ELSE
      LET E == e + L - 1                                     \* weight of the leading one
          g == IF E - 52 > -1074 THEN E - 52 ELSE -1074       \* weight of one float64 ulp at this magnitude
      IN IF e >= g THEN LET p == F64Enc(neg, m \o Zeros(e - g), g) IN [lo |-> p, hi |-> p, near |-> p, exact |-> TRUE]
         ELSE
           LET keep == L - (g - e)                            \* bits of m at or above the grid (may be <= 0)
               t    == IF keep > 0 THEN SubSeq(m, 1, keep) ELSE <<>>
               half == IF keep >= 0 THEN m[keep + 1] ELSE 0   \* bit of weight 2^(g-1)
               rest == IF keep >= 0 THEN SubSeq(m, keep + 2, L) ELSE m
               ex   == half = 0 /\ IsZero(rest)
               odd  == keep > 0 /\ t[keep] = 1
               up   == half = 1 /\ (~IsZero(rest) \/ odd)
               lo   == F64Enc(neg, t, g)
               hi   == IF ex THEN lo ELSE F64Enc(neg, IncGrow(t), g)
           IN [lo |-> lo, hi |-> hi, near |-> IF up THEN hi ELSE lo, exact |-> ex]
\* admissible float64 patterns for a decomposition. mode: "exact" (16/32/64-bit formats are subsets of float64),
\* "near" (correctly rounded, fixed point), "either" (80-bit: either neighbour; +-Inf beyond the range, +-0/subnormal below)
FloatWant(d, mode) ==
    CASE d.class = "nan"  -> FltV(TRUE, <<>>)
      [] d.class = "inf"  -> FltV(FALSE, <<F64Inf(d.neg)>>)
      [] d.class = "zero" -> FltV(FALSE, <<F64Zero(d.neg)>>)
      [] OTHER -> LET c == F64Cands(d.neg, d.mant, d.exp) IN
                  IF mode = "either" /\ ~c.exact THEN FltV(FALSE, <<c.lo, c.hi>>)
                  ELSE IF mode = "exact" /\ ~c.exact THEN FltV(FALSE, <<>>)     \* cannot happen for 16/32/64
                  ELSE FltV(FALSE, <<c.near>>)
\* does a reported float64 pattern satisfy a want
FloatOK(want, pat) == IF want.nan THEN IEEE(pat, 11, 52).class = "nan"
                      ELSE \E i \in DOMAIN want.f64 : want.f64[i] = pat
\* input class of a float, for finding signatures
FloatTag(d) ==
    IF d.class \in {"nan", "inf", "zero", "invalid"} THEN d.class
    ELSE LET E == d.exp + Len(Norm(d.mant)) - 1 IN
         IF E > 1023 THEN "exp_above_f64" ELSE IF E < -1022 THEN "exp_below_f64" ELSE "in_range"

(********************************** LEB128 *********************************)
\* number of bytes up to and including the first whose top bit is clear; 0 when the available bytes end first
RECURSIVE LEBEnd(_, _)
LEBEnd(avail, i) == IF 8 * i > Len(avail) THEN 0 ELSE IF avail[8 * (i - 1) + 1] = 0 THEN i ELSE LEBEnd(avail, i + 1)
\* concatenation of the n 7-bit groups, most significant (= last byte) first
LEBRaw(avail, n) == FlatCat([j \in 1 .. n |-> SubSeq(avail, 8 * (n - j) + 2, 8 * (n - j) + 8)])

(*********************************** text **********************************)
IsScalarValue(cp) == cp \in 0 .. 1114111 /\ cp \notin 55296 .. 57343
UTF8Enc(cp) ==
    IF cp < 128 THEN <<cp>>
    ELSE IF cp < 2048 THEN <<192 + (cp \div 64), 128 + (cp % 64)>>
    ELSE IF cp < 65536 THEN <<224 + (cp \div 4096), 128 + ((cp \div 64) % 64), 128 + (cp % 64)>>
    ELSE <<240 + (cp \div 262144), 128 + ((cp \div 4096) % 64), 128 + ((cp \div 64) % 64), 128 + (cp % 64)>>
UTF16Units(cp) == IF cp < 65536 THEN <<cp>>
                  ELSE LET c == cp - 65536 IN <<55296 + (c \div 1024), 56320 + (c % 1024)>>
UnitBytes(u, le) == IF le THEN <<u % 256, u \div 256>> ELSE <<u \div 256, u % 256>>
UTF8(cps) == FlatCat([i \in DOMAIN cps |-> UTF8Enc(cps[i])])
UTF16(cps, le) == FlatCat([i \in DOMAIN cps |->
                     LET us == UTF16Units(cps[i]) IN FlatCat([j \in DOMAIN us |-> UnitBytes(us[j], le)])])
BOM8 == <<239, 187, 191>>
BOM16LE == <<255, 254>>
BOM16BE == <<254, 255>>

TextKinds == {"UTF8", "UTF16", "UTF16LE", "UTF16BE", "UTF8Null", "UTF16Null", "UTF16LENull", "UTF16BENull",
              "UTF8ShortString", "UTF8ShortStringFixedLen", "UTF8NullFixedLen"}
\* encoding family of a text reader kind: 8, 16 (BOM decides, default LE), 17 (LE), 18 (BE)
TextEnc(k) == CASE k \in {"UTF16", "UTF16Null"} -> 16
                [] k \in {"UTF16LE", "UTF16LENull"} -> 17
                [] k \in {"UTF16BE", "UTF16BENull"} -> 18
                [] OTHER -> 8
\* the requirement for text: the body bits are an encoding of the returned code points
\* (the readers built on UTF8BOM / UTF16 UseBOM also accept a leading byte order mark, which is not part of the text)
Decodes(k, body, cps) ==
    /\ \A i \in DOMAIN cps : IsScalarValue(cps[i])
    /\ LET enc == TextEnc(k) IN
       CASE enc = 8  -> body = BitsOfBytes(UTF8(cps)) \/ body = BitsOfBytes(BOM8 \o UTF8(cps))
         [] enc = 16 -> \/ body = BitsOfBytes(UTF16(cps, TRUE))
                        \/ body = BitsOfBytes(BOM16LE \o UTF16(cps, TRUE))
                        \/ body = BitsOfBytes(BOM16BE \o UTF16(cps, FALSE))
         [] enc = 17 -> body = BitsOfBytes(UTF16(cps, TRUE))
         [] enc = 18 -> body = BitsOfBytes(UTF16(cps, FALSE))
\* index (0-based) of the first all-zero unit of cb bytes lying wholly inside avail, scanning at unit steps; -1 if none
RECURSIVE NullAt(_, _, _)
NullAt(avail, cb, i) == IF 8 * cb * (i + 1) > Len(avail) THEN -1
                        ELSE IF IsZero(SubSeq(avail, 8 * cb * i + 1, 8 * cb * (i + 1))) THEN i
                        ELSE NullAt(avail, cb, i + 1)
Min2(a, b) == IF a < b THEN a ELSE b

(************************ the requirement, per reader ***********************)
Res(err, lax, n, want, tag, body) == [err |-> err, lax |-> lax, n |-> n, want |-> want, tag |-> tag, body |-> body]
Fail(tag) == Res(TRUE, FALSE, 0, NoVal, tag, <<>>)
EndTag(le) == IF le THEN "le" ELSE "be"
WTag(w, le) == "w" \o ToString(w) \o EndTag(le)

\* k: reader family; w: width in bits (integers, floats, fixed point) or byte count (text); f: fraction bits / unary "one" bit;
\* le: little endian; avail: all bits from the current position to the end of the buffer.
\*   err  - the read cannot be satisfied: an error and no value is required
\*   lax  - the property does not decide (over-long LEB128 encodings, invalid 80-bit encodings): anything but a crash
\*   n    - bits consumed;  want - the value;  tag - input class (finding signatures);  body - text payload bits
Expect(k, w, f, le, avail) ==
    CASE k \in {"U", "UBigInt"} ->
           IF Len(avail) < w THEN Fail("past_end")
           ELSE Res(FALSE, FALSE, w, UIntV(UE(SubSeq(avail, 1, w), le)), WTag(w, le), <<>>)
      [] k \in {"S", "SBigInt"} ->
           IF Len(avail) < w THEN Fail("past_end")
           ELSE Res(FALSE, FALSE, w, IntV(SE(SubSeq(avail, 1, w), le)), WTag(w, le), <<>>)
      [] k = "FP" ->
           IF Len(avail) < w THEN Fail("past_end")
           ELSE LET q == FP(SubSeq(avail, 1, w), f, le) IN
                Res(FALSE, FALSE, w, FltV(FALSE, <<F64Cands(FALSE, q.num, 0 - q.shift).near>>), WTag(w, le), <<>>)
      [] k = "F" ->
           IF Len(avail) < w THEN Fail("past_end")
           ELSE LET d == Decompose(Ordered(SubSeq(avail, 1, w), le)) IN
                Res(FALSE, d.class = "invalid", w, FloatWant(d, IF w = 80 THEN "either" ELSE "exact"),
                    ToString(w) \o "." \o FloatTag(d), <<>>)
      [] k = "Bool" ->
           IF Len(avail) < 1 THEN Fail("past_end") ELSE Res(FALSE, FALSE, 1, BoolV(avail[1] = 1), "bool", <<>>)
      [] k = "Unary" ->                                   \* f is the bit counted; the first other bit terminates
           LET stop == {i \in 1 .. Len(avail) : avail[i] # f} IN
           IF stop = {} THEN Fail("past_end")
           ELSE LET t == CHOOSE i \in stop : \A j \in stop : i <= j IN
                Res(FALSE, FALSE, t, UIntV(Norm(FromNat(t - 1, 30))), "unary", <<>>)
      [] k = "ULEB128" ->
           LET n == LEBEnd(avail, 1) IN
           IF n = 0 THEN Fail("past_end")
           ELSE LET v == Norm(LEBRaw(avail, n)) IN
                IF Len(v) > 64 THEN Fail("overflow")
                ELSE Res(FALSE, n > 10, 8 * n, UIntV(v), IF Len(v) = 64 THEN "ge_2p63" ELSE "lt_2p63", <<>>)
      [] k = "SLEB128" ->
           LET n == LEBEnd(avail, 1) IN
           IF n = 0 THEN Fail("past_end")
           ELSE LET v == SVal(LEBRaw(avail, n)) IN
                IF ~FitsS64(v) THEN Fail("overflow")
                ELSE Res(FALSE, n > 10, 8 * n, IntV(v), IF n = 10 THEN "len10" ELSE "len_lt10", <<>>)
      [] k \in {"UTF8", "UTF16", "UTF16LE", "UTF16BE"} ->  \* w bytes, all text
           IF Len(avail) < 8 * w THEN Fail("past_end")
           ELSE Res(FALSE, FALSE, 8 * w, NoVal, "fixed", SubSeq(avail, 1, 8 * w))
      [] k \in {"UTF8Null", "UTF16Null", "UTF16LENull", "UTF16BENull"} ->
           LET cb == IF k = "UTF8Null" THEN 1 ELSE 2
               i  == NullAt(avail, cb, 0) IN
           IF i < 0 THEN Fail("no_terminator")
           ELSE Res(FALSE, FALSE, 8 * cb * (i + 1), NoVal, "null", SubSeq(avail, 1, 8 * cb * i))
      [] k = "UTF8ShortString" ->                          \* one length byte, then that many bytes
           IF Len(avail) < 8 THEN Fail("past_end")
           ELSE LET l == ToNat(SubSeq(avail, 1, 8)) IN
                IF Len(avail) < 8 * (1 + l) THEN Fail("past_end")
                ELSE Res(FALSE, FALSE, 8 * (1 + l), NoVal, "short", SubSeq(avail, 9, 8 * (1 + l)))
      [] k = "UTF8ShortStringFixedLen" ->                  \* w bytes in all, the first is the length
           IF w < 1 \/ Len(avail) < 8 * w THEN Fail("past_end")
           ELSE LET l == Min2(ToNat(SubSeq(avail, 1, 8)), w - 1) IN
                Res(FALSE, FALSE, 8 * w, NoVal, "shortfixed", SubSeq(avail, 9, 8 * (1 + l)))
      [] k = "UTF8NullFixedLen" ->                         \* w bytes in all, text ends at the first zero byte if any
           IF Len(avail) < 8 * w THEN Fail("past_end")
           ELSE LET i == NullAt(SubSeq(avail, 1, 8 * w), 1, 0) IN
                Res(FALSE, FALSE, 8 * w, NoVal, "nullfixed", SubSeq(avail, 1, 8 * (IF i < 0 THEN w ELSE i)))

\* Does a real observation satisfy the requirement?
\*   obs = [err, crash, pos (bits advanced), fld, v (value record)]
\*   fld: for the Field forms, whether a field was added: "na" (not a field form), "ok" (added, range = the bits consumed,
\*        value = the value returned), "none", "bad"
\* Returns "" when it does, else the failure class.
ValueOK(k, x, v) ==
    IF k \in TextKinds THEN Decodes(k, x.body, v.cps) /\ UTF8(v.cps) = v.sb     \* v.sb: raw bytes of the returned Go string;
                                                                                  \* checks the harness' []rune conversion too
    ELSE IF k \in {"F", "FP"} THEN Len(v.f64) = 64 /\ FloatOK(x.want, v.f64)
    ELSE IF k = "Bool" THEN v.b = x.want.b
    ELSE v.neg = x.want.neg /\ v.mag = x.want.mag
Judge(k, x, obs) ==
    IF obs.crash THEN "crash"
    ELSE IF x.lax THEN ""
    ELSE IF x.err THEN (IF ~obs.err THEN "value_instead_of_err" ELSE IF obs.fld \in {"ok", "bad"} THEN "field_on_error" ELSE "")
    ELSE IF obs.err THEN "err_instead_of_value"
    ELSE IF obs.pos # x.n THEN "wrong_pos"
    ELSE IF ~ValueOK(k, x, obs.v) THEN "wrong_value"
    ELSE IF obs.fld = "none" THEN "field_missing"
    ELSE IF obs.fld = "bad" THEN "field_wrong"
    ELSE ""
\* finding signature: input class + failure class; a crash is attributed to the call form
Sig(k, x, failure, form) ==
    IF failure = "crash" THEN "form:" \o form \o ".crash." \o (IF x.err \/ x.lax THEN "when_read_fails" ELSE k \o "." \o x.tag)
    ELSE k \o "." \o x.tag \o "." \o failure

(***************************************************************************)
(* AS BUILT.  uint64 / int64 are 64-bit sequences; Go's shifts, masks and  *)
(* wrap-around arithmetic are the fixed-width operators of Bits.tla.       *)
(***************************************************************************)
One64 == Zeros(63) \o <<1>>
ByteMask(i) == Shl(Zeros(56) \o Ones(8), 8 * i)            \* 0xff << 8i
\* Go: `n & mask << k` parses as (n & mask) << k
T(n, i, sh) == IF sh >= 0 THEN Shl(AndB(n, ByteMask(i)), sh) ELSE Shr(AndB(n, ByteMask(i)), 0 - sh)
RECURSIVE OrAll(_)
OrAll(ts) == IF Len(ts) = 1 THEN ts[1] ELSE OrB(ts[1], OrAll(Tail(ts)))
\* bitio.ReverseBytes64(nBits, n): which of the eight cases, and the case bodies literally
RB64Case(nBits) == IF nBits <= 8 THEN 1 ELSE IF nBits <= 16 THEN 2 ELSE IF nBits <= 24 THEN 3 ELSE IF nBits <= 32 THEN 4
                   ELSE IF nBits <= 40 THEN 5 ELSE IF nBits <= 48 THEN 6 ELSE IF nBits <= 56 THEN 7 ELSE 8
RB64(nBits, n) ==
    CASE RB64Case(nBits) = 1 -> n
      [] RB64Case(nBits) = 2 -> OrAll(<<T(n, 1, -8), T(n, 0, 8)>>)
      [] RB64Case(nBits) = 3 -> OrAll(<<T(n, 0, 16), T(n, 1, 0), T(n, 2, -16)>>)
      [] RB64Case(nBits) = 4 -> OrAll(<<T(n, 0, 24), T(n, 1, 8), T(n, 2, -8), T(n, 3, -24)>>)
      [] RB64Case(nBits) = 5 -> OrAll(<<T(n, 0, 32), T(n, 1, 16), T(n, 2, 0), T(n, 3, -16), T(n, 4, -32)>>)
      [] RB64Case(nBits) = 6 -> OrAll(<<T(n, 0, 40), T(n, 1, 24), T(n, 2, 8), T(n, 3, -8), T(n, 4, -24), T(n, 5, -40)>>)
      [] RB64Case(nBits) = 7 -> OrAll(<<T(n, 0, 48), T(n, 1, 32), T(n, 2, 16), T(n, 3, 0), T(n, 4, -16), T(n, 5, -32), T(n, 6, -48)>>)
      [] RB64Case(nBits) = 8 -> OrAll(<<T(n, 0, 56), T(n, 1, 40), T(n, 2, 24), T(n, 3, 8), T(n, 4, -8), T(n, 5, -24), T(n, 6, -40), T(n, 7, -56)>>)
\* tryUEndian: TryUintBits gives the bits right-aligned in a uint64, then the swap for little endian
UAsBuilt(nBits, le, bits) == LET n == PadLeft(bits, 64) IN IF le THEN RB64(nBits, n) ELSE n
\* trySEndian on the uint64 n.  SignOff: 1 in the code (`1<<(nBits-1)`); MaskOff (added to the shift): 0 in the code (`(1 << nBits) - 1`).
\* Both are parameters only so that ScalarMC can show that a slip in either is detected (anti-vacuity).
SAsBuiltP(nBits, n, signOff, maskOff) ==
    IF ~IsZero(AndB(n, Shl(One64, nBits - signOff)))
    THEN LET mask == Dec(Shl(One64, nBits + maskOff))       \* 1<<64 is 0 in uint64; 0 - 1 wraps to all ones
             t    == Inc(AndB(Inv(n), mask))                \* (^n & mask) + 1
         IN SVal(Neg2c(t))                                  \* -int64(t)
    ELSE SVal(n)                                            \* int64(n)
SAsBuilt(nBits, n) == SAsBuiltP(nBits, n, 1, 0)
\* tryBigIntEndianSign: nBits read left-aligned into ceil(nBits/8) bytes, bytes reversed for LE,
\* SetBytes / BigIntSetBytesSigned, then Rsh by (8 - nBits%8) % 8 (arithmetic for negative values)
BigAsBuilt(bits, le, sign) ==
    LET buf == PadRight8(bits)
        b2  == IF le THEN SwapBytes(buf) ELSE buf
        sh  == (8 - (Len(bits) % 8)) % 8
        top == SubSeq(b2, 1, Len(b2) - sh)
    IN IF sign THEN SVal(top) ELSE [neg |-> FALSE, mag |-> Norm(top)]

(************************ boundary pattern families ************************)
SingleOne(w, i) == [j \in 1 .. w |-> IF j = i THEN 1 ELSE 0]
Alt(w, first)   == [j \in 1 .. w |-> (first + j - 1) % 2]
Boundary(w) == {Zeros(w), Ones(w), SingleOne(w, 1), <<0>> \o Ones(w - 1), Alt(w, 0), Alt(w, 1)}
Patterns(w) == Boundary(w) \cup {SingleOne(w, i) : i \in 1 .. w}
TwoOnes(w)  == {[j \in 1 .. w |-> IF j = a \/ j = b THEN 1 ELSE 0] : a \in 1 .. w, b \in 1 .. w}
AllBits(w)  == [1 .. w -> Bit]
=============================================================================
