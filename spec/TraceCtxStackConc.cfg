SPECIFICATION CSpec
POSTCONDITION Consumed
CHECK_DEADLOCK FALSE
