----------------------------- MODULE DecodeTree -----------------------------
(***************************************************************************)
(* C03 / C04 / C05 / C12: the public decode API as a machine that builds a *)
(* decode tree.  A decoder program is a well-bracketed sequence of tokens  *)
(* (one per API call; `end` closes the innermost open body).  Step(M, t)   *)
(* is the effect of one call on the machine state M; Run folds it over a   *)
(* whole program; Finish is what decode() does when the top-level format   *)
(* function returns or aborts.                                             *)
(*                                                                         *)
(* Three switches separate "as built" from "as required" (DESIGN G2):      *)
(*   ZeroQuirk  TRUE  = a zero Options.Range means the whole buffer (D17)  *)
(*   PPOnAbort  FALSE = an aborted *RootBitBufFn root is never             *)
(*                      post-processed (D8)                                *)
(*   Slack      1     = ranges.Gaps merge slack (D3)                       *)
(* The as-required reading is (FALSE, TRUE, 0).                            *)
(*                                                                         *)
(* Semantics validated in the design round against decode.Decode on 60 000 *)
(* random programs (DESIGN C03 rules 1-7).                                 *)
(***************************************************************************)
EXTENDS Integers, Sequences, FiniteSets, TLC

CONSTANTS ZeroQuirk, PPOnAbort, Slack

G == INSTANCE Gaps WITH L <- 0, MaxN <- 0, Slack <- Slack

NoNode == 0
Compound(k) == k \in {"struct", "array"}

\* a tree node; ranges are in the coordinates of the node's buffer
Node(name, kind, par, start, len, root, buf) ==
    [name |-> name, kind |-> kind, par |-> par, start |-> start, len |-> len,
     root |-> root, err |-> FALSE, kids |-> <<>>, buf |-> buf, idx |-> 0, plink |-> TRUE]

\* a frame: one open body.  k \in {"top","struct","array","framed","limited","seekfn","fmt","rootfn"}
Frame(k, node, pos, limit, buf) ==
    [k |-> k, node |-> node, pos |-> pos, limit |-> limit, buf |-> buf,
     a |-> 0, b |-> 0, mode |-> "", name |-> "", orraw |-> FALSE, fill |-> FALSE, isroot |-> FALSE]

\* a token.  k \in leaf synth struct array framed limited seek seekfn fmtrest fmtlen fmtrange bitbuf
\*                rootstruct rootarray fail errorf end
Tok(k, name, n, p, orraw) == [k |-> k, name |-> name, n |-> n, p |-> p, orraw |-> orraw]
IsBegin(t) == t.k \in {"struct", "array", "framed", "limited", "seekfn", "fmtrest", "fmtlen", "fmtrange",
                       "bitbuf", "rootstruct", "rootarray"}

InitM(len, force) ==
    [nodes  |-> <<Node("", "struct", NoNode, 0, 0, TRUE, 1)>>,
     stack  |-> <<Frame("top", 1, 0, len, 1)>>,
     bufs   |-> <<len>>,            \* bit length of every buffer; 1 is the input
     status |-> "run",              \* run | failed | done
     skip   |-> 0,                  \* number of `end` tokens still to be skipped after an abort
     force  |-> force,
     d8     |-> FALSE,              \* an aborted *RootBitBufFn root exists (D8 shape)
     d17    |-> FALSE]              \* a zero range at offset 0 was given to a sub-decode (D17 shape)

Top(M) == M.stack[Len(M.stack)]
Pop(M) == [M EXCEPT !.stack = SubSeq(M.stack, 1, Len(M.stack) - 1)]
SetPos(M, p) == [M EXCEPT !.stack[Len(M.stack)].pos = p]

DupName(nodes, par, name) ==
    nodes[par].kind = "struct" /\ \E i \in DOMAIN nodes[par].kids : nodes[nodes[par].kids[i]].name = name
AddKid(nodes, par, id) == [nodes EXCEPT ![par].kids = Append(@, id)]

(************************* tree walks (one root) ***************************)
RECURSIVE Pre(_, _, _), PreKids(_, _, _)
\* pre-order ids below id without entering nested roots (WalkRootPreOrder)
Pre(nodes, id, top) == IF ~top /\ nodes[id].root THEN <<>> ELSE <<id>> \o PreKids(nodes, nodes[id].kids, 1)
PreKids(nodes, kids, i) == IF i > Len(kids) THEN <<>> ELSE Pre(nodes, kids[i], FALSE) \o PreKids(nodes, kids, i + 1)
SeqToSet(s) == {s[i] : i \in DOMAIN s}
SubIds(nodes, id) == SeqToSet(Pre(nodes, id, TRUE))

MaxOf(S) == CHOOSE x \in S : \A y \in S : y <= x
MinOf(S) == CHOOSE x \in S : \A y \in S : x <= y

RECURSIVE FilterSeq(_, _, _)
FilterSeq(s, i, nodes) ==
    IF i > Len(s) THEN <<>>
    ELSE IF Compound(nodes[s[i]].kind) THEN FilterSeq(s, i + 1, nodes)
    ELSE <<s[i]>> \o FilterSeq(s, i + 1, nodes)

(*************************** gap filling ***********************************)
RECURSIVE AppendGaps(_, _, _, _, _)
AppendGaps(nodes, R, gs, i, buf) ==
    IF i > Len(gs) THEN nodes
    ELSE LET id == Len(nodes) + 1
             nd == Node("gap" \o ToString(i - 1), "gap", R, gs[i].s, gs[i].l, FALSE, buf)
         IN AppendGaps(AddKid(Append(nodes, nd), R, id), R, gs, i + 1, buf)

FillGaps(nodes, R, len) ==
    LET leaves == FilterSeq(Pre(nodes, R, TRUE), 1, nodes)
        rs == [i \in DOMAIN leaves |-> [s |-> nodes[leaves[i]].start, l |-> nodes[leaves[i]].len]]
    IN AppendGaps(nodes, R, G!GapsAsBuilt(len, rs), 1, nodes[R].buf)

(*************************** postProcess ***********************************)
RECURSIVE InsByStart(_, _, _)
InsByStart(nodes, s, id) ==
    IF Len(s) = 0 THEN <<id>>
    ELSE IF nodes[s[Len(s)]].start <= nodes[id].start THEN Append(s, id)
    ELSE Append(InsByStart(nodes, SubSeq(s, 1, Len(s) - 1), id), s[Len(s)])
RECURSIVE StableByStart(_, _)
StableByStart(nodes, s) ==
    IF Len(s) = 0 THEN <<>> ELSE InsByStart(nodes, StableByStart(nodes, SubSeq(s, 1, Len(s) - 1)), s[Len(s)])

PosIn(s, x) == CHOOSE i \in DOMAIN s : s[i] = x

RECURSIVE PP(_, _, _), PPKids(_, _, _)
PP(nodes, id, top) ==
    IF ~top /\ nodes[id].root THEN nodes
    ELSE LET n1 == PPKids(nodes, nodes[id].kids, 1) IN
         IF ~Compound(n1[id].kind) THEN n1
         ELSE LET kids == n1[id].kids
                  cnt  == {i \in DOMAIN kids : ~n1[kids[i]].root /\ n1[kids[i]].kind # "synth"}
                  lo   == IF cnt = {} THEN n1[id].start ELSE MinOf({n1[kids[i]].start : i \in cnt})
                  hi   == IF cnt = {} THEN n1[id].start + n1[id].len
                          ELSE MaxOf({n1[kids[i]].start + n1[kids[i]].len : i \in cnt})
                  srt  == IF n1[id].kind = "struct" THEN StableByStart(n1, kids) ELSE kids
                  n2   == [n1 EXCEPT ![id].start = lo, ![id].len = hi - lo, ![id].kids = srt, ![id].idx = -1]
              IN [j \in DOMAIN n2 |->
                    IF j \in SeqToSet(srt)
                    THEN [n2[j] EXCEPT !.idx = IF n2[id].kind = "array" THEN PosIn(srt, j) - 1 ELSE -1]
                    ELSE n2[j]]
PPKids(nodes, kids, i) == IF i > Len(kids) THEN nodes ELSE PPKids(PP(nodes, kids[i], FALSE), kids, i + 1)

(********************** what decode() does at the end **********************)
\* R: root value of this decode, len: its window length, base: window start in the parent,
\* fill: gap filling requested, isroot: Options.IsRoot
FinishDecode(nodes, R, len, base, fill, isroot) ==
    LET n1  == IF fill THEN FillGaps(nodes, R, len) ELSE nodes
        sub == SubIds(n1, R)
        ms  == MaxOf({0} \cup {n1[i].start + n1[i].len : i \in sub})
        n2  == [i \in DOMAIN n1 |-> IF i \in sub THEN [n1[i] EXCEPT !.start = @ + base] ELSE n1[i]]
        n3  == [n2 EXCEPT ![R].start = base, ![R].len = ms]
    IN IF isroot THEN PP(n3, R, TRUE) ELSE n3

(******************************* aborts ************************************)
RECURSIVE Abort(_, _), RawLeaf(_, _, _, _)

\* FieldRawLen(name, n) in the current frame; sk = `end` tokens to skip if this aborts
RawLeaf(M, name, n, sk) ==
    LET f == Top(M) IN
    IF n < 0 \/ f.pos + n > f.limit \/ DupName(M.nodes, f.node, name) THEN Abort(M, sk)
    ELSE LET id == Len(M.nodes) + 1 IN
         [M EXCEPT !.nodes = AddKid(Append(M.nodes, Node(name, "leaf", f.node, f.pos, n, FALSE, f.buf)), f.node, id),
                   !.stack[Len(M.stack)].pos = f.pos + n]

\* a panic in the current frame: unwind to the innermost recover point (the enclosing decode())
Abort(M, sk) ==
    LET f == Top(M) IN
    IF f.k = "top" THEN [M EXCEPT !.status = "failed", !.nodes[1].err = TRUE, !.skip = 0]
    ELSE IF f.k = "fmt" THEN
         \* the sub-decode is discarded; the caller either falls back to a raw field or panics itself
         LET M1 == [Pop(M) EXCEPT !.skip = sk + 1]
             p  == Top(M1)
         IN IF f.orraw
            THEN RawLeaf(M1, f.name, IF f.mode = "rest" THEN p.limit - p.pos ELSE f.a, sk + 1)
            ELSE Abort(M1, sk + 1)
    ELSE LET M1 == IF f.k = "rootfn" THEN [Pop(M) EXCEPT !.d8 = TRUE] ELSE Pop(M)
             M2 == IF f.k = "rootfn" /\ PPOnAbort THEN [M1 EXCEPT !.nodes = PP(M1.nodes, f.node, TRUE)] ELSE M1
         IN Abort(M2, sk + 1)

(******************************** calls ************************************)
\* begin a sub-format decode of window [start, start+len) of the current reader
BeginFmt(M, t, mode, start, len0, fill) ==
    LET f    == Top(M)
        zero == start = 0 /\ len0 = 0 /\ f.limit > 0
        len  == IF ZeroQuirk /\ zero THEN f.limit ELSE len0
        M0   == IF zero /\ mode # "rest" THEN [M EXCEPT !.d17 = TRUE] ELSE M
        bad  == len < 0 \/ start + len > f.limit
        rid  == Len(M.nodes) + 1
        fr   == [Frame("fmt", rid, 0, len, f.buf) EXCEPT !.a = len0, !.b = start, !.mode = mode,
                                                         !.name = t.name, !.orraw = t.orraw, !.fill = fill]
    IN IF bad
       THEN \* decode() returns nil: same as a failed sub-decode, seen from the caller
            IF t.orraw THEN RawLeaf([M0 EXCEPT !.skip = 1], t.name, IF mode = "rest" THEN f.limit - f.pos ELSE len0, 1)
            ELSE Abort(M0, 1)
       ELSE [M0 EXCEPT !.nodes = Append(M0.nodes, Node(t.name, "struct", NoNode, 0, 0, FALSE, f.buf)),
                       !.stack = Append(M0.stack, fr)]

EndFrame(M) ==
    LET f == Top(M)
        M1 == Pop(M)
        p  == Top(M1)
    IN CASE f.k \in {"struct", "array"} -> SetPos(M1, f.pos)
         [] f.k = "framed"  -> SetPos(M1, f.b + f.a)
         [] f.k = "limited" -> SetPos(M1, f.pos)
         [] f.k = "seekfn"  -> SetPos(M1, f.b)
         [] f.k = "rootfn"  -> [M1 EXCEPT !.nodes = PP(M1.nodes, f.node, TRUE)]
         [] f.k = "fmt" ->
              LET n1 == FinishDecode(M1.nodes, f.node, f.limit, f.b, f.fill, f.isroot)
                  n2 == IF f.mode = "bitbuf" THEN [n1 EXCEPT ![f.node].start = p.pos] ELSE n1
                  rl == n1[f.node].len
              IN IF DupName(n2, p.node, f.name) THEN Abort([M1 EXCEPT !.nodes = n2], 0)
                 ELSE LET n3 == AddKid([n2 EXCEPT ![f.node].par = p.node], p.node, f.node)
                          np == CASE f.mode = "rest" -> p.pos + rl
                                  [] f.mode = "len"  -> p.pos + f.a
                                  [] OTHER -> p.pos
                      IN SetPos([M1 EXCEPT !.nodes = n3], np)
         [] OTHER -> M1

Exec(M, t) ==
    LET f == Top(M) IN
    CASE t.k = "leaf"  -> RawLeaf(M, t.name, t.n, 0)
      [] t.k = "synth" ->
           IF DupName(M.nodes, f.node, t.name) THEN Abort(M, 0)
           ELSE LET id == Len(M.nodes) + 1 IN
                [M EXCEPT !.nodes = AddKid(Append(M.nodes, Node(t.name, "synth", f.node, f.pos, 0, FALSE, f.buf)), f.node, id)]
      [] t.k \in {"struct", "array"} ->
           IF DupName(M.nodes, f.node, t.name) THEN Abort(M, 1)
           ELSE LET id == Len(M.nodes) + 1 IN
                [M EXCEPT !.nodes = AddKid(Append(M.nodes, Node(t.name, t.k, f.node, f.pos, 0, FALSE, f.buf)), f.node, id),
                          !.stack = Append(M.stack, Frame(t.k, id, f.pos, f.limit, f.buf))]
      [] t.k \in {"framed", "limited"} ->
           IF t.n < 0 \/ f.pos + t.n > f.limit THEN Abort(M, 1)
           ELSE [M EXCEPT !.stack = Append(M.stack, [Frame(t.k, f.node, f.pos, f.pos + t.n, f.buf) EXCEPT !.a = t.n, !.b = f.pos])]
      [] t.k = "seek"   -> IF t.p < 0 THEN Abort(M, 0) ELSE SetPos(M, t.p)
      [] t.k = "seekfn" ->
           IF t.p < 0 THEN Abort(M, 1)
           ELSE [M EXCEPT !.stack = Append(M.stack, [Frame("seekfn", f.node, t.p, f.limit, f.buf) EXCEPT !.b = f.pos])]
      [] t.k = "fmtrest"  -> BeginFmt(M, t, "rest", f.pos, f.limit - f.pos, FALSE)
      [] t.k = "fmtlen"   -> BeginFmt(M, t, "len", f.pos, t.n, TRUE)
      [] t.k = "fmtrange" -> BeginFmt(M, t, "range", t.p, t.n, TRUE)
      [] t.k = "bitbuf" ->
           \* FieldFormatBitBuf: a new buffer of t.n bits decoded as a root, with gap filling
           LET nb  == Len(M.bufs) + 1
               rid == Len(M.nodes) + 1
               fr  == [Frame("fmt", rid, 0, t.n, nb) EXCEPT !.a = t.n, !.b = 0, !.mode = "bitbuf", !.name = t.name,
                                                            !.fill = TRUE, !.isroot = TRUE]
           IN [M EXCEPT !.bufs = Append(M.bufs, t.n),
                        !.nodes = Append(M.nodes, Node(t.name, "struct", NoNode, 0, 0, TRUE, nb)),
                        !.stack = Append(M.stack, fr)]
      [] t.k \in {"rootstruct", "rootarray"} ->
           \* Field{Struct,Array}RootBitBufFn: attached at once, own buffer, no gap filling
           IF DupName(M.nodes, f.node, t.name) THEN Abort(M, 1)
           ELSE LET nb == Len(M.bufs) + 1
                    id == Len(M.nodes) + 1
                    kd == IF t.k = "rootstruct" THEN "struct" ELSE "array"
                IN [M EXCEPT !.bufs = Append(M.bufs, t.n),
                             !.nodes = AddKid(Append(M.nodes, Node(t.name, kd, f.node, f.pos, 0, TRUE, nb)), f.node, id),
                             !.stack = Append(M.stack, Frame("rootfn", id, 0, t.n, nb))]
      [] t.k = "fail"   -> Abort(M, 0)
      [] t.k = "errorf" -> IF M.force THEN M ELSE Abort(M, 0)
      [] t.k = "end"    -> IF Len(M.stack) = 1 THEN M ELSE EndFrame(M)
      [] OTHER -> M

\* one token of the program text
Step(M, t) ==
    IF M.status # "run" THEN M
    ELSE IF M.skip > 0 THEN
         IF IsBegin(t) THEN [M EXCEPT !.skip = @ + 1]
         ELSE IF t.k = "end" THEN [M EXCEPT !.skip = @ - 1] ELSE M
    ELSE Exec(M, t)

\* decode() after the top-level format function returned or aborted
Finish(M) ==
    [M EXCEPT !.nodes = FinishDecode(M.nodes, 1, M.bufs[1], 0, TRUE, TRUE), !.status = "done"]

RECURSIVE RunFrom(_, _, _)
RunFrom(M, prog, i) == IF i > Len(prog) THEN M ELSE RunFrom(Step(M, prog[i]), prog, i + 1)
Run(len, force, prog) == Finish(RunFrom(InitM(len, force), prog, 1))

(***************************************************************************)
(* As required (C03).  T is a node table whose node 1 is the root; blen(id) *)
(* is the bit length of the buffer a root node owns.                        *)
(***************************************************************************)
RECURSIVE AllIds(_, _)
AllIds(T, id) == {id} \cup UNION {AllIds(T, T[id].kids[i]) : i \in DOMAIN T[id].kids}

\* the root whose buffer node id lies in
RECURSIVE RootOf(_, _)
RootOf(T, id) == IF T[id].root \/ T[id].par = NoNode THEN id ELSE RootOf(T, T[id].par)
\* the buffer a node's range is measured in: a root's own range is measured in its parent's buffer
\* except for its length; its inner range [0,len) is in its own buffer
InnerStart(T, id) == IF T[id].root THEN 0 ELSE T[id].start

\* "lies inside the buffer" / "spans" are read on the SET of bits of a range: an empty range (synthetic values,
\* empty compounds left where the cursor stood, possibly after a seek past the end) holds no bit and is inside anything.
InBufOK(T, blen, id) ==
    /\ T[id].len >= 0
    /\ T[id].start >= 0
    /\ T[id].len > 0 =>
         IF T[id].root THEN T[id].len <= blen[id]
         ELSE T[id].start + T[id].len <= blen[RootOf(T, id)]

\* "spans" is read on the interval for every child that is a decoded value of the same buffer, empty ones included (an empty
\* struct, array or zero-length field created at a position outside its siblings still belongs to its parent's range);
\* synthetic values have no position of their own and are not counted (value.go postProcess does the same).
\* A nested root's Range.Start is "position in the parent" for format roots and "first child in its own buffer" for
\* *RootBitBufFn roots (two conventions in the code); the property does not choose, so either reading may span.
SpansFrom(T, id, s0) ==
      \A i \in DOMAIN T[id].kids :
         LET c == T[id].kids[i] IN
         (~T[c].root /\ T[c].kind # "synth") => (s0 <= T[c].start /\ T[c].start + T[c].len <= s0 + T[id].len)
SpansOK(T, id) ==
    Compound(T[id].kind) =>
      IF T[id].root THEN SpansFrom(T, id, 0) \/ SpansFrom(T, id, T[id].start) ELSE SpansFrom(T, id, T[id].start)

NamesOK(T, id) ==
    T[id].kind = "struct" =>
      \A i, j \in DOMAIN T[id].kids : i # j => T[T[id].kids[i]].name # T[T[id].kids[j]].name
SortedOK(T, id) ==
    T[id].kind = "struct" =>
      \A i \in 1 .. (Len(T[id].kids) - 1) : T[T[id].kids[i]].start <= T[T[id].kids[i + 1]].start
IndexOK(T, id) ==
    T[id].kind = "array" => \A i \in DOMAIN T[id].kids : T[T[id].kids[i]].idx = i - 1
LinksOK(T, id) ==
    /\ \A i \in DOMAIN T[id].kids : T[T[id].kids[i]].par = id /\ T[T[id].kids[i]].plink
    /\ (~Compound(T[id].kind) => T[id].kids = <<>>)

NodeOK(T, blen, id) == InBufOK(T, blen, id) /\ SpansOK(T, id) /\ NamesOK(T, id) /\ SortedOK(T, id) /\ IndexOK(T, id) /\ LinksOK(T, id)
WellFormed(T, blen) == \A id \in AllIds(T, 1) : NodeOK(T, blen, id)

\* A compound or decode root whose own range leaves the buffer although every non-empty value below it (same buffer)
\* is inside: its range was stretched by an EMPTY value standing past the end (seek past the end, then an empty
\* struct / synthetic value) -- decode() takes the maximum stop over all values, empty ones included.
StretchedByEmpty(T, blen, id) ==
    /\ Compound(T[id].kind) /\ ~InBufOK(T, blen, id)
    /\ \A x \in SubIds(T, id) \ {id} : ~Compound(T[x].kind) => InBufOK(T, blen, x)
    /\ \E x \in SubIds(T, id) \ {id} : T[x].len = 0 /\ T[x].start >= T[id].start + T[id].len - (IF T[id].root THEN T[id].start ELSE 0)

\* first failing clause, for finding signatures
Why(T, blen) ==
    LET bad == {id \in AllIds(T, 1) : ~NodeOK(T, blen, id)} IN
    IF bad = {} THEN "ok"
    ELSE IF \A id \in bad : StretchedByEmpty(T, blen, id) /\ SpansOK(T, id) /\ NamesOK(T, id) /\ SortedOK(T, id) /\ IndexOK(T, id) /\ LinksOK(T, id)
         THEN "tree.range_stretched_by_empty_value_past_end"
    ELSE LET id == MinOf({x \in bad : ~(StretchedByEmpty(T, blen, x) /\ SpansOK(T, x) /\ NamesOK(T, x) /\ SortedOK(T, x) /\ IndexOK(T, x) /\ LinksOK(T, x))}) IN
         IF ~InBufOK(T, blen, id) THEN "tree.range_outside_buffer"
         ELSE IF ~SpansOK(T, id) THEN "tree.compound_does_not_span_children"
         ELSE IF ~NamesOK(T, id) THEN "tree.duplicate_field_name"
         ELSE IF ~SortedOK(T, id) THEN "tree.struct_not_sorted"
         ELSE IF ~IndexOK(T, id) THEN "tree.array_index"
         ELSE "tree.parent_link"

BlenOfM(M) == [id \in DOMAIN M.nodes |-> M.bufs[M.nodes[id].buf]]

(***************************************************************************)
(* As required (C04) on a tree: coverage per gap-filled buffer root,        *)
(* disjointness per gap-filling scope (DESIGN C04).                         *)
(***************************************************************************)
NodeBits(T, id) == T[id].start .. (T[id].start + T[id].len - 1)
\* nodes measured in root r's buffer: below r without entering nested roots, r excluded
InBufferOf(T, r) == SubIds(T, r) \ {r}
\* a root that is itself a scalar (a format that decodes the whole buffer into one value) covers what its own inner range covers
CoveredRoot(T, blen, r) ==
    IF ~Compound(T[r].kind) THEN T[r].len >= blen[r]
    ELSE \A b \in 0 .. (blen[r] - 1) :
           \E id \in InBufferOf(T, r) : ~Compound(T[id].kind) /\ b \in NodeBits(T, id)
GapDisjoint(T, g) ==
    LET D == T[g].par IN
    \A x \in SubIds(T, D) \ {D, g} :
       (~Compound(T[x].kind) /\ T[x].kind # "gap") => NodeBits(T, g) \cap NodeBits(T, x) = {}
\* filled(id): the root was decoded with gap filling
GapsOK(T, blen, filled) ==
    /\ \A r \in AllIds(T, 1) : (T[r].root /\ filled[r]) => CoveredRoot(T, blen, r)
    /\ \A g \in AllIds(T, 1) : T[g].kind = "gap" => GapDisjoint(T, g)
UncoveredBits(T, blen, r) ==
    IF ~Compound(T[r].kind) THEN T[r].len .. (blen[r] - 1)
    ELSE {b \in 0 .. (blen[r] - 1) : ~\E id \in InBufferOf(T, r) : ~Compound(T[id].kind) /\ b \in NodeBits(T, id)}

(***************************************************************************)
(* "The ranges are exactly the bits each field read": the non-gap leaves of *)
(* a tree as a bag of <<names from the root, buffer depth, start, len>>.    *)
(***************************************************************************)
RECURSIVE NamePath(_, _)
NamePath(T, id) == IF T[id].par = NoNode THEN <<>> ELSE Append(NamePath(T, T[id].par), T[id].name)
RECURSIVE RootDepth(_, _)
RootDepth(T, id) == IF T[id].par = NoNode THEN 0 ELSE RootDepth(T, T[id].par) + (IF T[id].root THEN 1 ELSE 0)
LeafIds(T) == {id \in AllIds(T, 1) : T[id].kind \in {"leaf", "synth"}}
LeafKey(T, id) == <<NamePath(T, id), RootDepth(T, id), T[id].kind, T[id].start, T[id].len>>
LeafBag(T) == [k \in {LeafKey(T, id) : id \in LeafIds(T)} |-> Cardinality({id \in LeafIds(T) : LeafKey(T, id) = k})]
=============================================================================
