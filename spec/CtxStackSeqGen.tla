-------------------------- MODULE CtxStackSeqGen --------------------------
(* GEN mode: every operation sequence inside the constants, with the cancelled-vector expected after  *)
(* every operation by the as-required layer (req) and by the transcription of today's code (built).   *)
(* One behaviour per sequence (the state is the history), only maximal sequences are printed: the     *)
(* harness checks after every operation, so every prefix is covered.                                  *)
EXTENDS CtxStackSeq, TLC, Json
CONSTANTS MaxPush,    \* contexts pushed per sequence (ids 1..MaxPush, also the max nesting depth)
          MaxLen,     \* operations per sequence
          Parents     \* "top": parent is Background or the innermost running context; "bg": Background only

VARIABLES h, m, b, rs, bs
gvars == <<h, m, b, rs, bs>>

PushOps == IF m.stopped \/ m.n >= MaxPush THEN {}
           ELSE {Op("push", 0)} \cup
                (IF Parents = "top" /\ Len(m.stk) > 0 THEN {Op("push", m.stk[Len(m.stk)])} ELSE {})
FinOps  == {Op("fin", k) : k \in 1 .. m.n}
Ops == PushOps \cup FinOps \cup {Op("intr", 0)} \cup (IF m.stopped THEN {} ELSE {Op("stop", 0)})

GInit == h = <<>> /\ m = RInit /\ b = BInit /\ rs = <<>> /\ bs = <<>>
GNext == /\ Len(h) < MaxLen
         /\ \E o \in Ops :
              /\ h' = Append(h, o)
              /\ m' = RApply(m, o)
              /\ b' = BApply(b, o)
              /\ rs' = Append(rs, RVec(RApply(m, o)))
              /\ bs' = Append(bs, BVec(BApply(b, o)))
GSpec == GInit /\ [][GNext]_gvars

Emit == IF Len(h) = MaxLen
        THEN PrintT(ToJson([ops |-> h, req |-> rs, built |-> bs, late |-> m.late]))
        ELSE TRUE
=============================================================================
