------------------------------ MODULE PathExpr ------------------------------
(***************************************************************************)
(* C12, second clause: converting any jq path to an expression string and   *)
(* back is the identity.  Path elements are tagged records (TLC cannot      *)
(* compare an integer with a string): [k |-> "s", s |-> "a", i |-> 0] or    *)
(* [k |-> "i", s |-> "", i |-> 3].  The strings come from a pool with one    *)
(* member per escaping class (identifier, keyword, empty, leading digit,    *)
(* space, dot, bracket, quote, backslash, control, non-ASCII, astral).       *)
(***************************************************************************)
EXTENDS Integers, Sequences, TLC, Json
CONSTANTS MaxLen
StrPool == {"a", "_b1", "and", "true", "", "1a", "a b", "a.b", "[0]", "a\"b", "a\\b", "\n", "\t", "$x", "__loc__", ".", "a-b", "if", "null", "A0", "#"}
IntPool == {0, 1, 0 - 1, 7, 0 - 12, 2147483647}
S(x) == [k |-> "s", s |-> x, i |-> 0]
I(x) == [k |-> "i", s |-> "", i |-> x]
Elems == {S(x) : x \in StrPool} \cup {I(x) : x \in IntPool}
Paths == UNION {[1 .. n -> Elems] : n \in 0 .. MaxLen}
\* the law
RoundTrips(p, back) == back = p
VARIABLE g
GInit == g \in Paths
GNext == FALSE /\ g' = g
GSpec == GInit /\ [][GNext]_g
Emit == PrintT(ToJson([p |-> g]))
=============================================================================
