---------------------------- MODULE TraceBinary ----------------------------
(* TV mode for C09: every event is one operation applied by real fq to a real *)
(* operand:  {o: [op,a,b,ha,hb], in: value, out: value}  with values in the   *)
(* shape of Binary.tla (numbers as sign + bit sequence).  Events are           *)
(* independent, so a rejected event is reported and skipped.                   *)
EXTENDS Binary, Json
Trace == ndJsonDeserialize("trace.ndjson")
VARIABLE l

\* "dv": ground truth for decode values - the decode value with jq-visible range [_start, _stop) of the file
\* `in.bits` is, as a binary, exactly those bits, byte unit, start = _start
Model(e)  == IF e.o.op = "dv" THEN VBin(Sub(e.in.bits, e.o.a, e.o.b - e.o.a), 8, e.o.a) ELSE Apply(e.o, e.in)
\* "skip": the property is silent about this application (e.g. a negative number outside an array)
Accept(e) == LET m == Model(e) IN m.t = "skip" \/ (m.t = e.out.t /\ m = e.out)
Sig(e)    == "binary." \o e.o.op \o "." \o e.in.t \o (IF e.in.t = "bin" THEN ToString(e.in.unit) ELSE "")
TInit == l = 1
TNext == /\ l <= Len(Trace)
         /\ LET e == Trace[l] IN
              /\ IF Accept(e) THEN TRUE ELSE PrintT(<<"REJECT", l, Sig(e)>>)
              /\ IF Model(e).t = "skip" THEN PrintT(<<"DRIFT", l>>) ELSE TRUE
         /\ l' = l + 1
TSpec == TInit /\ [][TNext]_l
Consumed == TLCGet("stats").diameter - 1 = Len(Trace)
=============================================================================
