\* quick constants; thorough: MaxPush = 4, MaxDepth = 4, MaxIntr = 3 (checks/c20.py generates the cfg text it runs)
SPECIFICATION Spec
CONSTANTS Locked = FALSE
 EntryFlag = FALSE
 AtomicIndex = TRUE
 MaxPush = 3
 MaxDepth = 3
 MaxIntr = 2
 MaxCalls = 2
\* expected: NoCrash and NoRace are VIOLATED (defect D7); StopAll FinishedCancelled Termination hold
INVARIANT NoCrash NoRace
