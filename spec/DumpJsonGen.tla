----------------------------- MODULE DumpJsonGen -----------------------------
(* GEN for the JSON half of C10: the value universe, emitted in the tagged form JsonEq compares   *)
(* (Dump.tla, last section). Numbers are texts: TLC never computes with them, so integers of any   *)
(* magnitude are exact here by construction.                                                        *)
EXTENDS Dump, Json
CONSTANTS Depth
VARIABLE v
T(t, s, cp, e, k) == [t |-> t, s |-> s, cp |-> cp, e |-> e, k |-> k]
Null == T("null", "", <<>>, <<>>, <<>>)
Bool(b) == T("bool", b, <<>>, <<>>, <<>>)
Num(s) == T("num", s, <<>>, <<>>, <<>>)
Str(cp) == T("str", "", cp, <<>>, <<>>)
Arr(e) == T("arr", "", <<>>, e, <<>>)
Obj(k, e) == T("obj", "", <<>>, e, k)
NumTexts == {"0", "-1", "1", "255", "2147483648", "9007199254740993",
             "9223372036854775807", "-9223372036854775808", "9223372036854775808",          \* 63 / 64 bits
             "18446744073709551615", "18446744073709551616", "-18446744073709551617",        \* 64 / 65 bits
             "340282366920938463463374607431768211455",                                      \* 128 bits
             "2037035976334486086268445688409378161051468393665936250636140449354381299763336706183397376",   \* 2^300
             "0.5", "-1.25e-07", "1e+100", "3.141592653589793"}
Strs == {<<>>, <<97>>, <<34, 92, 47>>, <<0, 10, 127>>, <<233, 128512>>, <<8232, 9>>}
Keys == {<<97>>, <<34>>, <<>>}
Atoms == {Null, Bool("true"), Bool("false")} \cup {Num(s) : s \in NumTexts} \cup {Str(cp) : cp \in Strs}
Few == {Null, Bool("true"), Num("-1"), Num("18446744073709551616"), Num("0.5"), Str(<<34, 92, 47>>)}
Containers(S, R) ==                       \* arrays of up to two, objects of up to two members
    {Arr(<<>>), Obj(<<>>, <<>>)} \cup {Arr(<<x>>) : x \in S} \cup {Arr(<<x, y>>) : x \in S, y \in R}
    \cup {Obj(<<k>>, <<x>>) : k \in Keys, x \in S} \cup {Obj(<<<<>>, <<97>>>>, <<x, y>>) : x \in S, y \in R}
Level1 == Atoms \cup Containers(Atoms, Few)
Level2 == Level1 \cup Containers(Containers(Atoms, Few), Few)
Init == v \in (IF Depth >= 2 THEN Level2 ELSE Level1)
Next == FALSE /\ v' = v
Spec == Init /\ [][Next]_v
Emit == PrintT(ToJson(v))
=============================================================================
