------------------------------ MODULE TraceDump ------------------------------
(* TV for C10: every event is one dump of one value as real fq printed it (kind "dump") or one JSON *)
(* output (kind "json"). Events are independent: a rejected one is reported with its signature and  *)
(* the trace goes on. DRIFT: the real dump satisfies nothing less, but differs from the as-built     *)
(* transcription (Dump!Built) -- evidence only.                                                      *)
EXTENDS Dump, Json
Trace == ndJsonDeserialize("trace.ndjson")
VARIABLE l
Accept(e) == IF e.kind = "json" THEN JsonOK(e) ELSE AsRequired(e)
SigOf(e)  == IF e.kind = "json" THEN JsonSig(e) ELSE Sig(e)
SameAsBuilt(e) == LET b == Built(e, e.W, FALSE) IN
                  /\ b.rows = e.rows /\ b.trunc = e.trunc /\ b.ufull = e.ufull
                  /\ (e.ufull => b.uaddr = e.uaddr /\ b.usize = e.usize /\ b.uend = e.uend)
                  /\ (e.hasv => b.vr = e.vr /\ b.vs = e.vs)
Drift(e) == e.kind = "dump" /\ e.perr = "" /\ ~SameAsBuilt(e)
TInit == l = 1
TNext == /\ l <= Len(Trace)
         /\ LET e == Trace[l] IN
              /\ IF Accept(e) THEN TRUE ELSE PrintT(<<"REJECT", l, SigOf(e)>>)
              /\ IF Drift(e) THEN PrintT(<<"DRIFT", l>>) ELSE TRUE
         /\ l' = l + 1
TSpec == TInit /\ [][TNext]_l
Consumed == TLCGet("stats").diameter - 1 = Len(Trace)
=============================================================================
