---------------------------- MODULE CtxStackSeq ----------------------------
(***************************************************************************)
(* C20, sequential half: push / finish / interrupt / stop against a stack  *)
(* model.  Variable-free operator module (used by CtxStackSeqGen,          *)
(* TraceCtxStack and TraceCtxStackConc).                                   *)
(*                                                                         *)
(* Contexts are numbered 1, 2, ... in push order.  An operation is a       *)
(* record [op, a]:                                                         *)
(*   push  a = id of the parent context (0 = context.Background())         *)
(*   fin   a = id of the context whose pop/cancel closure is called        *)
(*             (any context ever pushed: out of order, twice, late)        *)
(*   intr  a = 0   the trigger function returns once (stopCh not closed)   *)
(*   stop  a = 0   Stack.Stop()                                            *)
(*                                                                         *)
(* As-required layer (R...): exactly the property statement.               *)
(*   - an evaluation is in progress from its push until it is finished;    *)
(*     finishing an evaluation ends everything nested inside it (that is   *)
(*     what "stack" means), and a finish of an evaluation that is no       *)
(*     longer in progress changes nothing;                                 *)
(*   - an interrupt cancels the innermost evaluation in progress and       *)
(*     nothing else;  a finished evaluation's context is cancelled;        *)
(*   - stop cancels every context.                                         *)
(*   - a context whose parent context is cancelled is cancelled (package   *)
(*     context semantics; this is what the harness observes via Err()).    *)
(* As-built layer (B...): transcription of internal/ctxstack/ctxstack.go   *)
(* as it is in the pinned tree: entries are addressed by the index they    *)
(* were pushed at, truncation is a re-slice of the backing array.          *)
(***************************************************************************)
EXTENDS Integers, Sequences, FiniteSets

Op(o, a) == [op |-> o, a |-> a]

RECURSIVE IsCanc(_, _, _)
\* dc: directly cancelled ids, par: parent function, k: id
IsCanc(dc, par, k) == k \in dc \/ (par[k] # 0 /\ IsCanc(dc, par, par[k]))
CancVec(dc, par, n) == [k \in 1 .. n |-> IF IsCanc(dc, par, k) THEN 1 ELSE 0]

Range(s) == {s[i] : i \in DOMAIN s}
PosOf(s, x) == CHOOSE i \in DOMAIN s : s[i] = x

(****************************** as required ******************************)
\* stk: evaluations in progress, innermost last; dc: directly cancelled;
\* par: parents; n: contexts pushed so far; fc: ids whose closure was called;
\* late: some closure was called for the first time after an enclosing finish
\*       had already ended its evaluation (history shape of defect D20)
RInit == [stk |-> <<>>, dc |-> {}, par |-> <<>>, n |-> 0, stopped |-> FALSE, fc |-> {}, late |-> FALSE]

RPush(m, p) == [m EXCEPT !.n = m.n + 1, !.par = Append(m.par, p), !.stk = Append(m.stk, m.n + 1)]
RFin(m, k) ==
    LET m1 == [m EXCEPT !.fc = m.fc \cup {k},
                        !.late = m.late \/ (k \notin m.fc /\ k \notin Range(m.stk) /\ ~m.stopped)]
    IN IF k \in Range(m.stk)
       THEN LET i == PosOf(m.stk, k)
            IN [m1 EXCEPT !.dc = m.dc \cup {m.stk[j] : j \in i .. Len(m.stk)},
                          !.stk = SubSeq(m.stk, 1, i - 1)]
       ELSE m1
RIntr(m) == IF m.stopped \/ Len(m.stk) = 0 THEN m
            ELSE [m EXCEPT !.dc = m.dc \cup {m.stk[Len(m.stk)]}]
RStop(m) == [m EXCEPT !.dc = m.dc \cup Range(m.stk), !.stopped = TRUE]

RApply(m, o) ==
    CASE o.op = "push" -> RPush(m, o.a)
      [] o.op = "fin"  -> RFin(m, o.a)
      [] o.op = "intr" -> RIntr(m)
      [] o.op = "stop" -> RStop(m)
RVec(m) == CancVec(m.dc, m.par, m.n)

\* is the operation meaningful in this state (used by trace specs to reject malformed traces)
RLegal(m, o) ==
    CASE o.op = "push" -> o.a \in 0 .. m.n /\ ~m.stopped
      [] o.op = "fin"  -> o.a \in 1 .. m.n
      [] o.op = "intr" -> TRUE
      [] o.op = "stop" -> ~m.stopped
      [] OTHER -> FALSE

(******************************* as built ********************************)
\* arr/len: backing array and length of cancelFns; idx[k]: stackIdx captured by k's closure;
\* own: ids whose closure-local `cancelled` flag is set
BInit == [arr |-> <<>>, len |-> 0, idx |-> <<>>, own |-> {}, dc |-> {}, par |-> <<>>, n |-> 0, stopped |-> FALSE]

BPush(b, p) ==
    LET id == b.n + 1 IN
    [b EXCEPT !.n = id, !.par = Append(b.par, p), !.idx = Append(b.idx, b.len + 1),
              !.arr = IF b.len + 1 <= Len(b.arr) THEN [b.arr EXCEPT ![b.len + 1] = id] ELSE Append(b.arr, id),
              !.len = b.len + 1]
BFin(b, k) ==
    IF k \in b.own THEN b
    ELSE [b EXCEPT !.own = b.own \cup {k},
                   !.dc = b.dc \cup {b.arr[i] : i \in b.idx[k] .. b.len} \cup {k},
                   !.len = b.idx[k] - 1]          \* cancelFns[0:stackIdx] -- may RE-EXTEND the slice
BIntr(b) == IF b.stopped \/ b.len = 0 THEN b ELSE [b EXCEPT !.dc = b.dc \cup {b.arr[b.len]}]
BStop(b) == [b EXCEPT !.dc = b.dc \cup {b.arr[i] : i \in 1 .. b.len}, !.stopped = TRUE]
BApply(b, o) ==
    CASE o.op = "push" -> BPush(b, o.a)
      [] o.op = "fin"  -> BFin(b, o.a)
      [] o.op = "intr" -> BIntr(b)
      [] o.op = "stop" -> BStop(b)
BVec(b) == CancVec(b.dc, b.par, b.n)

(* classification of a rejected observation `got` (a 0/1 vector) after operation o *)
\* m1, b1: states AFTER the operation
SeqSig(m1, b1, got) ==
    IF got = BVec(b1) /\ m1.late THEN "ctxstack.late_finish_reslice"
    ELSE IF \E k \in 1 .. m1.n : k <= Len(got) /\ got[k] = 1 /\ RVec(m1)[k] = 0
         THEN "ctxstack.seq_overcancel"      \* something cancelled that must keep its context
         ELSE "ctxstack.seq_undercancel"     \* something not cancelled that must be
=============================================================================
