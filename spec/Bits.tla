-------------------------------- MODULE Bits --------------------------------
(***************************************************************************)
(* Shared, VARIABLE-FREE operators on bit sequences (DESIGN.md section 4). *)
(*                                                                         *)
(* A bit sequence is a TLA+ sequence over {0,1}, most significant bit      *)
(* first.  TLC integers are 32-bit, so every quantity that can exceed 2^31 *)
(* (64-bit reads, big integers, float mantissas) is a bit sequence here    *)
(* and a JSON array of 0/1 in cases and traces.  "Normalised" means: no    *)
(* leading zero; the value 0 is the empty sequence <<>>.                   *)
(*                                                                         *)
(* Other modules may EXTEND or INSTANCE this module; keep it free of       *)
(* VARIABLES and CONSTANTS.  Builders adding operators: append a clearly   *)
(* marked section at the end, do not change the meaning of existing ones.  *)
(***************************************************************************)
EXTENDS Integers, Sequences

Bit == {0, 1}
IsBits(s) == \A i \in 1 .. Len(s) : s[i] \in Bit

Zeros(n) == [i \in 1 .. n |-> 0]
Ones(n)  == [i \in 1 .. n |-> 1]

\* n bits starting at the 0-based bit offset a
Slice(s, a, n) == SubSeq(s, a + 1, a + n)
Cat(a, b) == a \o b
\* pad with zero bits on the right up to a whole number of bytes
PadRight8(s) == s \o Zeros((8 - (Len(s) % 8)) % 8)
\* pad with zero bits on the left up to u bits (no-op when already >= u)
PadLeft(s, u) == IF Len(s) >= u THEN s ELSE Zeros(u - Len(s)) \o s
\* keep the u least significant bits (truncate on the left), or pad on the left
LowBits(s, u) == IF Len(s) >= u THEN SubSeq(s, Len(s) - u + 1, Len(s)) ELSE Zeros(u - Len(s)) \o s
NBytes(s) == (Len(s) + 7) \div 8
\* groups of eight, the last one zero-padded on the right
BytesOf(s) == LET p == PadRight8(s) IN [i \in 1 .. (Len(p) \div 8) |-> SubSeq(p, 8 * (i - 1) + 1, 8 * i)]
\* groups of k bits, the last one zero-padded on the right (Hex4: k = 4, B64_6: k = 6)
Groups(s, k) == LET n == (Len(s) + k - 1) \div k
                    p == s \o Zeros(n * k - Len(s))
                IN [i \in 1 .. n |-> SubSeq(p, k * (i - 1) + 1, k * i)]
RECURSIVE FlatCat(_)
FlatCat(ss) == IF Len(ss) = 0 THEN <<>> ELSE ss[1] \o FlatCat(Tail(ss))

(************************* small naturals <-> bits *************************)
\* value of a SHORT bit sequence as a TLC integer (caller guarantees < 2^31)
RECURSIVE ToNatAcc(_, _, _)
ToNatAcc(s, i, acc) == IF i > Len(s) THEN acc ELSE ToNatAcc(s, i + 1, 2 * acc + s[i])
ToNat(s) == ToNatAcc(s, 1, 0)
\* w-bit sequence of the natural n (n < 2^31; truncated to the low w bits)
RECURSIVE FromNatRev(_, _)
FromNatRev(n, w) == IF w = 0 THEN <<>> ELSE <<n % 2>> \o FromNatRev(n \div 2, w - 1)
FromNat(n, w) == LET r == FromNatRev(n, w) IN [i \in 1 .. w |-> r[w + 1 - i]]
Hex4(s)  == LET g == Groups(s, 4) IN [i \in DOMAIN g |-> ToNat(g[i])]
B64_6(s) == LET g == Groups(s, 6) IN [i \in DOMAIN g |-> ToNat(g[i])]
ByteVals(s) == LET g == BytesOf(s) IN [i \in DOMAIN g |-> ToNat(g[i])]
BitsOfBytes(bs) == FlatCat([i \in DOMAIN bs |-> FromNat(bs[i], 8)])

(***************************** normalised values ***************************)
RECURSIVE FirstOne(_, _)
FirstOne(s, i) == IF i > Len(s) THEN 0 ELSE IF s[i] = 1 THEN i ELSE FirstOne(s, i + 1)
RECURSIVE LastZero(_, _)
LastZero(s, i) == IF i < 1 THEN 0 ELSE IF s[i] = 0 THEN i ELSE LastZero(s, i - 1)
RECURSIVE LastOne(_, _)
LastOne(s, i) == IF i < 1 THEN 0 ELSE IF s[i] = 1 THEN i ELSE LastOne(s, i - 1)

\* strip leading zeros
Norm(s) == LET k == FirstOne(s, 1) IN IF k = 0 THEN <<>> ELSE SubSeq(s, k, Len(s))
IsZero(s) == FirstOne(s, 1) = 0
\* number of trailing zero bits (Len(s) when s is all zero)
TrailingZeros(s) == Len(s) - LastOne(s, Len(s))

Inv(s) == [i \in 1 .. Len(s) |-> 1 - s[i]]
\* increment modulo 2^Len(s) (all ones wraps to all zeros)
Inc(s) == LET k == LastZero(s, Len(s)) IN
          [i \in 1 .. Len(s) |-> IF i < k THEN s[i] ELSE IF i = k THEN 1 ELSE 0]
\* decrement modulo 2^Len(s) (all zeros wraps to all ones)
Dec(s) == LET k == LastOne(s, Len(s)) IN
          [i \in 1 .. Len(s) |-> IF i < k THEN s[i] ELSE IF i = k THEN 0 ELSE 1]
\* increment of an unbounded natural: grows by one bit on carry out
IncGrow(s) == IF LastZero(s, Len(s)) = 0 THEN <<1>> \o Zeros(Len(s)) ELSE Inc(s)
\* two's complement negation modulo 2^Len(s): invert and increment
Neg2c(s) == Inc(Inv(s))

\* unsigned value of the bits, normalised
UVal(s) == Norm(s)
\* two's-complement value of the bits as sign flag + normalised magnitude
SVal(s) == IF Len(s) > 0 /\ s[1] = 1
           THEN [neg |-> TRUE, mag |-> Norm(Neg2c(s))]
           ELSE [neg |-> FALSE, mag |-> Norm(s)]

\* comparison of normalised naturals: -1, 0, 1
RECURSIVE CmpLex(_, _, _)
CmpLex(a, b, i) == IF i > Len(a) THEN 0
                   ELSE IF a[i] < b[i] THEN -1 ELSE IF a[i] > b[i] THEN 1 ELSE CmpLex(a, b, i + 1)
CmpU(a, b) == LET x == Norm(a) y == Norm(b) IN
              IF Len(x) < Len(y) THEN -1 ELSE IF Len(x) > Len(y) THEN 1 ELSE CmpLex(x, y, 1)

(******************************* byte order ********************************)
\* reverse the order of the bytes; defined for whole-byte widths only
SwapBytes(s) == LET n == Len(s) \div 8 IN
                [i \in 1 .. Len(s) |-> s[8 * (n - 1 - ((i - 1) \div 8)) + ((i - 1) % 8) + 1]]
Reverse(s) == [i \in 1 .. Len(s) |-> s[Len(s) + 1 - i]]

(********************* fixed-width bitwise operations **********************)
AndB(a, b) == [i \in 1 .. Len(a) |-> IF a[i] = 1 /\ b[i] = 1 THEN 1 ELSE 0]
OrB(a, b)  == [i \in 1 .. Len(a) |-> IF a[i] = 1 \/ b[i] = 1 THEN 1 ELSE 0]
XorB(a, b) == [i \in 1 .. Len(a) |-> IF a[i] # b[i] THEN 1 ELSE 0]
\* shifts inside the fixed width Len(s); bits shifted out are lost; k >= Len(s) gives zero (Go semantics)
Shl(s, k) == [i \in 1 .. Len(s) |-> IF i + k <= Len(s) THEN s[i + k] ELSE 0]
Shr(s, k) == [i \in 1 .. Len(s) |-> IF i - k >= 1 THEN s[i - k] ELSE 0]
=============================================================================
