-------------------------------- MODULE Laws --------------------------------
(***************************************************************************)
(* C14 - conversion functions round-trip and agree with references.        *)
(* VARIABLE-FREE operator module (LawsGen.tla / TraceLaws.tla use it).      *)
(*                                                                         *)
(* Representation (G5: TLC integers are 32-bit):                           *)
(*   bits    sequence over {0,1}, most significant bit first               *)
(*   bytes   sequence over 0..255; a TEXT is the byte sequence of its      *)
(*           ASCII/UTF-8 form; a jq STRING is a sequence of code points     *)
(*   numbers of unbounded size are bit sequences (radix) or digit          *)
(*           sequences (JSON values)                                       *)
(*                                                                         *)
(* Part 1 - conversions that are a regrouping of bits are specified        *)
(*   EXACTLY (the spec is the reference): Hex, Base64 x 4, Radix, UTF-8,   *)
(*   UTF-16, ISO-8859-1, URL escaping.                                     *)
(* Part 2 - structured serialisers: each DOMAIN, the law From(To(x)) = x   *)
(*   inside the domain, "malformed text => error, not a value".            *)
(* Part 3 - hashes: agreement with Go's crypto/* only.  The spec adds      *)
(*   nothing there except the digest length; the oracle is the library.    *)
(***************************************************************************)
EXTENDS Integers, Sequences, FiniteSets, TLC

(****************************** sequences **********************************)
Zeros(n) == [i \in 1 .. n |-> 0]
RECURSIVE FlatAcc(_, _, _)
FlatAcc(ss, i, acc) == IF i > Len(ss) THEN acc ELSE FlatAcc(ss, i + 1, acc \o ss[i])
Flat(ss) == FlatAcc(ss, 1, <<>>)
Rev(s) == [i \in 1 .. Len(s) |-> s[Len(s) + 1 - i]]
AllIn(s, S) == \A i \in 1 .. Len(s) : s[i] \in S
\* position of the first difference, 0 when one is a prefix of the other
RECURSIVE FirstDiff(_, _, _)
FirstDiff(a, b, i) == IF i > Len(a) \/ i > Len(b) THEN 0 ELSE IF a[i] # b[i] THEN i ELSE FirstDiff(a, b, i + 1)
\* lexicographic order on integer sequences (shorter prefix first)
LexLE(a, b) == LET k == FirstDiff(a, b, 1) IN IF k = 0 THEN Len(a) <= Len(b) ELSE a[k] < b[k]
LexLT(a, b) == a # b /\ LexLE(a, b)

(******************************** bits *************************************)
PadRightTo(s, n) == s \o Zeros((n - (Len(s) % n)) % n)
\* "Unaligned byte at EOF will be zero bit padded" (bitio.IOReader): every byte-oriented
\* conversion sees a binary of n bits as ceil(n/8) bytes, zero bits appended.
PadRight8(s) == PadRightTo(s, 8)
RECURSIVE NatAcc(_, _, _)
NatAcc(s, i, acc) == IF i > Len(s) THEN acc ELSE NatAcc(s, i + 1, 2 * acc + s[i])
Nat2(s) == NatAcc(s, 1, 0)                      \* short sequences only (< 31 bits)
\* groups of k bits of a sequence whose length is a multiple of k, as small naturals
GroupVals(s, k) == [i \in 1 .. (Len(s) \div k) |-> Nat2(SubSeq(s, k * (i - 1) + 1, k * i))]
BitOfByte(b, j) == (b \div (2 ^ (7 - j))) % 2   \* j = 0 is the most significant bit
BytesToBits(bs) == [i \in 1 .. (8 * Len(bs)) |-> BitOfByte(bs[((i - 1) \div 8) + 1], (i - 1) % 8)]
BitsToBytes(s) == GroupVals(PadRight8(s), 8)
\* normalised (no leading zero, 0 = <<>>) bit sequence of a small natural
RECURSIVE NatBitsRev(_)
NatBitsRev(n) == IF n = 0 THEN <<>> ELSE <<n % 2>> \o NatBitsRev(n \div 2)
NatBits(n) == Rev(NatBitsRev(n))
RECURSIVE FirstOne(_, _)
FirstOne(s, i) == IF i > Len(s) THEN 0 ELSE IF s[i] = 1 THEN i ELSE FirstOne(s, i + 1)
NormBits(s) == LET k == FirstOne(s, 1) IN IF k = 0 THEN <<>> ELSE SubSeq(s, k, Len(s))

(***************************************************************************)
(* 1a. Hex: 4-bit groups of the zero-padded bytes, lower case.             *)
(***************************************************************************)
HexLower == <<48, 49, 50, 51, 52, 53, 54, 55, 56, 57, 97, 98, 99, 100, 101, 102>>
HexUpper == <<48, 49, 50, 51, 52, 53, 54, 55, 56, 57, 65, 66, 67, 68, 69, 70>>
Hex(bits) == LET g == GroupVals(PadRight8(bits), 4) IN [i \in 1 .. Len(g) |-> HexLower[g[i] + 1]]
HexOfBytes(bs) == [i \in 1 .. (2 * Len(bs)) |->
                     HexLower[(IF i % 2 = 1 THEN bs[(i + 1) \div 2] \div 16 ELSE bs[i \div 2] % 16) + 1]]
\* reading accepts both cases (as the reference, RFC 4648 section 8, allows)
HexVal(c) == IF c \in 48 .. 57 THEN c - 48 ELSE IF c \in 97 .. 102 THEN c - 87 ELSE IF c \in 65 .. 70 THEN c - 55 ELSE -1
HexWellFormed(t) == Len(t) % 2 = 0 /\ \A i \in 1 .. Len(t) : HexVal(t[i]) >= 0
UnHex(t) == [i \in 1 .. (Len(t) \div 2) |-> 16 * HexVal(t[2 * i - 1]) + HexVal(t[2 * i])]
\* law form, usable at any size: length, alphabet
HexLaw(bs, t) == Len(t) = 2 * Len(bs) /\ AllIn(t, 48 .. 57 \cup 97 .. 102)

(***************************************************************************)
(* 1b. Base64 (RFC 4648): 6-bit groups of the zero-padded bytes; the last  *)
(* group is zero-padded; 1 leftover byte -> 2 characters (+ "=="),         *)
(* 2 leftover bytes -> 3 characters (+ "=").                               *)
(***************************************************************************)
B64Variants == {"std", "url", "rawstd", "rawurl"}
B64Alpha(variant) ==
    [i \in 1 .. 64 |-> IF i <= 26 THEN 64 + i                \* A-Z
                       ELSE IF i <= 52 THEN 70 + i           \* a-z
                       ELSE IF i <= 62 THEN i - 5            \* 0-9
                       ELSE IF variant \in {"std", "rawstd"} THEN (IF i = 63 THEN 43 ELSE 47)   \* + /
                       ELSE (IF i = 63 THEN 45 ELSE 95)]     \* - _
B64Padded(variant) == variant \in {"std", "url"}
B64AlphaSet(variant) == {B64Alpha(variant)[i] : i \in 1 .. 64}
Base64OfBytes(variant, bs) ==
    LET a    == B64Alpha(variant)
        g    == GroupVals(PadRightTo(BytesToBits(bs), 6), 6)
        npad == IF B64Padded(variant) THEN (3 - (Len(bs) % 3)) % 3 ELSE 0
    IN [i \in 1 .. Len(g) |-> a[g[i] + 1]] \o [i \in 1 .. npad |-> 61]
Base64(variant, bits) == Base64OfBytes(variant, BitsToBytes(bits))
B64BodyLen(n) == (4 * n + 2) \div 3               \* characters without padding for n bytes
B64Law(variant, bs, t) ==
    LET n == Len(bs) body == B64BodyLen(n) IN
    /\ Len(t) = IF B64Padded(variant) THEN 4 * ((n + 2) \div 3) ELSE body
    /\ \A i \in 1 .. Len(t) : IF i <= body THEN t[i] \in B64AlphaSet(variant) ELSE t[i] = 61
\* reading
B64Index(variant, c) == LET a == B64Alpha(variant) IN
                        IF \E i \in 1 .. 64 : a[i] = c THEN (CHOOSE i \in 1 .. 64 : a[i] = c) - 1 ELSE -1
B64Strip(t) == IF Len(t) >= 2 /\ t[Len(t)] = 61 /\ t[Len(t) - 1] = 61 THEN SubSeq(t, 1, Len(t) - 2)
               ELSE IF Len(t) >= 1 /\ t[Len(t)] = 61 THEN SubSeq(t, 1, Len(t) - 1) ELSE t
\* canonical texts (what an encoder writes): the decoder must accept them and return the bytes
B64Canonical(variant, t) ==
    LET body == IF B64Padded(variant) THEN B64Strip(t) ELSE t IN
    /\ AllIn(body, B64AlphaSet(variant))
    /\ Len(body) % 4 # 1
    /\ IF B64Padded(variant) THEN Len(t) % 4 = 0 /\ Len(t) - Len(body) = (4 - (Len(body) % 4)) % 4 ELSE TRUE
    /\ LET bits == Flat([i \in 1 .. Len(body) |-> LET v == B64Index(variant, body[i]) IN
                          [j \in 1 .. 6 |-> (v \div (2 ^ (6 - j))) % 2]])
       IN AllIn(SubSeq(bits, 8 * (Len(bits) \div 8) + 1, Len(bits)), {0})      \* unused trailing bits are zero
UnBase64(variant, t) ==
    LET body == IF B64Padded(variant) THEN B64Strip(t) ELSE t
        bits == Flat([i \in 1 .. Len(body) |-> LET v == B64Index(variant, body[i]) IN
                       [j \in 1 .. 6 |-> (v \div (2 ^ (6 - j))) % 2]])
    IN GroupVals(SubSeq(bits, 1, 8 * (Len(bits) \div 8)), 8)
\* texts no decoder may turn into a value.  (Texts that are neither canonical nor definitely
\* malformed - non-zero trailing bits, embedded CR/LF - are left open: RFC 4648 lets a decoder choose.)
B64Malformed(variant, t) ==
    \/ \E i \in 1 .. Len(t) : t[i] \notin (B64AlphaSet(variant) \cup {61, 10, 13})
    \/ (~B64Padded(variant) /\ \E i \in 1 .. Len(t) : t[i] = 61)
    \/ (AllIn(t, B64AlphaSet(variant)) /\ Len(t) % 4 = 1)
    \/ (B64Padded(variant) /\ AllIn(t, B64AlphaSet(variant)) /\ Len(t) % 4 # 0)       \* padding missing
    \/ (B64Padded(variant) /\ \E i \in 1 .. (Len(t) - 1) : t[i] = 61 /\ t[i + 1] \in B64AlphaSet(variant))

(***************************************************************************)
(* 1c. Radix(base, table): positional numerals, 2 <= base <= 64.           *)
(* Values are bit sequences; arithmetic is done on little-endian limbs of  *)
(* 12 bits so that no intermediate exceeds 2^31.                           *)
(***************************************************************************)
\* fq's digit table "0123456789abcdefghijklmnopqrstuvwxyzABCDEFGHIJKLMNOPQRSTUVWXYZ@_"
FqRadixTable == [d \in 0 .. 63 |-> IF d < 10 THEN 48 + d ELSE IF d < 36 THEN 87 + d
                                   ELSE IF d < 62 THEN 29 + d ELSE IF d = 62 THEN 64 ELSE 95]
DigitOf(table, c) == IF \E d \in DOMAIN table : table[d] = c THEN CHOOSE d \in DOMAIN table : table[d] = c ELSE -1
Digits(table, t) == [i \in 1 .. Len(t) |-> DigitOf(table, t[i])]
\* a numeral of the base: at least one digit, every digit in 0..base-1
RadixWellFormed(base, table, t) == Len(t) >= 1 /\ \A i \in 1 .. Len(t) : DigitOf(table, t[i]) \in 0 .. (base - 1)
\* what to_radix writes: no leading zero except "0" itself
RadixCanonical(table, t) == Len(t) = 1 \/ DigitOf(table, t[1]) # 0
LimbBase == 4096
RECURSIVE MulAdd(_, _, _)
MulAdd(L, m, c) == IF L = <<>> THEN (IF c = 0 THEN <<>> ELSE <<c>>)
                   ELSE LET x == L[1] * m + c IN <<x % LimbBase>> \o MulAdd(Tail(L), m, x \div LimbBase)
RECURSIVE DigitsToLimbs(_, _, _, _)
DigitsToLimbs(base, ds, i, acc) == IF i > Len(ds) THEN acc ELSE DigitsToLimbs(base, ds, i + 1, MulAdd(acc, base, ds[i]))
RadixLimbs(base, ds) == DigitsToLimbs(base, ds, 1, <<>>)
BitsToLimbs(bits) == LET n == NormBits(bits)
                         p == Zeros((12 - (Len(n) % 12)) % 12) \o n
                     IN Rev(GroupVals(p, 12))
\* value of a small numeral as a TLC integer (GEN only; caller keeps base^len < 2^31)
RECURSIVE SmallValue(_, _, _, _)
SmallValue(base, ds, i, acc) == IF i > Len(ds) THEN acc ELSE SmallValue(base, ds, i + 1, acc * base + ds[i])
\* the two conversions as relations
FromRadixOK(base, table, t, bits) == RadixWellFormed(base, table, t) /\ RadixLimbs(base, Digits(table, t)) = BitsToLimbs(bits)
ToRadixOK(base, table, bits, t) == FromRadixOK(base, table, t, bits) /\ RadixCanonical(table, t)

(***************************************************************************)
(* 1d. Code point encoders.  A string is a sequence of Unicode scalar      *)
(* values (0..0x10FFFF without the surrogate block).                       *)
(***************************************************************************)
IsScalar(cp) == cp \in 0 .. 55295 \/ cp \in 57344 .. 1114111
UTF8(cp) == IF cp < 128 THEN <<cp>>
            ELSE IF cp < 2048 THEN <<192 + (cp \div 64), 128 + (cp % 64)>>
            ELSE IF cp < 65536 THEN <<224 + (cp \div 4096), 128 + ((cp \div 64) % 64), 128 + (cp % 64)>>
            ELSE <<240 + (cp \div 262144), 128 + ((cp \div 4096) % 64), 128 + ((cp \div 64) % 64), 128 + (cp % 64)>>
UTF16Units(cp) == IF cp < 65536 THEN <<cp>>
                  ELSE LET v == cp - 65536 IN <<55296 + (v \div 1024), 56320 + (v % 1024)>>
UnitsBE(us) == Flat([i \in 1 .. Len(us) |-> <<us[i] \div 256, us[i] % 256>>])
UnitsLE(us) == Flat([i \in 1 .. Len(us) |-> <<us[i] % 256, us[i] \div 256>>])
TextEncodings == {"UTF8", "UTF16", "UTF16LE", "UTF16BE", "ISO8859_1"}
\* domain of an encoder: which strings it can represent
EncDomain(enc, cps) == /\ \A i \in 1 .. Len(cps) : IsScalar(cps[i])
                       /\ enc = "ISO8859_1" => \A i \in 1 .. Len(cps) : cps[i] < 256
Encode(enc, cps) ==
    CASE enc = "UTF8"      -> Flat([i \in 1 .. Len(cps) |-> UTF8(cps[i])])
      [] enc = "UTF16BE"   -> Flat([i \in 1 .. Len(cps) |-> UnitsBE(UTF16Units(cps[i]))])
      [] enc = "UTF16LE"   -> Flat([i \in 1 .. Len(cps) |-> UnitsLE(UTF16Units(cps[i]))])
      [] enc = "UTF16"     -> IF cps = <<>> THEN <<>>          \* nothing to mark; otherwise BOM, little endian
                              ELSE <<255, 254>> \o Flat([i \in 1 .. Len(cps) |-> UnitsLE(UTF16Units(cps[i]))])
      [] enc = "ISO8859_1" -> cps
UTF8Bytes(cps) == Encode("UTF8", cps)
\* Decoding malformed byte sequences (lone surrogate, truncated unit, stray continuation byte): the
\* Unicode-conformant answers are an error or a U+FFFD replacement marking the damage; a string without
\* the mark is a wrong value.
DecodeMalformedOK(isErr, cps) == isErr \/ \E i \in 1 .. Len(cps) : cps[i] = 65533

(* Well-formedness of encoded text (Unicode 15, table 3-7 for UTF-8; surrogate pairing for UTF-16). *)
Cont(b) == b \in 128 .. 191
RECURSIVE U8WF(_, _)
U8WF(b, i) ==
    IF i > Len(b) THEN TRUE
    ELSE LET c == b[i]
             n == Len(b)
             C(k) == i + k <= n /\ Cont(b[i + k])
         IN IF c < 128 THEN U8WF(b, i + 1)
            ELSE IF c \in 194 .. 223 THEN C(1) /\ U8WF(b, i + 2)
            ELSE IF c = 224 THEN i + 1 <= n /\ b[i + 1] \in 160 .. 191 /\ C(2) /\ U8WF(b, i + 3)
            ELSE IF c \in 225 .. 236 \/ c \in 238 .. 239 THEN C(1) /\ C(2) /\ U8WF(b, i + 3)
            ELSE IF c = 237 THEN i + 1 <= n /\ b[i + 1] \in 128 .. 159 /\ C(2) /\ U8WF(b, i + 3)
            ELSE IF c = 240 THEN i + 1 <= n /\ b[i + 1] \in 144 .. 191 /\ C(2) /\ C(3) /\ U8WF(b, i + 4)
            ELSE IF c \in 241 .. 243 THEN C(1) /\ C(2) /\ C(3) /\ U8WF(b, i + 4)
            ELSE IF c = 244 THEN i + 1 <= n /\ b[i + 1] \in 128 .. 143 /\ C(2) /\ C(3) /\ U8WF(b, i + 4)
            ELSE FALSE
RECURSIVE U16WF(_, _)
U16WF(us, i) ==
    IF i > Len(us) THEN TRUE
    ELSE IF us[i] \in 55296 .. 56319 THEN i + 1 <= Len(us) /\ us[i + 1] \in 56320 .. 57343 /\ U16WF(us, i + 2)
    ELSE IF us[i] \in 56320 .. 57343 THEN FALSE
    ELSE U16WF(us, i + 1)
UnitsOf(be, b) == [i \in 1 .. (Len(b) \div 2) |-> IF be THEN 256 * b[2 * i - 1] + b[2 * i] ELSE 256 * b[2 * i] + b[2 * i - 1]]
\* "UTF16": a byte order mark selects the byte order and is removed, little endian without one
Utf16Be(enc, b) == enc = "UTF16BE" \/ (enc = "UTF16" /\ Len(b) >= 2 /\ b[1] = 254 /\ b[2] = 255)
Utf16Body(enc, b) == IF enc = "UTF16" /\ Len(b) >= 2 /\ ((b[1] = 254 /\ b[2] = 255) \/ (b[1] = 255 /\ b[2] = 254))
                     THEN SubSeq(b, 3, Len(b)) ELSE b
EncodedWF(enc, b) == CASE enc = "UTF8" -> U8WF(b, 1)
                       [] enc \in {"UTF16", "UTF16LE", "UTF16BE"} ->
                            LET body == Utf16Body(enc, b) IN Len(body) % 2 = 0 /\ U16WF(UnitsOf(Utf16Be(enc, b), body), 1)
                       [] enc = "ISO8859_1" -> TRUE
\* the decoding relation: cps is THE string whose encoding is b (the encoders are injective)
DecodesTo(enc, b, cps) ==
    /\ \A i \in 1 .. Len(cps) : IsScalar(cps[i])
    /\ CASE enc = "UTF8" -> Encode("UTF8", cps) = b
         [] enc = "ISO8859_1" -> cps = b
         [] OTHER -> Encode(IF Utf16Be(enc, b) THEN "UTF16BE" ELSE "UTF16LE", cps) = Utf16Body(enc, b)
DecodeLaw(enc, b, ok, cps) == IF EncodedWF(enc, b) THEN ok /\ DecodesTo(enc, b, cps) ELSE DecodeMalformedOK(~ok, cps)

(***************************************************************************)
(* 1e. URL escaping by character class (RFC 3986), on the UTF-8 bytes.     *)
(*   component  (to_urlencode, form flavour): unreserved kept, space '+',  *)
(*              everything else %XX                                        *)
(*   path       (to_urlpath, one path segment): unreserved and $&+:=@ kept *)
(* As REQUIRED: the output is well formed, uses only characters the class  *)
(* may carry literally, and unescapes to the input.  As BUILT: exactly the *)
(* function below (upper-case hex).                                        *)
(***************************************************************************)
Alnum(b) == b \in 48 .. 57 \/ b \in 65 .. 90 \/ b \in 97 .. 122
Unreserved(b) == Alnum(b) \/ b \in {45, 46, 95, 126}                      \* - . _ ~
SubDelims == {33, 36, 38, 39, 40, 41, 42, 43, 44, 59, 61}                  \* ! $ & ' ( ) * + , ; =
PChar(b) == Unreserved(b) \/ b \in SubDelims \/ b \in {58, 64}             \* pchar without pct-encoded
PathKept(b) == Unreserved(b) \/ b \in {36, 38, 43, 58, 61, 64}             \* as built: $ & + : = @
Pct(b) == <<37, HexUpper[(b \div 16) + 1], HexUpper[(b % 16) + 1]>>
UrlEscape(mode, bs) ==
    Flat([i \in 1 .. Len(bs) |-> LET b == bs[i] IN
          IF mode = "component" THEN (IF Unreserved(b) THEN <<b>> ELSE IF b = 32 THEN <<43>> ELSE Pct(b))
          ELSE (IF PathKept(b) THEN <<b>> ELSE Pct(b))])
UrlLiteralOK(mode, c) == IF mode = "component" THEN Unreserved(c) \/ c = 43 ELSE PChar(c)
\* every '%' is followed by two hex digits
UrlWellFormed(t) == \A i \in 1 .. Len(t) : t[i] = 37 => (i + 2 <= Len(t) /\ HexVal(t[i + 1]) >= 0 /\ HexVal(t[i + 2]) >= 0)
RECURSIVE UrlUnescapeAcc(_, _, _, _)
UrlUnescapeAcc(mode, t, i, acc) ==
    IF i > Len(t) THEN acc
    ELSE IF t[i] = 37 THEN UrlUnescapeAcc(mode, t, i + 3, Append(acc, 16 * HexVal(t[i + 1]) + HexVal(t[i + 2])))
    ELSE IF t[i] = 43 /\ mode = "component" THEN UrlUnescapeAcc(mode, t, i + 1, Append(acc, 32))
    ELSE UrlUnescapeAcc(mode, t, i + 1, Append(acc, t[i]))
UrlUnescape(mode, t) == UrlUnescapeAcc(mode, t, 1, <<>>)
\* escaped positions of t: the '%' and its two digits
UrlEscapedPos(t, i) == t[i] = 37 \/ (i > 1 /\ t[i - 1] = 37) \/ (i > 2 /\ t[i - 2] = 37)
UrlEscapeRequired(mode, bs, t) ==
    /\ UrlWellFormed(t)
    /\ \A i \in 1 .. Len(t) : UrlEscapedPos(t, i) \/ UrlLiteralOK(mode, t[i])
    /\ UrlUnescape(mode, t) = bs

(***************************************************************************)
(* 2. JSON values as tagged records                                        *)
(*   [t |-> "null"]   [t |-> "bool", b |-> TRUE]                           *)
(*   [t |-> "num", k |-> "int", neg |-> FALSE, d |-> <<1, 2>>]  canonical   *)
(*       decimal digits, no leading zero, 0 = <<0>>, never "-0"            *)
(*   [t |-> "num", k |-> "flt", neg |-> FALSE, txt |-> "1.5"]  non-integral *)
(*       finite float,                                                    *)
(*       shortest round-trip text (integral floats are k = "int")          *)
(*   [t |-> "str", cp |-> <<97>>]                                          *)
(*   [t |-> "arr", e |-> <<v1, ..>>]                                       *)
(*   [t |-> "obj", ks |-> <<key code point seqs, ascending, distinct>>,    *)
(*                 e |-> <<values>>]                                       *)
(***************************************************************************)
VNull == [t |-> "null"]
VBool(b) == [t |-> "bool", b |-> b]
VInt(neg, d) == [t |-> "num", k |-> "int", neg |-> neg, d |-> d]
VFlt(neg, txt) == [t |-> "num", k |-> "flt", neg |-> neg, txt |-> txt]
VStr(cp) == [t |-> "str", cp |-> cp]
VArr(e) == [t |-> "arr", e |-> e]
VObj(ks, e) == [t |-> "obj", ks |-> ks, e |-> e]
RECURSIVE SmallDigitsRev(_)
SmallDigitsRev(n) == IF n < 10 THEN <<n>> ELSE <<n % 10>> \o SmallDigitsRev(n \div 10)
VSmall(n) == IF n < 0 THEN VInt(TRUE, Rev(SmallDigitsRev(0 - n))) ELSE VInt(FALSE, Rev(SmallDigitsRev(n)))
IsStr(v) == v.t = "str"
IsArr(v) == v.t = "arr"
IsObj(v) == v.t = "obj"
Kids(v) == IF v.t \in {"arr", "obj"} THEN v.e ELSE <<>>

Max63 == <<9, 2, 2, 3, 3, 7, 2, 0, 3, 6, 8, 5, 4, 7, 7, 5, 8, 0, 7>>      \* 2^63 - 1
Min63 == <<9, 2, 2, 3, 3, 7, 2, 0, 3, 6, 8, 5, 4, 7, 7, 5, 8, 0, 8>>      \* 2^63
DigitsLE(a, b) == Len(a) < Len(b) \/ (Len(a) = Len(b) /\ LexLE(a, b))
InInt64(v) == v.k = "flt" \/ (IF v.neg THEN DigitsLE(v.d, Min63) ELSE DigitsLE(v.d, Max63))

RECURSIVE NoNull(_)
NoNull(v) == v.t # "null" /\ \A i \in 1 .. Len(Kids(v)) : NoNull(Kids(v)[i])
RECURSIVE NumsInInt64(_)
NumsInInt64(v) == (v.t = "num" => InInt64(v)) /\ \A i \in 1 .. Len(Kids(v)) : NumsInInt64(Kids(v)[i])
RECURSIVE HasNegNum(_)
HasNegNum(v) == (v.t = "num" /\ v.neg) \/ \E i \in 1 .. Len(Kids(v)) : HasNegNum(Kids(v)[i])
RECURSIVE HasEmptyStr(_)
HasEmptyStr(v) == \/ (v.t = "str" /\ v.cp = <<>>)
                  \/ (v.t = "obj" /\ \E i \in 1 .. Len(v.ks) : v.ks[i] = <<>>)
                  \/ \E i \in 1 .. Len(Kids(v)) : HasEmptyStr(Kids(v)[i])
RECURSIVE HasKey(_, _)
HasKey(v, key) == (v.t = "obj" /\ \E i \in 1 .. Len(v.ks) : v.ks[i] = key) \/ \E i \in 1 .. Len(Kids(v)) : HasKey(Kids(v)[i], key)
\* Unicode white space (what Go's strings.TrimSpace removes)
XmlSpace(c) == c \in {9, 10, 11, 12, 13, 32, 133, 160, 5760, 8232, 8233, 8239, 8287, 12288} \/ c \in 8192 .. 8202
\* a multi-line string (value or key) whose first line is empty or only white space
BlankFirstLine(cp) == \E p \in 1 .. Len(cp) : cp[p] = 10 /\ \A q \in 1 .. (p - 1) : XmlSpace(cp[q])
RECURSIVE HasBlankFirstLine(_)
HasBlankFirstLine(v) == \/ (v.t = "str" /\ BlankFirstLine(v.cp))
                        \/ (v.t = "obj" /\ \E i \in 1 .. Len(v.ks) : BlankFirstLine(v.ks[i]))
                        \/ \E i \in 1 .. Len(Kids(v)) : HasBlankFirstLine(Kids(v)[i])
\* structural well-formedness of a projected value (object keys ascending and distinct)
RECURSIVE WellFormedVal(_)
WellFormedVal(v) ==
    /\ v.t \in {"null", "bool", "num", "str", "arr", "obj"}
    /\ v.t = "obj" => (Len(v.ks) = Len(v.e) /\ \A i \in 1 .. (Len(v.ks) - 1) : LexLT(v.ks[i], v.ks[i + 1]))
    /\ \A i \in 1 .. Len(Kids(v)) : WellFormedVal(Kids(v)[i])

(***************************** the domains *********************************)
\* JSON text and jq literals carry every JSON value.
JsonDom(v) == TRUE
JqDom(v)   == TRUE
\* JSON lines: a sequence of JSON values, one per line; an empty file holds none and is refused by from_jsonl
JsonlDom(v) == IsArr(v)
\* YAML: a collection at the root (from_yaml refuses scalar documents); integers in the signed 64-bit
\* range (yaml.v3 gives larger ones back as strings - how the library behaves, a domain fact)
YamlDom(v) == v.t \in {"arr", "obj"} /\ NumsInInt64(v)
\* TOML: a table at the root, no null anywhere, integers in the signed 64-bit range
TomlDom(v) == IsObj(v) /\ NoNull(v) /\ NumsInInt64(v)
\* CSV: rectangular rows of strings, at least one column
CsvDom(v) == /\ IsArr(v)
             /\ \A i \in 1 .. Len(v.e) : IsArr(v.e[i]) /\ Len(v.e[i].e) >= 1 /\ Len(v.e[i].e) = Len(v.e[1].e)
                                         /\ \A j \in 1 .. Len(v.e[i].e) : IsStr(v.e[i].e[j])
\* XML: element trees in the shape to_xml documents (xml.md), object variant:
\*   {"name": elem}; elem = "text" | {"#text": text, "@attr": string, "child": elem | [elem, elem, ..]}
\* and array variant ["name", null | {"attr": string, "#text": text}, [children]].
\* Names are ASCII XML names without namespace prefix; text is a string of XML characters that
\* trimming leaves unchanged (the reader trims); an element consisting of "#text" alone, an empty
\* object or a one-element child array are other spellings that the reader does not give back.
NameStart(c) == c \in 65 .. 90 \/ c \in 97 .. 122 \/ c = 95
NameChar(c) == NameStart(c) \/ c \in 48 .. 57 \/ c \in {45, 46}
LowerOf(c) == IF c \in 65 .. 90 THEN c + 32 ELSE c
XmlName(cp) == /\ Len(cp) >= 1 /\ NameStart(cp[1]) /\ \A i \in 1 .. Len(cp) : NameChar(cp[i])
               /\ ~(Len(cp) >= 3 /\ LowerOf(cp[1]) = 120 /\ LowerOf(cp[2]) = 109 /\ LowerOf(cp[3]) = 108)   \* "xml.." reserved
XmlChar(c) == c \in {9, 10, 13} \/ c \in 32 .. 55295 \/ c \in 57344 .. 65533 \/ c \in 65536 .. 1114111
XmlChars(cp) == \A i \in 1 .. Len(cp) : XmlChar(cp[i])
XmlText(cp) == XmlChars(cp) /\ (cp = <<>> \/ (~XmlSpace(cp[1]) /\ ~XmlSpace(cp[Len(cp)])))
HashText == <<35, 116, 101, 120, 116>>           \* "#text"
RECURSIVE XmlElem(_)
XmlElem(v) ==
    \/ (IsStr(v) /\ XmlText(v.cp))
    \/ /\ IsObj(v) /\ Len(v.ks) >= 1 /\ ~(Len(v.ks) = 1 /\ v.ks[1] = HashText)
       /\ \A i \in 1 .. Len(v.ks) : LET k == v.ks[i] c == v.e[i] IN
            IF k = HashText THEN IsStr(c) /\ c.cp # <<>> /\ XmlText(c.cp)
            ELSE IF Len(k) >= 1 /\ k[1] = 64 THEN XmlName(Tail(k)) /\ IsStr(c) /\ XmlChars(c.cp)
            ELSE /\ XmlName(k)
                 /\ \/ XmlElem(c)
                    \/ (IsArr(c) /\ Len(c.e) >= 2 /\ \A j \in 1 .. Len(c.e) : ~IsArr(c.e[j]) /\ XmlElem(c.e[j]))
XmlObjDom(v) == IsObj(v) /\ Len(v.ks) = 1 /\ XmlName(v.ks[1]) /\ XmlElem(v.e[1])
RECURSIVE XmlArrElem(_)
XmlArrElem(v) ==
    /\ IsArr(v) /\ Len(v.e) = 3
    /\ IsStr(v.e[1]) /\ XmlName(v.e[1].cp)
    /\ \/ v.e[2].t = "null"
       \/ /\ IsObj(v.e[2]) /\ Len(v.e[2].ks) >= 1
          /\ \A i \in 1 .. Len(v.e[2].ks) : LET k == v.e[2].ks[i] c == v.e[2].e[i] IN
               IF k = HashText THEN IsStr(c) /\ c.cp # <<>> /\ XmlText(c.cp)
               ELSE XmlName(k) /\ IsStr(c) /\ XmlChars(c.cp)
    /\ IsArr(v.e[3]) /\ \A j \in 1 .. Len(v.e[3].e) : XmlArrElem(v.e[3].e[j])
XmlArrDom(v) == XmlArrElem(v)
\* URL query strings: an object of strings or of lists of two or more strings
UrlQueryDom(v) == /\ IsObj(v)
                  /\ \A i \in 1 .. Len(v.e) : \/ IsStr(v.e[i])
                                              \/ (IsArr(v.e[i]) /\ Len(v.e[i].e) >= 2 /\ \A j \in 1 .. Len(v.e[i].e) : IsStr(v.e[i].e[j]))

\* "xmlseq": the element tree (array shape) written, read back in the object shape WITH the order of the children kept (`seq`), written
\* again and read in the array shape: the order of children survives the object shape
Serialisers == {"json", "jq", "jsonl", "yaml", "toml", "csv", "xml", "xmla", "xmlseq", "urlquery"}
InDomain(f, v) == CASE f \in {"json", "json_i"} -> JsonDom(v)
                    [] f \in {"jq", "jq_i"} -> JqDom(v)
                    [] f = "jsonl" -> JsonlDom(v)
                    [] f = "yaml"  -> YamlDom(v)
                    [] f = "toml"  -> TomlDom(v)
                    [] f = "csv"   -> CsvDom(v)
                    [] f = "xml"   -> XmlObjDom(v)
                    [] f \in {"xmla", "xmlseq"} -> XmlArrDom(v)
                    [] f = "urlquery" -> UrlQueryDom(v)
                    [] OTHER       -> FALSE

(* The law.  `ok` = the pipeline x | to_F | from_F produced a value (no error), `rt` = that value. *)
RoundTripLaw(f, x, ok, rt) == InDomain(f, x) => (ok /\ rt = x)

(* Signatures of rejected round trips: the input shape decides, so that a different failure of the  *)
(* same serialiser is a different signature.                                                        *)
StartsWith(cp, c) == Len(cp) >= 1 /\ cp[1] = c
HasCRLF(cp) == \E i \in 1 .. (Len(cp) - 1) : cp[i] = 13 /\ cp[i + 1] = 10
CsvSig(v) ==
    IF \E i \in 1 .. Len(v.e) : StartsWith(v.e[i].e[1].cp, 35) THEN "csv.row_starting_with_hash_dropped"
    ELSE IF \E i \in 1 .. Len(v.e) : Len(v.e[i].e) = 1 /\ v.e[i].e[1].cp = <<>> THEN "csv.single_empty_field_row_dropped"
    ELSE IF \E i \in 1 .. Len(v.e) : \E j \in 1 .. Len(v.e[i].e) : HasCRLF(v.e[i].e[j].cp) THEN "csv.crlf_in_field_becomes_lf"
    ELSE "csv.roundtrip"
RoundTripSig(f, x, ok) ==
    CASE f = "csv"  -> CsvSig(x)
      [] f \in {"jq", "jq_i"} -> IF HasNegNum(x) /\ ~ok THEN "jq.negative_number_unreadable"
                       ELSE IF HasEmptyStr(x) THEN "jq.empty_string_lost"
                       ELSE "jq.roundtrip"
      [] f = "yaml" -> IF HasKey(x, <<60, 60>>) THEN "yaml.key_ltlt_read_as_merge_key"
                       ELSE IF HasBlankFirstLine(x) THEN "yaml.multiline_string_with_blank_first_line"
                       ELSE "yaml.roundtrip"
      [] f = "toml" -> IF x = VObj(<<>>, <<>>) THEN "toml.empty_table_eof"
                       ELSE IF HasKey(x, <<>>) THEN "toml.empty_key_in_inline_table_within_array"
                       ELSE "toml.roundtrip"
      [] f = "jsonl" -> IF x = VArr(<<>>) THEN "jsonl.empty_array_refused" ELSE "jsonl.roundtrip"
      [] OTHER      -> f \o ".roundtrip"

(***************************************************************************)
(* Malformed documents: texts that are not a document of the format under  *)
(* any reading; From(text) must be an error.                               *)
(***************************************************************************)
MalformedDocs == {
    <<"json", "">>, <<"json", "[1,">>, <<"json", "[1,]">>, <<"json", "{\"a\":">>, <<"json", "{\"a\":1,}">>, <<"json", "{a:1}">>,
    <<"json", "1 2">>, <<"json", "[1] x">>, <<"json", "'a'">>, <<"json", "nul">>, <<"json", "\"abc">>, <<"json", "[1 2]">>,
    <<"json", "{\"a\" 1}">>, <<"json", "-">>, <<"json", "1.">>, <<"json", "+1">>, <<"json", "[">>, <<"json", "]">>, <<"json", "NaN">>,
    <<"json", "\"\\x\"">>, <<"json", "{\"a\":1}}">>, <<"json", "[1]]">>, <<"json", "tru">>, <<"json", "{1:2}">>,
    <<"jq", "">>, <<"jq", "{a:}">>, <<"jq", "[1,">>, <<"jq", "1 +">>, <<"jq", "if">>, <<"jq", "{\"a\" 1}">>, <<"jq", "[1 2]">>, <<"jq", "\"abc">>,
    <<"jq", "1+1">>, <<"jq", ".a">>, <<"jq", "\"\\(1)\"">>, <<"jq", "[.]">>, <<"jq", "{a:.}">>, <<"jq", "$x">>, <<"jq", "[1,2] | length">>,
    <<"yaml", "a: [">>, <<"yaml", "a: b: c">>, <<"yaml", "\"unterminated">>, <<"yaml", "{a: 1">>, <<"yaml", "a:\n\t- b">>, <<"yaml", "- a\nb: c">>,
    <<"yaml", "a: *unknown">>, <<"yaml", "[1, 2">>, <<"yaml", "a: 1\n b: 2">>, <<"yaml", "a: 'x">>, <<"yaml", "- [a\n- b]x]">>,
    <<"toml", "a = ">>, <<"toml", "a">>, <<"toml", "= 1">>, <<"toml", "a = 1\na = 2">>, <<"toml", "[a\nb=1">>, <<"toml", "a = \"x">>,
    <<"toml", "a = 01">>, <<"toml", "a = 1 b = 2">>, <<"toml", "a = [1,">>, <<"toml", "[a]\n[a]">>, <<"toml", "a = {b = 1">>,
    <<"xml", "">>, <<"xml", "a">>, <<"xml", "<a">>, <<"xml", "<a></b>">>, <<"xml", "<1a/>">>, <<"xml", "<a/><b/>">>,
    <<"xml", "<a/>x">>, <<"xml", "<a b=\"1></a>">>, <<"xml", "</a>">>, <<"xml", "<a>&unknown;</a>x<">>, <<"xml", "<a><!-- x</a>">>,
    <<"csv", "a,b\nc\n">>, <<"csv", "a\nb,c\n">>, <<"csv", "a,b,c\nd,e\nf,g,h\n">>,
    <<"jsonl", "[1,">>, <<"jsonl", "1\n{\"a\":\n">>, <<"jsonl", "nul">>,
    <<"urlquery", "a=%zz">>, <<"urlquery", "%=1">>, <<"urlquery", "a=%4">>
}

(***************************************************************************)
(* 3. Hashes.  Agreement with the library digest over the zero-padded      *)
(* bytes, nothing else.                                                    *)
(***************************************************************************)
HashNames == {"md4", "md5", "sha1", "sha256", "sha512", "sha3_224", "sha3_256", "sha3_384", "sha3_512"}
DigestLen(h) == CASE h = "md4" -> 16 [] h = "md5" -> 16 [] h = "sha1" -> 20 [] h = "sha256" -> 32 [] h = "sha512" -> 64
                  [] h = "sha3_224" -> 28 [] h = "sha3_256" -> 32 [] h = "sha3_384" -> 48 [] h = "sha3_512" -> 64
HashLaw(h, out, ref) == Len(out) = DigestLen(h) /\ out = ref
=============================================================================
