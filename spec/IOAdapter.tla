------------------------------ MODULE IOAdapter ------------------------------
(***************************************************************************)
(* C01, as built: bitio.IOReader / bitio.IOReadSeeker, the byte view of a  *)
(* bit reader (carry buffer b, sticky read error rErr, byte position sPos) *)
(* as repaired: Seek works on byte-view positions, drops buffered bits and *)
(* clamps a seek to the zero-padded end for sources that refuse positions  *)
(* beyond their end; ReadByte counts; Read of an empty slice returns.      *)
(* Source bits are SYMBOLIC (bit i is the integer i, a pad bit is -1).     *)
(* Short: the source hands out at most 5 bits per call (an adversarial     *)
(* short-reading source), which forces the carry buffer through every      *)
(* alignment.  StrictEnd: the source refuses SeekBits beyond its end       *)
(* (MultiReader, zero reader) instead of allowing it (SectionReader).      *)
(***************************************************************************)
EXTENDS Integers, Sequences, TLC
CONSTANTS L,          \* source length in bits
          MaxRead,    \* largest Read in bytes
          Short, StrictEnd,
          OldSeek     \* TRUE: Seek as it was before the repair (witness for D2/D19)

VARIABLES srcPos, b, rErr, sPos, lastPos, lastOut, lastEOF, lastN
vars == <<srcPos, b, rErr, sPos, lastPos, lastOut, lastEOF, lastN>>

Min2(x, y) == IF x < y THEN x ELSE y
NBytes == (L + 7) \div 8
\* the byte view: source bits, zero padded on the right to whole bytes
View == [i \in 1 .. (8 * NBytes) |-> IF i <= L THEN i - 1 ELSE 0 - 1]

Init == srcPos = 0 /\ b = <<>> /\ rErr = "none" /\ sPos = 0 /\ lastPos = 0 /\ lastOut = <<>> /\ lastEOF = FALSE /\ lastN = 0

\* source.ReadBits(want): [k bits, eof]
SrcRead(pos, want) ==
    IF pos >= L THEN [k |-> 0, eof |-> TRUE]
    ELSE [k |-> Min2(Min2(want, L - pos), IF Short THEN 5 ELSE want), eof |-> FALSE]

\* IOReader.Read(p) with len(p) = n; S = [srcPos, b, rErr]; returns [S, out bits, nret bytes, eof]
RECURSIVE ReadLoop(_, _, _)
ReadLoop(S, n, fuel) ==
    IF fuel = 0 THEN [S |-> S, out |-> <<>>, nret |-> 0 - 1, eof |-> FALSE]           \* would loop forever
    ELSE
    LET r  == IF S.rErr = "none" THEN SrcRead(S.srcPos, 8 * n) ELSE [k |-> 0, eof |-> FALSE]
        S1 == IF S.rErr = "none"
              THEN [srcPos |-> S.srcPos + r.k, b |-> S.b \o [i \in 1 .. r.k |-> S.srcPos + i - 1], rErr |-> IF r.eof THEN "eof" ELSE "none"]
              ELSE S
    IN IF Len(S1.b) >= 8
       THEN LET avail == Len(S1.b) - (Len(S1.b) % 8)
                rb == Min2(8 * n, avail)
            IN [S |-> [S1 EXCEPT !.b = SubSeq(S1.b, rb + 1, Len(S1.b))], out |-> SubSeq(S1.b, 1, rb), nret |-> rb \div 8, eof |-> FALSE]
       ELSE IF S1.rErr # "none"
            THEN IF Len(S1.b) > 0
                 THEN \* the unaligned byte at the end, zero bit padded, returned together with the error
                      [S |-> [S1 EXCEPT !.b = <<>>], out |-> S1.b \o [i \in 1 .. (8 - Len(S1.b)) |-> 0 - 1], nret |-> 1, eof |-> TRUE]
                 ELSE [S |-> S1, out |-> <<>>, nret |-> 0, eof |-> TRUE]
            ELSE ReadLoop(S1, n, fuel - 1)

Read(n) ==
    /\ lastPos' = sPos /\ lastN' = n
    /\ IF n = 0
       THEN lastOut' = <<>> /\ lastEOF' = FALSE /\ UNCHANGED <<srcPos, b, rErr, sPos>>         \* len(p) == 0: return 0, nil
       ELSE LET r == ReadLoop([srcPos |-> srcPos, b |-> b, rErr |-> rErr], n, 8 * n + 12) IN
            /\ r.nret >= 0                                  \* the loop terminates (checked by Terminates below)
            /\ srcPos' = r.S.srcPos /\ b' = r.S.b /\ rErr' = r.S.rErr
            /\ sPos' = sPos + r.nret /\ lastOut' = r.out /\ lastEOF' = r.eof

\* IOReadSeeker.Seek(offset, whence)
NewSeek(off, wh) ==
    LET base == CASE wh = 0 -> 0 [] wh = 1 -> sPos [] OTHER -> NBytes
        t == base + off
        srcOK == t >= 0 /\ (~StrictEnd \/ 8 * t <= L)                 \* s.SeekBits(t*8, start) succeeds
        clamp == t >= 0 /\ 8 * t > L /\ 8 * t < L + 8                 \* the padded end of a source that refuses it
    IN /\ t <= NBytes + 2                                             \* bound of the model
       /\ UNCHANGED <<lastPos, lastOut, lastEOF, lastN>>
       /\ b' = <<>> /\ rErr' = "none"
       /\ IF srcOK THEN sPos' = t /\ srcPos' = 8 * t
          ELSE IF clamp THEN sPos' = t /\ srcPos' = L                 \* positioned at the end by SeekBits(0, end)
          ELSE sPos' = sPos /\ srcPos' = 8 * sPos                     \* error: the bit reader is put back where the byte view is

\* before the repair: seek the bit reader relative to ITS position / ITS end, compare a bit position with a byte position
OldSeekOp(off, wh) ==
    LET tb == (CASE wh = 0 -> 0 [] wh = 1 -> srcPos [] OTHER -> L) + 8 * off IN
    /\ tb >= 0 /\ tb <= 8 * (NBytes + 2)
    /\ UNCHANGED <<lastPos, lastOut, lastEOF, lastN>>
    /\ srcPos' = tb /\ rErr' = "none"
    /\ IF tb # sPos THEN b' = <<>> /\ sPos' = tb \div 8 ELSE UNCHANGED <<b, sPos>>
Seek(off, wh) == IF OldSeek THEN OldSeekOp(off, wh) ELSE NewSeek(off, wh)

Next == (\E n \in 0 .. MaxRead : Read(n)) \/ (\E off \in (0 - NBytes - 1) .. (NBytes + 1), wh \in 0 .. 2 : Seek(off, wh))
Spec == Init /\ [][Next]_vars

\* as required: a Read returns the bytes of the view at the position before it; end-of-data only at the end; no stall
ReadsTrue ==
    /\ lastOut = SubSeq(View, 8 * lastPos + 1, 8 * lastPos + Len(lastOut))
    /\ Len(lastOut) % 8 = 0 /\ Len(lastOut) <= 8 * lastN
    /\ lastEOF => 8 * lastPos + Len(lastOut) >= 8 * NBytes
    /\ (lastN > 0 /\ Len(lastOut) = 0) => lastEOF
Terminates == \A n \in 1 .. MaxRead : ReadLoop([srcPos |-> srcPos, b |-> b, rErr |-> rErr], n, 8 * n + 12).nret >= 0
=============================================================================
