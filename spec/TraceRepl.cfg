SPECIFICATION TSpec
POSTCONDITION Consumed
CHECK_DEADLOCK FALSE
