------------------------------- MODULE TraceJq -------------------------------
(***************************************************************************)
(* C07 trace validation.  One event per (program, input), recorded by      *)
(* harness/c07 from the real fq command line path and from the bare        *)
(* embedded engine:                                                        *)
(*   gj, gj_side, gj_stderr   reference outcomes; debug/stderr records and *)
(*                            the text the jq command writes for them      *)
(*   gj_compile               the reference rejects the program            *)
(*   fq                       outcomes of the batch arm (values and error  *)
(*                            values exact), or fq_failed                  *)
(*   cli                      plain command line: outcomes from stdout     *)
(*                            lines, exit status, stderr text              *)
(*   spec                     what JqCore.Run said when TLC emitted the    *)
(*                            case; or ast (+ lits) for generated programs *)
(* Verdict (REJECT): fq differs from the reference under N1-N4.            *)
(* JqCore differing from the reference is DRIFT of the specification,      *)
(* never a verdict.  Events are independent.                               *)
(***************************************************************************)
EXTENDS JqCore, Json
Trace == ndJsonDeserialize("trace.ndjson")
VARIABLE l

Has(e, f) == f \in DOMAIN e
RefBroken(e) == Has(e, "engine_panic") \/ (Has(e, "gj") /\ \E i \in 1 .. Len(e.gj) : e.gj[i].k \in {"x", "halt"})
RefErr(e) == e.gj # <<>> /\ e.gj[Len(e.gj)].k = "e"
IsPrefix(p, s) == Len(p) <= Len(s) /\ SubSeq(s, 1, Len(p)) = p
ErrPrefix == <<101, 114, 114, 111, 114, 58, 32>>       \* "error: "

(* plain command line against the reference: same values, an error at the same position (exit status 5), and on stderr *)
(* exactly the side-channel text followed by nothing, or by the error report                                          *)
CliOK(e) ==
    LET c == e.cli IN
    /\ ~Has(c, "bad") /\ ~c.timeout /\ ~c.panic
    /\ Len(c.out) = Len(e.gj)
    /\ \A i \in 1 .. Len(e.gj) : IF e.gj[i].k = "v" THEN c.out[i] = e.gj[i] ELSE c.out[i].k = "e"
    /\ c.exit = (IF RefErr(e) THEN 5 ELSE 0)
    /\ IsPrefix(e.gj_stderr, c.stderr)
    /\ LET rest == SubSeq(c.stderr, Len(e.gj_stderr) + 1, Len(c.stderr)) IN
       IF RefErr(e) THEN IsPrefix(ErrPrefix, rest) ELSE rest = <<>>

Sig(e) ==
    IF Has(e, "gj_compile") THEN
        (IF Has(e, "cli") /\ (e.cli.exit = 0 \/ e.cli.out # <<>>) THEN "jq.fq_accepts_what_reference_rejects" ELSE "ok")
    ELSE IF RefBroken(e) THEN "ok"
    ELSE IF Has(e, "fq_failed") THEN "jq.fq_failed"
    ELSE IF Has(e, "fq") /\ ~SameOutcomes(e.fq, e.gj) THEN "jq.fq_differs"
    ELSE IF Has(e, "cli") /\ ~CliOK(e) THEN "jq.cli_differs"
    ELSE "ok"

(* the third voice: inside the core, JqCore.Run must agree with the reference (outcomes and side channel) *)
SpecOf(e) == IF Has(e, "spec") THEN e.spec
             ELSE IF Has(e, "ast") /\ Has(e, "lits") THEN Run(e.ast, e.input, IF Has(e, "inputs") THEN e.inputs ELSE <<>>, e.lits)
             ELSE [core |-> FALSE]
SameAsSpec(sp, e) ==
    /\ Len(sp.out) = Len(e.gj)
    /\ \A i \in 1 .. Len(e.gj) :
          IF e.gj[i].k = "v" THEN sp.out[i] = e.gj[i]
          ELSE sp.out[i].k = "e" /\ sp.out[i].u = e.gj[i].u /\ (e.gj[i].u => sp.out[i].v = e.gj[i].v)
    /\ sp.side = e.gj_side
Judge(e) == IF Has(e, "gj_compile") \/ RefBroken(e) THEN "none"
            ELSE LET sp == SpecOf(e) IN
                 IF ~sp.core THEN "none" ELSE IF SameAsSpec(sp, e) THEN "core" ELSE "drift"

TInit == l = 1
TNext == /\ l <= Len(Trace)
         /\ LET e == Trace[l] s == Sig(e) j == Judge(e) IN
              /\ IF s = "ok" THEN TRUE ELSE PrintT(<<"REJECT", l, s>>)
              /\ IF j = "drift" THEN PrintT(<<"DRIFT", l>>) ELSE TRUE
              /\ IF ~Has(e, "spec") /\ j # "none" THEN PrintT(<<"CORE", l>>) ELSE TRUE
         /\ l' = l + 1
TSpec == TInit /\ [][TNext]_l
Consumed == TLCGet("stats").diameter - 1 = Len(Trace)
=============================================================================
