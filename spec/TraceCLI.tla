----------------------------- MODULE TraceCLI -----------------------------
(***************************************************************************)
(* TV mode for C17.  Every event is one real fq command line:              *)
(*   toks   tagged tokens (sym = what was passed; tags re-checked here)    *)
(*   fidx   indices of the tokens that are input files                     *)
(*   stdin  kind of the stdin content                                      *)
(*   exit, stdout   of the real in-process Main                            *)
(*   solo   [exit, stdout] of the same command line with only the i-th     *)
(*          input file, one entry per fidx                                 *)
(* Events are independent: a rejected event is reported and skipped.       *)
(* Verdict (as required):  exit class; stdout demanded by the mode         *)
(* semantics; stdout = concatenation of the REAL solo outputs of the good  *)
(* inputs.  DRIFT: the transcriptions (ArgsParse, loop machine) disagree   *)
(* with the requirement on this vector although the real code satisfied it.*)
(***************************************************************************)
EXTENDS CLI, Json
Trace == ndJsonDeserialize("trace.ndjson")
VARIABLE l

FileNames(e) == [i \in 1 .. Len(e.fidx) |-> JoinSyms(e.toks[e.fidx[i]].sym)]
\* classification of one event: "" = accepted
Verdict(e) ==
    LET r == RunIntent(e.toks, e.stdin) IN
    CASE r.st = "illtagged" -> "BADTAG"
      [] r.st \in {"undoc", "unknown"} -> "UNJUDGED"
      [] r.st = "argerr" ->
            IF e.exit = 2 /\ e.stdout = "" THEN ""
            ELSE "argerr.exit" \o ToString(e.exit) \o (IF e.stdout = "" THEN "" ELSE ".with_output")
      [] OTHER ->
            LET cfg == r.cfg
                tag == cfg.mode \o (IF cfg.nullin THEN "+n" ELSE "") \o "." \o cfg.prog
                namesOK == Len(e.fidx) = 0 \/ FileNames(e) = [i \in 1 .. Len(cfg.inputs) |-> cfg.inputs[i].name]
                gi == GoodIdx(cfg)
            IN IF UsesJqSpelling(e.toks) /\ e.exit = 2 /\ e.stdout = "" THEN "args.jq_rawfile_spelling_rejected"
               ELSE IF ~namesOK THEN "BADTAG"
               ELSE IF EmptyRawText(cfg) /\ e.exit = Built(cfg).exit /\ e.stdout = Built(cfg).out /\ (e.stdout # r.out \/ e.exit # r.exit)
                    THEN "rawinput.empty_text_yields_one_empty_line"
               ELSE IF e.exit # r.exit THEN "exit." \o tag \o ".req" \o ToString(r.exit) \o ".got" \o ToString(e.exit)
               ELSE IF e.stdout # r.out THEN "out." \o tag
               ELSE IF IndepApplies(cfg) /\ Len(e.fidx) > 0 /\ Len(e.solo) # Len(e.fidx) THEN "NOSOLO"
               ELSE IF IndepApplies(cfg) /\ Len(e.fidx) > 0
                       /\ e.stdout # CatStr([k \in 1 .. Len(gi) |-> e.solo[gi[k]].stdout])
                    THEN \* the known empty-text defect shows in the SOLO run of an empty file under --raw-input
                         IF cfg.mode = "raw" /\ e.stdout = CatStr([k \in 1 .. Len(gi) |->
                                IF KindContent(cfg.inputs[gi[k]].kind) = <<>> THEN "" ELSE e.solo[gi[k]].stdout])
                         THEN "rawinput.empty_text_yields_one_empty_line"
                         ELSE "indep." \o tag
               ELSE ""
Drift(e) ==
    LET it == Intent(e.toks) IN
    \/ ~RefinesIntent(e.toks) /\ ~UsesJqSpelling(e.toks)
    \/ it.st = "ok" /\ LET cfg == OptEval(it.flags, it.pos, e.stdin) IN cfg.st = "ok" /\ Built(cfg) # Req(cfg) /\ ~EmptyRawText(cfg)

TInit == l = 1
TNext == /\ l <= Len(Trace)
         /\ LET e == Trace[l]
                v == Verdict(e)
            IN /\ IF v = "" THEN TRUE
                  ELSE IF v \in {"UNJUDGED", "BADTAG", "NOSOLO"} THEN PrintT(<<v, l>>)
                  ELSE PrintT(<<"REJECT", l, v>>)
               /\ IF Drift(e) THEN PrintT(<<"DRIFT", l>>) ELSE TRUE
         /\ l' = l + 1
TSpec == TInit /\ [][TNext]_l
Consumed == TLCGet("stats").diameter - 1 = Len(Trace)
=============================================================================
