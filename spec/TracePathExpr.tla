---------------------------- MODULE TracePathExpr ----------------------------
(* every event: a path p, what real fq returned for `p | path_to_expr | expr_to_path` (back, ok) *)
EXTENDS Integers, Sequences, TLC, Json
Trace == ndJsonDeserialize("trace.ndjson")
VARIABLE l
Sig(e) == IF ~e.ok THEN (IF \E i \in DOMAIN e.p : e.p[i].k = "s" /\ e.p[i].s = "" THEN "pathexpr.empty_string_key" ELSE "pathexpr.expression_does_not_evaluate")
          ELSE IF e.back = e.p THEN "ok"
          ELSE IF \E i \in DOMAIN e.p : e.p[i].k = "s" /\ e.p[i].s = "" THEN "pathexpr.empty_string_key"
          ELSE "pathexpr.round_trip_differs"
TInit == l = 1
TNext == /\ l <= Len(Trace)
         /\ IF Sig(Trace[l]) = "ok" THEN TRUE ELSE PrintT(<<"REJECT", l, Sig(Trace[l])>>)
         /\ l' = l + 1
TSpec == TInit /\ [][TNext]_l
Consumed == TLCGet("stats").diameter - 1 = Len(Trace)
=============================================================================
