--------------------------- MODULE TraceCtxStack ---------------------------
(* TV mode, sequential histories recorded from the real ctxstack.Stack (and from pkg/interp).         *)
(* One event per operation:  [op, a, id, got, w]  where got[k] = 1 iff ctx.Err() # nil for the k-th    *)
(* context ever pushed, sampled after the operation returned, and w[k] = 1 iff a write through an     *)
(* iox.CtxWriter bound to that context was accepted and delivered (0: refused, nothing delivered).    *)
(* {"op":"reset"} starts a new history.                                                               *)
(* The model state is a function of the logged operations only, so a rejected event is reported       *)
(* (<<"REJECT", line, signature>>) and the run goes on: every rejection of every history is judged.   *)
(* <<"DRIFT", line>>: the real code differs from the transcription of the pinned (unrepaired) code.   *)
EXTENDS CtxStackSeq, TLC, Json
Trace == ndJsonDeserialize("trace.ndjson")
VARIABLES l, m, b
tvars == <<l, m, b>>

TInit == l = 1 /\ m = RInit /\ b = BInit
TNext ==
    /\ l <= Len(Trace)
    /\ l' = l + 1
    /\ LET e == Trace[l]
           o == Op(e.op, e.a)
       IN IF e.op = "reset" THEN m' = RInit /\ b' = BInit
          ELSE IF ~RLegal(m, o) \/ (e.op = "push" /\ e.id # m.n + 1)
          THEN PrintT(<<"REJECT", l, "ctxstack.trace_malformed">>) /\ UNCHANGED <<m, b>>
          ELSE LET m1 == RApply(m, o)
                   b1 == BApply(b, o)
               IN /\ m' = m1 /\ b' = b1
                  /\ IF e.got = RVec(m1) THEN TRUE ELSE PrintT(<<"REJECT", l, SeqSig(m1, b1, e.got)>>)
                  \* Suppress: output written after cancellation is refused (and only then)
                  /\ IF e.got # RVec(m1) \/ e.w = [k \in 1 .. m1.n |-> 1 - RVec(m1)[k]] THEN TRUE
                     ELSE PrintT(<<"REJECT", l, "iox.ctxwriter_write_vs_cancellation">>)
                  /\ IF e.got = BVec(b1) THEN TRUE ELSE PrintT(<<"DRIFT", l>>)
TSpec == TInit /\ [][TNext]_tvars
Consumed == TLCGet("stats").diameter - 1 = Len(Trace)
=============================================================================
