------------------------------- MODULE CLIMC -------------------------------
(***************************************************************************)
(* MC mode for part (c) of CLI.tla: the input loop of fq as a state        *)
(* machine (one action per branch of input/_input/_input_string, _cli_eval *)
(* and the _finally block of _main), explored for EVERY configuration      *)
(* inside the constants, and checked against the declarative requirement.  *)
(***************************************************************************)
EXTENDS CLI
CONSTANTS MaxInputs,    \* longest input list
          MaxInputsEach,\* longest input list in the per-input mode "each" (>= MaxInputs)
          Kinds,        \* input kinds used, subset of AllKinds
          ProgSet,      \* program tags used
          Modes         \* subset of {"each", "slurp", "raw", "rawslurp"}
VARIABLES cfg, s
vars == <<cfg, s>>

D0 == [compact |-> FALSE, raw |-> FALSE, join |-> "\n"]
KindLists(max) == UNION {[1 .. n -> Kinds] : n \in 0 .. max}
Cfg(p, ks, m, n) == [st |-> "ok", prog |-> p, inputs |-> [i \in 1 .. Len(ks) |-> In(KindFile(ks[i]), ks[i])],
                     mode |-> m, nullin |-> n, disp |-> D0, xbound |-> FALSE, xval |-> JNull]
Cfgs == {Cfg(p, ks, m, n) : p \in ProgSet, ks \in KindLists(MaxInputs), m \in Modes, n \in BOOLEAN}
        \cup {Cfg(p, ks, "each", n) : p \in ProgSet, ks \in KindLists(MaxInputsEach) \ KindLists(MaxInputs), n \in BOOLEAN}

Init == cfg \in Cfgs /\ s = LoopInit(cfg)

\* TLC register k records that action k fired (read by AllFired in the single-worker vacuity run; -coverage hangs on this module)
Act(En(_, _), Do(_, _), k) == En(cfg, s) /\ s' = Do(cfg, s) /\ UNCHANGED cfg /\ TLCSet(k, TRUE)
CompileError     == Act(CompileErrorEn, CompileErrorDo, 1)
Begin            == Act(BeginEn, BeginDo, 2)
Take             == Act(TakeEn, TakeDo, 3)
OpenOk           == Act(OpenOkEn, OpenOkDo, 4)
OpenFail         == Act(OpenFailEn, OpenFailDo, 5)
DecodeOk         == Act(DecodeOkEn, DecodeOkDo, 6)
DecodeFail       == Act(DecodeFailEn, DecodeFailDo, 7)
LoadLines        == Act(LoadLinesEn, LoadLinesDo, 8)
NextLine         == Act(NextLineEn, NextLineDo, 9)
AccDone          == Act(AccDoneEn, AccDoneDo, 10)
StartCollect     == Act(StartCollectEn, StartCollectDo, 11)
EvalEmit         == Act(EvalEmitEn, EvalEmitDo, 12)
EvalRuntimeError == Act(EvalRuntimeErrorEn, EvalRuntimeErrorDo, 13)
Halt             == Act(HaltEn, HaltDo, 14)
ToFinal          == Act(ToFinalEn, ToFinalDo, 15)
Finally          == Act(FinallyEn, FinallyDo, 16)
Done             == s.pc = "done" /\ UNCHANGED vars

Next == \/ CompileError \/ Begin \/ Take \/ OpenOk \/ OpenFail \/ DecodeOk \/ DecodeFail \/ LoadLines \/ NextLine
        \/ AccDone \/ StartCollect \/ EvalEmit \/ EvalRuntimeError \/ Halt \/ ToFinal \/ Finally \/ Done
Spec == Init /\ [][Next]_vars
\* single-worker vacuity run: all initial states are computed (registers cleared) before the first action fires
InitVac == Init /\ \A k \in 1 .. 16 : TLCSet(k, FALSE)
SpecVac == InitVac /\ [][Next]_vars

\* ---- properties -------------------------------------------------------------
\* exit = 3 for a program that does not compile; the halt code after halt_error; else 2 if any io error,
\* else 4 if any decode error, else 5 if a runtime error, else 0  -- stated over the INPUT LIST, not over error memory
ExitOK == s.pc = "done" => s.exit = Req(cfg).exit
\* the output is what the mode semantics demand of the good inputs
OutOK == s.pc = "done" => s.out = Req(cfg).out
\* independence: out = concatenation of the solo outputs of the good inputs in argument order
Independence == (s.pc = "done" /\ IndepApplies(cfg)) => s.out = IndepOut(cfg)
\* as built, with the known hole (only reachable when "E" is among Kinds)
OutOKOrKnownEmptyRaw == s.pc = "done" => (s.out = Req(cfg).out \/ EmptyRawText(cfg))
\* a failing input never changes the error memory of another class, nothing is forgotten
MemoryMonotone == [][/\ Len(s'.ioErrs) >= Len(s.ioErrs) /\ Len(s'.decodeErrs) >= Len(s.decodeErrs)
                     /\ (s.lastExprErr => s'.lastExprErr)]_vars
\* exactly one action is enabled until done (so LoopRun is the same machine)
Enabled1(c, x) == Cardinality({k \in 1 .. 16 :
    <<CompileErrorEn(c, x), BeginEn(c, x), TakeEn(c, x), OpenOkEn(c, x), OpenFailEn(c, x), DecodeOkEn(c, x), DecodeFailEn(c, x),
      LoadLinesEn(c, x), NextLineEn(c, x), AccDoneEn(c, x), StartCollectEn(c, x), EvalEmitEn(c, x), EvalRuntimeErrorEn(c, x),
      HaltEn(c, x), ToFinalEn(c, x), FinallyEn(c, x)>>[k]})
Deterministic == s.pc # "done" => Enabled1(cfg, s) = 1
\* the functional form used by GEN/TV is this machine
SameAsFunction == s.pc = "done" => Built(cfg) = [exit |-> s.exit, out |-> s.out]
\* vacuity: every action fired somewhere (POSTCONDITION of the -workers 1 run)
ActionNames == <<"CompileError", "Begin", "Take", "OpenOk", "OpenFail", "DecodeOk", "DecodeFail", "LoadLines", "NextLine",
                 "AccDone", "StartCollect", "EvalEmit", "EvalRuntimeError", "Halt", "ToFinal", "Finally">>
AllFired == \A k \in 1 .. 16 : IF TLCGet(k) = TRUE THEN TRUE ELSE PrintT(<<"UNFIRED", ActionNames[k]>>) /\ FALSE
\* anti-vacuity probes (expected to be VIOLATED): used by the check to show the interesting states are reached
NeverExit2With4And5 == ~(s.pc = "done" /\ s.exit = 2 /\ Len(s.decodeErrs) > 0 /\ s.lastExprErr /\ s.out # "")
=============================================================================
