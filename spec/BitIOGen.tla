------------------------------ MODULE BitIOGen ------------------------------
(* GEN mode for C01: every small reader composition x every short request history. *)
EXTENDS BitIO, Json
CONSTANTS LenA, LenB, LenF,     \* bit lengths of leaves "a", "b" and of the byte file "f" (LenF a multiple of 8)
          K,                    \* history length
          Depth2,               \* TRUE: also compositions of compositions
          ReadNs, SeekFwd, SeekBack, ByteReadNs, ByteSeekFwd, ByteSeekBack, QPs   \* cfg files cannot hold negative numbers

Leaf(id) == [t |-> "leaf", id |-> id]
File == [t |-> "file", id |-> "f"]
Sec(x, o, n) == [t |-> "section", r |-> x, off |-> o, n |-> n]
Mul(x, y) == [t |-> "multi", rs |-> <<x, y>>]
Zero(n) == [t |-> "zero", n |-> n]
ToB(x) == [t |-> "tobytes", r |-> x]
FromB(y) == [t |-> "frombytes", y |-> y]
Ahead(y, m) == [t |-> "ahead", y |-> y, m |-> m]
Prog(y, n) == [t |-> "progress", y |-> y, n |-> n]
Ctx(y) == [t |-> "ctx", y |-> y]
Lim(x, n) == [t |-> "limit", r |-> x, n |-> n]
IOR(x) == [t |-> "ioreader", r |-> x]

B0 == {Leaf("a"), Leaf("b")}
SecsOf(S) == {Sec(x, o, n) : x \in S, o \in {0, 3}, n \in {0, 5, 9}}
MulsOf(S) == {Mul(x, y) : x \in S, y \in S} \cup {Mul(x, Zero(5)) : x \in S} \cup {Mul(Zero(3), x) : x \in S}
B1 == B0 \cup SecsOf(B0) \cup MulsOf(B0) \cup {FromB(File), FromB(Ahead(File, 2))}
B2 == IF Depth2 THEN SecsOf({Mul(Leaf("a"), Leaf("b"))}) \cup {Mul(Sec(Leaf("a"), 3, 5), Leaf("b")), FromB(ToB(Leaf("a"))), FromB(ToB(Sec(Leaf("b"), 3, 9)))}
      ELSE {}
BitTerms == B1 \cup B2
Y1 == {File, ToB(Leaf("a")), ToB(Sec(Leaf("b"), 3, 9)), ToB(Mul(Leaf("a"), Leaf("b")))}
ByteTerms == Y1 \cup {Ahead(y, m) : y \in Y1, m \in {1, 3}} \cup {Prog(File, LenF \div 8), Ctx(File), Ctx(ToB(Leaf("a")))}
                \cup {Ahead(Prog(Ctx(File), LenF \div 8), 4)}
TopOnly == {Lim(Leaf("a"), 7), Lim(Sec(Leaf("b"), 3, 9), 20), IOR(Leaf("a")), IOR(Mul(Leaf("a"), Leaf("b")))}

Req(op, n, off, wh, qp) == [op |-> op, h |-> 0, h2 |-> 0, n |-> n, off |-> off, wh |-> wh, qp |-> qp]
BitOps == {Req("read", n, 0, 0, q) : n \in ReadNs, q \in QPs}
          \cup {Req("readat", n, o, 0, FALSE) : n \in {3, 9}, o \in {0, 5}}
          \cup {Req("readfull", n, 0, 0, FALSE) : n \in {5, 16}}
          \cup {Req("seek", 0, o, w, FALSE) : o \in SeekFwd \cup {0 - x : x \in SeekBack}, w \in 0 .. 2}
ByteOps == {Req("read", n, 0, 0, q) : n \in ByteReadNs, q \in QPs}
           \cup {Req("readfull", n, 0, 0, FALSE) : n \in {1, 3}}
           \cup {Req("readbyte", 1, 0, 0, FALSE)}
           \cup {Req("seek", 0, o, w, FALSE) : o \in ByteSeekFwd \cup {0 - x : x \in ByteSeekBack}, w \in 0 .. 2}
ReadOnly == {r \in BitOps : r.op \in {"read", "readfull"}}
\* sections that reach beyond the end of what they are a section of (their denotation stops at that end): reads only - SeekBits from
\* the end answers with the declared length, and a multi reader over such a section is outside the contract (ReaderStack.tla, Overlong)
Over == {Sec(Leaf("a"), 8, 9), Sec(Sec(Leaf("a"), 3, 9), 5, 9), Sec(Sec(Leaf("b"), 0, 11), 3, 13), Sec(Mul(Leaf("a"), Leaf("b")), 20, 15)}
ReadsAt == {r \in BitOps : r.op \in {"read", "readat", "readfull"}}
ReadOnlyB == {r \in ByteOps : r.op \in {"read", "readfull", "readbyte"}}

Lens == [a |-> LenA, b |-> LenB, f |-> LenF]
Cases == {[term |-> t, lens |-> Lens, reqs |-> h] : t \in BitTerms, h \in [1 .. K -> BitOps]}
         \cup {[term |-> t, lens |-> Lens, reqs |-> h] : t \in ByteTerms, h \in [1 .. K -> ByteOps]}
         \cup {[term |-> t, lens |-> Lens, reqs |-> h] : t \in {x \in TopOnly : x.t = "limit"}, h \in [1 .. K -> ReadOnly]}
         \cup {[term |-> t, lens |-> Lens, reqs |-> h] : t \in Over, h \in [1 .. K -> ReadsAt]}
         \cup {[term |-> t, lens |-> Lens, reqs |-> h] : t \in {x \in TopOnly : x.t = "ioreader"}, h \in [1 .. K -> ReadOnlyB]}

VARIABLE g
GInit == g \in Cases
GNext == FALSE /\ g' = g
GSpec == GInit /\ [][GNext]_g
Emit == PrintT(ToJson(g))
=============================================================================
