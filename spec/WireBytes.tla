----------------------------- MODULE WireBytes -----------------------------
(***************************************************************************)
(* C16: byte-level helpers shared by the Wire_* modules (variable-free).   *)
(*                                                                         *)
(* Conventions (G5: TLC integers are 32-bit)                               *)
(*  - a byte string is a sequence of integers 0..255, optionally run-      *)
(*    length compressed: a NEGATIVE entry -n followed by a byte b stands   *)
(*    for n copies of b (only used for the 2^16-boundary cases; the        *)
(*    harness expands it).  RLen is the expanded length.                   *)
(*  - an integer VALUE is a record [t |-> "int", neg, mag] where mag is    *)
(*    the magnitude as a minimal big-endian byte sequence (zero = <<>>).   *)
(*    Widths are produced by zero-/sign-extending that sequence, so 64-bit *)
(*    values never pass through TLC arithmetic.                            *)
(*  - lengths and counts are small TLC integers (< 2^31).                  *)
(*  - an IEEE float value is its binary64 bit pattern as 8 bytes.          *)
(*                                                                         *)
(* JSON-like values are tagged records with pairwise different field sets  *)
(* (TLC refuses to compare values of different types, records with         *)
(* different domains compare unequal without looking at the fields):       *)
(*   [t |-> "null"]            [t |-> "bool", b]      [t |-> "int", neg, mag]*)
(*   [t |-> "f64", bits]       [t |-> "str", s]       [t |-> "bin", x]     *)
(*   [t |-> "arr", a]          [t |-> "map", k, v]    (k: byte strings)    *)
(*   [t |-> "nulls", n]        array of n nulls (count-boundary cases)     *)
(* plus format specific ones (ext, tag, undef, bson specials).             *)
(***************************************************************************)
EXTENDS Integers, Sequences, FiniteSets, SequencesExt, TLC

(***************************** values *************************************)
Null      == [t |-> "null"]
Bool(b)   == [t |-> "bool", b |-> b]
IntV(n, m) == [t |-> "int", neg |-> n, mag |-> m]
F64(bits) == [t |-> "f64", bits |-> bits]
Str(s)    == [t |-> "str", s |-> s]
Bin(x)    == [t |-> "bin", x |-> x]
Arr(a)    == [t |-> "arr", a |-> a]
Map(k, v) == [t |-> "map", k |-> k, v |-> v]
Nulls(n)  == [t |-> "nulls", n |-> n]

(************************** byte sequences ********************************)
Zeros(n) == [i \in 1..n |-> 0]
Rev(s)   == [i \in 1..Len(s) |-> s[Len(s) + 1 - i]]

\* n copies of byte b; runs of 8 or more are written as a marker (the
\* harness uses the same threshold when it projects fq's strings)
RunMin == 8
Rep(n, b) == IF n < RunMin THEN [i \in 1..n |-> b] ELSE << -n, b >>

\* expanded length: a marker -n and the byte after it stand for n bytes (fold: TLC evaluates a recursive
\* definition over a 100+ element state-level sequence pathologically slowly)
RLen(s) == FoldLeft(LAMBDA acc, x : IF x < 0 THEN acc + (-x) - 1 ELSE acc + 1, 0, s)

RECURSIVE Flat(_)
Flat(ss) == IF Len(ss) = 0 THEN <<>> ELSE ss[1] \o Flat(Tail(ss))

\* big-endian w bytes of a small natural n (n < 2^31)
BE(n, w) == IF w <= 4
            THEN LET b4 == << (n \div 16777216) % 256, (n \div 65536) % 256, (n \div 256) % 256, n % 256 >>
                 IN SubSeq(b4, 5 - w, 4)
            ELSE Zeros(w - 4) \o << (n \div 16777216) % 256, (n \div 65536) % 256, (n \div 256) % 256, n % 256 >>
LE(n, w) == Rev(BE(n, w))
FitsSmall(n, w) == w >= 4 \/ (w = 1 /\ n < 256) \/ (w = 2 /\ n < 65536) \/ (w = 3 /\ n < 16777216)

RECURSIVE Strip(_)
Strip(s) == IF Len(s) > 0 /\ s[1] = 0 THEN Strip(Tail(s)) ELSE s
\* magnitude (minimal big-endian bytes) of a small natural
MagOf(n) == Strip(BE(n, 4))
\* small natural of a magnitude of at most 3 bytes
SmallOf(m) == IF Len(m) = 0 THEN 0 ELSE IF Len(m) = 1 THEN m[1]
              ELSE IF Len(m) = 2 THEN m[1] * 256 + m[2] ELSE m[1] * 65536 + m[2] * 256 + m[3]

(********************* integers as byte sequences *************************)
UFits(m, w) == Len(m) <= w
UExt(m, w)  == Zeros(w - Len(m)) \o m                  \* zero-extend to w bytes
Inv(s)      == [i \in 1..Len(s) |-> 255 - s[i]]
RECURSIVE IncAt(_, _)
IncAt(s, i) == IF i = 0 THEN s                          \* overflow wraps (not reached for fitting values)
               ELSE IF s[i] = 255 THEN IncAt([s EXCEPT ![i] = 0], i - 1)
               ELSE [s EXCEPT ![i] = s[i] + 1]
Inc(s) == IncAt(s, Len(s))
RECURSIVE DecAt(_, _)
DecAt(s, i) == IF i = 0 THEN s
               ELSE IF s[i] = 0 THEN DecAt([s EXCEPT ![i] = 255], i - 1)
               ELSE [s EXCEPT ![i] = s[i] - 1]
Dec(s) == DecAt(s, Len(s))
AllZero(s) == \A i \in 1..Len(s) : s[i] = 0

\* does the integer v fit two's complement of w bytes, and its encoding
SFits(v, w) == LET m == v.mag IN
    IF ~v.neg THEN Len(m) < w \/ (Len(m) = w /\ m[1] < 128)
    ELSE Len(m) < w \/ (Len(m) = w /\ (m[1] < 128 \/ (m[1] = 128 /\ AllZero(Tail(m)))))
SEnc(v, w) == IF ~v.neg THEN UExt(v.mag, w) ELSE Inc(Inv(UExt(v.mag, w)))
IsZero(v) == Len(v.mag) = 0

\* decimal ASCII digits of a magnitude: long division by 10 on the bytes
RECURSIVE DivStep(_, _, _, _)
DivStep(m, i, r, q) == IF i > Len(m) THEN [q |-> q, r |-> r]
                       ELSE LET x == r * 256 + m[i] IN DivStep(m, i + 1, x % 10, Append(q, x \div 10))
RECURSIVE DecDigits(_)
DecDigits(m) == IF Len(m) = 0 THEN <<>>
                ELSE LET d == DivStep(m, 1, 0, <<>>) IN Append(DecDigits(Strip(d.q)), 48 + d.r)
Decimal(m) == IF Len(m) = 0 THEN <<48>> ELSE DecDigits(m)

(***************************** bits / floats ******************************)
ByteBits(b) == << (b \div 128) % 2, (b \div 64) % 2, (b \div 32) % 2, (b \div 16) % 2,
                  (b \div 8) % 2, (b \div 4) % 2, (b \div 2) % 2, b % 2 >>
RECURSIVE BitsOf(_)
BitsOf(s) == IF Len(s) = 0 THEN <<>> ELSE ByteBits(s[1]) \o BitsOf(Tail(s))
RECURSIVE BitsVal(_)          \* small value of a short bit sequence
BitsVal(bs) == IF Len(bs) = 0 THEN 0 ELSE 2 * BitsVal(SubSeq(bs, 1, Len(bs) - 1)) + bs[Len(bs)]
RECURSIVE BytesOfBits(_)
BytesOfBits(bs) == IF Len(bs) = 0 THEN <<>> ELSE <<BitsVal(SubSeq(bs, 1, 8))>> \o BytesOfBits(SubSeq(bs, 9, Len(bs)))
BitsOfVal(n, w) == [i \in 1..w |-> (n \div (2 ^ (w - i))) % 2]
Pow2(n) == 2 ^ n
FirstOne(bs) == CHOOSE p \in 1..Len(bs) : bs[p] = 1 /\ \A q \in 1..(p - 1) : bs[q] = 0

\* widen an IEEE pattern with E exponent and M mantissa bits (given as bytes)
\* to binary64 (8 bytes), exactly, on bit sequences
Widen(bytes, E, M) ==
    LET bs   == BitsOf(bytes)
        s    == bs[1]
        e    == BitsVal(SubSeq(bs, 2, E + 1))
        m    == SubSeq(bs, E + 2, E + M + 1)
        bias == Pow2(E - 1) - 1
        pad(x) == x \o Zeros(52 - Len(x))
        out(e2, m2) == BytesOfBits(<<s>> \o BitsOfVal(e2, 11) \o pad(m2))
    IN IF e = Pow2(E) - 1 THEN out(2047, m)
       ELSE IF e = 0 THEN
            IF AllZero(m) THEN out(0, m)
            ELSE LET p == FirstOne(m) IN out(1 - bias - p + 1023, SubSeq(m, p + 1, M))
       ELSE out(e - bias + 1023, m)
WidenHalf(b2)   == Widen(b2, 5, 10)
WidenSingle(b4) == Widen(b4, 8, 23)

\* narrow a binary64 pattern (8 bytes) to E exponent / M mantissa bits if that is exact, else <<>>
Narrow(bytes8, E, M) ==
    LET bs   == BitsOf(bytes8)
        s    == bs[1]
        e    == BitsVal(SubSeq(bs, 2, 12))
        m    == SubSeq(bs, 13, 64)
        bias == Pow2(E - 1) - 1
        x    == e - 1023
        out(e2, m2) == BytesOfBits(<<s>> \o BitsOfVal(e2, E) \o m2)
        fitsM(full) == AllZero(SubSeq(full, M + 1, Len(full)))
    IN IF e = 2047 THEN (IF fitsM(m) THEN out(Pow2(E) - 1, SubSeq(m, 1, M)) ELSE <<>>)
       ELSE IF e = 0 THEN (IF AllZero(m) THEN out(0, Zeros(M)) ELSE <<>>)
       ELSE IF x > bias THEN <<>>
       ELSE IF x >= 1 - bias THEN (IF fitsM(m) THEN out(x + bias, SubSeq(m, 1, M)) ELSE <<>>)
       ELSE LET sh == (1 - bias) - x IN
            IF sh > M THEN <<>>
            ELSE LET full == Zeros(sh - 1) \o <<1>> \o m IN
                 IF fitsM(full) THEN out(0, SubSeq(full, 1, M)) ELSE <<>>
NarrowSingle(b8) == Narrow(b8, 8, 23)
NarrowHalf(b8)   == Narrow(b8, 5, 10)

\* concatenations of one element of each set of a sequence of sets
RECURSIVE CatAll(_)
CatAll(sets) == IF Len(sets) = 0 THEN {<<>>} ELSE {a \o b : a \in sets[1], b \in CatAll(Tail(sets))}

\* the binary64 pattern of an integer (neg, mag) if it is exactly representable, else <<>>
SigBits(m) == LET bs == BitsOf(m) IN IF AllZero(bs) THEN <<>> ELSE SubSeq(bs, FirstOne(bs), Len(bs))
F64OfInt(v) ==
    LET sb == SigBits(v.mag) k == Len(sb) IN
    IF k = 0 THEN Zeros(8)
    ELSE IF k > 53 /\ ~AllZero(SubSeq(sb, 54, k)) THEN <<>>
    ELSE LET frac == IF k > 53 THEN SubSeq(sb, 2, 53) ELSE SubSeq(sb, 2, k) \o Zeros(53 - k)
         IN BytesOfBits(<<IF v.neg THEN 1 ELSE 0>> \o BitsOfVal(1023 + k - 1, 11) \o frac)

(*************************** UTF-8 chunking *******************************)
IsCont(b) == b >= 128 /\ b <= 191
\* positions 0..Len(s) at which a (plain, marker-free) UTF-8 string may be cut
CharCuts(s)  == {i \in 0..Len(s) : i = Len(s) \/ ~IsCont(s[i + 1])}
ByteCuts(s)  == 0..Len(s)

(********************** representation equality ***************************)
\* want/got are tagged values; maps compare as sets of pairs (JSON objects
\* are unordered), numbers compare by value across int/f64.
NumEq(a, b) == \/ a = b
               \/ a.t = "int" /\ b.t = "f64" /\ ~(IsZero(a) /\ a.neg) /\ F64OfInt(a) = b.bits
               \/ a.t = "f64" /\ b.t = "int" /\ F64OfInt(b) = a.bits
RECURSIVE ReprEq(_, _)
ReprEq(w, g) ==
    IF w.t \in {"int", "f64"} /\ g.t \in {"int", "f64"} THEN NumEq(w, g)
    ELSE IF w.t # g.t THEN FALSE
    ELSE IF w.t = "arr" THEN Len(w.a) = Len(g.a) /\ \A i \in 1..Len(w.a) : ReprEq(w.a[i], g.a[i])
    ELSE IF w.t = "map" THEN
         /\ Len(w.k) = Len(g.k) /\ Len(g.k) = Len(g.v)
         /\ \A i \in 1..Len(w.k) : \E j \in 1..Len(g.k) : w.k[i] = g.k[j] /\ ReprEq(w.v[i], g.v[j])
         /\ \A i, j \in 1..Len(g.k) : g.k[i] = g.k[j] => i = j
    ELSE w = g
=============================================================================
