SPECIFICATION Spec
CONSTANTS L = 4
 MaxN = 2
 Slack = 1
INVARIANT HoleNeverHappens
CHECK_DEADLOCK FALSE
