------------------------------ MODULE JsonVal ------------------------------
(***************************************************************************)
(* The JSON value universe as TAGGED records (TLC refuses to compare an    *)
(* integer with a string, so every value is a record whose "t" field says  *)
(* what the "v" field holds):                                              *)
(*                                                                         *)
(*   [t |-> "null"]  [t |-> "false"]  [t |-> "true"]                       *)
(*   [t |-> "num", n |-> 1]              small TLC integer                 *)
(*   [t |-> "big", b |-> <<49, 101, ..>>] number outside TLC's integers    *)
(*                                       (traces only: canonical text as   *)
(*                                       a sequence of code points)        *)
(*   [t |-> "str", s |-> <<97, 98>>]     sequence of Unicode code points   *)
(*   [t |-> "arr", v |-> <<...>>]        sequence of values                *)
(*   [t |-> "obj", k |-> <<k1,..>>, v |-> <<v1,..>>]                       *)
(*                                       keys (code point sequences),      *)
(*                                       strictly sorted, and their values *)
(*                                                                         *)
(* The payload field is named after the type (n, s, b; v for the element   *)
(* sequences of arrays and objects): TLC compares records field by field   *)
(* in an order it chooses, so two values of different type must never      *)
(* share a payload field of different shape (comparing 0 with <<>> is an   *)
(* evaluation error).  With distinct field names a comparison of values of *)
(* different type is decided on the field names alone.                     *)
(* Strings are code point sequences, not TLA+ strings: TLC cannot index or *)
(* order TLA+ strings and its JSON reader garbles non-ASCII text.  `Chr`   *)
(* maps printable ASCII code points back to one-character TLA+ strings for *)
(* the printers.                                                           *)
(* Variable-free; meant to be EXTENDed.                                    *)
(***************************************************************************)
EXTENDS Integers, Sequences, FiniteSets, TLC

JNull  == [t |-> "null"]
JFalse == [t |-> "false"]
JTrue  == [t |-> "true"]
JBool(b) == IF b THEN JTrue ELSE JFalse
JNum(x) == [t |-> "num", n |-> x]
JStr(cps) == [t |-> "str", s |-> cps]
JArr(s) == [t |-> "arr", v |-> s]
JObjRaw(ks, vs) == [t |-> "obj", k |-> ks, v |-> vs]
JEmptyObj == JObjRaw(<<>>, <<>>)

IsNull(x) == x.t = "null"
IsBool(x) == x.t \in {"false", "true"}
IsNum(x)  == x.t = "num"
IsStr(x)  == x.t = "str"
IsArr(x)  == x.t = "arr"
IsObj(x)  == x.t = "obj"
Truthy(x) == x.t \notin {"null", "false"}

TypeName(x) == CASE x.t = "null" -> "null" [] x.t \in {"false", "true"} -> "boolean"
                 [] x.t \in {"num", "big"} -> "number" [] x.t = "str" -> "string"
                 [] x.t = "arr" -> "array" [] x.t = "obj" -> "object"

(* printable ASCII, code points 32..126 *)
Ascii == << " ", "!", "\"", "#", "$", "%", "&", "'", "(", ")", "*", "+", ",", "-", ".", "/",
            "0", "1", "2", "3", "4", "5", "6", "7", "8", "9", ":", ";", "<", "=", ">", "?",
            "@", "A", "B", "C", "D", "E", "F", "G", "H", "I", "J", "K", "L", "M", "N", "O",
            "P", "Q", "R", "S", "T", "U", "V", "W", "X", "Y", "Z", "[", "\\", "]", "^", "_",
            "`", "a", "b", "c", "d", "e", "f", "g", "h", "i", "j", "k", "l", "m", "n", "o",
            "p", "q", "r", "s", "t", "u", "v", "w", "x", "y", "z", "{", "|", "}", "~" >>
IsAscii(cp) == cp >= 32 /\ cp <= 126
Chr(cp) == IF IsAscii(cp) THEN Ascii[cp - 31] ELSE "?"
RECURSIVE CpsText(_)
CpsText(cps) == IF cps = <<>> THEN "" ELSE Chr(Head(cps)) \o CpsText(Tail(cps))

(****************************** jq's total order ***************************)
TypeRank(x) == CASE x.t = "null" -> 0 [] x.t = "false" -> 1 [] x.t = "true" -> 2
                 [] x.t \in {"num", "big"} -> 3 [] x.t = "str" -> 4 [] x.t = "arr" -> 5 [] x.t = "obj" -> 6
CmpInt(a, b) == IF a < b THEN -1 ELSE IF a > b THEN 1 ELSE 0

RECURSIVE CmpCps(_, _)
CmpCps(a, b) == IF a = <<>> THEN (IF b = <<>> THEN 0 ELSE -1)
                ELSE IF b = <<>> THEN 1
                ELSE IF Head(a) # Head(b) THEN CmpInt(Head(a), Head(b))
                ELSE CmpCps(Tail(a), Tail(b))

RECURSIVE CmpJ(_, _), CmpSeqJ(_, _), CmpKeys(_, _)
CmpSeqJ(a, b) == IF a = <<>> THEN (IF b = <<>> THEN 0 ELSE -1)
                 ELSE IF b = <<>> THEN 1
                 ELSE LET c == CmpJ(Head(a), Head(b)) IN IF c # 0 THEN c ELSE CmpSeqJ(Tail(a), Tail(b))
CmpKeys(a, b) == IF a = <<>> THEN (IF b = <<>> THEN 0 ELSE -1)
                 ELSE IF b = <<>> THEN 1
                 ELSE LET c == CmpCps(Head(a), Head(b)) IN IF c # 0 THEN c ELSE CmpKeys(Tail(a), Tail(b))
(* null < false < true < numbers < strings < arrays < objects; objects: key sets first, then values *)
CmpJ(a, b) ==
    IF TypeRank(a) # TypeRank(b) THEN CmpInt(TypeRank(a), TypeRank(b))
    ELSE CASE a.t = "num" /\ b.t = "num" -> CmpInt(a.n, b.n)
           [] a.t = "str" -> CmpCps(a.s, b.s)
           [] a.t = "arr" -> CmpSeqJ(a.v, b.v)
           [] a.t = "obj" -> LET c == CmpKeys(a.k, b.k) IN IF c # 0 THEN c ELSE CmpSeqJ(a.v, b.v)
           [] OTHER -> 0
LtJ(a, b) == CmpJ(a, b) < 0
LeJ(a, b) == CmpJ(a, b) <= 0

(* stable insertion sort of a sequence of values by a key sequence (same length), jq order *)
RECURSIVE InsByKey(_, _, _)
InsByKey(sorted, k, x) ==      \* sorted: sequence of <<key, item>>
    IF sorted = <<>> THEN << <<k, x>> >>
    ELSE IF LeJ(sorted[Len(sorted)][1], k) THEN Append(sorted, <<k, x>>)
    ELSE Append(InsByKey(SubSeq(sorted, 1, Len(sorted) - 1), k, x), sorted[Len(sorted)])
RECURSIVE SortPairs(_, _)
SortPairs(ks, xs) == IF xs = <<>> THEN <<>>
                     ELSE InsByKey(SortPairs(SubSeq(ks, 1, Len(ks) - 1), SubSeq(xs, 1, Len(xs) - 1)), ks[Len(ks)], xs[Len(xs)])
SortByKeys(ks, xs) == LET p == SortPairs(ks, xs) IN [i \in 1 .. Len(p) |-> p[i][2]]
SortJ(xs) == SortByKeys(xs, xs)

(******************************** objects **********************************)
KeyIndex(o, key) == IF \E i \in 1 .. Len(o.k) : o.k[i] = key THEN CHOOSE i \in 1 .. Len(o.k) : o.k[i] = key ELSE 0
ObjHas(o, key) == KeyIndex(o, key) # 0
ObjGet(o, key) == LET i == KeyIndex(o, key) IN IF i = 0 THEN JNull ELSE o.v[i]
(* insert or replace, keeping the key sequence sorted *)
ObjSet(o, key, val) ==
    LET i == KeyIndex(o, key) IN
    IF i # 0 THEN JObjRaw(o.k, [o.v EXCEPT ![i] = val])
    ELSE LET n == Cardinality({j \in 1 .. Len(o.k) : CmpCps(o.k[j], key) < 0}) IN
         JObjRaw(SubSeq(o.k, 1, n) \o <<key>> \o SubSeq(o.k, n + 1, Len(o.k)),
                 SubSeq(o.v, 1, n) \o <<val>> \o SubSeq(o.v, n + 1, Len(o.v)))
ObjDel(o, key) == LET i == KeyIndex(o, key) IN
    IF i = 0 THEN o ELSE JObjRaw(SubSeq(o.k, 1, i - 1) \o SubSeq(o.k, i + 1, Len(o.k)),
                                 SubSeq(o.v, 1, i - 1) \o SubSeq(o.v, i + 1, Len(o.v)))
(* object from a sequence of <<key, value>>; later pairs win *)
RECURSIVE ObjFromPairs(_)
ObjFromPairs(ps) == IF ps = <<>> THEN JEmptyObj
                    ELSE ObjSet(ObjFromPairs(SubSeq(ps, 1, Len(ps) - 1)), ps[Len(ps)][1], ps[Len(ps)][2])

(****************************** well-formedness ****************************)
RECURSIVE WellFormed(_)
WellFormed(x) ==
    CASE x.t \in {"null", "false", "true"} -> DOMAIN x = {"t"}
      [] x.t = "num" -> x.n \in Int
      [] x.t = "big" -> TRUE
      [] x.t = "str" -> \A i \in 1 .. Len(x.s) : x.s[i] \in Nat
      [] x.t = "arr" -> \A i \in 1 .. Len(x.v) : WellFormed(x.v[i])
      [] x.t = "obj" -> /\ Len(x.k) = Len(x.v)
                        /\ \A i \in 1 .. (Len(x.k) - 1) : CmpCps(x.k[i], x.k[i + 1]) < 0
                        /\ \A i \in 1 .. Len(x.v) : WellFormed(x.v[i])
      [] OTHER -> FALSE

(******************************* generators ********************************)
(* JsonValsW(d, A, w, K): atoms A; arrays of length <= w and objects over  *)
(* subsets (size <= w) of the key set K, nested at most d deep.            *)
SeqsUpTo(S, w) == UNION {[1 .. n -> S] : n \in 0 .. w}
RECURSIVE SortCpsSet(_)
SortCpsSet(S) == IF S = {} THEN <<>>
                 ELSE LET m == CHOOSE x \in S : \A y \in S : CmpCps(x, y) <= 0 IN <<m>> \o SortCpsSet(S \ {m})
ObjsOver(S, w, K) == UNION {{JObjRaw(SortCpsSet(ks), vs) : vs \in [1 .. Cardinality(ks) -> S]} :
                            ks \in {k \in SUBSET K : Cardinality(k) <= w}}
RECURSIVE JsonValsW(_, _, _, _)
JsonValsW(d, A, w, K) ==
    IF d = 0 THEN A
    ELSE LET S == JsonValsW(d - 1, A, w, K) IN
         S \cup {JArr(s) : s \in SeqsUpTo(S, w)} \cup ObjsOver(S, w, K)
DefaultKeys == {<<97>>, <<98>>}            \* "a", "b"
JsonVals(d, A) == JsonValsW(d, A, 2, DefaultKeys)

(* membership without enumeration (JsonVals(2, 12 atoms) has > 10^5 elements) *)
RECURSIVE InJsonVals(_, _, _, _, _)
InJsonVals(x, d, A, w, K) ==
    \/ x \in A
    \/ /\ d > 0
       /\ \/ /\ x.t = "arr" /\ Len(x.v) <= w
             /\ \A i \in 1 .. Len(x.v) : InJsonVals(x.v[i], d - 1, A, w, K)
          \/ /\ x.t = "obj" /\ Len(x.k) <= w /\ WellFormed(x)
             /\ \A i \in 1 .. Len(x.k) : x.k[i] \in K /\ InJsonVals(x.v[i], d - 1, A, w, K)

(* the atom set named by the design for C07 *)
StdAtoms == {JNull, JFalse, JTrue, JNum(0), JNum(1), JNum(-1), JNum(2),
             JStr(<<>>), JStr(<<97>>), JStr(<<97, 98>>), JArr(<<>>), JEmptyObj}

(*********************** comparing outcome sequences ***********************)
(* An outcome is [k |-> "v", v |-> value] or an error [k |-> "e", v |-> x] *)
(* (reference side also u: TRUE when raised with a value by error(v), FALSE *)
(* when raised by a built-in, whose message text is not compared: N2).     *)
SameOutcome(got, ref) ==
    IF ref.k = "v" THEN got.k = "v" /\ got.v = ref.v
    ELSE IF ref.k = "e" THEN got.k = "e" /\ (ref.u => got.v = ref.v)
    ELSE got = ref
SameOutcomes(got, ref) == Len(got) = Len(ref) /\ \A i \in 1 .. Len(ref) : SameOutcome(got[i], ref[i])
=============================================================================
