------------------------------ MODULE ProbeOps ------------------------------
(* The operators of Probe.tla (no variables): shared by the model checker, the generator and the trace validation. *)
EXTENDS Integers, Sequences, FiniteSets, TLC

Behs == {"ok", "err", "errtree"}          \* decodes / fails before adding a field / fails after adding fields
Fmt == [beh : Behs, def : BOOLEAN, opt : BOOLEAN]      \* def: has a DefaultInArg; opt: the user gave options for it (needs def)
InArgKinds == {"none", "T", "G"}          \* Options.InArg absent / of the formats' argument type / of the group's argument type
WellFormedFmt(f) == f.opt => f.def
Scenario(n) == {s \in [fmts : [1 .. n -> Fmt], inarg : InArgKinds, gdef : BOOLEAN, gopt : BOOLEAN] :
                    (\A i \in 1 .. n : WellFormedFmt(s.fmts[i])) /\ (s.gopt => s.gdef)}

Arg(t, src) == [t |-> t, src |-> src]
\* decode.go: inArgs of the decoder of format i
InArgs(s, i) ==
    LET f == s.fmts[i] IN
    (IF f.def /\ f.opt THEN <<Arg("T", "fopt")>> ELSE <<>>)                \* format options have priority
    \o (IF s.inarg # "none" THEN <<Arg(s.inarg, "inarg")>> ELSE <<>>)
    \o (IF f.def /\ ~f.opt THEN <<Arg("T", "fdef")>> ELSE <<>>)
    \o (IF s.gdef /\ s.gopt THEN <<Arg("G", "gopt")>> ELSE <<>>)           \* the group's default alone is never handed over
\* D.ArgAs(&x) with x of type t: the first in-argument of that type
ArgAs(args, t) == IF \E k \in DOMAIN args : args[k].t = t
                  THEN args[CHOOSE k \in DOMAIN args : args[k].t = t /\ \A j \in 1 .. (k - 1) : args[j].t # t].src
                  ELSE "none"

N(s) == Len(s.fmts)
Failed(s, i) == s.fmts[i].beh # "ok"
\* the format whose value is returned: the first that decodes; a group of one format returns its (partial) value even when it failed
Winner(s) == IF N(s) = 1 THEN 1
             ELSE IF \E i \in 1 .. N(s) : ~Failed(s, i) THEN CHOOSE i \in 1 .. N(s) : ~Failed(s, i) /\ \A j \in 1 .. (i - 1) : Failed(s, j)
             ELSE 0
Ran(s) == IF Winner(s) = 0 THEN N(s) ELSE Winner(s)          \* formats tried, in order 1 .. Ran
NErr(s) == Cardinality({i \in 1 .. Ran(s) : Failed(s, i)})
Expect(s) ==
    LET w == Winner(s) IN
    [ran |-> Ran(s), winner |-> w, nerr |-> NErr(s),
     haserr |-> NErr(s) > 0,                                               \* the error return is a FormatsError iff a format failed
     rooterr |-> (w # 0 /\ Failed(s, w)),                                  \* only a single-format group returns a value with its error attached
     targ |-> IF w = 0 THEN "none" ELSE ArgAs(InArgs(s, w), "T"),
     garg |-> IF w = 0 THEN "none" ELSE ArgAs(InArgs(s, w), "G")]

=============================================================================
