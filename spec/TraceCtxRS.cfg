SPECIFICATION TSpec
CONSTANTS NCalls = 3 Variant = "percall"
INVARIANTS NoRace ResultsTrue OkMeansDone
CONSTRAINT HighWater
POSTCONDITION Consumed
CHECK_DEADLOCK FALSE
