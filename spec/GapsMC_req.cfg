SPECIFICATION Spec
CONSTANTS L = 6
 MaxN = 3
 Slack = 0
INVARIANT Refines
CHECK_DEADLOCK FALSE
