----------------------------- MODULE TraceWire -----------------------------
(***************************************************************************)
(* C16 TV mode.  Every event is one case replayed on real fq:              *)
(*   f, kind, val       the format, "ok" | "reject", the value that was     *)
(*                      encoded (tagged records, WireBytes.tla)            *)
(*   tree, err, got     decoding the whole encoding: a tree came back, root*)
(*                      ._error is non-null, torepr projected to tagged form*)
(*   truncs             <<cut, tree, err>> for every proper prefix tried   *)
(*   trails             [tree, err, got, gap] for every trailing string;   *)
(*                      gap = 1 iff a gap field covers exactly the trail   *)
(* As required (property text):                                            *)
(*   RoundTrip  got = Repr(val), and the decode is not reported as failed  *)
(*   TruncOK    every truncation is reported: no tree or root error        *)
(*   TrailOK    binary: value unchanged and the trail is a gap;            *)
(*              text: an error                                             *)
(*   reject     (outside the documented domain) reported, never a value    *)
(* Events are independent: a rejected event is printed and skipped.        *)
(***************************************************************************)
EXTENDS WireBytes, Json
Trace == ndJsonDeserialize("trace.ndjson")
MP == INSTANCE Wire_msgpack
CB == INSTANCE Wire_cbor WITH MaxChunks <- 0, EmptyChunks <- FALSE
BC == INSTANCE Wire_bencode
BS == INSTANCE Wire_bson
BR == INSTANCE Wire_ber WITH MaxSegs <- 0
VARIABLE l

Binary(f) == f \in {"msgpack", "cbor", "bencode", "bson", "asn1_ber"}
ReprOf(f, v) == CASE f = "msgpack" -> MP!Repr(v)
                  [] f = "cbor"    -> CB!Repr(v)
                  [] f = "bencode" -> BC!Repr(v)
                  [] f = "bson"    -> BS!Repr(v)
                  [] f = "asn1_ber" -> BR!Repr(v)
                  [] OTHER         -> v            \* text formats: the value itself

RoundTrip(e) == e.tree = 1 /\ e.err = 0 /\ ReprEq(ReprOf(e.f, e.val), e.got)
TruncOK(e)   == \A i \in 1..Len(e.truncs) : e.truncs[i][2] = 0 \/ e.truncs[i][3] = 1
TrailOK(e)   == \A i \in 1..Len(e.trails) :
                   LET t == e.trails[i] IN
                   IF Binary(e.f) THEN t.tree = 1 /\ t.gap = 1 /\ ReprEq(ReprOf(e.f, e.val), t.got)
                   ELSE t.tree = 0 \/ t.err = 1
Reported(e)  == e.tree = 0 \/ e.err = 1

Accept(e) == IF e.kind = "reject" THEN Reported(e)
             ELSE RoundTrip(e) /\ TruncOK(e) /\ TrailOK(e)
Why(e) == IF e.kind = "reject" THEN "unreported"
          ELSE IF ~RoundTrip(e) THEN "roundtrip"
          ELSE IF ~TruncOK(e) THEN "truncation"
          ELSE "trailing"

TInit == l = 1
TNext == /\ l <= Len(Trace)
         /\ LET e == Trace[l] IN IF Accept(e) THEN TRUE ELSE PrintT(<<"REJECT", l, Why(e)>>)
         /\ l' = l + 1
TSpec == TInit /\ [][TNext]_l
Consumed == TLCGet("stats").diameter - 1 = Len(Trace)
=============================================================================
