SPECIFICATION Spec
CONSTANTS MaxLen = 3
 MaxLenFull = 2
 Alphabet = "tagged"
INVARIANT TagsOK
INVARIANT RefinesOrKnownSpelling
CHECK_DEADLOCK FALSE
