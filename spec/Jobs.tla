-------------------------------- MODULE Jobs --------------------------------
(* C18 - decode+display jobs sharing one process.                                                       *)
(*                                                                                                      *)
(* A job is a description d = [input, format, opt, interp]; opt is "unset" or "set" (per-format options *)
(* given with -o or not).  The state is a record s holding the shared cells AS THE CODE HAS THEM:        *)
(*                                                                                                      *)
(*   once, resolved, groups   interp.Registry: sync.Once, the formatResolved flag and the Group.Formats *)
(*                            slices that resolveGroups sorts in place on first use  (registry.go:77)   *)
(*   dirty                    formats whose DefaultInArg no longer holds the registered default; a job   *)
(*                            with options gets a deep copy from ParseOptsFn (interp/decode.go:243), a   *)
(*                            job without options reads the shared default itself (decode.go:95)         *)
(*   buf                      D.readBuf: one scratch buffer per top-level decode (decode.go:317); in the *)
(*                            SharedBuf variant one cell for the whole process (owner = last writer)     *)
(*   inc, gs                  per Interp: include cache (interp.go:858/944) and global state (:339)     *)
(*   jobs                     running jobs: description, program counter, private copy, what was read    *)
(*                                                                                                      *)
(* Every step of a job is a function from states to sets of states (the module has no variables; see    *)
(* JobsMC / JobsGen / TraceJobs).  A job standing at a program counter is IN THE MIDDLE of the accesses  *)
(* listed by Acc for that counter; the effect of the access takes place on the step out of it.  So two  *)
(* jobs race iff their Acc sets name one cell and one of them writes: NoRace.                           *)
(*                                                                                                      *)
(* Program counters of a job:  init -> resolve [-> sort1 -> sort2] -> copy [-> apply] -> dec1 -> dec2    *)
(* [-> dec3] -> disp -> done;  sort1/sort2 only for the job that performs the resolution, apply only     *)
(* without the deep copy, dec3 only with the process-wide buffer (as built those steps are private and   *)
(* are folded into their neighbours).  A failing decode leaves from dec2 straight to disp.               *)
(*                                                                                                      *)
(* The requirement: Complete(j, r) is possible only with r = Solo(description of j).                    *)
(* Switches (as built: TRUE, TRUE, FALSE, FALSE) let TLC show which discipline each cell needs.         *)
EXTENDS Integers, Sequences, FiniteSets, TLC

CONSTANTS UseOnce,        \* resolveGroups runs under sync.Once      (FALSE: `if !r.formatResolved { .. }`)
          DeepCopy,       \* ParseOptsFn copies the default in-arg   (FALSE: options are written through)
          SharedBuf,      \* FALSE: one read buffer per decode       (TRUE: one buffer for the process)
          SharedInterp    \* FALSE: an Interp runs one job at a time (TRUE: jobs of one Interp overlap)

\* what a job prints, given its description and what it read from the shared cells
CONSTANT Out(_, _)
\* whether decoding this input fails when the in-arg it sees is a ("def" / "set")
CONSTANT Fails(_, _)

Desc(i, f, o, ip) == [input |-> i, format |-> f, opt |-> o, interp |-> ip]

CleanSeen == [grp |-> "none", arg |-> "none", buf |-> TRUE, gs |-> TRUE]

Init0 == [once |-> "new", resolved |-> FALSE, groups |-> "unsorted", dirty |-> {}, buf |-> 0,
          inc |-> {}, gs |-> {}, jobs |-> <<>>, fin |-> {}]

DefArg(s, f) == IF f \in s.dirty THEN "set" ELSE "def"
GsOf(s, ip) == IF <<ip, "set">> \in s.gs THEN "set" ELSE IF <<ip, "unset">> \in s.gs THEN "unset" ELSE "none"
Running(s) == DOMAIN s.jobs
Pc(s, j) == s.jobs[j].pc

-----------------------------------------------------------------------------
(* accesses in progress *)
Acc(s, j) ==
    LET x == s.jobs[j]  f == x.d.format  ip == x.d.interp IN
    CASE x.pc = "init"    -> {<<"gs", ip, "w">>}
      [] x.pc = "resolve" -> IF UseOnce THEN {} ELSE {<<"resolved", 0, "r">>}
      [] x.pc = "sort1"   -> {<<"groups", 0, "w">>}
      [] x.pc = "sort2"   -> {<<"groups", 0, "w">>, <<"resolved", 0, "w">>}
      [] x.pc = "copy"    -> {<<"defarg", f, "r">>}
      [] x.pc = "apply"   -> {<<"defarg", f, "w">>}
      [] x.pc = "dec1"    -> {<<"groups", 0, "r">>}
      [] x.pc = "dec2"    -> (IF x.arg = "alias" THEN {<<"defarg", f, "r">>} ELSE {})
                             \cup (IF SharedBuf THEN {<<"buf", 0, "w">>} ELSE {})
      [] x.pc = "dec3"    -> {<<"buf", 0, "r">>}
      [] x.pc = "disp"    -> {<<"gs", ip, "r">>, <<"inc", ip, IF ip \in s.inc THEN "r" ELSE "w">>}
      [] OTHER            -> {}

Conflict(a, b) == a[1] = b[1] /\ a[2] = b[2] /\ (a[3] = "w" \/ b[3] = "w")
NoRace(s) == \A j1, j2 \in Running(s) : j1 # j2 => \A a \in Acc(s, j1), b \in Acc(s, j2) : ~Conflict(a, b)

-----------------------------------------------------------------------------
(* steps *)
Set(s, j, pc) == [s EXCEPT !.jobs[j].pc = pc]

CanStart(s, j, d, threads) ==
    /\ j \notin Running(s) /\ j \notin s.fin
    /\ Cardinality(Running(s)) < threads
    /\ SharedInterp \/ \A k \in Running(s) : s.jobs[k].d.interp # d.interp
Start(s, j, d) ==
    [s EXCEPT !.jobs = (j :> [d |-> d, pc |-> "init", arg |-> "none", seen |-> CleanSeen]) @@ @]

\* one internal step of job j: the set of successor states (empty: blocked)
Step(s, j) ==
    LET x == s.jobs[j]  f == x.d.format  ip == x.d.interp  o == x.d.opt IN
    CASE x.pc = "init" ->           \* interp.New + options into the global state
           {[Set(s, j, "resolve") EXCEPT !.gs = (@ \ {<<ip, "set">>, <<ip, "unset">>}) \cup {<<ip, o>>}]}
      [] x.pc = "resolve" ->        \* Registry.Group: first use resolves
           IF UseOnce
           THEN (CASE s.once = "done"    -> {Set(s, j, "copy")}
                   [] s.once = "new"     -> {[Set(s, j, "sort1") EXCEPT !.once = "running"]}
                   [] s.once = "running" -> {})                       \* Once.Do blocks the other callers
           ELSE IF s.resolved THEN {Set(s, j, "copy")} ELSE {Set(s, j, "sort1")}
      [] x.pc = "sort1" -> {[Set(s, j, "sort2") EXCEPT !.groups = "mid"]}     \* slices being appended to / sorted in place
      [] x.pc = "sort2" -> {[Set(s, j, "copy") EXCEPT !.groups = "sorted", !.resolved = TRUE,
                                                       !.once = IF UseOnce THEN "done" ELSE @]}
      [] x.pc = "copy" ->           \* CopyArgs: ParseOptsFn(init) copies the default, maps the options into the copy and
                                    \* returns nil (= use the shared default) when nothing changed
           IF DeepCopy
           THEN {[Set(s, j, "dec1") EXCEPT !.jobs[j].arg = IF o = "set" THEN "set" ELSE "alias"]}
           ELSE {[Set(s, j, IF o = "set" THEN "apply" ELSE "dec1") EXCEPT !.jobs[j].arg = "alias"]}
      [] x.pc = "apply" ->          \* (no copy) the options are written through to the format's default
           {[Set(s, j, "dec1") EXCEPT !.dirty = @ \cup {f}]}
      [] x.pc = "dec1" ->           \* probe order read from the group
           {[Set(s, j, "dec2") EXCEPT !.jobs[j].seen.grp = s.groups]}
      [] x.pc = "dec2" ->           \* in-arg read, buffer filled; a truncated input fails here
           LET a == IF x.arg = "alias" THEN DefArg(s, f) ELSE x.arg
               t == [Set(s, j, IF Fails(x.d.input, a) \/ ~SharedBuf THEN "disp" ELSE "dec3")
                        EXCEPT !.jobs[j].seen.arg = a]
           IN {IF SharedBuf THEN [t EXCEPT !.buf = j] ELSE t}
      [] x.pc = "dec3" ->           \* (process-wide buffer) bytes read back from the buffer
           {[Set(s, j, "disp") EXCEPT !.jobs[j].seen.buf = (s.buf = j)]}
      [] x.pc = "disp" ->           \* Display: include cache (parse on miss), options from the global state
           {[Set(s, j, "done") EXCEPT !.jobs[j].seen.gs = (GsOf(s, ip) = o), !.inc = @ \cup {ip}]}
      [] OTHER -> {}

CanComplete(s, j) == j \in Running(s) /\ Pc(s, j) = "done"
ResultOf(s, j) == Out(s.jobs[j].d, s.jobs[j].seen)
Complete(s, j) == [s EXCEPT !.jobs = [k \in DOMAIN @ \ {j} |-> @[k]], !.fin = @ \cup {j}]

\* all internal steps of j, taken in one go (defined when j is never blocked on the way: used for lone runs and for traces)
RECURSIVE RunToDone(_, _)
RunToDone(s, j) == IF Pc(s, j) = "done" \/ Step(s, j) = {} THEN s ELSE RunToDone(CHOOSE t \in Step(s, j) : TRUE, j)

\* the lone run: a fresh process, this job only
Solo(d) == ResultOf(RunToDone(Start(Init0, 1, d), 1), 1)
\* class of the lone result (the lone job sees its own option or the registered default)
SoloClass(d) == IF Fails(d.input, IF d.opt = "set" THEN "set" ELSE "def") THEN "fail" ELSE "ok"
=============================================================================
