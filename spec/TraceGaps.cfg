SPECIFICATION TSpec
CONSTANTS Slack = 1
POSTCONDITION Consumed
CHECK_DEADLOCK FALSE
