-------------------------------- MODULE Probe --------------------------------
(***************************************************************************)
(* As built: the loop of decode.decode() over the formats of a group -     *)
(* which format's tree is returned, which errors are collected, what a     *)
(* group of ONE format returns when it fails - and the order in which the  *)
(* decoder of each format is handed its in-arguments (format options given *)
(* by the user, the caller's InArg, the format's default, the group's      *)
(* options), which D.ArgAs searches by type, first match wins.             *)
(* Used three ways (one operator module): MC of two laws, GEN of every     *)
(* scenario with 1..3 formats, TV of what the real decode.Decode did with  *)
(* synthetic formats (harness/probe).  This is behaviour C06's outcome     *)
(* machine (DecodeOutcome.tla) abstracts from and C18's option isolation   *)
(* builds on; no listed property is decided here - a difference is drift   *)
(* of the as-built model, reported as such.                                *)
(***************************************************************************)
EXTENDS ProbeOps

(* ---------------- MC: two laws of the as-built definitions, for every scenario of 1..3 formats ---------------- *)
CONSTANT MaxN
VARIABLE s
AllScenarios == UNION {Scenario(n) : n \in 1 .. MaxN}
Init == s \in AllScenarios
Next == FALSE /\ s' = s
Spec == Init /\ [][Next]_s
\* agreement with C06's outcome machine: a value with its error attached only from a single-format group; no value only after all failed
OutcomeLaw == LET e == Expect(s) IN (e.rooterr => N(s) = 1) /\ (e.winner = 0 => e.nerr = N(s) /\ N(s) > 1)
\* what the user gave for a format always wins for that format; the caller's InArg beats defaults and group options
PrecedenceLaw == LET e == Expect(s) IN
    e.winner # 0 =>
      /\ (s.fmts[e.winner].opt => e.targ = "fopt")
      /\ (~s.fmts[e.winner].opt /\ s.inarg = "T" => e.targ = "inarg")
      /\ (s.inarg = "G" => e.garg = "inarg")
      /\ (s.inarg # "G" /\ ~s.gopt => e.garg = "none")
=============================================================================
