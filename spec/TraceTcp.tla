------------------------------ MODULE TraceTcp ------------------------------
(* TV mode for C19: every event is one capture (history: conns, wire) decoded *)
(* by real fq and what fq reported about it (obs, abstracted to tokens by the *)
(* harness).  Events are independent: a rejected event is reported with its   *)
(* signature and skipped; the whole trace must be consumed.                   *)
EXTENDS Integers, Sequences, FiniteSets, TLC, Json
Trace == ndJsonDeserialize("trace.ndjson")
T == INSTANCE TcpReasm
VARIABLE l
SetOf(s) == {s[i] : i \in DOMAIN s}
Sig(e) == IF e.err # "" THEN "fq.decode_error" ELSE T!RejectSig(e.conns, e.wire, e.obs, SetOf(e.coinc))
TInit == l = 1
TNext == /\ l <= Len(Trace)
         /\ LET e == Trace[l] sig == Sig(e) IN
              /\ IF sig = "ok" THEN TRUE ELSE PrintT(<<"REJECT", l, sig>>)
              /\ IF sig = "ok" /\ ~T!AsBuiltOrder(e.wire, e.obs) THEN PrintT(<<"DRIFT", l>>) ELSE TRUE
         /\ l' = l + 1
TSpec == TInit /\ [][TNext]_l
Consumed == TLCGet("stats").diameter - 1 = Len(Trace)
=============================================================================
