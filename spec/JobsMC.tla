------------------------------- MODULE JobsMC -------------------------------
(* MC mode for Jobs.tla: every multiset of at most MaxJobs jobs over 3 inputs x 2 option settings,      *)
(* every order of starts and every interleaving of the jobs' steps on at most Threads threads; one pair  *)
(* of jobs may share an Interp (then the two never overlap, unless SharedInterp).                        *)
(*   inputs  "good"   format F1   decodes                                                                *)
(*           "trunc"  format F1   fails (truncated file), with and without options                       *)
(*           "optdep" format F2   decodes with the default in-arg, fails when the option is set          *)
EXTENDS Jobs
CONSTANTS MaxJobs, Threads,
          SharePairs     \* TRUE: additionally every choice of two jobs using one Interp
VARIABLES st, descs
vars == <<st, descs>>

OutMC(d, seen) == <<d.input, d.format, d.opt, seen>>
FailsMC(i, a) == i = "trunc" \/ (i = "optdep" /\ a = "set")

KO == <<[input |-> "good", format |-> "F1", opt |-> "unset"], [input |-> "good", format |-> "F1", opt |-> "set"],
        [input |-> "trunc", format |-> "F1", opt |-> "unset"], [input |-> "trunc", format |-> "F1", opt |-> "set"],
        [input |-> "optdep", format |-> "F2", opt |-> "unset"], [input |-> "optdep", format |-> "F2", opt |-> "set"]>>

\* job ids are interchangeable: only non-decreasing kind sequences (multisets)
Sorted(q) == \A i \in 1 .. Len(q) - 1 : q[i] <= q[i + 1]
Pairs(n) == {<<0, 0>>} \cup IF SharePairs THEN {p \in (1 .. n) \X (1 .. n) : p[1] < p[2]} ELSE {}
MkDescs(q, p) == [j \in DOMAIN q |-> Desc(KO[q[j]].input, KO[q[j]].format, KO[q[j]].opt, IF j = p[2] THEN p[1] ELSE j)]

Init == /\ st = Init0
        /\ \E n \in 1 .. MaxJobs : \E q \in [1 .. n -> 1 .. Len(KO)] : \E p \in Pairs(n) :
               Sorted(q) /\ descs = MkDescs(q, p)

StartJ(j)    == CanStart(st, j, descs[j], Threads) /\ st' = Start(st, j, descs[j])
StepJ(j)     == j \in Running(st) /\ st' \in Step(st, j)
CompleteJ(j) == CanComplete(st, j) /\ st' = Complete(st, j)
Next == \E j \in DOMAIN descs : (StartJ(j) \/ StepJ(j) \/ CompleteJ(j)) /\ UNCHANGED descs
Spec == Init /\ [][Next]_vars

\* PROPERTY: a job can only complete with the result of its lone run
Isolated == \A j \in Running(st) : CanComplete(st, j) => ResultOf(st, j) = Solo(descs[j])
NoRaceInv == NoRace(st)
\* every job can always be finished (no job is blocked for ever): checked as "no deadlock before all are done"
AllDone == st.fin = DOMAIN descs
NoStuck == (\A j \in DOMAIN descs : ~ENABLED StartJ(j)) /\ Running(st) = {} => AllDone
\* anti-vacuity targets: states that must be reachable (checked by expecting a violation)
NeverFailDone == \A j \in Running(st) : ~(CanComplete(st, j) /\ SoloClass(descs[j]) = "fail")
NeverThreeRunning == Cardinality(Running(st)) < 3
=============================================================================
