SPECIFICATION Spec
CONSTANTS
 ZeroQuirk = TRUE
 PPOnAbort = FALSE
 Slack = 1
 L = 8
 MaxOps = 2
 MaxDepth = 2
 Names = {"a","b"}
 Widths = {1,8}
 SeekTo = {0,5}
 FrameLens = {0,4}
 BufLens = {8}
 Force = FALSE
 AllowedWhy = {"ok"}
 Kinds = {"leaf","synth","struct","array","framed","limited","seek","seekfn","fmtrest","fmtlen","fmtrange","bitbuf","rootstruct","rootarray","fail","errorf"}
CONSTRAINT Emit
CHECK_DEADLOCK FALSE
