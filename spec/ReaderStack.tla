------------------------------ MODULE ReaderStack ------------------------------
(***************************************************************************)
(* C01, as built: the bit-level reader compositions, transcribed branch by *)
(* branch from the Go code, over SYMBOLIC bits (bit j of leaf i is the     *)
(* integer 1000*i + j, a zero-reader bit is -1):                           *)
(*   leaf     bitio.IOBitReadSeeker over a bytes.Reader   (iobitreadseeker.go: byte fetch, skip bits, EOF truncation)   *)
(*   section  bitio.SectionReader                         (sectiontreader.go: window, clamp to bitLimit)                *)
(*   multi    bitio.MultiReader                           (multireader.go: boundary lookup, EOF suppression)            *)
(*   zero     bitiox.ZeroReadAtSeeker                     (zeroreadatseeker.go)                                         *)
(*   readFull the loop of bitio.ReadAtFull / ReadFull     (bitio.go: unaligned head, short-read stitching)              *)
(* and compared, call by call, with the denotation (as required): a call   *)
(* returns exactly the corresponding bits, never bits beyond the logical   *)
(* end, end-of-data only at the end, and a full read terminates.           *)
(* Two out-of-contract corners are kept as violated witnesses so that the  *)
(* model is known to reach them: a section longer than its source          *)
(* (Overlong) and a negative read-at offset (NegOff).                      *)
(***************************************************************************)
EXTENDS ReaderStackOps
CONSTANTS NBytesA, NBytesB,     \* byte lengths of the two leaves
          MaxN,                 \* largest request in bits
          Overlong,             \* TRUE: also sections that reach beyond their source
          NegOff                \* TRUE: also negative read-at offsets


(* ---------------- the machine: one composition, a history of calls ---------------- *)
A == Leaf(1, NBytesA)
B == Leaf(2, NBytesB)
LA == 8 * NBytesA
SecsA == {Sec(A, o, n) : o \in {0, 3, 8}, n \in {0, 5, LA - 8, LA - 3}} \cup (IF Overlong THEN {Sec(A, 3, LA), Sec(A, LA + 2, 4)} ELSE {})
Flat == {A, B, Zero(0), Zero(5)} \cup {s \in SecsA : Overlong \/ WellFormed(s)}
Muls1 == {Mul(<<x, y>>) : x \in Flat, y \in Flat} \cup {Mul(<<>>), Mul(<<A>>), Mul(<<Sec(A, 3, 5), Zero(0), B>>)}
Deep == {Sec(m, o, n) : m \in {Mul(<<A, B>>), Mul(<<Sec(A, 3, 5), B>>)}, o \in {0, 6}, n \in {4, 13}}
        \cup {Mul(<<Mul(<<Sec(A, 3, 5), B>>), Sec(Mul(<<A, Zero(5)>>), 5, 6)>>)}
Terms == Flat \cup Muls1 \cup Deep

VARIABLES term, pos, last
vars == <<term, pos, last>>
Init == term \in Terms /\ pos = 0 /\ last = [op |-> "none"]

Offs == (IF NegOff THEN {0 - 3} ELSE {}) \cup 0 .. (End(term) + 2)
DoReadAt  == \E n \in 0 .. MaxN, o \in Offs :
                 last' = [op |-> "readat", n |-> n, off |-> o, r |-> RAt(term, n, o)] /\ UNCHANGED <<term, pos>>
DoRead    == \E n \in 0 .. MaxN :
                 LET r == RAt(term, n, pos) IN
                 last' = [op |-> "read", n |-> n, off |-> pos, r |-> r] /\ pos' = pos + Len(r.bits) /\ UNCHANGED term
DoFull    == \E n \in 0 .. MaxN, o \in Offs :
                 last' = [op |-> "full", n |-> n, off |-> o, r |-> ReadAtFull(term, n, o)] /\ UNCHANGED <<term, pos>>
DoSeek    == \E o \in (0 - End(term) - 1) .. (End(term) + 1), wh \in 0 .. 2 :
                 LET s == SeekTop(term, pos, o, wh) IN
                 /\ s.pos <= End(term) + 2
                 /\ last' = [op |-> "seek", off |-> o, wh |-> wh, from |-> pos, s |-> s] /\ pos' = s.pos /\ UNCHANGED term
Next == DoReadAt \/ DoRead \/ DoFull \/ DoSeek
Spec == Init /\ [][Next]_vars

(* ---------------- as required, judged on the last call ---------------- *)
D == Den(term)
InContract == WellFormed(term) /\ (last.op \in {"readat", "read", "full"} => last.off >= 0)
ReadOK ==
    (last.op \in {"readat", "read"} /\ InContract) =>
        LET r == last.r  k == Len(r.bits)  o == last.off IN
        /\ r.err \in {"nil", "eof", "offset"}
        /\ k <= last.n
        /\ o + k <= Max2(o, Len(D))                                     \* never bits beyond the logical end
        /\ r.bits = Slice(D, o, k)                                      \* exactly the corresponding bits
        /\ (r.err = "eof" => o + k >= Len(D))                           \* end-of-data only at the logical end
        /\ (r.err = "offset" => o > Len(D) \/ (o = Len(D) /\ k = 0))    \* a refusal only outside the data
        /\ (last.n > 0 /\ o < Len(D) /\ r.err = "nil" => k > 0)         \* no stall inside the data
FullOK ==
    (last.op = "full" /\ InContract) =>
        LET r == last.r  can == last.off + last.n <= Len(D) IN
        /\ ~r.hang
        /\ (last.n > 0 => ((r.err = "nil") <=> can))
        /\ (r.err = "nil" => r.bits = Slice(D, last.off, last.n) /\ r.ret = last.n)
        /\ Len(r.bits) <= last.n
        /\ r.bits = Slice(D, last.off, Len(r.bits))                     \* what was placed before an error is still true
SeekOK ==
    (last.op = "seek" /\ WellFormed(term)) =>
        LET t == (CASE last.wh = 0 -> 0 [] last.wh = 1 -> last.from [] OTHER -> Len(D)) + last.off IN
        /\ (last.s.err => t < 0 \/ t > Len(D))                          \* a seek inside the data succeeds
        /\ (~last.s.err => t >= 0 /\ last.s.pos = t)
EndIsLen == WellFormed(term) => End(term) = Len(D)
\* the judgement of a call is made on the transition that makes it (the call record is not part of the VIEW)
View == <<term, pos>>
StepOK == [][ReadOK' /\ FullOK' /\ SeekOK']_vars
\* witnesses, expected to be VIOLATED when the switch is on (the model reaches the out-of-contract corner):
OverlongTerminates == [][(last.op = "full" /\ last.off >= 0 => ~last.r.hang)']_vars
NegOffProgress == [][(last.op = "full" => ~last.r.hang)']_vars
=============================================================================
