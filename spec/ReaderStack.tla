------------------------------ MODULE ReaderStack ------------------------------
(***************************************************************************)
(* C01, as built: the bit-level reader compositions, transcribed branch by *)
(* branch from the Go code, over SYMBOLIC bits (bit j of leaf i is the     *)
(* integer 1000*i + j, a zero-reader bit is -1):                           *)
(*   leaf     bitio.IOBitReadSeeker over a bytes.Reader   (iobitreadseeker.go: byte fetch, skip bits, EOF truncation)   *)
(*   section  bitio.SectionReader                         (sectiontreader.go: window, clamp to bitLimit)                *)
(*   multi    bitio.MultiReader                           (multireader.go: boundary lookup, EOF suppression)            *)
(*   zero     bitiox.ZeroReadAtSeeker                     (zeroreadatseeker.go)                                         *)
(*   readFull the loop of bitio.ReadAtFull / ReadFull     (bitio.go: unaligned head, short-read stitching)              *)
(* and compared, call by call, with the denotation (as required): a call   *)
(* returns exactly the corresponding bits, never bits beyond the logical   *)
(* end, end-of-data only at the end, and a full read terminates.           *)
(* Two out-of-contract corners are kept as violated witnesses so that the  *)
(* model is known to reach them: a section longer than its source          *)
(* (Overlong) and a negative read-at offset (NegOff).                      *)
(***************************************************************************)
EXTENDS Integers, Sequences, FiniteSets, TLC
CONSTANTS NBytesA, NBytesB,     \* byte lengths of the two leaves
          MaxN,                 \* largest request in bits
          Overlong,             \* TRUE: also sections that reach beyond their source
          NegOff                \* TRUE: also negative read-at offsets

Min2(x, y) == IF x < y THEN x ELSE y
Max2(x, y) == IF x > y THEN x ELSE y
Sym(id, j) == 1000 * id + j
Slice(s, o, n) == SubSeq(s, o + 1, o + n)
R(bits, err) == [bits |-> bits, err |-> err]

Leaf(id, nb) == [t |-> "leaf", id |-> id, nb |-> nb]
Sec(r, base, n) == [t |-> "section", r |-> r, base |-> base, n |-> n]
Mul(rs) == [t |-> "multi", rs |-> rs]
Zero(n) == [t |-> "zero", n |-> n]

(* ---------------- as required: the denotation ---------------- *)
RECURSIVE Den(_), Cat(_, _)
Cat(rs, i) == IF i = 0 THEN <<>> ELSE Cat(rs, i - 1) \o Den(rs[i])
Den(t) == CASE t.t = "leaf"    -> [j \in 1 .. 8 * t.nb |-> Sym(t.id, j - 1)]
            [] t.t = "zero"    -> [j \in 1 .. t.n |-> 0 - 1]
            [] t.t = "section" -> LET d == Den(t.r) IN Slice(d, t.base, Max2(0, Min2(t.n, Len(d) - t.base)))
            [] t.t = "multi"   -> Cat(t.rs, Len(t.rs))

RECURSIVE WellFormed(_)
WellFormed(t) == CASE t.t = "section" -> WellFormed(t.r) /\ t.base + t.n <= Len(Den(t.r))
                   [] t.t = "multi"   -> \A i \in 1 .. Len(t.rs) : WellFormed(t.rs[i])
                   [] OTHER           -> TRUE

(* ---------------- as built ---------------- *)
\* endPos(r): SeekBits(0, end) of each reader kind
RECURSIVE End(_), SumEnd(_, _)
SumEnd(rs, i) == IF i = 0 THEN 0 ELSE SumEnd(rs, i - 1) + End(rs[i])
End(t) == CASE t.t = "leaf"    -> 8 * t.nb              \* rs.Seek(0, end) * 8
            [] t.t = "zero"    -> t.n
            [] t.t = "section" -> t.n                   \* bitLimit - bitBase, whatever the source holds
            [] t.t = "multi"   -> SumEnd(t.rs, Len(t.rs))

\* ReadBitsAt(p, n, off)
RECURSIVE RAt(_, _, _)
RAt(t, n, off) ==
    CASE t.t = "leaf" ->
            IF n < 0 THEN R(<<>>, "neg")
            ELSE IF off < 0 THEN R(<<>>, "offset")
            ELSE LET bytePos   == off \div 8
                     skip      == off % 8
                     want      == skip + n
                     wantBytes == (want + 7) \div 8
                     got       == Min2(wantBytes, Max2(0, t.nb - bytePos))      \* io.ReadFull after Seek(bytePos)
                     d         == Den(t)
                 IN IF wantBytes = 0 THEN R(<<>>, "nil")                        \* ReadFull of an empty slice
                    ELSE IF got = 0 THEN R(<<>>, "eof")                         \* io.EOF is returned as it is, 0 bits
                    ELSE IF got < wantBytes                                     \* io.ErrUnexpectedEOF: the bits after the skipped ones
                         THEN R(Slice(d, off, Max2(0, 8 * got - skip)), "eof")
                         ELSE R(Slice(d, off, n), "nil")
      [] t.t = "zero" ->
            IF off < 0 \/ off > t.n THEN R(<<>>, "offset")
            ELSE IF off = t.n THEN R(<<>>, "eof")
            ELSE R([j \in 1 .. Min2(n, t.n - off) |-> 0 - 1], "nil")
      [] t.t = "section" ->
            IF off < 0 \/ off >= t.n THEN R(<<>>, "eof")
            ELSE LET o  == off + t.base
                     mx == (t.base + t.n) - o
                 IN RAt(t.r, IF n > mx THEN mx ELSE n, o)                       \* clamp; the error of the source is passed on
      [] t.t = "multi" ->
            LET k    == Len(t.rs)
                ends == [i \in 1 .. k |-> SumEnd(t.rs, i)]
                end  == IF k > 0 THEN ends[k] ELSE 0
            IN IF end <= off THEN R(<<>>, "eof")
               ELSE IF k = 0 THEN R(<<>>, "panic")                              \* m.readers[0] of no readers (negative offset only)
               ELSE LET hit  == {i \in 1 .. k : off < ends[i]}
                        i    == IF hit = {} THEN 1 ELSE CHOOSE x \in hit : \A y \in hit : x <= y
                        prev == IF hit = {} \/ i = 1 THEN 0 ELSE ends[i - 1]
                        r    == RAt(t.rs[i], n, off - prev)
                    IN IF r.err = "eof" /\ off + Len(r.bits) < end THEN R(r.bits, "nil") ELSE r

\* readFull(p, n, off, fn) with fn = ReadBitsAt of t.  rbo = readBitOffset, acc = the bits placed in p so far.
RECURSIVE FullLoop(_, _, _, _, _, _)
FullLoop(t, n, off, rbo, acc, fuel) ==
    IF ~(rbo < n) THEN [bits |-> acc, ret |-> n, err |-> "nil", hang |-> FALSE]
    ELSE IF fuel = 0 THEN [bits |-> acc, ret |-> 0, err |-> "nil", hang |-> TRUE]
    ELSE LET bbo     == rbo % 8
             partial == (8 - bbo) % 8
             left    == n - rbo
         IN IF partial # 0 \/ left < 8
            THEN LET rb == IF partial = 0 \/ left < partial THEN left ELSE partial
                     r  == RAt(t, rb, off + rbo)                                 \* into a one byte buffer, then Write64 into p
                     a2 == acc \o r.bits
                 IN IF r.err # "nil" THEN [bits |-> a2, ret |-> n - (rbo + Len(r.bits)), err |-> r.err, hang |-> FALSE]
                    ELSE FullLoop(t, n, off, rbo + Len(r.bits), a2, fuel - 1)
            ELSE LET r  == RAt(t, left, off + rbo)                               \* straight into p[byteOffset:]
                     a2 == acc \o r.bits
                 IN IF r.err # "nil" THEN [bits |-> a2, ret |-> n - (rbo + Len(r.bits)), err |-> r.err, hang |-> FALSE]
                    ELSE FullLoop(t, n, off, rbo + Len(r.bits), a2, fuel - 1)
ReadAtFull(t, n, off) == IF n < 0 THEN [bits |-> <<>>, ret |-> 0, err |-> "neg", hang |-> FALSE]
                         ELSE FullLoop(t, n, off, 0, <<>>, 2 * n + 4)

\* SeekBits of the top reader; returns [pos, err]
SeekTop(t, pos, off, wh) ==
    CASE t.t = "section" -> LET p == (CASE wh = 0 -> t.base [] wh = 1 -> t.base + pos [] OTHER -> t.base + t.n) + off
                            IN IF p < t.base THEN [pos |-> pos, err |-> TRUE] ELSE [pos |-> p - t.base, err |-> FALSE]
      [] t.t = "multi"   -> LET end == End(t)
                                p == (CASE wh = 0 -> 0 [] wh = 1 -> pos [] OTHER -> end) + off
                            IN IF p < 0 \/ p > end THEN [pos |-> pos, err |-> TRUE] ELSE [pos |-> p, err |-> FALSE]
      [] t.t = "zero"    -> LET p == (CASE wh = 0 -> 0 [] wh = 1 -> pos [] OTHER -> t.n) + off
                            IN IF p < 0 \/ p > t.n THEN [pos |-> pos, err |-> TRUE] ELSE [pos |-> p, err |-> FALSE]
      [] OTHER           -> LET p == (CASE wh = 0 -> 0 [] wh = 1 -> pos [] OTHER -> 8 * t.nb) + off
                            IN IF p < 0 THEN [pos |-> pos, err |-> TRUE] ELSE [pos |-> p, err |-> FALSE]

(* ---------------- the machine: one composition, a history of calls ---------------- *)
A == Leaf(1, NBytesA)
B == Leaf(2, NBytesB)
LA == 8 * NBytesA
SecsA == {Sec(A, o, n) : o \in {0, 3, 8}, n \in {0, 5, LA - 8, LA - 3}} \cup (IF Overlong THEN {Sec(A, 3, LA), Sec(A, LA + 2, 4)} ELSE {})
Flat == {A, B, Zero(0), Zero(5)} \cup {s \in SecsA : Overlong \/ WellFormed(s)}
Muls1 == {Mul(<<x, y>>) : x \in Flat, y \in Flat} \cup {Mul(<<>>), Mul(<<A>>), Mul(<<Sec(A, 3, 5), Zero(0), B>>)}
Deep == {Sec(m, o, n) : m \in {Mul(<<A, B>>), Mul(<<Sec(A, 3, 5), B>>)}, o \in {0, 6}, n \in {4, 13}}
        \cup {Mul(<<Mul(<<Sec(A, 3, 5), B>>), Sec(Mul(<<A, Zero(5)>>), 5, 6)>>)}
Terms == Flat \cup Muls1 \cup Deep

VARIABLES term, pos, last
vars == <<term, pos, last>>
Init == term \in Terms /\ pos = 0 /\ last = [op |-> "none"]

Offs == (IF NegOff THEN {0 - 3} ELSE {}) \cup 0 .. (End(term) + 2)
DoReadAt  == \E n \in 0 .. MaxN, o \in Offs :
                 last' = [op |-> "readat", n |-> n, off |-> o, r |-> RAt(term, n, o)] /\ UNCHANGED <<term, pos>>
DoRead    == \E n \in 0 .. MaxN :
                 LET r == RAt(term, n, pos) IN
                 last' = [op |-> "read", n |-> n, off |-> pos, r |-> r] /\ pos' = pos + Len(r.bits) /\ UNCHANGED term
DoFull    == \E n \in 0 .. MaxN, o \in Offs :
                 last' = [op |-> "full", n |-> n, off |-> o, r |-> ReadAtFull(term, n, o)] /\ UNCHANGED <<term, pos>>
DoSeek    == \E o \in (0 - End(term) - 1) .. (End(term) + 1), wh \in 0 .. 2 :
                 LET s == SeekTop(term, pos, o, wh) IN
                 /\ s.pos <= End(term) + 2
                 /\ last' = [op |-> "seek", off |-> o, wh |-> wh, from |-> pos, s |-> s] /\ pos' = s.pos /\ UNCHANGED term
Next == DoReadAt \/ DoRead \/ DoFull \/ DoSeek
Spec == Init /\ [][Next]_vars

(* ---------------- as required, judged on the last call ---------------- *)
D == Den(term)
InContract == WellFormed(term) /\ (last.op \in {"readat", "read", "full"} => last.off >= 0)
ReadOK ==
    (last.op \in {"readat", "read"} /\ InContract) =>
        LET r == last.r  k == Len(r.bits)  o == last.off IN
        /\ r.err \in {"nil", "eof", "offset"}
        /\ k <= last.n
        /\ o + k <= Max2(o, Len(D))                                     \* never bits beyond the logical end
        /\ r.bits = Slice(D, o, k)                                      \* exactly the corresponding bits
        /\ (r.err = "eof" => o + k >= Len(D))                           \* end-of-data only at the logical end
        /\ (r.err = "offset" => o > Len(D) \/ (o = Len(D) /\ k = 0))    \* a refusal only outside the data
        /\ (last.n > 0 /\ o < Len(D) /\ r.err = "nil" => k > 0)         \* no stall inside the data
FullOK ==
    (last.op = "full" /\ InContract) =>
        LET r == last.r  can == last.off + last.n <= Len(D) IN
        /\ ~r.hang
        /\ (last.n > 0 => ((r.err = "nil") <=> can))
        /\ (r.err = "nil" => r.bits = Slice(D, last.off, last.n) /\ r.ret = last.n)
        /\ Len(r.bits) <= last.n
        /\ r.bits = Slice(D, last.off, Len(r.bits))                     \* what was placed before an error is still true
SeekOK ==
    (last.op = "seek" /\ WellFormed(term)) =>
        LET t == (CASE last.wh = 0 -> 0 [] last.wh = 1 -> last.from [] OTHER -> Len(D)) + last.off IN
        /\ (last.s.err => t < 0 \/ t > Len(D))                          \* a seek inside the data succeeds
        /\ (~last.s.err => t >= 0 /\ last.s.pos = t)
EndIsLen == WellFormed(term) => End(term) = Len(D)
\* the judgement of a call is made on the transition that makes it (the call record is not part of the VIEW)
View == <<term, pos>>
StepOK == [][ReadOK' /\ FullOK' /\ SeekOK']_vars
\* witnesses, expected to be VIOLATED when the switch is on (the model reaches the out-of-contract corner):
OverlongTerminates == [][(last.op = "full" /\ last.off >= 0 => ~last.r.hang)']_vars
NegOffProgress == [][(last.op = "full" => ~last.r.hang)']_vars
=============================================================================
