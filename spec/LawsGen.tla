------------------------------ MODULE LawsGen ------------------------------
(***************************************************************************)
(* C14 GEN mode: TLC enumerates a family of inputs exhaustively and prints  *)
(* one job per input (the job format of harness/c14) together with the      *)
(* spec's expectation (fields starting with "e_").  The harness ignores     *)
(* the expectations; the runner compares them with what fq returned and     *)
(* TraceLaws.tla judges the same events independently.                     *)
(***************************************************************************)
EXTENDS Laws, Json
CONSTANTS Families,    \* the families to enumerate in this run (a set of names)
          NBits, NHexTxt, NB64Txt, NRadix, NCp, NDec, NUrlTxt, NVal     \* their size parameters
VARIABLE c             \* <<family, case>>

T == FqRadixTable
Seqs(S, lo, hi) == UNION {[1 .. k -> S] : k \in lo .. hi}

(* bits: every bit string of at most N bits *)
BitsJob(b) == [k |-> "bin", x |-> 1, bits |-> b, h |-> (Len(b) <= 10),
               e_hex |-> Hex(b), e_bytes |-> BitsToBytes(b),
               e_b64 |-> [v \in B64Variants |-> Base64(v, b)]]

(* hextxt: every text of at most N characters over a small alphabet with both cases, a non-digit and a blank *)
HexTxtAlpha == {48, 57, 97, 102, 70, 103, 32}          \* 0 9 a f F g ' '
HexTxtJob(t) == [k |-> "unhex", txt |-> t, e_ok |-> HexWellFormed(t),
                 e_out |-> IF HexWellFormed(t) THEN UnHex(t) ELSE <<>>]

(* b64txt: every text of at most N characters over an alphabet with the variant-specific characters, padding, junk *)
B64TxtAlpha == {65, 81, 119, 43, 47, 45, 95, 61, 33}     \* A Q w + / - _ = !
B64Class(v, t) == IF B64Canonical(v, t) THEN "canonical" ELSE IF B64Malformed(v, t) THEN "malformed" ELSE "open"
B64TxtJob(p) == [k |-> "unb64", variant |-> p[1], txt |-> p[2], dflt |-> FALSE, e_class |-> B64Class(p[1], p[2]),
                 e_out |-> IF B64Canonical(p[1], p[2]) THEN UnBase64(p[1], p[2]) ELSE <<>>]

(* radix: numerals of at most N symbols; the symbols are boundary digits of the base, digits of larger *)
(* bases (malformed for this base) and a character that is no digit at all                             *)
RadixBases == {2, 8, 10, 16, 36, 62, 64}
RadixSyms(base) == ({0, 1, 2, 7, 9, 10, 15, 35, 36, 61, 62, 63} \cap (0 .. (base - 1)))
                   \cup {base - 1} \cup ({base, base + 1, 63} \cap (0 .. 63)) \cup {64}
SymChar(s) == IF s = 64 THEN 33 ELSE T[s]                 \* 64 stands for '!'
RadixJob(p) ==
    LET base == p[1]
        t    == [i \in 1 .. Len(p[2]) |-> SymChar(p[2][i])]
        ok   == RadixWellFormed(base, T, t)
        val  == IF ok THEN SmallValue(base, Digits(T, t), 1, 0) ELSE 0
    IN [k |-> "fromradix", x |-> 1, base |-> base, txt |-> t, e_ok |-> ok, e_bits |-> NatBits(val),
        e_canon |-> (ok /\ RadixCanonical(T, t))]
\* the inverse direction is driven from the canonical numerals
IsCanonicalNumeral(p) == LET t == [i \in 1 .. Len(p[2]) |-> SymChar(p[2][i])] IN
                         RadixWellFormed(p[1], T, t) /\ RadixCanonical(T, t)
ToRadixJob(p) ==
    LET t == [i \in 1 .. Len(p[2]) |-> SymChar(p[2][i])] IN
    [k |-> "toradix", x |-> 1, base |-> p[1], bits |-> NatBits(SmallValue(p[1], Digits(T, t), 1, 0)), e_out |-> t]

(* cp: strings of one or two code points from the boundaries of the 1/2/3/4-byte and surrogate classes *)
CpReps == {0, 65, 127, 128, 255, 256, 2047, 2048, 55295, 57344, 65279, 65533, 65535, 65536, 1114111}
CpJob(s) == [k |-> "enc", x |-> 1, cps |-> s,
             e_r |-> [i \in 1 .. 5 |-> LET en == <<"UTF8", "UTF16", "UTF16LE", "UTF16BE", "ISO8859_1">>[i] IN
                       [enc |-> en, ok |-> EncDomain(en, s), out |-> IF EncDomain(en, s) THEN Encode(en, s) ELSE <<>>]]]

(* dec: byte strings of at most N bytes over lead/continuation/surrogate-half bytes, for every decoder *)
DecBytes == {0, 65, 128, 191, 192, 194, 224, 237, 160, 240, 244, 144, 255, 254, 216, 220}
DecEncs == {"UTF8", "UTF16", "UTF16LE", "UTF16BE"}
DecJob(p) == [k |-> "dec", enc |-> p[1], inb |-> p[2], e_wf |-> EncodedWF(p[1], p[2])]

(* url: every single ASCII character, some non-ASCII, and all pairs of class representatives *)
UrlReps == {0, 32, 37, 43, 47, 63, 38, 61, 35, 59, 44, 58, 64, 36, 126, 97, 48, 45, 233, 128512, 127}
UrlStrs(u) == {<<>>} \cup {<<a>> : a \in 0 .. 127} \cup {<<233>>, <<8364>>, <<128512>>} \cup [1 .. 2 -> UrlReps]
UrlJob(s) == [k |-> "url", x |-> 1, cps |-> s,
              e_comp |-> UrlEscape("component", UTF8Bytes(s)), e_path |-> UrlEscape("path", UTF8Bytes(s))]
(* urltxt: escaped texts of at most N characters *)
UrlTxtAlpha == {37, 52, 49, 70, 103, 43, 97}            \* % 4 1 F g + a
UrlTxtJob(t) == [k |-> "unurl", txt |-> t, e_ok |-> UrlWellFormed(t),
                 e_comp |-> IF UrlWellFormed(t) THEN UrlUnescape("component", t) ELSE <<>>,
                 e_path |-> IF UrlWellFormed(t) THEN UrlUnescape("path", t) ELSE <<>>]

(* val: small JSON values; one job per serialiser whose domain holds the value *)
S(x) == VStr(x)
StrAtoms == {S(<<>>), S(<<97>>), S(<<35, 99>>), S(<<32, 120>>), S(<<49>>), S(<<116, 114, 117, 101>>),
             S(<<97, 13, 10, 98>>), S(<<10>>), S(<<233>>), S(<<126>>), S(<<45>>), S(<<110, 117, 108, 108>>)}
NumAtoms == {VSmall(0), VSmall(1), VSmall(-1), VSmall(255), VInt(FALSE, Min63), VInt(TRUE, Min63), VInt(FALSE, Max63),
             VFlt(FALSE, "1.5"), VFlt(TRUE, "-2.25")}
Atoms == {VNull, VBool(TRUE), VBool(FALSE)} \cup NumAtoms \cup StrAtoms
K1 == <<>>                      \* ""
K2 == <<60, 60>>                \* "<<"
K3 == <<97>>                    \* "a"
K4 == <<98, 32, 99>>            \* "b c"
KeySeqs == {<<>>, <<K1>>, <<K2>>, <<K3>>, <<K4>>, <<K1, K3>>, <<K3, K4>>, <<K2, K3>>}
ArrsOver(X, n) == UNION {{VArr(e) : e \in [1 .. k -> X]} : k \in 0 .. n}
ObjsOver(X) == UNION {{VObj(ks, e) : e \in [1 .. Len(ks) -> X]} : ks \in KeySeqs}
Level1(u) == Atoms \cup ArrsOver(Atoms, 2) \cup ObjsOver(Atoms)
Small0 == {VNull, VSmall(1), VSmall(-1), S(<<>>), S(<<97>>), VInt(FALSE, Min63)}
Small1(u) == Small0 \cup {VArr(<<>>), VObj(<<>>, <<>>)} \cup {VArr(<<a>>) : a \in Small0} \cup {VObj(<<K3>>, <<a>>) : a \in Small0}
                 \cup {VObj(<<K1>>, <<VSmall(1)>>)}
Level2(u) == ArrsOver(Small1(u), 2) \cup ObjsOver(Small1(u))
JsonVals(u) == IF NVal >= 2 THEN Level1(u) \cup Level2(u) ELSE Level1(u)
\* CSV: rectangular rows over CSV-hostile cells
CsvCells == {<<>>, <<97>>, <<35, 99>>, <<32, 120>>, <<120, 44, 121>>, <<113, 34>>, <<97, 13, 10, 98>>, <<108, 10, 109>>}
CsvCells2 == {<<>>, <<97>>, <<35, 99>>, <<120, 44, 121>>, <<97, 13, 10, 98>>}
RowsOver(cells, w, n) == UNION {{VArr(rows) : rows \in [1 .. k -> {VArr(r) : r \in [1 .. w -> {S(x) : x \in cells}]}]} : k \in 0 .. n}
CsvVals(u) == RowsOver(CsvCells, 1, NVal + 1) \cup RowsOver(CsvCells2, 2, 2)
\* XML element trees, object variant
XText == {S(<<>>), S(<<116>>), S(<<97, 60, 38, 62, 34, 39, 98>>), S(<<233, 13, 10, 32, 120>>)}
XA == <<64, 107>>               \* "@k"
XB == <<98>>                    \* "b"
XC == <<99>>                    \* "c"
XElem0(u) == XText \cup {VObj(<<XA>>, <<t>>) : t \in XText}
                \cup {VObj(<<HashText, XA>>, <<t, w>>) : t \in XText \ {S(<<>>)}, w \in XText}
XElem1(u) == XElem0(u) \cup {VObj(<<XB>>, <<e>>) : e \in XElem0(u)}
                 \cup {VObj(<<XB>>, <<VArr(<<e, f>>)>>) : e \in XElem0(u), f \in XText}
                 \cup {VObj(<<XA, XB, XC>>, <<S(<<118>>), e, f>>) : e \in XText, f \in XElem0(u)}
                 \cup {VObj(<<HashText, XB>>, <<S(<<116>>), e>>) : e \in XText}
XmlVals(u) == {VObj(<<<<97>>>>, <<e>>) : e \in XElem1(u)} \cup {VObj(<<<<100, 111, 99>>>>, <<e>>) : e \in XElem0(u)}
\* XML element trees, array variant
XAttrs == {VNull, VObj(<<<<107>>>>, <<S(<<118>>)>>), VObj(<<HashText>>, <<S(<<116>>)>>), VObj(<<HashText, <<107>>>>, <<S(<<116, 32, 117>>), S(<<>>)>>)}
XArr0(u) == {VArr(<<S(n), a, VArr(<<>>)>>) : n \in {<<97>>, <<98>>}, a \in XAttrs}
XArr1(u) == XArr0(u) \cup {VArr(<<S(<<114>>), a, VArr(kids)>>) : a \in XAttrs, kids \in [1 .. 1 -> XArr0(u)] \cup [1 .. 2 -> XArr0(u)]}
\* URL query objects
QVals == {S(<<>>), S(<<97, 32, 98>>), S(<<38, 61>>)}
QObjs(u) == ObjsOver(QVals \cup {VArr(<<a, b>>) : a \in QVals, b \in QVals})
ValSerCases(u) ==
    {<<f, v>> : f \in {"json", "jq", "jsonl", "yaml", "toml", "json_i", "jq_i"}, v \in JsonVals(u)}
    \cup {<<"csv", v>> : v \in CsvVals(u)} \cup {<<"xml", v>> : v \in XmlVals(u)} \cup {<<"xmla", v>> : v \in XArr1(u)} \cup {<<"xmlseq", v>> : v \in XArr1(u)}
    \cup {<<"urlquery", v>> : v \in QObjs(u)}
ValCases(u) == {p \in ValSerCases(u) : InDomain(p[1], p[2])}
ValJob(p) == [k |-> "ser", f |-> p[1], v |-> p[2]]

(* bad: the malformed documents of Laws.tla *)
BadJob(p) == [k |-> "bad", f |-> p[1], doc |-> p[2]]

\* Enumeration by length through the initial-state predicate (a UNION of function sets is built eagerly by TLC
\* with a quadratic membership test; \E over the length is linear).
InitFam(fam) ==
    CASE fam = "bits"    -> \E k \in 0 .. NBits : \E x \in [1 .. k -> {0, 1}] : c = <<fam, x>>
      [] fam = "hextxt"  -> \E k \in 0 .. NHexTxt : \E x \in [1 .. k -> HexTxtAlpha] : c = <<fam, x>>
      [] fam = "b64txt"  -> \E v \in B64Variants, k \in 0 .. NB64Txt : \E t \in [1 .. k -> B64TxtAlpha] : c = <<fam, <<v, t>>>>
      [] fam = "radix"   -> \E b \in RadixBases, k \in 0 .. NRadix : \E n \in [1 .. k -> RadixSyms(b)] : c = <<fam, <<b, n>>>>
      [] fam = "toradix" -> \E b \in RadixBases, k \in 1 .. NRadix : \E n \in [1 .. k -> RadixSyms(b)] :
                               c = <<fam, <<b, n>>>> /\ IsCanonicalNumeral(<<b, n>>)
      [] fam = "cp"      -> \E k \in 0 .. NCp : \E x \in [1 .. k -> CpReps] : c = <<fam, x>>
      [] fam = "dec"     -> \E en \in DecEncs, k \in 0 .. NDec : \E b \in [1 .. k -> DecBytes] : c = <<fam, <<en, b>>>>
      [] fam = "url"     -> \E x \in UrlStrs(0) : c = <<fam, x>>
      [] fam = "urltxt"  -> \E k \in 0 .. NUrlTxt : \E x \in [1 .. k -> UrlTxtAlpha] : c = <<fam, x>>
      [] fam = "val"     -> \E x \in ValCases(0) : c = <<fam, x>>
      [] fam = "bad"     -> \E x \in MalformedDocs : c = <<fam, x>>
Job(fam, x) == CASE fam = "bits"    -> BitsJob(x)
                 [] fam = "hextxt"  -> HexTxtJob(x)
                 [] fam = "b64txt"  -> B64TxtJob(x)
                 [] fam = "radix"   -> RadixJob(x)
                 [] fam = "toradix" -> ToRadixJob(x)
                 [] fam = "cp"      -> CpJob(x)
                 [] fam = "dec"     -> DecJob(x)
                 [] fam = "url"     -> UrlJob(x)
                 [] fam = "urltxt"  -> UrlTxtJob(x)
                 [] fam = "val"     -> ValJob(x)
                 [] fam = "bad"     -> BadJob(x)

GInit == \E fam \in Families : InitFam(fam)
GNext == FALSE /\ c' = c
Emit == PrintT(ToJson(Job(c[1], c[2])))
GSpec == GInit /\ [][GNext]_c
=============================================================================
