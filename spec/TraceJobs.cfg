SPECIFICATION TSpec
CONSTANTS Threads = 16
 UseOnce = TRUE
 DeepCopy = TRUE
 SharedBuf = FALSE
 SharedInterp = FALSE
 Out <- OutTV
 Fails <- FailsTV
POSTCONDITION Consumed
CHECK_DEADLOCK FALSE
