------------------------------ MODULE BinaryMC ------------------------------
(* MC mode for C09: the algebra of Binary.tla, checked over every binary     *)
(* reachable from every bit string of at most MaxBits bits (either unit) by   *)
(* at most MaxSteps slicing / unit / conversion / concatenation steps.        *)
(* The laws are the ones the property statement names: split-and-concatenate, *)
(* front padding of tobytes versus trailing padding of the byte view, unit-   *)
(* relative indices after reslicing, size/start/stop consistency.             *)
EXTENDS Binary, FiniteSets

CONSTANTS MaxBits, MaxSteps,
          BoundsPos, BoundsNeg        \* slice bounds (negative ones as magnitudes)
Bounds == BoundsPos \cup {0 - k : k \in BoundsNeg}

VARIABLES b, n
vars == <<b, n>>

BitStrings(k) == UNION {[1 .. m -> {0, 1}] : m \in 0 .. k}
Init == /\ n = 0
        /\ \E s \in BitStrings(MaxBits), u \in {1, 8} : b = VBin(s, u, 0)

SliceStep  == \E x \in Bounds, y \in Bounds, hx \in BOOLEAN, hy \in BOOLEAN :
                 (hx \/ hy) /\ b' = Apply(Op("slice", x, y, hx, hy), b)
UnitStep   == \E o \in {"bits", "bytes", "tobitsrange", "tobytesrange"} : b' = Apply(Op0(o), b)
ConvStep   == \/ \E o \in {"tobits", "tobytes"} : b' = Apply(Op0(o), b)
              \/ \E o \in {"tobitsn", "tobytesn"}, p \in 0 .. 3 : b' = Apply(Op1(o, p), b)
ConcatStep == \E u \in {"tobits", "tobytes"} :
                 \/ b' = Apply(Op0(u), VArr(<<b, VNat(5)>>))            \* a byte member after it
                 \/ b' = Apply(Op0(u), VArr(<<VStr(<<97>>), VArr(<<b>>)>>))   \* nested, after a string
DoSlice  == n < MaxSteps /\ n' = n + 1 /\ SliceStep
DoUnit   == n < MaxSteps /\ n' = n + 1 /\ UnitStep
DoConv   == n < MaxSteps /\ n' = n + 1 /\ ConvStep
DoConcat == n < MaxSteps /\ n' = n + 1 /\ ConcatStep
Next == DoSlice \/ DoUnit \/ DoConv \/ DoConcat
Spec == Init /\ [][Next]_vars

(********************************** laws ***********************************)
N        == Units(b)
Bits(v)  == v.bits
TypeOK   == IsBin(b) /\ WF(b)

\* every operation yields a well-formed value, binaries stay inside their source range
Closed == \A o \in {"bits", "bytes", "tonumber", "tostring", "explode", "size", "start", "stop", "unit", "length",
                    "tobits", "tobytes", "tobitsrange", "tobytesrange", "to_hex"} :
             LET r == Apply(Op0(o), b) IN r.t \notin {"err", "skip"} /\ WF(r)

\* [b[:k], b[k:]] | tobits  =  b   (the whole units of b; both units; every k, also negative k)
SplitConcat ==
    \A k \in (0 .. N) \cup {0 - j : j \in 1 .. N} :
        LET l == Apply(Op("slice", 0, k, FALSE, TRUE), b)
            r == Apply(Op("slice", k, 0, TRUE, FALSE), b)
            j == Apply(Op0("tobits"), VArr(<<l, r>>))
        IN /\ Bits(j) = Sub(b.bits, 0, N * b.unit)
           /\ j.unit = 1 /\ j.start = 0
           /\ l.start = b.start /\ r.start = b.start + Len(l.bits)
           /\ l.unit = b.unit /\ r.unit = b.unit

\* tobytes pads in FRONT with fewer than 8 zero bits, keeps the number, forgets the range
TobytesLeftPad ==
    LET t == Apply(Op0("tobytes"), b)
        p == Len(t.bits) - Len(b.bits)
    IN /\ t.unit = 8 /\ t.start = 0
       /\ Len(t.bits) % 8 = 0 /\ p \in 0 .. 7
       /\ Sub(t.bits, 0, p) = Zeros(p) /\ Sub(t.bits, p, Len(b.bits)) = b.bits
       /\ Apply(Op0("tonumber"), t) = Apply(Op0("tonumber"), b)
       /\ Bits(Apply(Op0("tobits"), b)) = b.bits                       \* tobits never pads

\* tobits(p)/tobytes(p): minimal front padding to a multiple of p units
PadN ==
    \A p \in 1 .. 3 : \A o \in {"tobitsn", "tobytesn"} :
        LET u == IF o = "tobitsn" THEN 1 ELSE 8
            t == Apply(Op1(o, p), b)
            d == Len(t.bits) - Len(b.bits)
        IN /\ t.unit = u /\ Len(t.bits) % (u * p) = 0 /\ d \in 0 .. (u * p - 1)
           /\ Sub(t.bits, 0, d) = Zeros(d) /\ Sub(t.bits, d, Len(b.bits)) = b.bits
           /\ Apply(Op1(o, 0), b) = Apply(Op1(o, 1), b)

\* the byte view (tostring, to_hex) pads at the END
ByteViewRightPad ==
    LET s == Apply(Op0("tostring"), b)
        h == Apply(Op0("to_hex"), b)
        back == BytesToBits(s.bytes)
    IN /\ Len(s.bytes) = CeilDiv(Len(b.bits), 8)
       /\ Sub(back, 0, Len(b.bits)) = b.bits
       /\ Sub(back, Len(b.bits), Len(back) - Len(b.bits)) = Zeros(Len(back) - Len(b.bits))
       /\ Len(h.bytes) = 2 * Len(s.bytes)
       /\ h = Apply(Op0("to_hex"), s)                                  \* hex of the byte view = hex of the binary

\* size floors, stop rounds up, aligned ranges are exact
UnitOf(o)    == Apply(Op0(o), b)
AsNat(v)     == CHOOSE k \in 0 .. (b.start + Len(b.bits) + 8) : VNat(k) = v
RangeKeys ==
    LET size == AsNat(UnitOf("size")) start == AsNat(UnitOf("start")) stop == AsNat(UnitOf("stop"))
        end == b.start + Len(b.bits)
    IN /\ size = N /\ UnitOf("length") = UnitOf("size") /\ UnitOf("unit") = VNat(b.unit)
       /\ start * b.unit <= b.start /\ b.start < (start + 1) * b.unit
       /\ stop * b.unit >= end /\ (stop * b.unit) - end < b.unit
       /\ size <= stop - start
       /\ ((b.start % b.unit) = 0 /\ (Len(b.bits) % b.unit) = 0) => stop - start = size
       /\ b.unit = 1 => (start = b.start /\ stop = end)

\* explode = every index; indices are unit relative, negative from the end, outside is null
ExplodeIndex ==
    LET x == Apply(Op0("explode"), b) IN
    /\ Len(x.v) = N
    /\ \A j \in 1 .. N : x.v[j] = Index(b, j - 1) /\ Index(b, j - 1 - N) = x.v[j]
    /\ Index(b, N) = VNull /\ Index(b, 0 - N - 1) = VNull
    /\ \A j \in 1 .. N : x.v[j] = Apply(Op0("tonumber"), Apply(Op("slice", j - 1, j, TRUE, TRUE), b))

\* indices after reslicing are relative to the slice: b[i:j][k] = b[i+k]
IndexOfSlice ==
    \A i \in 0 .. N : \A j \in i .. N :
        LET s == Apply(Op("slice", i, j, TRUE, TRUE), b) IN
        /\ Units(s) = j - i
        /\ \A k \in 0 .. (j - i - 1) : Index(s, k) = Index(b, i + k)
        /\ Index(s, j - i) = VNull
        /\ (i < N /\ j < N) => Apply(Op("slice", i - N, j - N, TRUE, TRUE), b) = s   \* negative bounds name the same units

\* out-of-range bounds clamp, never fail; a reversed slice is empty
SliceClamps ==
    \A x \in Bounds : \A y \in Bounds :
        LET s == Apply(Op("slice", x, y, TRUE, TRUE), b) IN
        /\ IsBin(s) /\ Units(s) <= N /\ (Len(s.bits) % b.unit) = 0
        /\ s.start >= b.start /\ s.start + Len(s.bits) <= b.start + Len(b.bits)
        /\ s.bits = Sub(b.bits, s.start - b.start, Len(s.bits))

\* .bits / .bytes / to*range change only the unit
UnitViews ==
    /\ \A o \in {"bits", "bytes", "tobitsrange", "tobytesrange"} :
          LET v == Apply(Op0(o), b) IN v.bits = b.bits /\ v.start = b.start
    /\ Apply(Op0("bits"), Apply(Op0("bytes"), b)) = Apply(Op0("bits"), b)
    /\ Apply(Op0("tonumber"), Apply(Op0("bytes"), b)) = Apply(Op0("tonumber"), b)
=============================================================================
