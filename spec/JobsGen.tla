------------------------------- MODULE JobsGen -------------------------------
(* GEN / SIM mode for Jobs.tla: schedules.  A schedule is the projection of a behaviour of the as-built *)
(* model on its Start and Complete events: which jobs (input kind, option setting), on how many          *)
(* threads, in which order they start and which completions precede which starts.  Consecutive starts    *)
(* are jobs that start together (one barrier in the harness).  The internal steps of a job are taken in  *)
(* one go in front of its Complete (they commute in the as-built model: JobsMC checks that).             *)
(* Each job carries the class of its lone result, which the concrete job chosen for it must have.        *)
EXTENDS Jobs, Json
CONSTANTS MinJobs, MaxJobs, MaxThreads
VARIABLES st, descs, k, hist
gvars == <<st, descs, k, hist>>

OutMC(d, seen) == <<d.input, d.format, d.opt, seen>>
FailsMC(i, a) == i = "trunc" \/ (i = "optdep" /\ a = "set")
KO == <<[input |-> "good", format |-> "F1", opt |-> "unset"], [input |-> "good", format |-> "F1", opt |-> "set"],
        [input |-> "trunc", format |-> "F1", opt |-> "unset"], [input |-> "trunc", format |-> "F1", opt |-> "set"],
        [input |-> "optdep", format |-> "F2", opt |-> "unset"], [input |-> "optdep", format |-> "F2", opt |-> "set"]>>

GInit == /\ st = Init0 /\ hist = <<>>
         /\ k \in 1 .. MaxThreads
         /\ \E n \in MinJobs .. MaxJobs : \E q \in [1 .. n -> 1 .. Len(KO)] :
                descs = [j \in 1 .. n |-> Desc(KO[q[j]].input, KO[q[j]].format, KO[q[j]].opt, j)]
GStart(j) == /\ CanStart(st, j, descs[j], k)
             /\ st' = Start(st, j, descs[j])
             /\ hist' = Append(hist, [e |-> "s", j |-> j])
GFin(j) == /\ j \in Running(st)
           /\ LET t == RunToDone(st, j) IN
                /\ CanComplete(t, j) /\ ResultOf(t, j) = Solo(descs[j])
                /\ st' = Complete(t, j)
           /\ hist' = Append(hist, [e |-> "c", j |-> j])
GNext == \E j \in DOMAIN descs : (GStart(j) \/ GFin(j)) /\ UNCHANGED <<descs, k>>
GSpec == GInit /\ [][GNext]_gvars

Emit == IF st.fin = DOMAIN descs
        THEN PrintT(ToJson([threads |-> k, order |-> hist,
                            jobs |-> [j \in DOMAIN descs |-> [input |-> descs[j].input, opt |-> descs[j].opt,
                                                              class |-> SoloClass(descs[j])]]]))
        ELSE TRUE
=============================================================================
