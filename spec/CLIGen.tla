------------------------------- MODULE CLIGen -------------------------------
(***************************************************************************)
(* GEN mode for C17.  Two emitters (CONSTRAINT Emit prints one JSON case   *)
(* per state, Next is FALSE):                                              *)
(*   What = "parse": every raw token vector of CLILaws (full alphabet up   *)
(*          to MaxLenFull, reduced alphabet up to MaxLen) with the         *)
(*          result of the transcription ArgsParse (replayed on the real    *)
(*          _args_parse of args.jq)                                        *)
(*   What = "e2e":   tagged command lines by family with the predicted     *)
(*          parsed options, exit code and stdout (replayed on real Main)   *)
(***************************************************************************)
EXTENDS CLILaws, Json
CONSTANTS What, MaxInputs
VARIABLE g

P(txt) == Pos(<<txt>>)
Files(ks) == [i \in 1 .. Len(ks) |-> P(KindFile(ks[i]))]
Seqs(S0, n) == UNION {[1 .. k -> S0] : k \in 0 .. n}
Idx(from, n) == [i \in 1 .. n |-> from + i]
Case(fam, group, toks, fidx, stdin) == [fam |-> fam, group |-> group, toks |-> toks, fidx |-> fidx, stdin |-> stdin]
BoolFlags(names) == [i \in 1 .. Len(names) |-> FlagS(<<names[i]>>)]

\* ---- loop family: mode x program x input list (exhaustive) --------------------
ModeFlagSeqs == {<<>>, <<"null_input">>, <<"slurp">>, <<"string_input">>, <<"string_input", "slurp">>, <<"null_input", "string_input">>}
LoopProgs == {"id", "failB", "nocompile", "collect", "haltB"}
LoopKinds == {"A", "B", "U", "M", "D"}
LoopCases ==
    {Case("loop", "", BoolFlags(mf) \o <<P(Progs[p])>> \o Files(ks), Idx(Len(mf) + 1, Len(ks)), "A")
        : mf \in ModeFlagSeqs, p \in LoopProgs, ks \in Seqs(LoopKinds, MaxInputs)}
    \cup {Case("loop", "", BoolFlags(mf) \o <<P(Progs[p])>>, <<>>, k) : mf \in ModeFlagSeqs, p \in LoopProgs, k \in {"B", "U"}}
    \* all three failure classes in one run, every order (also when MaxInputs is small)
    \cup {Case("loop", "", BoolFlags(mf) \o <<P(Progs[p])>> \o Files(ks), Idx(Len(mf) + 1, Len(ks)), "A")
        : mf \in {<<>>, <<"slurp">>}, p \in {"failB", "emitfailB", "failnullB", "tryB", "defB"},
          ks \in {<<a, b, c>> : a \in {"B", "U", "M", "A"}, b \in {"B", "U", "M", "A"}, c \in {"B", "U", "M", "A"}} \cup {<<"D", "B", "A", "U">>, <<"A", "U", "B", "M">>}}
    \cup {Case("loop", "", <<P(Progs[p])>> \o Files(ks), Idx(1, Len(ks)), "A")
        : p \in {"dup", "none", "emitfailB", "failnullB", "wrap", "tryB", "optB", "labelB", "defB"}, ks \in Seqs(LoopKinds, 2) \cup {<<"B", "M", "A", "U">>, <<"A", "B", "B", "A">>}}

\* ---- format family: -r -j -c --raw-output0 on known JSON -------------------------
DispSets == SUBSET {"raw_string", "join_output", "compact", "null_output"}
DispToks(D) == (IF "raw_string" \in D THEN <<FlagS(<<"raw_string">>)>> ELSE <<>>)
            \o (IF "join_output" \in D THEN <<FlagS(<<"join_output">>)>> ELSE <<>>)
            \o (IF "compact" \in D THEN <<FlagS(<<"compact">>)>> ELSE <<>>)
            \o (IF "null_output" \in D THEN <<FlagL("null_output", "raw-output0")>> ELSE <<>>)
FormatInputs == {<<"B">>, <<"C">>, <<"O">>, <<"B", "C">>, <<"O", "M", "B">>, <<"T", "A">>, <<"E", "B">>}
FormatCases ==
    {Case("format", "", DispToks(D) \o <<P(Progs[p])>> \o Files(ks), Idx(Len(DispToks(D)) + 1, Len(ks)), "A")
        : D \in DispSets, p \in {"id", "wrap", "dup"}, ks \in FormatInputs}
    \cup {Case("format", "", mf \o DispToks(D) \o <<P(".")>> \o Files(ks), Idx(Len(mf) + Len(DispToks(D)) + 1, Len(ks)), "A")
        : D \in {{}, {"compact"}, {"raw_string"}, {"join_output"}},
          mf \in {<<FlagS(<<"slurp">>)>>, <<FlagS(<<"string_input">>)>>, <<FlagS(<<"string_input", "slurp">>)>>},
          ks \in {<<"B", "C">>, <<"O", "U", "A">>, <<"T", "A">>, <<"A", "T">>, <<"M">>, <<"E">>, <<"E", "M", "E">>, <<"E", "A">>}}
    \cup {Case("format", "", ot \o <<P(".")>> \o Files(<<"C", "O">>), Idx(Len(ot) + 1, 2), "A")
        : ot \in {<<FlagS(<<"option">>), Val(<<"compact", "=", "true">>)>>,
                  <<FlagSI(<<"option">>, <<"compact", "=", "true">>)>>,
                  <<FlagLI("option", "option", <<"compact", "=", "true">>)>>,
                  <<FlagS(<<"compact">>), FlagS(<<"option">>), Val(<<"compact", "=", "false">>)>>,
                  <<FlagS(<<"option">>), Val(<<"compact", "=", "false">>), FlagS(<<"compact">>)>>,
                  <<FlagS(<<"monochrome_output">>)>>, <<FlagS(<<"value_output">>)>>, <<FlagS(<<"include_path">>), Val(<<"x">>)>>,
                  <<FlagS(<<"decode_group">>), Val(<<"probe">>)>>, <<FlagS(<<"decode_group">>), Val(<<"json">>)>>}}

\* ---- named arguments: --arg / --argjson / --raw-file (jq: --rawfile) ---------------
BindingsOf(n) == {
    <<FlagL("arg", "arg"), Val(<<n>>), Val(<<"v">>)>>,
    <<FlagL("argjson", "argjson"), Val(<<n>>), Val(<<"1">>)>>,
    <<FlagL("argjson", "argjson"), Val(<<n>>), Val(<<"[1,2]">>)>>,
    <<FlagL("argjson", "argjson"), Val(<<n>>), Val(<<"\"s\"">>)>>,
    <<FlagL("argjson", "argjson"), Val(<<n>>), Val(<<"{">>)>>,
    <<FlagL("raw_file", "raw-file"), Val(<<n>>), Val(<<"raw.txt">>)>>,
    <<FlagL("raw_file", "raw-file"), Val(<<n>>), Val(<<"missing">>)>>,
    <<FlagL("raw_file", "raw-file"), Val(<<n>>), Val(<<"dir">>)>>,
    <<FlagL("raw_file", "rawfile"), Val(<<n>>), Val(<<"raw.txt">>)>>,
    <<>> }
Bindings == BindingsOf("x")
BindCases ==
    {Case("bind", "", b1 \o b2 \o <<FlagS(<<"null_input">>), P(Progs["var"])>>, <<>>, "A") : b1 \in Bindings, b2 \in BindingsOf("y")}
    \cup {Case("bind", "", <<FlagS(<<"compact">>)>> \o b1 \o <<P(Progs["var"])>> \o Files(ks), Idx(Len(b1) + 2, Len(ks)), "A")
            : b1 \in Bindings, ks \in {<<"A", "M", "B">>}}
    \cup {Case("bind", "", <<P(Progs["var"])>> \o Files(<<"A">>) \o b1, <<2>>, "A") : b1 \in Bindings}

\* ---- program from file --------------------------------------------------------------
FFileCases ==
    {Case("ffile", "", ft \o Files(ks), Idx(Len(ft), Len(ks)), "B")
        : ft \in {<<FlagS(<<"expr_file">>), Val(<<fn>>)>> : fn \in {"id.jq", "fail.jq", "nope.jq", "dir"}}
                 \cup {<<FlagSI(<<"expr_file">>, <<fn>>)>> : fn \in {"id.jq", "fail.jq"}}
                 \cup {<<FlagLI("expr_file", "from-file", <<"fail.jq">>)>>},
          ks \in {<<>>, <<"A">>, <<"B", "A">>, <<"A", "M", "B">>}}
    \cup {Case("ffile", "", <<FlagS(<<"expr_file">>), Val(<<"id.jq">>), P("."), P("b.json")>>, <<3, 4>>, "A"),      \* "." is a file now
          Case("ffile", "", <<P("a.json"), FlagS(<<"expr_file">>), Val(<<"id.jq">>), P("b.json")>>, <<1, 4>>, "A"),
          Case("ffile", "", <<FlagS(<<"null_input", "expr_file">>), Val(<<"fail.jq">>)>>, <<>>, "A")}

\* ---- argument errors: exit 2, nothing on stdout ---------------------------------------
ErrBases == {<<FlagS(<<"null_input">>), P(".")>>, <<P("."), P("a.json")>>, <<FlagS(<<"compact">>), P("."), P("c.json"), P("b.json")>>}
BadToks == {Bad("unknown", <<"-", "X">>), Bad("unknown", <<"-", "-", "nope">>), Bad("unknown", <<"-", "n", "X">>), Bad("unknown", <<"-", ".">>),
            Bad("unknown", <<"-", "-", "slurpx">>), Bad("unknown", <<"-", "X", "=", "1">>),
            Bad("boolval", <<"-", "n", "=", "1">>), Bad("boolval", <<"-", "-", "slurp", "=", "x">>), Bad("boolval", <<"-", "n", "r", "=", "x">>),
            Bad("boolval", <<"-", "-", "null-input", "=", "true">>), Bad("boolval", <<"-", "r", "c", "=", "1">>)}
MissingTails == {<<FlagS(<<"decode_group">>)>>, <<FlagL("decode_group", "decode")>>, <<FlagL("arg", "arg"), Val(<<"x">>)>>, <<FlagL("arg", "arg")>>,
                 <<FlagL("argjson", "argjson"), Val(<<"x">>)>>, <<FlagL("raw_file", "raw-file")>>,
                 <<FlagS(<<"option">>)>>, <<FlagS(<<"null_input", "decode_group">>)>>, <<FlagS(<<"expr_file">>)>>, <<FlagS(<<"include_path">>)>>}
InsertAt(v, i, t) == SubSeq(v, 1, i) \o <<t>> \o From(v, i + 1)
FileIdxOf(toks) == SelectIdx(toks, LAMBDA t : t.k = "pos" /\ FileKind(JoinSyms(t.sym)) \notin {"M"})
ErrCases ==
    UNION {{Case("argerr", "", InsertAt(b, i, t), <<>>, "A") : t \in BadToks, i \in 0 .. Len(b)} : b \in ErrBases}
    \cup {Case("argerr", "", b \o m, <<>>, "A") : b \in ErrBases, m \in MissingTails}

\* ---- metamorphic laws: all renderings of one intent form a group ----------------------
LawOrd == <<"null_input", "slurp", "string_input", "raw_string", "join_output", "compact">>
LawSets == {F \in SUBSET {"null_input", "slurp", "string_input", "raw_string", "join_output", "compact"} : Cardinality(F) \in 1 .. 3}
SeqOf(F) == SelectSeq(LawOrd, LAMBDA n : n \in F)
Rev(q) == [i \in 1 .. Len(q) |-> q[Len(q) + 1 - i]]
LongOf(n) == OptByName(n).long
LawFiles == <<"A", "B", "C">>
Renderings(F, d) ==
    LET q   == SeqOf(F)
        pos == <<P(".")>> \o Files(LawFiles)
        dS  == IF d THEN <<FlagS(<<"decode_group">>), Val(<<"json">>)>> ELSE <<>>
        sep == BoolFlags(q)
        R(law, toks, first) == [law |-> law, toks |-> toks, first |-> first]     \* first = index of the first file token
    IN {R("base", sep \o dS \o pos, Len(sep) + Len(dS) + 2),
        R("combine", <<FlagS(q)>> \o dS \o pos, 1 + Len(dS) + 2),
        R("longform", [i \in 1 .. Len(q) |-> FlagL(q[i], LongOf(q[i]))] \o dS \o pos, Len(sep) + Len(dS) + 2),
        R("permute", BoolFlags(Rev(q)) \o dS \o pos, Len(sep) + Len(dS) + 2),
        R("permute_valued", dS \o sep \o pos, Len(sep) + Len(dS) + 2),
        R("flags_after", pos \o sep \o dS, 2),
        R("flags_between", <<P(".")>> \o sep \o dS \o Files(LawFiles), Len(sep) + Len(dS) + 2),
        R("flags_interleaved", <<P("."), P("a.json")>> \o sep \o <<P("b.json")>> \o dS \o <<P("c.json")>>, 0),
        R("dashdash", sep \o dS \o <<DD>> \o pos, Len(sep) + Len(dS) + 3)}
       \cup (IF d THEN {R("combine_valued", <<FlagS(q \o <<"decode_group">>), Val(<<"json">>)>> \o pos, 4),
                        R("inline_short", sep \o <<FlagSI(<<"decode_group">>, <<"json">>)>> \o pos, Len(sep) + 3),
                        R("inline_long", sep \o <<FlagLI("decode_group", "decode", <<"json">>)>> \o pos, Len(sep) + 3),
                        R("inline_combined", <<FlagSI(q \o <<"decode_group">>, <<"json">>)>> \o pos, 3)}
             ELSE {})
LawGroup(F, d) == JoinWith("+", SeqOf(F)) \o (IF d THEN "+d=json" ELSE "")
LawCasesOf(F, d) == {LET fi == IF r.first = 0 THEN <<2, Len(r.toks) - 1 - (IF d THEN 2 ELSE 0), Len(r.toks)>> ELSE Idx(r.first - 1, 3)
                     IN Case("law:" \o r.law, LawGroup(F, d), r.toks, fi, "A") : r \in Renderings(F, d)}
LawCases == UNION {LawCasesOf(F, d) : F \in LawSets, d \in BOOLEAN}
\* after -- even flag look-alikes are positionals; -5 is a positional anywhere
DashCases == {
    Case("law:negnum", "negnum", <<FlagS(<<"null_input">>), P("."), Pos(<<"-", "5">>)>>, <<3>>, "A"),
    Case("law:negnum", "negnum", <<FlagS(<<"null_input">>), DD, P("."), Pos(<<"-", "5">>)>>, <<4>>, "A"),
    Case("law:negnum", "negnum", <<P("."), Pos(<<"-", "5">>), FlagS(<<"null_input">>)>>, <<2>>, "A"),
    Case("law:dashfile", "dashfile", <<P("."), DD, Pos(<<"-", "n">>), P("a.json")>>, <<3, 4>>, "A"),
    Case("law:dashfile", "dashfile", <<DD, P("."), Pos(<<"-", "n">>), P("a.json")>>, <<3, 4>>, "A"),
    Case("law:dashfile2", "dashfile2", <<FlagS(<<"compact">>), P("."), P("c.json"), DD, Pos(<<"-", "-", "slurp">>)>>, <<3, 5>>, "A"),
    Case("law:dashfile2", "dashfile2", <<FlagS(<<"compact">>), DD, P("."), P("c.json"), Pos(<<"-", "-", "slurp">>)>>, <<4, 5>>, "A"),
    Case("law:dashprog", "dashprog", <<FlagS(<<"null_input">>), DD, Pos(<<"-", "5">>)>>, <<>>, "A"),
    Case("law:dashprog", "dashprog", <<FlagS(<<"null_input">>), Pos(<<"-", "5">>)>>, <<>>, "A"),
    Case("law:dashprog", "dashprog", <<Pos(<<"-", "5">>), FlagS(<<"null_input">>)>>, <<>>, "A") }

E2ECases == LoopCases \cup FormatCases \cup BindCases \cup FFileCases \cup ErrCases \cup LawCases \cup DashCases

\* ---- emitters -----------------------------------------------------------------------
ParseVecs == Seqs(RawTokensReduced, MaxLen) \cup Seqs(RawTokensFull \cup RawTokensReduced, MaxLenFull)
GInit == g \in (IF What = "parse" THEN ParseVecs ELSE E2ECases) /\ vec = <<>>
GNext == FALSE /\ g' = g /\ vec' = vec
GSpec == GInit /\ [][GNext]_<<g, vec>>

EmitParse == LET r == ArgsParse(g) IN
    PrintT(ToJson([argv |-> JoinAll(g), ok |-> r.ok, parsed |-> PJson(r.parsed), rest |-> r.rest, err |-> r.err, at |-> r.at]))
EmitE2E == LET it == Intent(g.toks)
               r  == RunIntent(g.toks, g.stdin)
           IN PrintT(ToJson([fam |-> g.fam, group |-> g.group, toks |-> g.toks, fidx |-> g.fidx, stdin |-> g.stdin,
                             argv |-> JoinAll(SymsOf(g.toks)),
                             ist |-> it.st, parsed |-> PJson(it.flags), rest |-> it.pos,
                             st |-> r.st, exit |-> r.exit, out |-> r.out,
                             mode |-> r.cfg.mode, nullin |-> r.cfg.nullin, prog |-> r.cfg.prog,
                             indep |-> (r.st = "ok" /\ IndepApplies(r.cfg)),
                             good |-> (IF r.st = "ok" THEN GoodIdx(r.cfg) ELSE <<>>),
                             inputs |-> [i \in 1 .. Len(r.cfg.inputs) |-> r.cfg.inputs[i].name],
                             jqspell |-> UsesJqSpelling(g.toks)]))
Emit == IF What = "parse" THEN EmitParse ELSE EmitE2E
=============================================================================
