-------------------------------- MODULE CLI --------------------------------
(***************************************************************************)
(* C17 - command line contract of fq: exit status, independent inputs,     *)
(* jq-compatible modes.  Variable-free operator module (models: CLIMC,     *)
(* CLIGen, TraceCLI).                                                      *)
(*                                                                         *)
(*  (a) ArgsParse  - transcription of _args_parse (pkg/interp/args.jq)     *)
(*      over tokens that are sequences of symbols, + the documented        *)
(*      grammar (Intent) over TAGGED tokens, + the metamorphic laws.       *)
(*  (b) OptEval    - transcription of _opt_eval (options.jq:117-233).      *)
(*  (c) input loop - En/Do operators of the state machine of init.jq       *)
(*      (input/inputs, _main, _finally) + a declarative requirement Req.   *)
(*                                                                         *)
(* A token is a sequence of SYMBOLS; the real argv string is the           *)
(* concatenation of the symbols.  Symbols are "-", "=", ".", single        *)
(* characters, and multi-character atoms (long flag names, words).  After  *)
(* a single leading "-" every symbol up to the first "=" is one character  *)
(* (so symbol slicing = the character slicing done by args.jq); atoms      *)
(* never start with "-" or a digit.                                        *)
(***************************************************************************)
EXTENDS Integers, Sequences, FiniteSets, TLC

Digits == {"0", "1", "2", "3", "4", "5", "6", "7", "8", "9"}

RECURSIVE JoinSyms(_)
JoinSyms(t) == IF Len(t) = 0 THEN "" ELSE Head(t) \o JoinSyms(Tail(t))
JoinAll(ts) == [i \in 1 .. Len(ts) |-> JoinSyms(ts[i])]
RECURSIVE CatStr(_)
CatStr(ss) == IF Len(ss) = 0 THEN "" ELSE Head(ss) \o CatStr(Tail(ss))
RECURSIVE Flatten(_)
Flatten(ss) == IF Len(ss) = 0 THEN <<>> ELSE Head(ss) \o Flatten(Tail(ss))

\* 1-based index of the first symbol c in t, 0 if absent  (jq: index("="))
IndexOfSym(t, c) ==
    IF \E i \in 1 .. Len(t) : t[i] = c
    THEN CHOOSE i \in 1 .. Len(t) : t[i] = c /\ \A j \in 1 .. (i - 1) : t[j] # c
    ELSE 0
From(t, i) == SubSeq(t, i, Len(t))

(***************************************************************************)
(* The documented flag set: transcription of _opt_cli_opts                 *)
(* (options.jq:383-520).  kind: bool | string | optstring (-h) | array |   *)
(* object | pairs.  short "" = none.                                       *)
(***************************************************************************)
Opt(n, s, l, al, k) == [name |-> n, short |-> s, long |-> l, aliases |-> al, kind |-> k]
CliOpts == {
    Opt("arg",               "",  "arg",               {},              "pairs"),
    Opt("argdecode",         "",  "argdecode",         {"decode-file"}, "pairs"),
    Opt("argjson",           "",  "argjson",           {},              "pairs"),
    Opt("compact",           "c", "compact-output",    {},              "bool"),
    Opt("color_output",      "C", "color-output",      {},              "bool"),
    Opt("decode_group",      "d", "decode",            {},              "string"),
    Opt("expr_file",         "f", "from-file",         {},              "string"),
    Opt("show_help",         "h", "help",              {},              "optstring"),
    Opt("join_output",       "j", "join-output",       {},              "bool"),
    Opt("include_path",      "L", "include-path",      {},              "array"),
    Opt("null_output",       "",  "raw-output0",       {"nul-output"},  "bool"),
    Opt("null_input",        "n", "null-input",        {},              "bool"),
    Opt("monochrome_output", "M", "monochrome-output", {},              "bool"),
    Opt("option",            "o", "option",            {},              "object"),
    Opt("string_input",      "R", "raw-input",         {},              "bool"),
    Opt("raw_file",          "",  "raw-file",          {"raw-file"},    "pairs"),
    Opt("raw_string",        "r", "raw-output",        {},              "bool"),
    Opt("repl",              "i", "repl",              {},              "bool"),
    Opt("slurp",             "s", "slurp",             {},              "bool"),
    Opt("unicode_output",    "U", "unicode-output",    {},              "bool"),
    Opt("value_output",      "V", "value-output",      {},              "bool"),
    Opt("show_version",      "v", "version",           {},              "bool") }

NoOpt == Opt("", "", "", {}, "none")
OptMatches(o, arg) ==
    \/ o.short # "" /\ arg = <<"-", o.short>>
    \/ arg = <<"-", "-", o.long>>
    \/ \E a \in o.aliases : arg = <<"-", "-", a>>
\* $flagmap[$arg] then $opts[$optname]
Lookup(arg) == IF \E o \in CliOpts : OptMatches(o, arg)
               THEN CHOOSE o \in CliOpts : OptMatches(o, arg) ELSE NoOpt
OptByName(n) == CHOOSE o \in CliOpts : o.name = n

(***************************************************************************)
(* Parsed option values are uniform records [t, v]:                        *)
(*   "b" bool (v = <<>>), "s" string <<str>>, "a" array of strings,        *)
(*   "p" array of <<name, value>> pairs, "o" function key -> value.        *)
(***************************************************************************)
VB == [t |-> "b", v |-> <<>>]
VS(s) == [t |-> "s", v |-> <<s>>]
ValEq(a, b) == a.t = b.t /\ a.v = b.v
PEq(p, q) == DOMAIN p = DOMAIN q /\ \A k \in DOMAIN p : ValEq(p[k], q[k])
EmptyP == [k \in {} |-> VB]
PSet(p, name, val) == [k \in DOMAIN p \cup {name} |-> IF k = name THEN val ELSE p[k]]
PAppend(p, name, tag, x) ==
    PSet(p, name, [t |-> tag, v |-> Append(IF name \in DOMAIN p THEN p[name].v ELSE <<>>, x)])
PObjSet(p, name, key, val) ==
    LET cur == IF name \in DOMAIN p THEN p[name].v ELSE [k \in {} |-> ""]
    IN PSet(p, name, [t |-> "o", v |-> [k \in DOMAIN cur \cup {key} |-> IF k = key THEN val ELSE cur[k]]])

ROk(parsed, rest) == [ok |-> TRUE, parsed |-> parsed, rest |-> rest, err |-> "", at |-> ""]
RErr(class, argtok) == [ok |-> FALSE, parsed |-> EmptyP, rest |-> <<>>, err |-> class, at |-> JoinSyms(argtok)]
\* equality of parse results up to the error position
REq(a, b) == IF a.ok /\ b.ok THEN PEq(a.parsed, b.parsed) /\ a.rest = b.rest
             ELSE ~a.ok /\ ~b.ok

(******************** (a) as built: _args_parse ****************************)
DashOrDigit(c) == c = "-" \/ c \in Digits
\* test("^--?[^-\\d]")
FlagLike(arg) ==
    /\ Len(arg) >= 2 /\ arg[1] = "-"
    /\ IF arg[2] = "-" THEN Len(arg) >= 3 /\ ~DashOrDigit(arg[3]) ELSE ~DashOrDigit(arg[2])
\* test("^-[^-]")
SingleDash(arg) == Len(arg) >= 2 /\ arg[1] = "-" /\ arg[2] # "-"

RECURSIVE Parse(_, _, _)
Parse(args, parsed, rest) ==
    IF Len(args) = 0 THEN ROk(parsed, rest)                            \* $arg == null
    ELSE
    LET a0  == args[1]
        ai  == IndexOfSym(a0, "=")                                      \* $assign_i (1-based, 0 = none)
        arg == IF ai > 0 THEN SubSeq(a0, 1, ai - 1) ELSE a0
        WithArg(newArgs, o, valTok) ==                                  \* _parse_with_arg, string/array/object
            IF o.kind = "object" THEN
                LET ki == IndexOfSym(valTok, "=") IN
                IF ki = 0 THEN RErr("keyvalue", valTok)
                ELSE Parse(newArgs, PObjSet(parsed, o.name, JoinSyms(SubSeq(valTok, 1, ki - 1)), JoinSyms(From(valTok, ki + 1))), rest)
            ELSE IF o.kind = "array" THEN Parse(newArgs, PAppend(parsed, o.name, "a", JoinSyms(valTok)), rest)
            ELSE Parse(newArgs, PSet(parsed, o.name, VS(JoinSyms(valTok))), rest)
        WithoutArg(newArgs, o) == Parse(newArgs, PSet(parsed, o.name, VB), rest)
    IN
    IF arg = <<"-", "-">> THEN ROk(parsed, rest \o JoinAll(Tail(args)))
    ELSE IF FlagLike(arg) THEN
        LET o == Lookup(arg) IN
        IF o = NoOpt THEN
            IF SingleDash(arg) THEN
                LET a2 == SubSeq(arg, 1, 2)
                    o2 == Lookup(a2)
                IN IF o2 = NoOpt THEN RErr("nosuch", a2)
                   ELSE IF o2.kind = "bool" THEN WithoutArg(<< <<"-">> \o From(a0, 3) >> \o Tail(args), o2)
                   ELSE RErr("needsarg", a2)
            ELSE RErr("nosuch", arg)
        ELSE IF o.kind \in {"string", "optstring", "array", "object"} THEN
            IF ai > 0 THEN WithArg(Tail(args), o, From(a0, ai + 1))
            ELSE IF Len(args) < 2 THEN
                IF o.kind = "optstring" THEN WithoutArg(Tail(args), o) ELSE RErr("needsarg", arg)
            ELSE WithArg(From(args, 3), o, args[2])
        ELSE IF o.kind = "pairs" THEN
            IF Len(args) > 2
            THEN Parse(From(args, 4), PAppend(parsed, o.name, "p", <<JoinSyms(args[2]), JoinSyms(args[3])>>), rest)
            ELSE RErr("needstwo", arg)
        ELSE IF ai > 0 THEN RErr("takesnoarg", arg)
        ELSE WithoutArg(Tail(args), o)
    ELSE Parse(Tail(args), parsed, Append(rest, JoinSyms(a0)))

ArgsParse(argv) == Parse(argv, EmptyP, <<>>)

\* JSON shape of a parsed map, as the real _args_parse returns it
VJson(x) == CASE x.t = "b" -> TRUE [] x.t = "s" -> x.v[1] [] OTHER -> x.v
PJson(p) == [k \in DOMAIN p |-> VJson(p[k])]

(******************** (a) as required: documented grammar ******************)
(* A tagged token: [k, names, form, spell, inl, val, cls, sym]             *)
(*   k = "flag": a group of flags; names = option names; all but the last  *)
(*       are bool; form "short" (-abc) or "long" (--spell, one name);      *)
(*       inl = TRUE: "=val" attached.                                      *)
(*   k = "val": a value word for the preceding valued flag                 *)
(*   k = "pos": positional word; k = "dd": "--"                            *)
(*   k = "bad": cls "unknown" | "boolval"                                  *)
(* sym is what is really passed; WellTagged checks the tag against it.     *)
(* jq spells the file-binding flag --rawfile, fq documents --raw-file.     *)
(***************************************************************************)
JqSpellings(name) == IF name = "raw_file" THEN {"rawfile"} ELSE {}
Spellings(name) == LET o == OptByName(name) IN {o.long} \cup o.aliases \cup JqSpellings(name)
Shorts == {o.short : o \in {x \in CliOpts : x.short # ""}}
Longs == UNION {{o.long} \cup o.aliases : o \in CliOpts} \cup {"rawfile"}
KindOfName(n) == OptByName(n).kind
ValuedKinds == {"string", "array", "object"}

Tok(k, names, form, spell, inl, val, cls, sym) ==
    [k |-> k, names |-> names, form |-> form, spell |-> spell, inl |-> inl, val |-> val, cls |-> cls, sym |-> sym]

RenderFlag(t) ==
    (IF t.form = "short" THEN <<"-">> \o [i \in 1 .. Len(t.names) |-> OptByName(t.names[i]).short]
     ELSE <<"-", "-", t.spell>>)
    \o (IF t.inl THEN <<"=">> \o t.val ELSE <<>>)

PlainWord(sym) == Len(sym) >= 1 /\ ~FlagLike(sym) /\ sym # <<"-", "-">> /\ IndexOfSym(sym, "=") # 1
                  /\ ~(Len(sym) >= 2 /\ sym[1] = "-" /\ sym[2] = "-")

WellTaggedTok(t) ==
    CASE t.k = "flag" ->
            /\ Len(t.names) >= 1
            /\ \A i \in 1 .. Len(t.names) : \E o \in CliOpts : o.name = t.names[i]
            /\ \A i \in 1 .. (Len(t.names) - 1) : KindOfName(t.names[i]) = "bool"
            /\ IF t.form = "short" THEN \A i \in 1 .. Len(t.names) : OptByName(t.names[i]).short # ""
               ELSE Len(t.names) = 1 /\ t.spell \in Spellings(t.names[1])
            /\ t.inl => KindOfName(t.names[Len(t.names)]) \in ValuedKinds /\ Len(t.val) >= 1
            /\ t.sym = RenderFlag(t)
      [] t.k = "val" -> PlainWord(t.sym)
      [] t.k = "pos" -> Len(t.sym) >= 1
      [] t.k = "dd"  -> t.sym = <<"-", "-">>
      [] t.k = "bad" ->
            LET ai == IndexOfSym(t.sym, "=")
                pre == IF ai > 0 THEN SubSeq(t.sym, 1, ai - 1) ELSE t.sym
            IN /\ FlagLike(pre)
               /\ IF t.cls = "unknown" THEN
                      IF SingleDash(pre)
                      THEN \E i \in 2 .. Len(pre) : pre[i] \notin Shorts
                                /\ \A j \in 2 .. (i - 1) : \E o \in CliOpts : o.short = pre[j] /\ o.kind = "bool"
                      ELSE Len(pre) = 3 /\ pre[3] \notin Longs
                  ELSE /\ t.cls = "boolval" /\ ai > 0
                       /\ IF SingleDash(pre)
                          THEN \A j \in 2 .. Len(pre) : \E o \in CliOpts : o.short = pre[j] /\ o.kind = "bool"
                          ELSE Len(pre) = 3 /\ \E o \in CliOpts : o.kind = "bool" /\ pre[3] \in {o.long} \cup o.aliases
      [] OTHER -> FALSE

\* state of the documented-grammar fold
IState == [flags |-> EmptyP, pos |-> <<>>, dd |-> FALSE, need |-> 0, nfor |-> "", pend |-> <<>>, st |-> "ok"]
\* st: "ok" | "argerr" (the property demands exit 2) | "undoc" (shape outside the documented grammar: not judged)

ISetValued(s, name, valTok) ==
    LET kd == KindOfName(name) IN
    IF kd = "object" THEN
        LET ki == IndexOfSym(valTok, "=") IN
        IF ki = 0 THEN [s EXCEPT !.st = "undoc"]
        ELSE [s EXCEPT !.flags = PObjSet(@, name, JoinSyms(SubSeq(valTok, 1, ki - 1)), JoinSyms(From(valTok, ki + 1)))]
    ELSE IF kd = "array" THEN [s EXCEPT !.flags = PAppend(@, name, "a", JoinSyms(valTok))]
    ELSE [s EXCEPT !.flags = PSet(@, name, VS(JoinSyms(valTok)))]

ISetBools(s, names) ==
    LET bs == {names[i] : i \in {j \in 1 .. Len(names) : KindOfName(names[j]) = "bool"}}
    IN [s EXCEPT !.flags = [k \in DOMAIN @ \cup bs |-> IF k \in bs THEN VB ELSE @[k]]]

IStep(s, t) ==
    IF s.st # "ok" THEN s
    ELSE IF s.dd THEN [s EXCEPT !.pos = Append(@, JoinSyms(t.sym))]
    ELSE IF s.need > 0 THEN
        IF t.k # "val" THEN [s EXCEPT !.st = "undoc"]
        ELSE IF KindOfName(s.nfor) = "pairs" THEN
            IF s.need = 2 THEN [s EXCEPT !.need = 1, !.pend = <<JoinSyms(t.sym)>>]
            ELSE [s EXCEPT !.need = 0, !.flags = PAppend(@, s.nfor, "p", <<s.pend[1], JoinSyms(t.sym)>>)]
        ELSE [ISetValued(s, s.nfor, t.sym) EXCEPT !.need = 0]
    ELSE CASE t.k = "dd"  -> [s EXCEPT !.dd = TRUE]
           [] t.k = "pos" -> IF PlainWord(t.sym) THEN [s EXCEPT !.pos = Append(@, JoinSyms(t.sym))] ELSE [s EXCEPT !.st = "undoc"]
           [] t.k = "bad" -> [s EXCEPT !.st = "argerr"]
           [] t.k = "val" -> [s EXCEPT !.st = "undoc"]
           [] t.k = "flag" ->
                LET last == t.names[Len(t.names)]
                    kd   == KindOfName(last)
                    s1   == ISetBools(s, t.names)
                IN IF kd = "bool" THEN s1
                   ELSE IF kd = "optstring" THEN [s1 EXCEPT !.st = "undoc"]
                   ELSE IF kd = "pairs" THEN [s1 EXCEPT !.need = 2, !.nfor = last]
                   ELSE IF t.inl THEN ISetValued(s1, last, t.val)
                   ELSE [s1 EXCEPT !.need = 1, !.nfor = last]
           [] OTHER -> [s EXCEPT !.st = "undoc"]

RECURSIVE IFold(_, _)
IFold(s, toks) == IF Len(toks) = 0 THEN s ELSE IFold(IStep(s, Head(toks)), Tail(toks))
Intent(toks) ==
    IF \E i \in 1 .. Len(toks) : ~WellTaggedTok(toks[i]) THEN [IState EXCEPT !.st = "illtagged"]
    ELSE LET s == IFold(IState, toks) IN
         IF s.st = "ok" /\ s.need > 0 THEN [s EXCEPT !.st = "argerr"] ELSE s      \* missing value
SymsOf(toks) == [i \in 1 .. Len(toks) |-> toks[i].sym]
UsesJqSpelling(toks) == \E i \in 1 .. Len(toks) : toks[i].k = "flag" /\ toks[i].form = "long" /\ toks[i].spell = "rawfile"

\* the transcription implements the documented grammar
RefinesIntent(toks) ==
    LET it == Intent(toks)
        r  == ArgsParse(SymsOf(toks))
    IN CASE it.st = "ok"     -> r.ok /\ PEq(r.parsed, it.flags) /\ r.rest = it.pos
         [] it.st = "argerr" -> ~r.ok
         [] OTHER            -> TRUE

(******************** (a) the metamorphic laws ******************************)
(* Stated on raw token vectors v (sequences of symbol sequences).          *)
IsBoolTok(t) == LET o == Lookup(t) IN o # NoOpt /\ o.kind = "bool"
IsWord(t) == PlainWord(t) /\ IndexOfSym(t, "=") = 0
\* tokens before position i cannot swallow v[i]: only bool flags and plain words
SimpleBefore(v, i) == \A j \in 1 .. (i - 1) : IsBoolTok(v[j]) \/ IsWord(v[j])
Replace(v, i, ts) == SubSeq(v, 1, i - 1) \o ts \o From(v, i + 1)

\* L1  -ab == -a -b   (a bool; b anything that may follow)
IsCombined(t) == /\ Len(t) >= 3 /\ t[1] = "-" /\ t[2] \notin {"-", "="} \cup Digits /\ t[3] # "="
                 /\ Lookup(<<"-", t[2]>>) # NoOpt /\ Lookup(<<"-", t[2]>>).kind = "bool"
LawCombine(v) == \A i \in 1 .. Len(v) : (IsCombined(v[i]) /\ SimpleBefore(v, i)) =>
                    REq(ArgsParse(v), ArgsParse(Replace(v, i, << <<"-", v[i][2]>>, <<"-">> \o From(v[i], 3) >>)))
\* L2  --x=v == --x v  and  -x=v == -x v   (x takes a value)
IsInline(t) == LET ai == IndexOfSym(t, "=") IN
               ai > 1 /\ ai < Len(t) /\ Lookup(SubSeq(t, 1, ai - 1)).kind \in ValuedKinds
LawInline(v) == \A i \in 1 .. Len(v) : (IsInline(v[i]) /\ SimpleBefore(v, i)) =>
                    LET ai == IndexOfSym(v[i], "=") IN
                    REq(ArgsParse(v), ArgsParse(Replace(v, i, <<SubSeq(v[i], 1, ai - 1), From(v[i], ai + 1)>>)))
\* L3  a bool flag may be moved over a neighbouring bool flag, a positional word, or a valued flag with its value
Swap(v, i) == Replace(SubSeq(v, 1, i), i, <<v[i + 1], v[i]>>) \o From(v, i + 2)
IsSepValued(t) == Lookup(t).kind \in ValuedKinds
LawPermute(v) ==
    /\ \A i \in 1 .. (Len(v) - 1) :
          (SimpleBefore(v, i) /\ IsBoolTok(v[i]) /\ (IsBoolTok(v[i + 1]) \/ IsWord(v[i + 1])))
             => REq(ArgsParse(v), ArgsParse(Swap(v, i)))
    /\ \A i \in 1 .. (Len(v) - 2) :
          (SimpleBefore(v, i) /\ IsBoolTok(v[i]) /\ IsSepValued(v[i + 1]))
             => REq(ArgsParse(v), ArgsParse(SubSeq(v, 1, i - 1) \o <<v[i + 1], v[i + 2], v[i]>> \o From(v, i + 3)))
\* L4  everything after -- is positional
LawDashDash(v) == \A i \in 1 .. Len(v) : (v[i] = <<"-", "-">> /\ SimpleBefore(v, i)) =>
                    LET a == ArgsParse(v)
                        p == ArgsParse(SubSeq(v, 1, i - 1))
                    IN a.ok /\ p.ok /\ PEq(a.parsed, p.parsed) /\ a.rest = p.rest \o JoinAll(From(v, i + 1))
\* L5  -5 / -0.1 are positionals
IsNegNum(t) == Len(t) >= 2 /\ t[1] = "-" /\ t[2] \in Digits /\ IndexOfSym(t, "=") = 0
LawNegNum(v) == \A i \in 1 .. Len(v) : (IsNegNum(v[i]) /\ SimpleBefore(v, i)) =>
                    LET a == ArgsParse(v)
                        b == ArgsParse(Replace(v, i, << <<"w">> >>))
                        k == Cardinality({j \in 1 .. (i - 1) : IsWord(v[j])}) + 1
                    IN (a.ok <=> b.ok) /\ (a.ok => PEq(a.parsed, b.parsed) /\ Len(a.rest) = Len(b.rest)
                                                   /\ a.rest[k] = JoinSyms(v[i])
                                                   /\ \A j \in 1 .. Len(a.rest) : j # k => a.rest[j] = b.rest[j])
\* L6  unknown flag, value on a bool flag, missing value => error
IsUnknownTok(t) == LET ai == IndexOfSym(t, "=")
                       pre == IF ai > 0 THEN SubSeq(t, 1, ai - 1) ELSE t
                   IN FlagLike(pre) /\ IF SingleDash(pre) THEN pre[2] \notin Shorts ELSE Len(pre) = 3 /\ pre[3] \notin (Longs \ {"rawfile"})
IsBoolValTok(t) == LET ai == IndexOfSym(t, "=") IN ai > 1 /\ IsBoolTok(SubSeq(t, 1, ai - 1))
LawErrors(v) ==
    /\ \A i \in 1 .. Len(v) : (SimpleBefore(v, i) /\ (IsUnknownTok(v[i]) \/ IsBoolValTok(v[i]))) => ~ArgsParse(v).ok
    /\ (Len(v) >= 1 /\ SimpleBefore(v, Len(v)) /\ Lookup(v[Len(v)]).kind \in ValuedKinds \cup {"pairs"}) => ~ArgsParse(v).ok
    /\ (Len(v) >= 2 /\ SimpleBefore(v, Len(v) - 1) /\ Lookup(v[Len(v) - 1]).kind = "pairs") => ~ArgsParse(v).ok
\* L7  the first positional is the program unless -f is given: see OptEval (expr / filenames)
Laws(v) == LawCombine(v) /\ LawInline(v) /\ LawPermute(v) /\ LawDashDash(v) /\ LawNegNum(v) /\ LawErrors(v)

(***************************************************************************)
(* JSON values, file universe, programs                                     *)
(***************************************************************************)
\* strings are sequences of chunks; the chunks "\"" and "\n" are the only ones that need escaping
JV(t, n, s, a) == [t |-> t, n |-> n, s |-> s, a |-> a]
JNull == JV("null", 0, <<>>, <<>>)
JNum(n) == JV("num", n, <<>>, <<>>)
JStr(chunks) == JV("str", 0, chunks, <<>>)
JArr(a) == JV("arr", 0, <<>>, a)
JObj1(k, v) == JV("obj", 0, <<k>>, <<v>>)         \* object with one key

EncChunk(c) == IF c = "\"" THEN "\\\"" ELSE IF c = "\n" THEN "\\n" ELSE c
EncStr(chunks) == "\"" \o CatStr([i \in 1 .. Len(chunks) |-> EncChunk(chunks[i])]) \o "\""
RECURSIVE JoinWith(_, _)
JoinWith(sep, ss) == IF Len(ss) = 0 THEN "" ELSE IF Len(ss) = 1 THEN ss[1] ELSE ss[1] \o sep \o JoinWith(sep, Tail(ss))
RECURSIVE Spaces(_)
Spaces(n) == IF n = 0 THEN "" ELSE " " \o Spaces(n - 1)
RECURSIVE Compact(_)
Compact(x) ==
    CASE x.t = "null" -> "null"
      [] x.t = "num"  -> ToString(x.n)
      [] x.t = "str"  -> EncStr(x.s)
      [] x.t = "arr"  -> "[" \o JoinWith(",", [i \in 1 .. Len(x.a) |-> Compact(x.a[i])]) \o "]"
      [] x.t = "obj"  -> "{" \o EncStr(<<x.s[1]>>) \o ":" \o Compact(x.a[1]) \o "}"
RECURSIVE Pretty(_, _)
Pretty(x, ind) ==
    CASE x.t = "arr" ->
            IF Len(x.a) = 0 THEN "[]"
            ELSE "[\n" \o JoinWith(",\n", [i \in 1 .. Len(x.a) |-> Spaces(ind + 2) \o Pretty(x.a[i], ind + 2)]) \o "\n" \o Spaces(ind) \o "]"
      [] x.t = "obj" -> "{\n" \o Spaces(ind + 2) \o EncStr(<<x.s[1]>>) \o ": " \o Pretty(x.a[1], ind + 2) \o "\n" \o Spaces(ind) \o "}"
      [] OTHER -> Compact(x)

\* display options: [compact, raw, join]
NUL == "<NUL>"     \* the harness writes byte 0 of stdout as this marker
Display(x, d) == (IF x.t = "str" /\ d.raw THEN CatStr(x.s) ELSE IF d.compact THEN Compact(x) ELSE Pretty(x, 0)) \o d.join

\* input kinds: good A B C O T(no trailing newline); U undecodable text; E empty file (undecodable); M missing; D directory
GoodKinds == {"A", "B", "C", "O", "T"}
AllKinds == GoodKinds \cup {"U", "E", "M", "D"}
KindValue(k) == CASE k = "A" -> JNum(1) [] k = "B" -> JStr(<<"s">>) [] k = "C" -> JArr(<<JNum(1), JNum(2)>>)
                  [] k = "O" -> JObj1("a", JStr(<<"x">>)) [] k = "T" -> JNum(7) [] OTHER -> JNull
KindContent(k) == CASE k = "A" -> <<"1", "\n">> [] k = "B" -> <<"\"", "s", "\"", "\n">> [] k = "C" -> <<"[1,2]", "\n">>
                    [] k = "O" -> <<"{", "\"", "a", "\"", ":", "\"", "x", "\"", "}", "\n">> [] k = "T" -> <<"7">>
                    [] k = "U" -> <<"garbage", "\n">> [] OTHER -> <<>>
FileKind(name) == CASE name = "a.json" -> "A" [] name = "b.json" -> "B" [] name = "c.json" -> "C" [] name = "o.json" -> "O"
                    [] name = "t.json" -> "T" [] name = "bad.bin" -> "U" [] name = "empty.txt" -> "E" [] name = "dir" -> "D"
                    [] name = "raw.txt" -> "R" [] name = "id.jq" -> "P" [] name = "fail.jq" -> "P"
                    [] OTHER -> "M"
KindFile(k) == CASE k = "A" -> "a.json" [] k = "B" -> "b.json" [] k = "C" -> "c.json" [] k = "O" -> "o.json" [] k = "T" -> "t.json"
                 [] k = "U" -> "bad.bin" [] k = "E" -> "empty.txt" [] k = "D" -> "dir" [] OTHER -> "missing"
Readable(name) == FileKind(name) \notin {"M", "D"}
In(name, kind) == [name |-> name, kind |-> kind]

\* programs: jq text <-> semantic tag
Progs == [id |-> ".", failB |-> ".+1", nocompile |-> "(", collect |-> "[inputs]",
          haltB |-> "if type==\"string\" then (\"bye\\n\"|halt_error(7)) else . end",
          dup |-> ".,.", none |-> "empty", wrap |-> "[.]", var |-> "$x",
          emitfailB |-> ".,(if type==\"string\" then error(\"x\") else empty end)",
          failnullB |-> "if type==\"string\" then error(null) else . end",       \* an error whose VALUE is falsy is still an error (status 5)
          \* programs whose SHAPE meets the wrapper fq puts around the user's program (try (PROGRAM) catch report | display):
          \* a bare catch-less try, a postfix ?, a label at the top and a definition at the top.  An error the program itself
          \* swallows is no failure: nothing on stdout for that input, status 0.
          tryB |-> "try (if type==\"string\" then error(\"x\") else . end)",
          optB |-> "(if type==\"string\" then error(\"x\") else . end)?",
          labelB |-> "label $f | if type==\"string\" then break $f else . end",
          defB |-> "def f: if type==\"string\" then error(\"x\") else . end; f"]
ProgTags == DOMAIN Progs
ProgOfText(txt) == IF \E p \in ProgTags : Progs[p] = txt THEN CHOOSE p \in ProgTags : Progs[p] = txt ELSE "unknown"
ProgFileTag(name) == IF name = "id.jq" THEN "id" ELSE IF name = "fail.jq" THEN "failB" ELSE "unknown"

\* evaluation of a program on one value: [outs, err, halt]  (collect is handled by the loop)
EvRes(outs, err, halt) == [outs |-> outs, err |-> err, halt |-> halt]
EvalProg(p, x, xval) ==
    CASE p = "id"    -> EvRes(<<x>>, FALSE, -1)
      [] p = "failB" -> IF x.t = "num" THEN EvRes(<<JNum(x.n + 1)>>, FALSE, -1)
                        ELSE IF x.t = "null" THEN EvRes(<<JNum(1)>>, FALSE, -1) ELSE EvRes(<<>>, TRUE, -1)
      [] p = "haltB" -> IF x.t = "str" THEN EvRes(<<>>, FALSE, 7) ELSE EvRes(<<x>>, FALSE, -1)
      [] p = "dup"   -> EvRes(<<x, x>>, FALSE, -1)
      [] p = "none"  -> EvRes(<<>>, FALSE, -1)
      [] p = "wrap"  -> EvRes(<<JArr(<<x>>)>>, FALSE, -1)
      [] p = "var"   -> EvRes(<<xval>>, FALSE, -1)
      [] p = "emitfailB" -> EvRes(<<x>>, x.t = "str", -1)
      [] p = "failnullB" -> IF x.t = "str" THEN EvRes(<<>>, TRUE, -1) ELSE EvRes(<<x>>, FALSE, -1)
      [] p \in {"tryB", "optB", "labelB"} -> IF x.t = "str" THEN EvRes(<<>>, FALSE, -1) ELSE EvRes(<<x>>, FALSE, -1)
      [] p = "defB" -> IF x.t = "str" THEN EvRes(<<>>, TRUE, -1) ELSE EvRes(<<x>>, FALSE, -1)
      [] OTHER -> EvRes(<<>>, FALSE, -1)

(******************** (b) option evaluation ********************************)
(* cfg: what the input loop needs.  st: "ok" | "argerr" (exit 2) |         *)
(* "unknown" (program text or option value outside the modelled universe)  *)
(***************************************************************************)
JsonTexts == [one |-> <<"1">>, arr |-> <<"[1,2]">>, str |-> <<"\"", "s", "\"">>]
JsonOfText(txt) == CASE txt = "1" -> JNum(1) [] txt = "[1,2]" -> JArr(<<JNum(1), JNum(2)>>) [] txt = "\"s\"" -> JStr(<<"s">>) [] OTHER -> JNull
JsonTextValid(txt) == txt \in {"1", "[1,2]", "\"s\""}
JsonTextKnown(txt) == JsonTextValid(txt) \/ txt = "{"
RawFileContent(name) == IF name = "raw.txt" THEN <<"raw", "\n">> ELSE KindContent(FileKind(name))

HasF(p, n) == n \in DOMAIN p
PairsOf(p, n) == IF HasF(p, n) THEN p[n].v ELSE <<>>
\* the binding of $x:  arg + argjson + raw_file | from_entries  -> the last pair named x wins
BindSeq(p) ==
    [i \in 1 .. Len(PairsOf(p, "arg")) |-> [n |-> PairsOf(p, "arg")[i][1], v |-> JStr(<<PairsOf(p, "arg")[i][2]>>)]]
    \o [i \in 1 .. Len(PairsOf(p, "argjson")) |-> [n |-> PairsOf(p, "argjson")[i][1], v |-> JsonOfText(PairsOf(p, "argjson")[i][2])]]
    \o [i \in 1 .. Len(PairsOf(p, "raw_file")) |-> [n |-> PairsOf(p, "raw_file")[i][1], v |-> JStr(RawFileContent(PairsOf(p, "raw_file")[i][2]))]]
XBound(p) == \E i \in 1 .. Len(BindSeq(p)) : BindSeq(p)[i].n = "x"
XValue(p) == LET bs == BindSeq(p)
                 k == CHOOSE i \in 1 .. Len(bs) : bs[i].n = "x" /\ \A j \in (i + 1) .. Len(bs) : bs[j].n # "x"
             IN bs[k].v

OptEval(p, rest, stdinKind) ==
    LET hasFile  == HasF(p, "expr_file")
        exprFile == IF hasFile THEN p["expr_file"].v[1] ELSE ""
        prog     == IF hasFile THEN ProgFileTag(exprFile)
                    ELSE IF Len(rest) > 0 THEN ProgOfText(rest[1]) ELSE "id"
        files    == IF hasFile THEN rest ELSE IF Len(rest) > 0 THEN Tail(rest) ELSE <<>>
        inputs   == IF Len(files) = 0 THEN <<In("<stdin>", stdinKind)>>
                    ELSE [i \in 1 .. Len(files) |-> In(files[i], FileKind(files[i]))]
        argErr   == \/ hasFile /\ ~Readable(exprFile)
                    \/ \E i \in 1 .. Len(PairsOf(p, "argjson")) : ~JsonTextValid(PairsOf(p, "argjson")[i][2])
                    \/ \E i \in 1 .. Len(PairsOf(p, "raw_file")) : ~Readable(PairsOf(p, "raw_file")[i][2])
        optObj   == IF HasF(p, "option") THEN p["option"].v ELSE [k \in {} |-> ""]
        compact  == IF "compact" \in DOMAIN optObj THEN optObj["compact"] = "true" ELSE HasF(p, "compact")
        group    == IF HasF(p, "decode_group") THEN p["decode_group"].v[1] ELSE "probe"
        unknown  == \/ prog = "unknown"
                    \/ \E k \in DOMAIN optObj : k # "compact" \/ optObj[k] \notin {"true", "false"}
                    \/ group \notin {"probe", "json"}
                    \/ \E i \in 1 .. Len(PairsOf(p, "argjson")) : ~JsonTextKnown(PairsOf(p, "argjson")[i][2])
                    \/ (hasFile /\ Readable(exprFile) /\ ProgFileTag(exprFile) = "unknown")
                    \/ \E n \in {"show_help", "show_version", "repl", "color_output", "argdecode", "unicode_output"} : HasF(p, n)
                    \* one name bound twice: jq keeps the first, fq the last of arg < argjson < raw-file; the property does not say
                    \/ \E i, j \in 1 .. Len(BindSeq(p)) : i # j /\ BindSeq(p)[i].n = BindSeq(p)[j].n
                    \/ (group = "json" /\ \E i \in 1 .. Len(inputs) : inputs[i].kind \in {"U", "E"})    \* -d FORMAT returns a partial tree
        mode     == IF HasF(p, "string_input") THEN (IF HasF(p, "slurp") THEN "rawslurp" ELSE "raw")
                    ELSE IF HasF(p, "slurp") THEN "slurp" ELSE "each"
    IN [ st     |-> IF argErr THEN "argerr" ELSE IF unknown THEN "unknown" ELSE "ok",
         prog   |-> prog,
         inputs |-> inputs,
         mode   |-> mode,
         nullin |-> HasF(p, "null_input"),
         disp   |-> [compact |-> compact,
                     raw     |-> HasF(p, "raw_string") \/ HasF(p, "join_output") \/ HasF(p, "null_output"),
                     join    |-> IF HasF(p, "join_output") THEN "" ELSE IF HasF(p, "null_output") THEN NUL ELSE "\n"],
         xbound |-> XBound(p),
         xval   |-> IF XBound(p) /\ ~argErr THEN XValue(p) ELSE JNull ]

Compiles(cfg) == cfg.prog # "nocompile" /\ (cfg.prog = "var" => cfg.xbound)

(******************** (c) the input loop: as built *************************)
(* State record s.  remaining/ioErrs/decodeErrs/lastExprErr/out are the    *)
(* globals of internal.jq:60-79; the rest is control.                      *)
(*  pc:  start | next | open | decode | eval | final | done                *)
(*  ctx: top (value goes to the program) | acc (value is collected for     *)
(*       --slurp or [inputs]).  --raw-input reads all files first (chunks),*)
(*       then hands out lines (or the whole string with --slurp).          *)
(*  cfg.nullin (-n): the program runs once on null; files are only read if *)
(*       it calls inputs; cfg.mode then still decides what inputs yields.  *)
(***************************************************************************)
IsRaw(cfg) == cfg.mode \in {"raw", "rawslurp"}
LoopInit(cfg) ==
    [ remaining |-> cfg.inputs, ioErrs |-> <<>>, decodeErrs |-> <<>>, lastExprErr |-> FALSE, out |-> "",
      pc |-> "start", ctx |-> "top", acc |-> <<>>, cur |-> In("", "M"), val |-> JNull,
      lines |-> <<>>, loaded |-> FALSE, chunks |-> <<>>, nchunks |-> 0, collecting |-> FALSE, oneshot |-> FALSE, exit |-> -1 ]

\* split the concatenated chunks at "\n" after dropping one trailing "\n"  (rtrimstr("\n") | split("\n"))
RECURSIVE SplitLines(_, _)
SplitLines(cs, curLine) ==
    IF Len(cs) = 0 THEN <<curLine>>
    ELSE IF Head(cs) = "\n" THEN <<curLine>> \o SplitLines(Tail(cs), <<>>)
    ELSE SplitLines(Tail(cs), Append(curLine, Head(cs)))
LinesOf(cs) == LET t == IF Len(cs) > 0 /\ cs[Len(cs)] = "\n" THEN SubSeq(cs, 1, Len(cs) - 1) ELSE cs
               IN SplitLines(t, <<>>)

\* --- enabling conditions and effects, one pair per action -----------------
CompileErrorEn(cfg, s) == s.pc = "start" /\ ~Compiles(cfg)
CompileErrorDo(cfg, s) == [s EXCEPT !.pc = "done", !.exit = 3]

BeginEn(cfg, s) == s.pc = "start" /\ Compiles(cfg)
BeginDo(cfg, s) ==
    CASE cfg.nullin         -> [s EXCEPT !.pc = "eval", !.val = JNull, !.oneshot = TRUE]
      [] cfg.mode = "slurp" -> [s EXCEPT !.pc = "next", !.ctx = "acc", !.oneshot = TRUE]
      [] OTHER              -> [s EXCEPT !.pc = "next"]

\* next value wanted and a file is left: take it
TakeEn(cfg, s) == s.pc = "next" /\ Len(s.remaining) > 0 /\ (IsRaw(cfg) => ~s.loaded)
TakeDo(cfg, s) == [s EXCEPT !.pc = "open", !.cur = Head(s.remaining), !.remaining = Tail(s.remaining)]

OpenOkEn(cfg, s) == s.pc = "open" /\ s.cur.kind \notin {"M", "D"}
OpenOkDo(cfg, s) == IF IsRaw(cfg)
                    THEN [s EXCEPT !.pc = "next", !.chunks = @ \o KindContent(s.cur.kind), !.nchunks = @ + 1]
                    ELSE [s EXCEPT !.pc = "decode"]
OpenFailEn(cfg, s) == s.pc = "open" /\ s.cur.kind \in {"M", "D"}
OpenFailDo(cfg, s) == [s EXCEPT !.pc = "next", !.ioErrs = Append(@, s.cur.name)]

DecodeOkEn(cfg, s) == s.pc = "decode" /\ s.cur.kind \in GoodKinds
DecodeOkDo(cfg, s) == IF s.ctx = "acc" THEN [s EXCEPT !.pc = "next", !.acc = Append(@, KindValue(s.cur.kind))]
                      ELSE [s EXCEPT !.pc = "eval", !.val = KindValue(s.cur.kind)]
DecodeFailEn(cfg, s) == s.pc = "decode" /\ s.cur.kind \notin GoodKinds
DecodeFailDo(cfg, s) == [s EXCEPT !.pc = "next", !.decodeErrs = Append(@, s.cur.name)]

\* raw input: all files read, make lines (or one string) out of the chunks
LoadLinesEn(cfg, s) == s.pc = "next" /\ IsRaw(cfg) /\ ~s.loaded /\ Len(s.remaining) = 0
LoadLinesDo(cfg, s) ==
    [s EXCEPT !.loaded = TRUE,
              !.lines = IF cfg.mode = "rawslurp" THEN <<JStr(s.chunks)>>
                        ELSE IF s.nchunks = 0 THEN <<>>
                        ELSE [i \in 1 .. Len(LinesOf(s.chunks)) |-> JStr(LinesOf(s.chunks)[i])]]
NextLineEn(cfg, s) == s.pc = "next" /\ IsRaw(cfg) /\ s.loaded /\ Len(s.lines) > 0
NextLineDo(cfg, s) == IF s.ctx = "acc" THEN [s EXCEPT !.acc = Append(@, Head(s.lines)), !.lines = Tail(@)]
                      ELSE [s EXCEPT !.pc = "eval", !.val = Head(s.lines), !.lines = Tail(@)]

Exhausted(cfg, s) == s.pc = "next" /\ Len(s.remaining) = 0 /\ (IsRaw(cfg) => s.loaded /\ Len(s.lines) = 0)
\* the inputs ran out while collecting: the array is complete
AccDoneEn(cfg, s) == Exhausted(cfg, s) /\ s.ctx = "acc"
AccDoneDo(cfg, s) == IF s.collecting
                     THEN [s EXCEPT !.pc = "eval", !.ctx = "top", !.val = JArr(s.acc)]      \* value of [inputs]
                     ELSE [s EXCEPT !.pc = "eval", !.ctx = "top", !.val = JArr(s.acc), !.acc = <<>>]  \* --slurp input

\* evaluation of the program on s.val
StartCollectEn(cfg, s) == s.pc = "eval" /\ cfg.prog = "collect" /\ ~s.collecting
StartCollectDo(cfg, s) == [s EXCEPT !.pc = "next", !.ctx = "acc", !.acc = <<>>, !.collecting = TRUE]
Ev(cfg, s) == IF cfg.prog = "collect" THEN EvRes(<<s.val>>, FALSE, -1) ELSE EvalProg(cfg.prog, s.val, cfg.xval)
AfterEval(s) == IF s.oneshot THEN "final" ELSE "next"
EvalReady(cfg, s) == s.pc = "eval" /\ (cfg.prog = "collect" => s.collecting)
Shown(cfg, outs) == CatStr([i \in 1 .. Len(outs) |-> Display(outs[i], cfg.disp)])
EvalEmitEn(cfg, s) == EvalReady(cfg, s) /\ ~Ev(cfg, s).err /\ Ev(cfg, s).halt < 0
EvalEmitDo(cfg, s) == [s EXCEPT !.pc = AfterEval(s), !.out = @ \o Shown(cfg, Ev(cfg, s).outs), !.collecting = FALSE]
EvalRuntimeErrorEn(cfg, s) == EvalReady(cfg, s) /\ Ev(cfg, s).err
EvalRuntimeErrorDo(cfg, s) == [s EXCEPT !.pc = AfterEval(s), !.out = @ \o Shown(cfg, Ev(cfg, s).outs), !.lastExprErr = TRUE]
HaltEn(cfg, s) == EvalReady(cfg, s) /\ Ev(cfg, s).halt >= 0
HaltDo(cfg, s) == [s EXCEPT !.pc = "done", !.exit = Ev(cfg, s).halt]

ToFinalEn(cfg, s) == Exhausted(cfg, s) /\ s.ctx = "top"
ToFinalDo(cfg, s) == [s EXCEPT !.pc = "final"]
\* init.jq:272-276
FinallyEn(cfg, s) == s.pc = "final"
FinallyDo(cfg, s) == [s EXCEPT !.pc = "done",
                        !.exit = IF Len(s.ioErrs) > 0 THEN 2 ELSE IF Len(s.decodeErrs) > 0 THEN 4 ELSE IF s.lastExprErr THEN 5 ELSE 0]

\* the machine is deterministic: exactly one action is enabled until done
LoopStep(cfg, s) ==
    CASE CompileErrorEn(cfg, s) -> CompileErrorDo(cfg, s)
      [] BeginEn(cfg, s) -> BeginDo(cfg, s)
      [] TakeEn(cfg, s) -> TakeDo(cfg, s)
      [] OpenOkEn(cfg, s) -> OpenOkDo(cfg, s)
      [] OpenFailEn(cfg, s) -> OpenFailDo(cfg, s)
      [] DecodeOkEn(cfg, s) -> DecodeOkDo(cfg, s)
      [] DecodeFailEn(cfg, s) -> DecodeFailDo(cfg, s)
      [] LoadLinesEn(cfg, s) -> LoadLinesDo(cfg, s)
      [] NextLineEn(cfg, s) -> NextLineDo(cfg, s)
      [] AccDoneEn(cfg, s) -> AccDoneDo(cfg, s)
      [] StartCollectEn(cfg, s) -> StartCollectDo(cfg, s)
      [] EvalEmitEn(cfg, s) -> EvalEmitDo(cfg, s)
      [] EvalRuntimeErrorEn(cfg, s) -> EvalRuntimeErrorDo(cfg, s)
      [] HaltEn(cfg, s) -> HaltDo(cfg, s)
      [] ToFinalEn(cfg, s) -> ToFinalDo(cfg, s)
      [] FinallyEn(cfg, s) -> FinallyDo(cfg, s)
RECURSIVE LoopRun(_, _)
LoopRun(cfg, s) == IF s.pc = "done" THEN s ELSE LoopRun(cfg, LoopStep(cfg, s))
Built(cfg) == LET s == LoopRun(cfg, LoopInit(cfg)) IN [exit |-> s.exit, out |-> s.out]

(******************** (c) the input loop: as required **********************)
(* Declarative: no error memory, no control state.                         *)
(***************************************************************************)
OpenFails(i) == i.kind \in {"M", "D"}
Undecodable(i) == i.kind \notin GoodKinds /\ ~OpenFails(i)
SelectIdx(seq, P(_)) == LET F[k \in 0 .. Len(seq)] == IF k = 0 THEN <<>> ELSE IF P(seq[k]) THEN Append(F[k - 1], k) ELSE F[k - 1]
                        IN F[Len(seq)]
GoodIdx(cfg) == IF IsRaw(cfg) THEN SelectIdx(cfg.inputs, LAMBDA i : ~OpenFails(i))
                ELSE SelectIdx(cfg.inputs, LAMBDA i : i.kind \in GoodKinds)
\* the stream of values offered to the program
Stream(cfg) ==
    LET gi == GoodIdx(cfg) IN
    IF IsRaw(cfg) THEN
        LET cs == Flatten([k \in 1 .. Len(gi) |-> KindContent(cfg.inputs[gi[k]].kind)]) IN
        IF cfg.mode = "rawslurp" THEN <<JStr(cs)>>
        ELSE IF Len(cs) = 0 THEN <<>>            \* no text, no lines (jq); as built: one empty line if any file was readable
        ELSE [k \in 1 .. Len(LinesOf(cs)) |-> JStr(LinesOf(cs)[k])]
    ELSE [k \in 1 .. Len(gi) |-> KindValue(cfg.inputs[gi[k]].kind)]
\* what the program sees: a sequence of top-level values
TopValues(cfg) ==
    CASE cfg.nullin         -> <<JNull>>
      [] cfg.mode = "slurp" -> <<JArr(Stream(cfg))>>
      [] OTHER              -> Stream(cfg)
\* the evaluations that happen, in order, up to and including a halting one
ReqEvals(cfg) ==
    LET tv == TopValues(cfg) IN
    IF cfg.prog = "collect" THEN
        IF cfg.nullin THEN <<EvRes(<<JArr(Stream(cfg))>>, FALSE, -1)>>      \* -n: inputs yields the whole stream
        ELSE IF Len(tv) = 0 THEN <<>> ELSE <<EvRes(<<JArr(Tail(tv))>>, FALSE, -1)>>
    ELSE LET ev == [k \in 1 .. Len(tv) |-> EvalProg(cfg.prog, tv[k], cfg.xval)]
             hs == {k \in 1 .. Len(tv) : ev[k].halt >= 0}
         IN IF hs = {} THEN ev ELSE SubSeq(ev, 1, CHOOSE k \in hs : \A j \in hs : k <= j)
\* are the input files opened at all?  (-n opens them only if the program reads them)
InputsRead(cfg) == ~cfg.nullin \/ cfg.prog = "collect"
Req(cfg) ==
    IF ~Compiles(cfg) THEN [exit |-> 3, out |-> ""]
    ELSE LET ev   == ReqEvals(cfg)
             outs == CatStr([k \in 1 .. Len(ev) |-> CatStr([j \in 1 .. Len(ev[k].outs) |-> Display(ev[k].outs[j], cfg.disp)])])
             halt == Len(ev) > 0 /\ ev[Len(ev)].halt >= 0
         IN [ out  |-> outs,
              exit |-> IF halt THEN ev[Len(ev)].halt
                       ELSE IF InputsRead(cfg) /\ \E k \in 1 .. Len(cfg.inputs) : OpenFails(cfg.inputs[k]) THEN 2
                       ELSE IF InputsRead(cfg) /\ ~IsRaw(cfg) /\ \E k \in 1 .. Len(cfg.inputs) : Undecodable(cfg.inputs[k]) THEN 4
                       ELSE IF \E k \in 1 .. Len(ev) : ev[k].err THEN 5
                       ELSE 0 ]

\* the one known difference between the machine as built and Req: --raw-input when all readable inputs are empty
EmptyRawText(cfg) == /\ cfg.mode = "raw" /\ InputsRead(cfg) /\ GoodIdx(cfg) # <<>>
                     /\ \A k \in 1 .. Len(cfg.inputs) : OpenFails(cfg.inputs[k]) \/ KindContent(cfg.inputs[k].kind) = <<>>

\* Independence, in the property's own words: with a program that treats every input on its own, the output is the
\* concatenation of the outputs of the good inputs run alone, in argument order.  Solo(cfg, i) is the requirement for input i alone.
PerInputProg(p) == p \in {"id", "failB", "dup", "none", "wrap", "var", "emitfailB", "failnullB", "tryB", "optB", "labelB", "defB"}
NewlineTerminated(i) == i.kind # "T"
IndepApplies(cfg) == /\ Compiles(cfg) /\ PerInputProg(cfg.prog) /\ ~cfg.nullin
                     /\ \/ cfg.mode = "each"
                        \/ cfg.mode = "raw" /\ \A k \in 1 .. Len(cfg.inputs) : NewlineTerminated(cfg.inputs[k])
Solo(cfg, k) == Req([cfg EXCEPT !.inputs = <<cfg.inputs[k]>>])
IndepOut(cfg) == LET gi == GoodIdx(cfg) IN CatStr([k \in 1 .. Len(gi) |-> Solo(cfg, gi[k]).out])

(* full pipeline for one tagged argv *)
RunIntent(toks, stdinKind) ==
    LET it == Intent(toks) IN
    IF it.st # "ok" THEN [st |-> it.st, exit |-> 2, out |-> "", cfg |-> OptEval(EmptyP, <<>>, "A")]
    ELSE LET cfg == OptEval(it.flags, it.pos, stdinKind) IN
         IF cfg.st = "argerr" THEN [st |-> "argerr", exit |-> 2, out |-> "", cfg |-> cfg]
         ELSE IF cfg.st = "unknown" THEN [st |-> "unknown", exit |-> -1, out |-> "", cfg |-> cfg]
         ELSE [st |-> "ok", exit |-> Req(cfg).exit, out |-> Req(cfg).out, cfg |-> cfg]
=============================================================================
