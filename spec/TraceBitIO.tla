----------------------------- MODULE TraceBitIO -----------------------------
(* TV mode for C01: an event is one recorded history of calls on a real reader composition *)
(* (kind "hist"), one recorded sequence of WriteBits calls and the bytes produced ("write"), or  *)
(* one recorded history of interleaved calls on a real bitio.Buffer ("buffer").                  *)
EXTENDS BitIO, Json
Trace == ndJsonDeserialize("trace.ndjson")
VARIABLE l
TInit == l = 1
TNext == /\ l <= Len(Trace)
         /\ LET e == Trace[l] IN
            IF e.kind = "window"
            THEN \* a byte window of an opened file read through the real command line: exactly the file's bits
                 (IF e.got = e.want THEN TRUE ELSE PrintT(<<"REJECT", l, "openfile.window_differs_from_file">>))
            ELSE IF e.kind = "write"
            THEN (IF WriterOK(e.chunks, e.outbits) THEN TRUE ELSE PrintT(<<"REJECT", l, "write.output_is_not_padded_concatenation">>))
            ELSE IF e.kind = "buffer"
            THEN LET r == CheckBuffer(e.bops) IN
                 IF r[1] = 0 THEN TRUE ELSE PrintT(<<"REJECT", l, r[2], r[1]>>)
            ELSE LET r == CheckHistory(e.term, e.leaves, e.ops) IN
                 IF r[1] = 0 THEN TRUE ELSE PrintT(<<"REJECT", l, e.ops[r[1]].op \o "." \o r[2], r[1]>>)
         /\ l' = l + 1
TSpec == TInit /\ [][TNext]_l
Consumed == TLCGet("stats").diameter - 1 = Len(Trace)
=============================================================================
