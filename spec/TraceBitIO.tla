----------------------------- MODULE TraceBitIO -----------------------------
(* TV mode for C01: an event is one recorded history of calls on a real reader composition *)
(* (kind "hist"), one recorded sequence of WriteBits calls and the bytes produced ("write"), or  *)
(* one recorded history of interleaved calls on a real bitio.Buffer ("buffer").                  *)
EXTENDS BitIO, Json
Trace == ndJsonDeserialize("trace.ndjson")

(* The as-built transcription (ReaderStackOps) PREDICTS every call on a composition of leaf / section / multi / zero readers    *)
(* exactly: count, end-of-data, refusal, seek result, cursor after the call.  A recorded call that differs is model drift (the  *)
(* transcription no longer describes the code), reported as <<"DRIFT", l, call>>; whether it is also a violation is decided by   *)
(* the requirement (CheckHistory) on the same event.                                                                            *)
RS == INSTANCE ReaderStackOps
RECURSIVE PureBit(_), Conv(_, _)
PureBit(tm) == CASE tm.t \in {"leaf", "zero"} -> TRUE
                 [] tm.t = "section"          -> PureBit(tm.r)
                 [] tm.t = "multi"            -> \A i \in DOMAIN tm.rs : PureBit(tm.rs[i])
                 [] OTHER                     -> FALSE
\* a harness leaf is bitio.NewBitReader(bytes, n): a section of n bits over the byte source
Conv(tm, leaves) ==
    CASE tm.t = "leaf"    -> RS!Sec(RS!Leaf(0, (Len(leaves[tm.id]) + 7) \div 8), 0, Len(leaves[tm.id]))
      [] tm.t = "zero"    -> RS!Zero(tm.n)
      [] tm.t = "section" -> RS!Sec(Conv(tm.r, leaves), tm.off, tm.n)
      [] OTHER            -> RS!Mul([i \in DOMAIN tm.rs |-> Conv(tm.rs[i], leaves)])
SameRead(r, ev) == ev.k = Len(r.bits) /\ ev.eof = (r.err = "eof") /\ ev.err = (r.err \in {"offset", "neg", "panic"})
PosSame(ev, p) == ev.pa < 0 \/ ev.pa = p
RECURSIVE AsBuilt(_, _, _, _)
AsBuilt(t, ops, i, cur) ==        \* 0, or the index of the first call the transcription does not predict
    IF i > Len(ops) THEN 0
    ELSE LET ev == ops[i]
             pos == cur[ev.h]
         IN CASE ev.op = "read" ->
                   LET r == RS!RAt(t, ev.n, pos) IN
                   IF SameRead(r, ev) /\ PosSame(ev, pos + Len(r.bits)) /\ ~ev.hang
                   THEN AsBuilt(t, ops, i + 1, [cur EXCEPT ![ev.h] = pos + Len(r.bits)]) ELSE i
              [] ev.op = "readat" ->
                   IF SameRead(RS!RAt(t, ev.n, ev.off), ev) /\ PosSame(ev, pos) /\ ~ev.hang THEN AsBuilt(t, ops, i + 1, cur) ELSE i
              [] ev.op = "readfull" ->
                   LET r == RS!ReadAtFull(t, ev.n, pos) IN
                   IF ~r.hang /\ ~ev.hang /\ ((r.err = "nil") = (~ev.eof /\ ~ev.err)) /\ PosSame(ev, pos + Len(r.bits))
                   THEN AsBuilt(t, ops, i + 1, [cur EXCEPT ![ev.h] = pos + Len(r.bits)]) ELSE i
              [] ev.op = "seek" ->
                   LET s == RS!SeekTop(t, pos, ev.off, ev.wh) IN
                   IF s.err = ev.err /\ (~s.err => ev.res = s.pos) /\ PosSame(ev, s.pos) /\ ~ev.hang
                   THEN AsBuilt(t, ops, i + 1, [cur EXCEPT ![ev.h] = s.pos]) ELSE i
              [] ev.op = "clone" -> AsBuilt(t, ops, i + 1, [h \in DOMAIN cur \cup {ev.h2} |-> IF h = ev.h2 THEN 0 ELSE cur[h]])
              [] OTHER -> AsBuilt(t, ops, i + 1, cur)
DriftOf(e) == IF e.kind = "hist" /\ e.panic = "" /\ PureBit(e.term) THEN AsBuilt(Conv(e.term, e.leaves), e.ops, 1, [h \in {0} |-> 0]) ELSE 0
VARIABLE l
TInit == l = 1
TNext == /\ l <= Len(Trace)
         /\ LET e == Trace[l] IN
            IF e.kind = "window"
            THEN \* a byte window of an opened file read through the real command line: exactly the file's bits
                 (IF e.got = e.want THEN TRUE ELSE PrintT(<<"REJECT", l, "openfile.window_differs_from_file">>))
            ELSE IF e.kind = "write"
            THEN (IF WriterOK(e.chunks, e.outbits) THEN TRUE ELSE PrintT(<<"REJECT", l, "write.output_is_not_padded_concatenation">>))
            ELSE IF e.kind = "buffer"
            THEN LET r == CheckBuffer(e.bops) IN
                 IF r[1] = 0 THEN TRUE ELSE PrintT(<<"REJECT", l, r[2], r[1]>>)
            ELSE LET r == CheckHistory(e.term, e.leaves, e.ops)
                     d == DriftOf(e)
                 IN /\ (IF r[1] = 0 THEN TRUE ELSE PrintT(<<"REJECT", l, e.ops[r[1]].op \o "." \o r[2], r[1]>>))
                    /\ (IF d = 0 THEN TRUE ELSE PrintT(<<"DRIFT", l, d>>))
         /\ l' = l + 1
TSpec == TInit /\ [][TNext]_l
Consumed == TLCGet("stats").diameter - 1 = Len(Trace)
=============================================================================
