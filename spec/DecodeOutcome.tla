---------------------------- MODULE DecodeOutcome ----------------------------
(***************************************************************************)
(* C06: the outcome discipline around a decode (decode() / recoverfn.Run / *)
(* probe fall-through / force / exit status) as a small machine.  There is *)
(* NO action for an unrecoverable fault: a run that ended in a Go panic,   *)
(* a fatal runtime error or a confirmed hang is not a behaviour of this    *)
(* machine and is rejected by trace validation.                            *)
(***************************************************************************)
EXTENDS Integers, Sequences, FiniteSets, TLC

(* model: a group of NF formats tried in order; each attempt ends ok or with a recoverable error *)
CONSTANTS NF
VARIABLES i, errs, res, exit
vars == <<i, errs, res, exit>>
Init == i = 1 /\ errs = 0 /\ res = "running" /\ exit = -1
TryOk  == res = "running" /\ i <= NF /\ res' = (IF errs = 0 THEN "tree" ELSE "tree_with_earlier_errors") /\ UNCHANGED <<i, errs, exit>>
TryErr == /\ res = "running" /\ i <= NF
          /\ IF NF = 1 THEN res' = "partial_tree_with_error" /\ errs' = errs + 1 /\ UNCHANGED i   \* single format: keep the partial tree
             ELSE i' = i + 1 /\ errs' = errs + 1 /\ UNCHANGED res                               \* group: try the next format
          /\ UNCHANGED exit
Fail == res = "running" /\ i > NF /\ res' = "formats_error" /\ UNCHANGED <<i, errs, exit>>
\* command line: a tree (also partial) is displayed and the exit status is 0; no tree is a decode error, status 4
Exit == res \in {"tree", "tree_with_earlier_errors", "partial_tree_with_error", "formats_error"} /\ exit = -1
        /\ exit' = (IF res = "formats_error" THEN 4 ELSE 0) /\ UNCHANGED <<i, errs, res>>
Next == TryOk \/ TryErr \/ Fail \/ Exit
Spec == Init /\ [][Next]_vars
\* what a finished run can look like
Terminal == {"tree", "tree_with_earlier_errors", "partial_tree_with_error", "formats_error"}
ExitOK == exit # -1 => (res \in Terminal /\ exit = (IF res = "formats_error" THEN 4 ELSE 0))
PartialOnlyForSingle == res = "partial_tree_with_error" => NF = 1
NoTreeOnlyAfterAll == res = "formats_error" => (i > NF /\ errs = NF)

(* trace side: is an observed run a behaviour of the machine? *)
\* obs: [outcome (ok|panic|fatal-oom|fatal-stack|fatal|hang), hastree, rooterr, errclass ("", formats, io, other), single (group of one format)]
RunSig(o) ==
    IF o.outcome # "ok" THEN "fault." \o o.outcome
    ELSE IF o.hastree /\ o.rooterr /\ ~o.single THEN "outcome.partial_tree_from_multi_format_group"
    ELSE IF ~o.hastree /\ o.errclass = "" THEN "outcome.neither_tree_nor_error"
    ELSE IF ~o.hastree /\ o.single /\ o.errclass = "formats" THEN "outcome.single_format_failure_without_partial_tree"
    ELSE "ok"
\* command line runs: exit status
ExitSig(o) ==
    IF o.outcome # "ok" THEN "fault." \o o.outcome
    ELSE IF o.stdout_tree /\ o.exit # 0 THEN "exit.tree_but_nonzero_status"
    ELSE IF ~o.stdout_tree /\ o.exit \notin {4} THEN "exit.no_tree_but_status_not_4"
    ELSE "ok"
=============================================================================
