----------------------------- MODULE JqCoreGen -----------------------------
(***************************************************************************)
(* C07 GEN: every construct of the jq core under every other in every      *)
(* child position (depth <= 2 in constructs; other children are small      *)
(* defaults that make the construct do something), each on inputs from     *)
(* JsonVals(2, StdAtoms).  One JSON line per (program, input): the tree in *)
(* the parser's JSON shape, the text printed with full parentheses, the    *)
(* input, and what JqCore.Run says (outcome sequence, side channel, or     *)
(* "outside the core").                                                    *)
(***************************************************************************)
EXTENDS JqCoreUniv, Json
CONSTANTS Shard, NShards,
          NIn,          \* inputs per program (0 = all)
          Rot,          \* rotation of the input choice and of the sample (seed)
          Div           \* 1 = every (outer, position, inner) triple; d > 1 = the 1/d sample of the triples chosen by Rot
VARIABLE c

NInputs == Len(Inputs)
InSel(o, p, i) == IF NIn = 0 THEN 1 .. NInputs ELSE {1 + ((o * 31 + p * 17 + i * 13 + Rot + j * 7) % NInputs) : j \in 0 .. (NIn - 1)}
Sampled(o, p, i) == Div = 1 \/ (o * 131 + p * 31 + i) % Div = Rot % Div
Triples == UNION {UNION {{[o |-> o, p |-> p, i |-> i] : i \in IF p = 0 THEN {1} ELSE {j \in 1 .. Len(Cons) : Sampled(o, p, j)}} :
                         p \in 0 .. Cons[o].k} : o \in {y \in 1 .. Len(Cons) : y % NShards = Shard}}
Cases == UNION {{[o |-> t.o, p |-> t.p, i |-> t.i, x |-> x] : x \in InSel(t.o, t.p, t.i)} : t \in Triples}

EmitC(cc) == LET raw == Prog(cc.o, cc.p, cc.i)
                 ast == Min(raw)
                 r == Run(ast, Inputs[cc.x], InputList, GenLit) IN
             PrintT(ToJson([id |-> <<Cons[cc.o].n, ToString(cc.p), IF cc.p = 0 THEN "" ELSE Cons[cc.i].n>>,
                            prog |-> PrintQ(Full(raw)), ast |-> ast, input |-> Inputs[cc.x], inputs |-> InputList,
                            out |-> r.out, side |-> r.side, core |-> r.core]))
(* Emission happens while TLC checks this assumption: constant-level evaluation caches operator arguments, which makes the *)
(* recursive evaluator some 50 times faster than inside a state predicate.  The behaviour spec is a single idle state.     *)
ASSUME \A cc \in Cases : EmitC(cc)
Init == c = 0
Next == FALSE /\ c' = c
Spec == Init /\ [][Next]_c
=============================================================================
