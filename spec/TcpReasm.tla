------------------------------ MODULE TcpReasm ------------------------------
(***************************************************************************)
(* C19 - TCP streams and IPv4 datagrams are reassembled exactly.           *)
(*                                                                         *)
(* Variable-free operator module: the vocabulary of captures (packets on   *)
(* the wire), an abstract receiver `Reassemble(wire)` that any correct     *)
(* reassembler must agree with, and the as-required acceptance predicate   *)
(* for what a tool reports about a capture (`Accept`).  The senders' state *)
(* machine that PRODUCES wires lives in TcpReasmMC.tla; the trace spec     *)
(* that JUDGES real fq reports lives in TraceTcp.tla.                      *)
(*                                                                         *)
(* A packet on the wire (one captured link-layer frame) is a record        *)
(*   c    connection id (stands for the 4-tuple)                           *)
(*   dir  1 = side 1 -> side 2, 2 = side 2 -> side 1 (side 1 sends the SYN *)
(*        when there is a handshake)                                       *)
(*   kind "syn" | "synack" | "ack" | "data" | "fin"                        *)
(*   from,to  stream positions (token numbers, 1-based) carried by a data  *)
(*        packet; from = to + 1 (nothing) for the other kinds; a "fin"     *)
(*        sits at position `from` (= tokens sent so far + 1)               *)
(*   dg   id of the IPv4 datagram (fragments of one datagram share it)     *)
(*   fi,fn  fragment index and count (fn = 1: not fragmented)              *)
(* Streams are sequences of distinct tokens; token p of direction dir of   *)
(* connection c is the number Tok(c,dir,p), so a stream delivered to the   *)
(* wrong side or connection is a different sequence.  Initial sequence     *)
(* numbers, addresses, ports, payload bytes, link layer and file format    *)
(* are chosen by the harness (ISN as a class: "low" | "wrap" = the stream  *)
(* crosses 2^32); positions are relative to the ISN so TLC's integers      *)
(* never see a 32-bit sequence number.                                     *)
(***************************************************************************)
EXTENDS Integers, Sequences, FiniteSets, TLC

Tok(c, dir, p) == c * 100000 + dir * 10000 + p
Toks(c, dir, a, b) == [i \in 1 .. (IF b >= a THEN b - a + 1 ELSE 0) |-> Tok(c, dir, a + i - 1)]
Other(dir) == 3 - dir
SeqRange(s) == {s[i] : i \in DOMAIN s}
Min(S) == CHOOSE x \in S : \A y \in S : x <= y

(************************* the abstract receiver ***************************)
(* Per direction: `started` (the position of the first stream byte is     *)
(* known, from a SYN), `nxt` next position to deliver, `buf` positions     *)
(* received but not yet deliverable, `out` the delivered stream.  It has   *)
(* unbounded buffering: a segment is never given up before the capture     *)
(* ends.  At the end of the capture (`Flush`) a direction that never saw   *)
(* its SYN starts at the lowest position captured, and whatever is still   *)
(* buffered lies behind a hole: `gap`.                                     *)
(***************************************************************************)
Half0 == [started |-> FALSE, nxt |-> 1, buf |-> {}, out |-> <<>>, finpos |-> 0]

RECURSIVE Drain(_, _, _)
Drain(h, c, dir) ==
    IF h.nxt \in h.buf
    THEN Drain([h EXCEPT !.nxt = @ + 1, !.buf = @ \ {h.nxt}, !.out = Append(@, Tok(c, dir, h.nxt))], c, dir)
    ELSE h

Rcv0 == [order |-> <<>>, cli |-> <<>>, h |-> <<>>, frags |-> {}, reasm |-> <<>>]
\* order: connection ids in order of first appearance; cli[i]: dir of the first packet of order[i];
\* h[i] = <<half of dir 1, half of dir 2>> for order[i]
Idx(rs, c) == CHOOSE i \in DOMAIN rs.order : rs.order[i] = c

TcpStep(rs, p) ==
    LET rs1 == IF p.c \in SeqRange(rs.order) THEN rs
               ELSE [rs EXCEPT !.order = Append(@, p.c), !.cli = Append(@, p.dir), !.h = Append(@, <<Half0, Half0>>)]
        i == Idx(rs1, p.c)
        h == rs1.h[i][p.dir]
        h2 == CASE p.kind \in {"syn", "synack"} ->
                     IF h.started THEN h
                     ELSE Drain([h EXCEPT !.started = TRUE, !.nxt = 1], p.c, p.dir)
                [] p.kind = "data" ->
                     IF h.started
                     THEN Drain([h EXCEPT !.buf = @ \cup {q \in p.from .. p.to : q >= h.nxt}], p.c, p.dir)
                     ELSE [h EXCEPT !.buf = @ \cup (p.from .. p.to)]
                [] p.kind = "fin" -> [h EXCEPT !.finpos = p.from]
                [] OTHER -> h
    IN [rs1 EXCEPT !.h[i][p.dir] = h2]

\* IPv4: a fragmented datagram reaches TCP when its last missing fragment arrives (any order)
Step(rs, p) ==
    IF p.fn = 1 THEN TcpStep(rs, p)
    ELSE LET fr == rs.frags \cup {<<p.dg, p.fi>>} IN
         IF <<p.dg, p.fi>> \notin rs.frags /\ \A k \in 1 .. p.fn : <<p.dg, k>> \in fr
         THEN TcpStep([rs EXCEPT !.frags = fr, !.reasm = Append(@, p.dg)], p)
         ELSE [rs EXCEPT !.frags = fr]

RECURSIVE Feed(_, _, _)
Feed(rs, wire, k) == IF k > Len(wire) THEN rs ELSE Feed(Step(rs, wire[k]), wire, k + 1)

FlushHalf(h, c, dir) ==
    LET h1 == IF ~h.started /\ h.buf # {} THEN Drain([h EXCEPT !.started = TRUE, !.nxt = Min(h.buf)], c, dir) ELSE h
    IN [out |-> h1.out,
        gap |-> h1.buf # {},                                  \* captured data behind a hole
        tailgap |-> h1.buf = {} /\ h1.finpos > h1.nxt /\ h1.started]   \* only a FIN tells that bytes are missing

\* Result: one record per connection in order of first appearance
Reassemble(wire) ==
    LET rs == Feed(Rcv0, wire, 1) IN
    [conns |-> [i \in DOMAIN rs.order |->
                   [c |-> rs.order[i], cli |-> rs.cli[i],
                    d |-> <<FlushHalf(rs.h[i][1], rs.order[i], 1), FlushHalf(rs.h[i][2], rs.order[i], 2)>>]],
     reasm |-> rs.reasm]

(**************************** as required **********************************)
(* An observation (what a tool reports about the capture), already         *)
(* abstracted to tokens by the harness:                                    *)
(*   conns: sequence of [c, cl, sv] ; cl/sv = [side, toks, skipped]        *)
(*          c    connection id the reported endpoints belong to (0: none)  *)
(*          side which side of c owns the reported ip:port (0: none)       *)
(*          toks the reported stream as tokens (0 = bytes that are no      *)
(*               token of that side's stream at that place)                *)
(*          skipped  reported skipped-bytes count                          *)
(*   reasm: datagram ids of the reported reassembled IPv4 datagrams        *)
(*          (0: bytes equal to no original datagram)                       *)
(* Required, and nothing more:                                             *)
(*  R1 connections: every connection of the capture reported exactly once  *)
(*  R2 endpoints: the two reported endpoints are the two sides of c; when  *)
(*     the first captured packet of c is its SYN, `client` is its sender   *)
(*  R3 streams: the stream reported for a side is exactly what the         *)
(*     abstract receiver delivers for the direction sent by that side      *)
(*  R4 loss signalled: data behind a hole => skipped > 0                   *)
(*  R5 no false alarm: nothing missing in the capture => skipped = 0       *)
(*     (when only a FIN reveals a missing tail, skipped is left free)      *)
(*  R6 ipv4_reassembled = the fragmented datagrams (as a multiset)         *)
(***************************************************************************)
Count(s, x) == Cardinality({i \in DOMAIN s : s[i] = x})
SameBag(s, t) == Len(s) = Len(t) /\ \A i \in DOMAIN s : Count(s, s[i]) = Count(t, s[i])

\* packets of c in the order in which they reach the TCP layer of the abstract receiver
FirstKind(wire, c) ==
    LET RECURSIVE Go(_, _)
        Go(rs, k) == IF k > Len(wire) THEN "none"
                     ELSE LET p == wire[k]
                              rs2 == Step(rs, p)
                          IN IF p.c = c /\ c \in SeqRange(rs2.order) /\ c \notin SeqRange(rs.order) THEN p.kind
                             ELSE Go(rs2, k + 1)
    IN Go(Rcv0, 1)

RejectRule(wire, obs) ==
    LET R == Reassemble(wire)
        cs == {R.conns[i].c : i \in DOMAIN R.conns}
        RC(c) == R.conns[CHOOSE i \in DOMAIN R.conns : R.conns[i].c = c]
    IN
    IF ~(/\ Len(obs.conns) = Len(R.conns)
         /\ \A i \in DOMAIN obs.conns : obs.conns[i].c \in cs
         /\ \A i, j \in DOMAIN obs.conns : i # j => obs.conns[i].c # obs.conns[j].c)
    THEN "connections"
    ELSE IF \E i \in DOMAIN obs.conns :
              LET o == obs.conns[i] IN
              \/ ~({o.cl.side, o.sv.side} = {1, 2})
              \/ (FirstKind(wire, o.c) = "syn" /\ o.cl.side # RC(o.c).cli)
    THEN "endpoints"
    ELSE IF \E i \in DOMAIN obs.conns : LET o == obs.conns[i] IN
              \/ o.cl.toks # RC(o.c).d[o.cl.side].out
              \/ o.sv.toks # RC(o.c).d[o.sv.side].out
    THEN "stream"
    ELSE IF \E i \in DOMAIN obs.conns : LET o == obs.conns[i] IN
              \/ (RC(o.c).d[o.cl.side].gap /\ o.cl.skipped = 0)
              \/ (RC(o.c).d[o.sv.side].gap /\ o.sv.skipped = 0)
    THEN "loss_not_signalled"
    ELSE IF \E i \in DOMAIN obs.conns : LET o == obs.conns[i] IN
              \/ (~RC(o.c).d[o.cl.side].gap /\ ~RC(o.c).d[o.cl.side].tailgap /\ o.cl.skipped # 0)
              \/ (~RC(o.c).d[o.sv.side].gap /\ ~RC(o.c).d[o.sv.side].tailgap /\ o.sv.skipped # 0)
    THEN "skipped_without_loss"
    ELSE IF ~SameBag(obs.reasm, R.reasm)
    THEN "ipv4_reassembled"
    ELSE "ok"

Accept(wire, obs) == RejectRule(wire, obs) = "ok"

(******************************* as built **********************************)
(* What fq does today beyond the abstract receiver (flowsdecoder.go on top *)
(* of gopacket).  Verdicts never use this layer; it classifies rejected    *)
(* observations (known-finding signatures) and reports drift.              *)
(*                                                                         *)
(* B1 TCPConnection.Accept lets gopacket's TCPSimpleFSM veto packets.  The *)
(*    FSM assumes in-order capture: a FIN+ACK that is the first captured   *)
(*    packet of a connection is taken for the second FIN, and after both   *)
(*    FINs only one ACK of the first closer is accepted - a data segment   *)
(*    recorded behind those FINs is dropped without a trace.               *)
(* B2 Decoder.packet detects "this packet was reassembled" by comparing    *)
(*    Length of the defragmenter's result (payload only) with Length of    *)
(*    the last arrived fragment (with header): when they coincide the      *)
(*    datagram is neither listed nor handed to TCP (`coinc`, computed by   *)
(*    the harness from the byte lengths it chose).                         *)
(***************************************************************************)
IsSyn(p) == p.kind \in {"syn", "synack"}
IsAck(p) == p.kind # "syn"
IsFin(p) == p.kind = "fin"

\* transcription of reassembly.TCPSimpleFSM.CheckState (SupportMissingEstablishment = TRUE, no RST in the model)
FsmCheck(f, p) ==
    LET g == IF f.s = "closed" /\ ~(IsSyn(p) /\ ~IsAck(p))
             THEN CASE IsSyn(p) /\ IsAck(p) -> [s |-> "synsent", d |-> Other(p.dir)]
                    [] IsFin(p) /\ ~IsAck(p) -> [s |-> "established", d |-> f.d]
                    [] IsFin(p) /\ IsAck(p) -> [s |-> "closewait", d |-> Other(p.dir)]
                    [] OTHER -> [s |-> "established", d |-> f.d]
             ELSE f
    IN CASE g.s = "closed" ->
              IF IsSyn(p) /\ ~IsAck(p) THEN [f |-> [s |-> "synsent", d |-> p.dir], ok |-> TRUE] ELSE [f |-> g, ok |-> FALSE]
         [] g.s = "synsent" ->
              IF IsSyn(p) /\ IsAck(p) /\ p.dir = Other(g.d) THEN [f |-> [g EXCEPT !.s = "established"], ok |-> TRUE]
              ELSE IF IsSyn(p) /\ ~IsAck(p) /\ p.dir = g.d THEN [f |-> g, ok |-> TRUE]
              ELSE [f |-> g, ok |-> FALSE]
         [] g.s = "established" ->
              IF IsFin(p) THEN [f |-> [s |-> "closewait", d |-> p.dir], ok |-> TRUE] ELSE [f |-> g, ok |-> TRUE]
         [] g.s = "closewait" ->
              IF IsFin(p) /\ IsAck(p) /\ p.dir = Other(g.d) THEN [f |-> [g EXCEPT !.s = "lastack"], ok |-> TRUE]
              ELSE [f |-> g, ok |-> IsAck(p)]
         [] OTHER -> \* lastack
              IF IsAck(p) /\ g.d = p.dir THEN [f |-> [g EXCEPT !.s = "closed"], ok |-> TRUE] ELSE [f |-> g, ok |-> FALSE]

\* the capture as fq's TCP assembler effectively sees it: datagrams of `coinc` vanish (B2, when useCoinc), packets
\* vetoed by the FSM carry nothing (B1, when useFsm; a vetoed packet is kept as a bare ACK so that a reassembled
\* datagram is still listed).
AsBuiltWire(wire, coinc, useFsm, useCoinc) ==
    LET RECURSIVE Go(_, _, _, _)
        Go(k, frags, fsm, out) ==
            IF k > Len(wire) THEN out
            ELSE LET p == wire[k] IN
                 IF useCoinc /\ p.dg \in coinc THEN Go(k + 1, frags, fsm, out)
                 ELSE LET fr == frags \cup {<<p.dg, p.fi>>}
                          complete == p.fn = 1 \/ (<<p.dg, p.fi>> \notin frags /\ \A i \in 1 .. p.fn : <<p.dg, i>> \in fr)
                      IN IF ~complete \/ ~useFsm THEN Go(k + 1, fr, fsm, Append(out, p))
                         ELSE LET f0 == IF p.c \in DOMAIN fsm THEN fsm[p.c] ELSE [s |-> "closed", d |-> p.dir]
                                  r == FsmCheck(f0, p)
                                  fsm2 == [c \in DOMAIN fsm \cup {p.c} |-> IF c = p.c THEN r.f ELSE fsm[c]]
                              IN Go(k + 1, fr, fsm2, Append(out, IF r.ok THEN p ELSE [p EXCEPT !.kind = "ack"]))
    IN Go(1, {}, <<>>, <<>>)

\* directions whose reported stream or skipped flag disagrees with the abstract receiver on `wire`
\* (only meaningful when the connections and endpoints rules hold)
StreamRules == {"stream", "loss_not_signalled", "skipped_without_loss"}
MismatchDirs(wire, obs) ==
    LET R == Reassemble(wire)
        RC(c) == R.conns[CHOOSE i \in DOMAIN R.conns : R.conns[i].c = c]
        Bad(o, x) == LET e == RC(o.c).d[x.side] IN
                     \/ x.toks # e.out
                     \/ (e.gap /\ x.skipped = 0)
                     \/ (~e.gap /\ ~e.tailgap /\ x.skipped # 0)
    IN {<<obs.conns[i].c, obs.conns[i].cl.side>> : i \in {j \in DOMAIN obs.conns : Bad(obs.conns[j], obs.conns[j].cl)}}
       \cup {<<obs.conns[i].c, obs.conns[i].sv.side>> : i \in {j \in DOMAIN obs.conns : Bad(obs.conns[j], obs.conns[j].sv)}}

\* B3 (gopacket, outside /repo): reassembly.Sequence.Difference adds 2^32-1 instead of 2^32 when its arguments lie on
\*    different sides of the wrap, so every comparison across the wrap is off by one: as soon as a segment of a stream
\*    that crosses 2^32 is queued, retransmitted or follows a hole, a byte is duplicated, dropped or a hole is missed.
\*    Not transcribed; recognised by shape: every disagreeing direction has ISN class "wrap".
OnlyWrapDirs(conns, wire, obs) ==
    /\ RejectRule(wire, obs) \in StreamRules
    /\ \A d \in MismatchDirs(wire, obs) : conns[d[1]].isn[d[2]] = "wrap"

\* signature of a rejected observation: the as-built deviation that explains it exactly, else the violated rule
RejectSig(conns, wire, obs, coinc) ==
    LET rule == RejectRule(wire, obs) IN
    IF rule = "ok" THEN "ok"
    ELSE IF coinc # {} /\ Accept(AsBuiltWire(wire, coinc, FALSE, TRUE), obs) THEN "ipv4.defrag_length_coincidence"
    ELSE IF Accept(AsBuiltWire(wire, coinc, TRUE, FALSE), obs) THEN "tcp.fsm_vetoes_segment_behind_fin"
    ELSE IF coinc # {} /\ Accept(AsBuiltWire(wire, coinc, TRUE, TRUE), obs) THEN "tcp.fsm_veto+ipv4.defrag_length_coincidence"
    ELSE IF OnlyWrapDirs(conns, wire, obs) THEN "tcp.seq_wraparound_off_by_one"
    ELSE IF OnlyWrapDirs(conns, AsBuiltWire(wire, coinc, TRUE, TRUE), obs) THEN "tcp.seq_wraparound_off_by_one+asbuilt"
    ELSE rule

\* drift only: client = sender of the first captured packet, connections in order of first appearance,
\* datagrams in order of completion, a missing tail that only a FIN reveals is not signalled
AsBuiltOrder(wire, obs) ==
    LET R == Reassemble(wire) IN
    /\ Len(obs.conns) = Len(R.conns)
    /\ \A i \in DOMAIN obs.conns :
         /\ obs.conns[i].c = R.conns[i].c
         /\ obs.conns[i].cl.side = R.conns[i].cli
         /\ (R.conns[i].d[obs.conns[i].cl.side].tailgap => obs.conns[i].cl.skipped = 0)
         /\ (R.conns[i].d[obs.conns[i].sv.side].tailgap => obs.conns[i].sv.skipped = 0)
    /\ obs.reasm = R.reasm
=============================================================================
