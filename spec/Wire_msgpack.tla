---------------------------- MODULE Wire_msgpack ----------------------------
(***************************************************************************)
(* C16: MessagePack, from https://github.com/msgpack/msgpack/blob/master/  *)
(* spec.md.  Enc(v) is the set of ALL wire encodings of the value v (the   *)
(* spec lets a serializer pick any format family that can hold the value), *)
(* Repr(v) is what fq's `torepr` has to give back.                         *)
(* Extra value: [t |-> "ext", ty, x] (application type byte, payload).     *)
(***************************************************************************)
EXTENDS WireBytes

\* --- integers: positive/negative fixint, uint 8/16/32/64, int 8/16/32/64
UCode(w) == CASE w = 1 -> 204 [] w = 2 -> 205 [] w = 4 -> 206 [] w = 8 -> 207   \* 0xcc..0xcf
SCode(w) == CASE w = 1 -> 208 [] w = 2 -> 209 [] w = 4 -> 210 [] w = 8 -> 211   \* 0xd0..0xd3
EncInt(v) ==
    LET m == v.mag IN
       (IF ~v.neg /\ Len(m) <= 1 /\ SmallOf(m) <= 127 THEN {<<SmallOf(m)>>} ELSE {})
    \cup (IF v.neg /\ Len(m) = 1 /\ m[1] <= 32 THEN {<<256 - m[1]>>} ELSE {})
    \cup {<<UCode(w)>> \o UExt(m, w) : w \in {w \in {1, 2, 4, 8} : ~v.neg /\ UFits(m, w)}}
    \cup {<<SCode(w)>> \o SEnc(v, w) : w \in {w \in {1, 2, 4, 8} : SFits(v, w)}}

\* --- floats: float 64 always, float 32 when exact
EncFloat(v) == {<<203>> \o v.bits}
          \cup (IF NarrowSingle(v.bits) # <<>> THEN {<<202>> \o NarrowSingle(v.bits)} ELSE {})

\* --- length headers
StrHdrs(n) == (IF n <= 31 THEN {<<160 + n>>} ELSE {})
        \cup (IF n <= 255 THEN {<<217>> \o BE(n, 1)} ELSE {})
        \cup (IF n <= 65535 THEN {<<218>> \o BE(n, 2)} ELSE {})
        \cup {<<219>> \o BE(n, 4)}
BinHdrs(n) == (IF n <= 255 THEN {<<196>> \o BE(n, 1)} ELSE {})
        \cup (IF n <= 65535 THEN {<<197>> \o BE(n, 2)} ELSE {})
        \cup {<<198>> \o BE(n, 4)}
ArrHdrs(n) == (IF n <= 15 THEN {<<144 + n>>} ELSE {})
        \cup (IF n <= 65535 THEN {<<220>> \o BE(n, 2)} ELSE {})
        \cup {<<221>> \o BE(n, 4)}
MapHdrs(n) == (IF n <= 15 THEN {<<128 + n>>} ELSE {})
        \cup (IF n <= 65535 THEN {<<222>> \o BE(n, 2)} ELSE {})
        \cup {<<223>> \o BE(n, 4)}
FixExt(n) == CASE n = 1 -> {<<212>>} [] n = 2 -> {<<213>>} [] n = 4 -> {<<214>>}
               [] n = 8 -> {<<215>>} [] n = 16 -> {<<216>>} [] OTHER -> {}
ExtHdrs(n, ty) == {h \o <<ty>> : h \in FixExt(n)}
        \cup (IF n <= 255 THEN {<<199>> \o BE(n, 1) \o <<ty>>} ELSE {})
        \cup (IF n <= 65535 THEN {<<200>> \o BE(n, 2) \o <<ty>>} ELSE {})
        \cup {<<201>> \o BE(n, 4) \o <<ty>>}

\* a container around the concatenated encodings of its n items / n pairs
ArrOf(n, body) == {h \o body : h \in ArrHdrs(n)}
MapOf(n, body) == {h \o body : h \in MapHdrs(n)}

RECURSIVE Enc(_)
Enc(v) ==
    CASE v.t = "null"  -> {<<192>>}
      [] v.t = "bool"  -> {<<IF v.b THEN 195 ELSE 194>>}
      [] v.t = "int"   -> EncInt(v)
      [] v.t = "f64"   -> EncFloat(v)
      [] v.t = "str"   -> {h \o v.s : h \in StrHdrs(RLen(v.s))}
      [] v.t = "bin"   -> {h \o v.x : h \in BinHdrs(RLen(v.x))}
      [] v.t = "ext"   -> {h \o v.x : h \in ExtHdrs(RLen(v.x), v.ty)}
      [] v.t = "nulls" -> ArrOf(v.n, Rep(v.n, 192))
      [] v.t = "arr"   -> UNION {ArrOf(Len(v.a), b) : b \in CatAll([i \in 1..Len(v.a) |-> Enc(v.a[i])])}
      [] v.t = "map"   -> UNION {MapOf(Len(v.k), b) :
                                    b \in CatAll([i \in 1..(2 * Len(v.k)) |->
                                           IF i % 2 = 1 THEN Enc(Str(v.k[(i + 1) \div 2])) ELSE Enc(v.v[i \div 2])])}

\* the shortest encoding, and the header alternatives of a large container around
\* shortest encodings of its parts (a subset of Enc(v) that stays enumerable)
EncMin(v) == CHOOSE e \in Enc(v) : \A o \in Enc(v) : RLen(e) <= RLen(o)
EncOuter(v) ==
    CASE v.t = "arr" -> ArrOf(Len(v.a), Flat([i \in 1..Len(v.a) |-> EncMin(v.a[i])]))
      [] v.t = "map" -> MapOf(Len(v.k), Flat([i \in 1..Len(v.k) |-> EncMin(Str(v.k[i])) \o EncMin(v.v[i])]))
      [] OTHER -> Enc(v)

\* what torepr returns: bin and ext payloads come back as strings of the same bytes
RECURSIVE Repr(_)
Repr(v) ==
    CASE v.t = "bin" -> Str(v.x)
      [] v.t = "ext" -> Str(v.x)
      [] v.t = "arr" -> Arr([i \in 1..Len(v.a) |-> Repr(v.a[i])])
      [] v.t = "map" -> Map(v.k, [i \in 1..Len(v.v) |-> Repr(v.v[i])])
      [] OTHER -> v
=============================================================================
