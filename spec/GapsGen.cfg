SPECIFICATION GSpec
CONSTANTS L = 5
 MaxN = 3
 Slack = 1
CONSTRAINT Emit
CHECK_DEADLOCK FALSE
