------------------------------ MODULE GapsGen ------------------------------
(* GEN mode: emit every input (any order of the ranges) with the as-built prediction. *)
EXTENDS Gaps, Json
VARIABLE g
GInit == g \in Inputs
GNext == FALSE /\ g' = g
Emit == PrintT(ToJson([total |-> L, ranges |-> g, built |-> GapsAsBuilt(L, g),
                       ok |-> AsRequired(L, g, GapsAsBuilt(L, g))]))
GSpec == GInit /\ [][GNext]_g
=============================================================================
